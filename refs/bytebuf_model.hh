// Byte-string reference model of an evbuffer (C12-C16), written from include/event2/buffer.h.
// A buffer is a std::string plus two freeze bits.  Search / EOL semantics follow the header text:
//   search(_range): leftmost occurrence starting at or after `start` that ends at or before `end`
//   EOL_ANY   : first CR or LF; the EOL is the whole run of consecutive CR/LF characters
//   EOL_CRLF  : first LF at or after start, plus an immediately preceding CR (if it is not before start)
//   EOL_CRLF_STRICT : first "\r\n";  EOL_LF : first '\n';  EOL_NUL : first '\0'
#pragma once
#include <stdint.h>
#include <string>

namespace bytebuf {

struct Model {
  std::string d;
  bool fz_start = false, fz_end = false;
  size_t len() const { return d.size(); }
  void append(const std::string &s) { d += s; }
  void prepend(const std::string &s) { d.insert(0, s); }
  std::string take_front(size_t n) { if (n > d.size()) n = d.size(); std::string r = d.substr(0, n); d.erase(0, n); return r; }
};

// leftmost i >= start with d[i..i+len) == what and i+len <= end ; -1 if none.  what must be non-empty.
static inline long search(const std::string &d, const std::string &what, size_t start, size_t end) {
  if (what.empty() || start > d.size()) return -1;
  if (end > d.size()) end = d.size();
  for (size_t i = start; i + what.size() <= end; i++)
    if (d.compare(i, what.size(), what) == 0) return (long)i;
  return -1;
}

enum Eol { EOL_ANY = 0, EOL_CRLF = 1, EOL_CRLF_STRICT = 2, EOL_LF = 3, EOL_NUL = 4 };

// returns position of the EOL (or -1) and its length in *eol_len (0 when not found)
static inline long search_eol(const std::string &d, size_t start, int style, size_t *eol_len) {
  *eol_len = 0;
  size_t n = d.size();
  if (start > n) return -1;
  switch (style) {
    case EOL_ANY:
      for (size_t i = start; i < n; i++) if (d[i] == '\r' || d[i] == '\n') {
        size_t j = i; while (j < n && (d[j] == '\r' || d[j] == '\n')) j++;
        *eol_len = j - i; return (long)i; }
      return -1;
    case EOL_CRLF:
      for (size_t i = start; i < n; i++) if (d[i] == '\n') {
        if (i > start && d[i - 1] == '\r') { *eol_len = 2; return (long)(i - 1); }
        *eol_len = 1; return (long)i; }
      return -1;
    case EOL_CRLF_STRICT:
      for (size_t i = start; i + 1 < n; i++) if (d[i] == '\r' && d[i + 1] == '\n') { *eol_len = 2; return (long)i; }
      return -1;
    case EOL_LF:
      for (size_t i = start; i < n; i++) if (d[i] == '\n') { *eol_len = 1; return (long)i; }
      return -1;
    case EOL_NUL:
      for (size_t i = start; i < n; i++) if (d[i] == '\0') { *eol_len = 1; return (long)i; }
      return -1;
  }
  return -1;
}

// Deterministic payload: byte i of stream `seed`.  Small alphabet rich in CR LF NUL and repeated
// search patterns ("ab", "abc", "aab", CRLF, CRLFCRLF, "a\0b"), so large adds cost no input bytes.
static const char BASE[] = "aab\r\nab\0a\r\r\nabc\n\rabab\r\n\r\nb\0\0ab\ra\nabcab";
static const size_t BASE_LEN = sizeof(BASE) - 1;
static inline char payload_byte(uint32_t seed, size_t i) {
  uint32_t x = (uint32_t)(i / 5) * 2654435761u + seed * 40503u; x ^= x >> 13; x *= 0x5bd1e995u; x ^= x >> 15;
  if (x % 13 == 0) { static const char ALT[] = {'a', 'b', '\r', '\n', '\0', 'c'}; return ALT[(x >> 8) % 6]; }
  return BASE[(i + seed * 7) % BASE_LEN];
}
// payload(seed, n): n bytes of stream (seed % 8) starting at offset (seed * 37) % 1024 + from; streams are tabulated once.
static const size_t STREAM_LEN = 72 * 1024;
static inline const char *stream(uint32_t k) {
  static char *tab[8];
  if (!tab[k]) { tab[k] = new char[STREAM_LEN]; for (size_t i = 0; i < STREAM_LEN; i++) tab[k][i] = payload_byte(k, i); }
  return tab[k];
}
static inline std::string payload(uint32_t seed, size_t n, size_t from = 0) {
  size_t off = (seed * 37u) % 1024 + from; const char *t = stream(seed % 8);
  if (off + n <= STREAM_LEN) return std::string(t + off, n);
  std::string s; s.resize(n); for (size_t i = 0; i < n; i++) s[i] = t[(off + i) % STREAM_LEN]; return s;
}
static const char *const NEEDLES[] = {"ab", "\r\n", "abc", "a\0b", "\n", "aab", "\r\n\r\n", "abab", "b\0\0a", "c"};
static const size_t NEEDLE_LENS[] = {2, 2, 3, 3, 1, 3, 4, 4, 4, 1};
static const int N_NEEDLES = 10;

}  // namespace bytebuf
