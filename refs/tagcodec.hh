// Reference reader for libevent's tagged-data wire format, written from the format description at the top of
// event_tagging.c and include/event2/tag.h (NOT from the decoder):
//
//   Stream     = TaggedData*
//   TaggedData = Tag Length Data            Length = Integer (32 bit), Data = Length bytes
//   Tag        = HByte* LByte               7 value bits per byte, least significant group first
//   Integer    = NNibbles Nibble* Padding?  NNibbles (high nibble of byte 0) = number of nibbles - 1; the value
//                                           nibbles follow least significant first: low nibble of byte 0, then
//                                           high/low nibble of byte 1, high/low nibble of byte 2, ...; when the nibble
//                                           count is even a padding nibble completes the last byte.
// (The comment in event_tagging.c calls the nibble order "big-endian"; the order implemented by the ENCODER, which
//  defines what is on the wire, is least-significant-first.  The round-trip half of the check does not use this file.)
//
// Verdicts are three-valued: ACCEPT (a decoder must succeed with exactly these values), REJECT (must fail),
// MAY (over-long but representable encodings, payload longer than the integer(s) inside it: the decoder may fail;
// if it succeeds the values must be these).
#pragma once
#include <stdint.h>
#include <stddef.h>

namespace tagref {
enum Verdict { REJECT = 0, ACCEPT = 1, MAY = 2 };
static inline Verdict both(Verdict a, Verdict b) { if (a == REJECT || b == REJECT) return REJECT; if (a == MAY || b == MAY) return MAY; return ACCEPT; }

struct Num { Verdict v; uint64_t value; size_t n; };   // n = encoded size in bytes (valid unless REJECT for truncation)

static inline Num read_tag(const uint8_t *p, size_t len) {
  Num r = {REJECT, 0, 0};
  uint64_t val = 0; bool overflow = false;
  for (size_t i = 0; i < len; i++) {
    uint64_t g = p[i] & 0x7f;
    if (g) { if (7 * i >= 32) overflow = true; else { uint64_t add = g << (7 * i); if (add >> 32) overflow = true; val |= add & 0xffffffffull; } }
    if (!(p[i] & 0x80)) { r.n = i + 1; r.value = val; r.v = overflow ? REJECT : (r.n <= 5 ? ACCEPT : MAY); return r; }
  }
  return r;   // no terminating LByte inside the data
}

static inline Num read_int(const uint8_t *p, size_t len, unsigned maxnibbles /* 8 or 16 */) {
  Num r = {REJECT, 0, 0};
  if (len == 0) return r;
  unsigned nn = (p[0] >> 4) + 1;
  size_t need = nn / 2 + 1;
  if (len < need) return r;
  uint64_t val = 0;
  for (unsigned i = 0; i < nn; i++) {
    unsigned nib = (i == 0) ? (p[0] & 0x0f) : ((i & 1) ? (p[(i + 1) / 2] >> 4) : (p[(i + 1) / 2] & 0x0f));
    val |= (uint64_t)nib << (4 * i);
  }
  r.n = need; r.value = val;
  if (nn <= maxnibbles) r.v = ACCEPT;
  else r.v = (maxnibbles >= 16 || (val >> (4 * maxnibbles)) == 0) ? MAY : REJECT;
  return r;
}

struct Item { Verdict v; uint32_t tag; size_t taglen; uint32_t len; size_t lenlen; size_t payload_off;
  bool header_ok; Verdict header_v; };   // header_v: verdict for tag+length alone (payload need not be present)

static inline Item read_item(const uint8_t *p, size_t n) {
  Item it = {REJECT, 0, 0, 0, 0, 0, false, REJECT};
  Num t = read_tag(p, n); if (t.v == REJECT) return it;
  Num l = read_int(p + t.n, n - t.n, 8); if (l.v == REJECT) return it;
  it.tag = (uint32_t)t.value; it.taglen = t.n; it.len = (uint32_t)l.value; it.lenlen = l.n; it.payload_off = t.n + l.n;
  it.header_ok = true; it.header_v = both(t.v, l.v);
  it.v = (n - it.payload_off >= it.len) ? it.header_v : REJECT;
  return it;
}
}  // namespace tagref
