// Reference model for C21 (token-bucket refill arithmetic), written from the property statement and
// the documentation in include/event2/bufferevent.h / ratelim-internal.h, in 128-bit integers so that no
// intermediate value can overflow.  NOT a transliteration of bufferevent_ratelim.c.
#pragma once
#include <stdint.h>
#include <limits.h>

typedef __int128 tb_i128;
typedef unsigned __int128 tb_u128;

static const uint64_t TB_RATE_MAX = (uint64_t)INT64_MAX;   // EV_RATE_LIMIT_MAX == EV_SSIZE_MAX on LP64

// ---- configuration validity -------------------------------------------------------------------
// Accept exactly: 1 <= rate <= burst <= EV_RATE_LIMIT_MAX (read and write independently), and a tick length
// (default 1 s when absent) with 0 <= tv_sec <= INT_MAX/1000 whose whole-millisecond part is >= 1 ms
// ("any fractions of a millisecond are ignored").  tv_usec is assumed to be a normalized 0..999999.
static inline bool tb_ref_cfg_valid(uint64_t rr, uint64_t rb, uint64_t wr, uint64_t wb,
                                    bool have_tick, int64_t sec, int64_t usec, uint64_t *msec_per_tick) {
  if (!have_tick) { sec = 1; usec = 0; }
  bool rates = rr >= 1 && rr <= rb && rb <= TB_RATE_MAX && wr >= 1 && wr <= wb && wb <= TB_RATE_MAX;
  bool tick = sec >= 0 && sec <= INT_MAX / 1000;
  tb_i128 ms = (tb_i128)sec * 1000 + usec / 1000;
  if (tick && ms < 1) tick = false;
  if (msec_per_tick) *msec_per_tick = tick ? (uint64_t)ms : 0;
  return rates && tick;
}

// ---- which tick does a time fall in -----------------------------------------------------------
// floor(whole milliseconds / milliseconds per tick), reduced modulo 2^32 ("ticks can overflow easily").
static inline uint32_t tb_ref_tick(int64_t sec, int64_t usec, uint64_t msec_per_tick) {
  tb_u128 ms = (tb_u128)(uint64_t)sec * 1000 + (uint64_t)(usec / 1000);
  return (uint32_t)(uint64_t)((ms / msec_per_tick) & 0xffffffffu);
}

// ---- refill -----------------------------------------------------------------------------------
struct tb_ref_bucket { int64_t read_level, write_level; uint32_t last_updated; };
struct tb_ref_cfg { uint64_t read_rate, read_burst, write_rate, write_burst; };

static inline int64_t tb_ref_refill_one(int64_t level, uint64_t rate, uint64_t burst, uint32_t n, bool *wide) {
  tb_i128 v = (tb_i128)level + (tb_i128)n * (tb_i128)rate;          // exact
  if (wide) *wide = v > (tb_i128)INT64_MAX;                         // the naive 64-bit sum would have overflowed
  tb_i128 b = (tb_i128)burst;
  return (int64_t)(v < b ? v : b);                                  // burst <= INT64_MAX, v >= INT64_MIN: fits
}
// returns 1 when a refill happened, 0 when the tick difference is zero or "backwards" (> INT_MAX) and nothing changes
static inline int tb_ref_update(tb_ref_bucket *b, const tb_ref_cfg *c, uint32_t current_tick, bool *wide_r, bool *wide_w) {
  uint32_t n = current_tick - b->last_updated;                      // modulo 2^32 by definition of the tick counter
  if (wide_r) *wide_r = false;
  if (wide_w) *wide_w = false;
  if (n == 0 || n > (uint32_t)INT_MAX) return 0;
  b->read_level = tb_ref_refill_one(b->read_level, c->read_rate, c->read_burst, n, wide_r);
  b->write_level = tb_ref_refill_one(b->write_level, c->write_rate, c->write_burst, n, wide_w);
  b->last_updated = current_tick;
  return 1;
}
