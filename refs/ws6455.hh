// Reference RFC 6455 section 5 frame parser and message assembler (header-only).
// Written from RFC 6455 §5.2 (base framing), §5.3 (masking), §5.4 (fragmentation), §5.5 (control frames);
// NOT derived from ws.c.  Used by props/ws_emit.cc (C32: decode what the server emits) and
// props/ws_frames.cc (C31: decode what the client sent).
//
// Verdicts are three-valued:
//   must-accept  : the frame is processed; completed messages are delivered
//   must-fail    : the connection is failed at this frame (nothing of an unfinished message is delivered):
//                  reserved opcode (3-7, 0xB-0xF), declared payload length above the receiver's limit,
//                  a data frame (TEXT/BINARY) while a fragmented message is unfinished, a continuation frame
//                  with no message to continue, a control frame with FIN clear (§5.4/§5.5 "MUST NOT be fragmented")
//   may-fail     : things §5 forbids the *sender* but for which the property statement makes no claim:
//                  RSV bits without a negotiated extension, non-minimal length encodings, control frames with
//                  more than 125 payload bytes.  A receiver may process them or fail the connection there.
// A CLOSE frame (opcode 8, FIN) ends the stream: nothing after it is delivered.
#pragma once
#include <stdint.h>
#include <stddef.h>
#include <string>
#include <vector>

namespace ws6455 {

enum { OP_CONT = 0, OP_TEXT = 1, OP_BIN = 2, OP_CLOSE = 8, OP_PING = 9, OP_PONG = 10 };

struct Frame {
  bool fin = false; uint8_t rsv = 0; uint8_t opcode = 0; bool masked = false;
  int lenbits = 7;            // 7, 16 or 64: which length form was used on the wire
  uint64_t len = 0;           // declared payload length
  bool minimal = true;        // the shortest form that can express len was used
  uint8_t mask[4] = {0, 0, 0, 0};
  std::string payload;        // unmasked payload (complete frames only)
  size_t start = 0, len_end = 0, hdr_end = 0, end = 0;   // byte offsets in the stream (len_end: just after the length field)
};

enum ParseStatus { P_OK, P_MORE, P_OVERSIZE };

// How much of the header of the frame at `off` is visible in b[0..n): 0 nothing, 1 first byte, 2 the length too.
// Fills the header fields that are visible.
inline int peek_header(const uint8_t *b, size_t n, size_t off, Frame &f) {
  f = Frame(); f.start = off;
  if (n - off < 1) return 0;
  f.fin = (b[off] & 0x80) != 0; f.rsv = (b[off] >> 4) & 7; f.opcode = b[off] & 0x0f;
  if (n - off < 2) return 1;
  f.masked = (b[off + 1] & 0x80) != 0;
  unsigned l7 = b[off + 1] & 0x7f;
  size_t pos = off + 2;
  if (l7 <= 125) { f.lenbits = 7; f.len = l7; f.minimal = true; }
  else if (l7 == 126) {
    if (n - pos < 2) return 1;
    f.lenbits = 16; f.len = ((uint64_t)b[pos] << 8) | b[pos + 1]; pos += 2; f.minimal = f.len > 125;
  } else {
    if (n - pos < 8) return 1;
    f.lenbits = 64; f.len = 0; for (int k = 0; k < 8; k++) f.len = (f.len << 8) | b[pos + k]; pos += 8; f.minimal = f.len > 65535;
  }
  f.len_end = pos; f.hdr_end = pos + (f.masked ? 4 : 0);   // provisional: mask key may not be visible yet
  return 2;
}

// Parse one frame starting at off.  P_OVERSIZE as soon as the declared length is visible and exceeds `limit`.
inline ParseStatus parse_frame(const uint8_t *b, size_t n, size_t off, uint64_t limit, Frame &f) {
  int k = peek_header(b, n, off, f);
  if (k < 2) return P_MORE;
  if (f.len > limit) return P_OVERSIZE;
  size_t pos = f.hdr_end - (f.masked ? 4 : 0);
  if (f.masked) { if (n - pos < 4) return P_MORE; for (int i = 0; i < 4; i++) f.mask[i] = b[pos + i]; pos += 4; }
  if ((uint64_t)(n - pos) < f.len) return P_MORE;
  f.payload.assign((const char *)b + pos, (size_t)f.len);
  if (f.masked) for (size_t i = 0; i < f.payload.size(); i++) f.payload[i] = (char)((uint8_t)f.payload[i] ^ f.mask[i & 3]);
  f.end = pos + (size_t)f.len;
  return P_OK;
}

inline bool is_control(uint8_t op) { return op >= 8; }
inline bool is_reserved(uint8_t op) { return (op >= 3 && op <= 7) || op >= 0xb; }

enum Reason { R_NONE = 0, R_CLOSE_FRAME, R_USER_CLOSE, R_RESERVED_OPCODE, R_OVERSIZE, R_FRAGMENTED_CONTROL, R_DATA_IN_MESSAGE, R_ORPHAN_CONT };
inline const char *reason_name(Reason r) {
  switch (r) { case R_NONE: return "none"; case R_CLOSE_FRAME: return "close-frame"; case R_USER_CLOSE: return "user-close";
    case R_RESERVED_OPCODE: return "reserved-opcode"; case R_OVERSIZE: return "oversize"; case R_FRAGMENTED_CONTROL: return "fragmented-control";
    case R_DATA_IN_MESSAGE: return "data-frame-inside-message"; case R_ORPHAN_CONT: return "continuation-without-message"; }
  return "?"; }

// Must-fail reason that follows from the header fields alone (given whether a message is unfinished).
inline Reason header_failure(const Frame &f, bool len_known, uint64_t limit, bool in_msg) {
  if (is_reserved(f.opcode)) return R_RESERVED_OPCODE;
  if (len_known && f.len > limit) return R_OVERSIZE;
  if (is_control(f.opcode) && !f.fin) return R_FRAGMENTED_CONTROL;
  if ((f.opcode == OP_TEXT || f.opcode == OP_BIN) && in_msg) return R_DATA_IN_MESSAGE;
  if (f.opcode == OP_CONT && !in_msg) return R_ORPHAN_CONT;
  return R_NONE;
}

struct Msg { int type; std::string data; int nframes; size_t last_frame; };

struct MayPoint { size_t frame; size_t msgs_before; const char *what; };

struct Result {
  std::vector<Frame> frames;     // complete frames processed, including the terminal one (oversize terminal: header only)
  std::vector<Msg> msgs;         // messages delivered, in order
  bool terminated = false; Reason why = R_NONE; size_t term_frame = 0; size_t term_end = 0;
  std::vector<MayPoint> may;     // frames a receiver may alternatively fail at (before the terminal one)
  bool trailing_partial = false; // stream ends inside a frame (not terminated)
  Reason trailing_early = R_NONE;  // that partial frame's visible header already implies a must-fail
  bool in_msg = false;           // an unfinished fragmented message is pending at the end
  size_t pending_bytes = 0;      // its size so far
  std::string pending;           // and its payload so far
  int ctrl_inside_msg = 0;       // control frames seen while a message was unfinished
};

// Decode a client->server byte stream.  `close_after` > 0: the application closes the connection from inside the
// delivery of message number close_after (1-based); nothing is delivered afterwards.
inline Result decode(const uint8_t *b, size_t n, uint64_t limit, size_t close_after = 0) {
  Result r; size_t off = 0; int msg_type = 0; std::string buf; int nfr = 0;
  while (off < n) {
    Frame f; ParseStatus ps = parse_frame(b, n, off, limit, f);
    if (ps == P_MORE) {
      r.trailing_partial = true;
      Frame h; int k = peek_header(b, n, off, h);
      if (k >= 1) r.trailing_early = header_failure(h, k >= 2, limit, r.in_msg);
      break;
    }
    if (ps == P_OVERSIZE) {
      f.end = f.hdr_end; r.frames.push_back(f);
      r.terminated = true; r.why = is_reserved(f.opcode) ? R_RESERVED_OPCODE : R_OVERSIZE; r.term_frame = r.frames.size() - 1; r.term_end = f.len_end; break;
    }
    r.frames.push_back(f); size_t idx = r.frames.size() - 1;
    Reason hf = header_failure(f, true, limit, r.in_msg);
    if (hf != R_NONE) { r.terminated = true; r.why = hf; r.term_frame = idx; r.term_end = f.end; break; }
    if (f.opcode == OP_CLOSE) { r.terminated = true; r.why = R_CLOSE_FRAME; r.term_frame = idx; r.term_end = f.end; break; }
    if (f.rsv) r.may.push_back({idx, r.msgs.size(), "rsv-bits"});
    else if (!f.minimal) r.may.push_back({idx, r.msgs.size(), "non-minimal-length"});
    else if (is_control(f.opcode) && f.len > 125) r.may.push_back({idx, r.msgs.size(), "control-over-125"});
    if (is_control(f.opcode)) { if (r.in_msg) r.ctrl_inside_msg++; off = f.end; continue; }   // PING / PONG: nothing delivered
    bool complete = false;
    if (f.opcode == OP_CONT) { buf += f.payload; nfr++; complete = f.fin; }
    else { msg_type = f.opcode; buf = f.payload; nfr = 1; complete = f.fin; r.in_msg = !f.fin; }
    if (complete) {
      r.msgs.push_back({msg_type, buf, nfr, idx}); buf.clear(); r.in_msg = false;
      if (close_after && r.msgs.size() == close_after) { r.terminated = true; r.why = R_USER_CLOSE; r.term_frame = idx; r.term_end = f.end; break; }
    }
    off = f.end;
  }
  r.pending_bytes = r.in_msg ? buf.size() : 0;
  if (r.in_msg) r.pending = buf;
  return r;
}

// Encoder used by generators (any form, including the ones §5 forbids).
inline void encode(std::string &out, bool fin, uint8_t rsv, uint8_t opcode, bool masked, const uint8_t mask[4], int lenbits,
                   uint64_t declared_len, const std::string &payload) {
  out.push_back((char)((fin ? 0x80 : 0) | ((rsv & 7) << 4) | (opcode & 0x0f)));
  uint8_t m = masked ? 0x80 : 0;
  if (lenbits == 7) out.push_back((char)(m | (uint8_t)(declared_len & 0x7f)));
  else if (lenbits == 16) { out.push_back((char)(m | 126)); out.push_back((char)(declared_len >> 8)); out.push_back((char)declared_len); }
  else { out.push_back((char)(m | 127)); for (int k = 56; k >= 0; k -= 8) out.push_back((char)(declared_len >> k)); }
  if (masked) for (int i = 0; i < 4; i++) out.push_back((char)mask[i]);
  for (size_t i = 0; i < payload.size(); i++) out.push_back(masked ? (char)((uint8_t)payload[i] ^ mask[i & 3]) : payload[i]);
}

}  // namespace ws6455
