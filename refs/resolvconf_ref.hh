// Reference parser for resolver configuration (C39): resolv.conf(5) directives as dns.h documents their use
// (nameserver / domain / search / options, gated by the DNS_OPTION_* flags), hosts(5) files, and the option
// names/values of evdns_base_set_option().  Written from include/event2/dns.h, include/event2/util.h,
// resolv.conf(5) and hosts(5) -- not from evdns.c.  Where those are silent the reference either marks the item
// UNSPECIFIED (the oracle then accepts either outcome) or follows a documented-by-code corner that is listed in
// props/C39.json "assumptions".
#pragma once
#include <arpa/inet.h>
#include <stdint.h>
#include <stdlib.h>
#include <string.h>
#include <string>
#include <vector>

namespace rcref {

enum { F_SEARCH = 1, F_NAMESERVERS = 2, F_MISC = 4, F_HOSTSFILE = 8, F_NO_DEFAULT = 16 };   // DNS_OPTION_*
enum Verdict { INVALID = 0, VALID = 1, UNSPEC = 2 };

struct Addr {
  int family = 0; uint8_t a[16] = {0}; uint16_t port = 0;
  bool operator==(const Addr &o) const { return family == o.family && port == o.port && !memcmp(a, o.a, 16); }
  bool operator<(const Addr &o) const { if (family != o.family) return family < o.family; int c = memcmp(a, o.a, 16); if (c) return c < 0; return port < o.port; }
  bool loopback() const { if (family == AF_INET) return a[0] == 127; static const uint8_t l[16] = {0,0,0,0,0,0,0,0,0,0,0,0,0,0,0,1}; return !memcmp(a, l, 16); }
  std::string str() const { char b[64] = "?"; inet_ntop(family, a, b, sizeof b); char o[96]; snprintf(o, sizeof o, family == AF_INET6 ? "[%s]:%u" : "%s:%u", b, port); return o; }
};

static inline bool all_digits(const std::string &s) { if (s.empty()) return false; for (char c : s) if (c < '0' || c > '9') return false; return true; }

// ---- addresses ---------------------------------------------------------------------------------------------
// strict textual IP (libc inet_pton); UNSPEC for forms libevent documents/implements as extensions that the
// man pages do not define (IPv4 components with leading zeros, IPv6 scope ids)
static inline Verdict parse_ip(const std::string &s, int family, Addr *out) {
  if (s.find('\0') != std::string::npos) return INVALID;
  Addr r; r.family = family;
  if (inet_pton(family, s.c_str(), r.a) == 1) { *out = r; return VALID; }
  if (family == AF_INET) {   // "01.2.3.08": decimal components with leading zeros (documented libevent extension, not in inet_pton(3))
    unsigned comp[4]; int n = 0; size_t i = 0; bool ok = !s.empty();
    while (ok && n < 4) { size_t j = i; unsigned long v = 0; while (j < s.size() && s[j] >= '0' && s[j] <= '9' && j - i < 12) { v = v * 10 + (unsigned)(s[j] - '0'); j++; }
      if (j == i || v > 255) { ok = false; break; } comp[n++] = (unsigned)v; i = j; if (n < 4) { if (i < s.size() && s[i] == '.') i++; else ok = false; } }
    if (ok && n == 4 && i == s.size()) { for (int k = 0; k < 4; k++) r.a[k] = (uint8_t)comp[k]; *out = r; return UNSPEC; }
  }
  if (family == AF_INET6 && s.find('%') != std::string::npos) {   // scope ids: whether the zone resolves is the OS's business
    if (inet_pton(AF_INET6, s.substr(0, s.find('%')).c_str(), r.a) == 1) { *out = r; return UNSPEC; } }
  return INVALID;
}
// port: 1..65535 written with decimal digits only.  `junk` reports a port part that starts with a digit/sign but is
// not a plain number in range (what an atoi()-based parser would still accept)
static inline bool parse_port(const std::string &s, uint16_t *out) {
  if (!all_digits(s) || s.size() > 9) return false;
  long v = atol(s.c_str()); if (v < 1 || v > 65535) return false; *out = (uint16_t)v; return true;
}
// evutil_parse_sockaddr_port / evdns_base_nameserver_ip_add formats: "[v6]:port" "[v6]" "v6" "v4:port" "v4"
static inline Verdict parse_ip_port(const std::string &s, Addr *out, bool *port_given) {
  *port_given = false; Addr r;
  if (!s.empty() && s[0] == '[') {
    size_t e = s.find(']'); if (e == std::string::npos) return INVALID;
    Verdict v = parse_ip(s.substr(1, e - 1), AF_INET6, &r); if (v == INVALID) return INVALID;
    std::string rest = s.substr(e + 1);
    if (!rest.empty()) { if (rest[0] != ':') { *out = r; return UNSPEC; } /* "[::1]junk": formats list nothing after ']' but ':port' */ if (!parse_port(rest.substr(1), &r.port)) return INVALID; *port_given = true; }
    *out = r; return v;
  }
  size_t c1 = s.find(':');
  if (c1 != std::string::npos && s.find(':', c1 + 1) != std::string::npos) { Verdict v = parse_ip(s, AF_INET6, &r); if (v != INVALID) *out = r; return v; }
  if (c1 != std::string::npos) {
    Verdict v = parse_ip(s.substr(0, c1), AF_INET, &r); if (v == INVALID) return INVALID;
    if (!parse_port(s.substr(c1 + 1), &r.port)) return INVALID; *port_given = true; *out = r; return v;
  }
  Verdict v = parse_ip(s, AF_INET, &r); if (v != INVALID) *out = r; return v;
}

// a refused "v4:port" / "[v6]:port" token whose address is fine and whose port part an atoi()-style parser would read as 1..65535
static inline bool lenient_port(const std::string &s, Addr *out) {
  Addr r; std::string pp;
  if (!s.empty() && s[0] == '[') { size_t e = s.find(']'); if (e == std::string::npos || e + 1 >= s.size() || s[e + 1] != ':') return false; if (parse_ip(s.substr(1, e - 1), AF_INET6, &r) == INVALID) return false; pp = s.substr(e + 2); }
  else { size_t c1 = s.find(':'); if (c1 == std::string::npos || s.find(':', c1 + 1) != std::string::npos) { if (c1 == std::string::npos) return false; /* "a.b.c.d:53:" */ if (parse_ip(s.substr(0, c1), AF_INET, &r) == INVALID) return false; pp = s.substr(c1 + 1); }
    else { if (parse_ip(s.substr(0, c1), AF_INET, &r) == INVALID) return false; pp = s.substr(c1 + 1); } }
  if (pp.find('\0') != std::string::npos) return false;
  int v = (int)strtol(pp.c_str(), nullptr, 10); if (v < 1 || v > 65535) return false;
  r.port = (uint16_t)v; *out = r; return true;
}

// ---- numbers -----------------------------------------------------------------------------------------------
// "n": decimal digits (resolv.conf(5) "ndots:n"); an optional '-' is read as a negative number where the option
// documents clipping.  big = does not fit an int (the oracle accepts "rejected" or "clipped to the upper bound").
struct Num { Verdict v = INVALID; bool big = false; bool neg = false; long val = 0; };
static inline Num parse_int(const std::string &s) {
  Num n; std::string d = s; if (!d.empty() && d[0] == '-') { n.neg = true; d.erase(0, 1); }
  if (!all_digits(d)) {
    // other spellings the C library's number syntax allows ("+3", " 3"): the documents do not say -> UNSPEC
    if (!s.empty() && s.find('\0') == std::string::npos) { char *e; (void)strtol(s.c_str(), &e, 10); if (e != s.c_str() && !*e) n.v = UNSPEC; }
    return n;
  }
  size_t nz = 0; while (nz + 1 < d.size() && d[nz] == '0') nz++; d.erase(0, nz);
  n.v = VALID;
  if (d.size() > 10) { n.big = true; n.val = 0x7fffffffL; } else { long long v = atoll(d.c_str()); if (v > 0x7fffffffLL) { n.big = true; n.val = 0x7fffffffL; } else n.val = (long)v; }
  if (n.neg) n.val = -n.val;
  return n;
}
// seconds with an optional decimal fraction -> microseconds (evdns rejects anything below one millisecond)
struct Dur { Verdict v = INVALID; bool big = false; int64_t us = 0; };
static inline Dur parse_seconds(const std::string &s) {
  Dur r; size_t dot = s.find('.'); std::string ip = s.substr(0, dot), fp = dot == std::string::npos ? "" : s.substr(dot + 1);
  if (ip.empty() && fp.empty()) return r;
  if ((!ip.empty() && !all_digits(ip)) || (!fp.empty() && !all_digits(fp))) {
    // exponents, hex floats, "inf", signs ...: C number syntax the documents do not mention -> UNSPEC (negative values are refused)
    if (s.find('\0') == std::string::npos) { char *e; double d = strtod(s.c_str(), &e); if (e != s.c_str() && !*e && !(d < 0)) r.v = UNSPEC; }
    return r;
  }
  if (dot != std::string::npos && (ip.empty() || fp.empty())) { r.v = UNSPEC; }   // "5." / ".5": strtod forms, undocumented
  size_t nz = 0; while (nz + 1 < ip.size() && ip[nz] == '0') nz++; ip.erase(0, nz);
  if (ip.size() > 9) { r.v = r.v == UNSPEC ? UNSPEC : VALID; r.big = true; return r; }
  int64_t sec = ip.empty() ? 0 : atoll(ip.c_str()); int64_t us = 0, scale = 100000;
  for (size_t i = 0; i < fp.size() && scale; i++, scale /= 10) us += (fp[i] - '0') * scale;
  r.us = sec * 1000000 + us;
  if (r.v != UNSPEC) r.v = VALID;
  if (r.us < 1000) { r.v = INVALID; }
  return r;
}

// ---- configuration state -----------------------------------------------------------------------------------
struct NsEntry { Addr addr; bool optional = false; };      // optional: the documents do not decide whether it is accepted
struct HostEntry { Addr addr; std::string name; bool optional = false; };
// an integer setting: v = reference value; unspec = the documents do not decide it; big = the last value written did
// not fit an int: "rejected" (alt = the value before) and "clipped to the upper bound" (v) are both acceptable
struct IntField { int v = 0; bool unspec = false, big = false; int alt = 0; bool met_empty = false, met_big = false; IntField(int d = 0) : v(d) {}
  bool accepts(long x) const { return unspec || x == v || (big && x == alt); } };
struct Config {
  std::vector<NsEntry> ns;                 // in configuration order, duplicates (same address+port) dropped
  std::vector<std::string> search;
  IntField ndots{1};
  int64_t timeout_us = 5000000; bool timeout_unspec = false;
  IntField attempts{3}, max_inflight{64}, max_timeouts{3}, randomize_case{1}, edns{512}, so_rcvbuf{0}, so_sndbuf{0}, dummy{0};
  bool use_vc = false, ignore_tc = false;
  int64_t skew_us = 3000000; bool skew_unspec = false;
  bool bind_set = false; Addr bind_to; bool bind_unspec = false;
  std::vector<HostEntry> hosts;
  std::string hostname;                    // gethostname(), for the "search list from the host name" default
  // bookkeeping for the harness: inputs outside the documented syntax that were met (and, when tol_* is set, treated as
  // undecided instead of refused -- used to search on behind a known finding)
  bool tol_empty = false, tol_wrap = false, tol_port = false, tol_ndots_reset = false;
  int n_ndots_hazard = 0;                  // the search list was replaced while ndots had a non-default value (see search_replaced)
  int n_empty_int = 0, n_big_int = 0, n_port_junk = 0, n_big_dur = 0;
  std::vector<Addr> junk_ns;               // what an atoi()-style port parser would make of refused "addr:port" tokens
};

static inline void ns_add(Config &c, const Addr &a, bool optional) {
  for (auto &e : c.ns) if (e.addr == a) { if (!optional) e.optional = false; return; }        // "Duplicate nameserver" is not added twice
  NsEntry e; e.addr = a; e.optional = optional; c.ns.push_back(e);
}
// Replacing the search list leaves "ndots" alone (resolv.conf(5): independent settings; dns.h evdns_base_search_clear:
// "Clear the list of search domains").  The hazard counter lets the harness attribute a disagreement.
static inline void search_replaced(Config &c) {
  if (c.ndots.v != 1 || c.ndots.big || c.ndots.unspec || c.ndots.met_empty) { c.n_ndots_hazard++; if (c.tol_ndots_reset) c.ndots.unspec = true; }
  c.search.clear();
}
static inline std::string strip_dots(std::string d) { while (!d.empty() && d[0] == '.') d.erase(0, 1); return d; }
static inline void search_from_hostname(Config &c) {
  search_replaced(c); size_t p = c.hostname.find('.'); if (p == std::string::npos) return;
  c.search.push_back(strip_dots(c.hostname.substr(p)));
}

// ---- options -----------------------------------------------------------------------------------------------
// name without the trailing colon; returns 0 ok / -1 invalid value (evdns_base_set_option's contract); unknown
// names are ignored.  `flags`: which groups may be changed (all for evdns_base_set_option).
static const char *const OPTION_NAMES[] = {"ndots", "timeout", "max-timeouts", "max-inflight", "attempts", "randomize-case", "bind-to",
  "initial-probe-timeout", "max-probe-timeout", "probe-backoff-factor", "getaddrinfo-allow-skew", "so-rcvbuf", "so-sndbuf", "tcp-idle-timeout",
  "use-vc", "ignore-tc", "edns-udp-size"};
static const int N_OPTION_NAMES = sizeof OPTION_NAMES / sizeof OPTION_NAMES[0];

static inline long clip(long v, long lo, long hi) { return v < lo ? lo : v > hi ? hi : v; }

// *unspec_ret: the return value is not decided by the documents
static inline int set_option(Config &c, const std::string &name, const std::string &val, int flags, bool *unspec_ret) {
  *unspec_ret = false;
  auto intopt = [&](int group, long lo, long hi, bool clipped, IntField *f) -> int {
    Num n = parse_int(val);
    if (val.empty()) { c.n_empty_int++; if (flags & group) f->met_empty = true; if (c.tol_empty) { *unspec_ret = true; if (flags & group) f->unspec = true; return 0; } return -1; }
    if (n.v == INVALID) return -1;
    if (n.v == UNSPEC) { *unspec_ret = true; if (flags & group) f->unspec = true; return 0; }
    if (n.neg && (!clipped || n.val == -1)) { *unspec_ret = true; if (flags & group) f->unspec = true; return 0; }   // negative where no lower bound is documented; "-1" (code-derived corner)
    if (n.big && !n.neg && (flags & group)) f->met_big = true;
    if (n.big && (n.neg || c.tol_wrap)) { if (!n.neg) c.n_big_int++; *unspec_ret = true; if (flags & group) f->unspec = true; return 0; }
    if (n.big) { c.n_big_int++; *unspec_ret = true; if (flags & group) { if (!f->big) f->alt = f->v; f->big = true; f->v = (int)hi; } return 0; }   // rejected or saturated: both acceptable
    if (!(flags & group)) return 0;
    f->v = (int)clip(n.val, lo, hi); f->unspec = false; f->big = false; f->met_empty = f->met_big = false; return 0;
  };
  auto duropt = [&](int group, int64_t *field, bool *field_unspec) -> int {
    Dur d = parse_seconds(val);
    if (d.big) c.n_big_dur++;
    if (d.v == INVALID) return -1;
    if (d.v == UNSPEC || d.big) { *unspec_ret = true; if (flags & group) *field_unspec = true; return 0; }
    if (!(flags & group)) return 0;
    *field = d.us; *field_unspec = false; return 0;
  };
  int64_t dummy64 = 0; bool dummyu = false;
  if (name == "ndots") { int r = intopt(F_SEARCH, 0, 0x7fffffffL, false, &c.ndots); if (!c.ndots.unspec && !c.ndots.big && !c.ndots.met_empty && !c.ndots.met_big && r == 0 && !*unspec_ret && (flags & F_SEARCH)) c.n_ndots_hazard = 0; return r; }
  if (name == "timeout") return duropt(F_MISC, &c.timeout_us, &c.timeout_unspec);
  if (name == "getaddrinfo-allow-skew") return duropt(F_MISC, &c.skew_us, &c.skew_unspec);
  if (name == "max-timeouts") return intopt(F_MISC, 1, 255, true, &c.max_timeouts);
  if (name == "max-inflight") return intopt(F_MISC, 1, 65000, true, &c.max_inflight);
  if (name == "attempts") return intopt(F_MISC, 0, 255, false, &c.attempts);
  if (name == "randomize-case") return intopt(F_MISC, 0, 0x7fffffffL, false, &c.randomize_case);
  if (name == "initial-probe-timeout" || name == "tcp-idle-timeout") return duropt(F_MISC, &dummy64, &dummyu);
  if (name == "max-probe-timeout") return intopt(F_MISC, 1, 3600, true, &c.dummy);
  if (name == "probe-backoff-factor") return intopt(F_MISC, 1, 10, true, &c.dummy);
  if (name == "so-rcvbuf") return intopt(F_MISC, 0, 0x7fffffffL, false, &c.so_rcvbuf);
  if (name == "so-sndbuf") return intopt(F_MISC, 0, 0x7fffffffL, false, &c.so_sndbuf);
  if (name == "edns-udp-size") return intopt(F_MISC, 512, 65535, true, &c.edns);
  if (name == "use-vc" || name == "ignore-tc") {
    if (!val.empty()) { if (!(flags & F_MISC)) *unspec_ret = true; return -1; }       // options without values
    if (flags & F_MISC) { if (name == "use-vc") c.use_vc = true; else c.ignore_tc = true; }
    return 0;
  }
  if (name == "bind-to") {
    Addr a; bool pg; Verdict v = parse_ip_port(val, &a, &pg);
    if (!(flags & F_NAMESERVERS)) { *unspec_ret = v != VALID; return 0; }
    if (v == INVALID) return -1;
    if (v == UNSPEC) { *unspec_ret = true; c.bind_unspec = true; return 0; }
    c.bind_set = true; c.bind_to = a; return 0;
  }
  return 0;   // unknown option: ignored
}

// ---- resolv.conf -------------------------------------------------------------------------------------------
static inline std::vector<std::string> tokens(const std::string &line) {
  std::vector<std::string> t; std::string cur;
  for (char ch : line) { if (ch == ' ' || ch == '\t') { if (!cur.empty()) { t.push_back(cur); cur.clear(); } } else cur.push_back(ch); }
  if (!cur.empty()) t.push_back(cur); return t;
}
static inline std::vector<std::string> lines(const std::string &content_in) {
  std::string content = content_in.substr(0, content_in.find('\0'));   // code-derived corner: a NUL ends the file
  std::vector<std::string> l; size_t p = 0;
  for (;;) { size_t e = content.find('\n', p); if (e == std::string::npos) { l.push_back(content.substr(p)); break; } l.push_back(content.substr(p, e - p)); p = e + 1; }
  return l;
}
static inline void resolv_line(Config &c, const std::string &line, int flags) {
  std::vector<std::string> t = tokens(line);
  if (t.empty()) return;
  // the keyword must start the token (lines starting with '#' or ';' are comments: their first token matches no keyword)
  if (t[0] == "nameserver" && (flags & F_NAMESERVERS)) {
    if (t.size() < 2) return;
    Addr a; bool pg; Verdict v = parse_ip_port(t[1], &a, &pg);
    if (v == INVALID) {
      if (lenient_port(t[1], &a)) { c.n_port_junk++; if (c.tol_port) ns_add(c, a, true); else c.junk_ns.push_back(a); }
      return;
    }
    if (!pg) a.port = 53;
    bool optional = v == UNSPEC;
    // bind-to applies to the nameservers configured after it (non-loopback ones): whether the local bind works is the OS's business
    if ((c.bind_set || c.bind_unspec) && !a.loopback()) optional = true;
    ns_add(c, a, optional);
  } else if (t[0] == "domain" && (flags & F_SEARCH)) {
    if (t.size() < 2) return;
    search_replaced(c); c.search.push_back(strip_dots(t[1]));
  } else if (t[0] == "search" && (flags & F_SEARCH)) {
    search_replaced(c); for (size_t i = 1; i < t.size(); i++) c.search.push_back(strip_dots(t[i]));
  } else if (t[0] == "options") {
    for (size_t i = 1; i < t.size(); i++) {
      size_t colon = t[i].find(':'); std::string name = t[i].substr(0, colon), val = colon == std::string::npos ? "" : t[i].substr(colon + 1);
      bool u; set_option(c, name, val, flags, &u);
    }
  }
}

// ---- hosts -------------------------------------------------------------------------------------------------
static inline void hosts_line(Config &c, const std::string &line_in) {
  std::string line = line_in.substr(0, line_in.find('#'));      // hosts(5): text from '#' to the end of the line is a comment
  std::vector<std::string> t = tokens(line);
  if (t.size() < 2) return;
  Addr a; Verdict v = parse_ip(t[0], AF_INET, &a);
  if (v == INVALID) v = parse_ip(t[0], AF_INET6, &a);
  bool optional = v == UNSPEC;
  if (v == INVALID) {
    // "[v6]..." is accepted by evutil_parse_sockaddr_port-style parsers; hosts(5) does not define it -> either way
    size_t e = t[0].find(']');
    if (t[0][0] == '[' && e != std::string::npos && parse_ip(t[0].substr(1, e - 1), AF_INET6, &a) != INVALID) optional = true; else return;
  }
  for (size_t i = 1; i < t.size(); i++) { HostEntry h; h.addr = a; h.addr.port = 0; h.name = t[i]; h.optional = optional; c.hosts.push_back(h); }
}
static inline void hosts_defaults(Config &c) { hosts_line(c, "127.0.0.1   localhost"); hosts_line(c, "::1   localhost"); }
// content == nullptr: no such file / NULL name.  Returns evdns_base_load_hosts' documented result (0 / negative)
static inline int load_hosts(Config &c, const std::string *content, bool name_is_null) {
  if (!content) { hosts_defaults(c); return name_is_null ? 0 : -1; }
  for (auto &l : lines(*content)) hosts_line(c, l);
  return 0;
}

// content == nullptr: the file cannot be opened.  Returns the documented result code.
static inline int resolv_conf(Config &c, const std::string *content, int flags, const std::string *etc_hosts) {
  bool add_default = (flags & F_NAMESERVERS) && !(flags & F_NO_DEFAULT);
  if (flags & F_HOSTSFILE) load_hosts(c, etc_hosts, false);
  if (!content) {
    if (flags & F_SEARCH) search_from_hostname(c);
    if (add_default) { Addr a; a.family = AF_INET; a.a[0] = 127; a.a[3] = 1; a.port = 53; ns_add(c, a, false); }
    return 1;   // EVDNS_ERROR_FAILED_TO_OPEN_FILE
  }
  int rc = 0;
  for (auto &l : lines(*content)) resolv_line(c, l, flags);
  bool have_required = false, have_any = !c.ns.empty(); for (auto &e : c.ns) if (!e.optional) have_required = true;
  if (add_default && !have_required) {
    // no nameserver configured -> 127.0.0.1:53 is used and EVDNS_ERROR_NO_NAMESERVERS_CONFIGURED reported
    Addr a; a.family = AF_INET; a.a[0] = 127; a.a[3] = 1; a.port = 53;
    if (!have_any) { ns_add(c, a, false); rc = 6; } else { ns_add(c, a, true); rc = -1; /* undecided: depends on the optional entries */ }
  }
  if ((flags & F_SEARCH) && c.search.empty()) search_from_hostname(c);
  return rc;
}

// ---- lookups -----------------------------------------------------------------------------------------------
static inline bool eq_nocase(const std::string &a, const std::string &b) {
  if (a.size() != b.size()) return false;
  for (size_t i = 0; i < a.size(); i++) { char x = a[i], y = b[i]; if (x >= 'A' && x <= 'Z') x += 32; if (y >= 'A' && y <= 'Z') y += 32; if (x != y) return false; }
  return true;
}
static inline int count_dots(const std::string &s) { int n = 0; for (char ch : s) n += ch == '.'; return n; }
// documented search order (resolv.conf(5) ndots): names with at least ndots dots are tried as given first,
// the others after the search list is exhausted
static inline std::vector<std::string> search_candidates(const Config &c, const std::string &name) {
  std::vector<std::string> cand;
  if (c.search.empty()) { cand.push_back(name); return cand; }
  if (count_dots(name) >= c.ndots.v) cand.push_back(name);
  for (auto &d : c.search) cand.push_back(name + (!name.empty() && name.back() == '.' ? "" : ".") + d);
  if (count_dots(name) < c.ndots.v) cand.push_back(name);
  return cand;
}
}  // namespace rcref
