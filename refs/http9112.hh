// Reference HTTP/1.1 request-stream parser, written from RFC 9112 (message syntax, framing: sections 2, 3, 5, 6, 7)
// and RFC 9110 (fields, lists, tokens).  It is NOT derived from http.c.
//
// It is three-valued.  Walking the byte stream it yields
//   * a list of messages that a conforming server has to take exactly as parsed here ("must-accept"; some carry the
//     flag may_reject when the RFC explicitly lets the server answer with an error instead), and
//   * a terminal:  T_END        the stream ends on a message boundary,
//                  T_INCOMPLETE the stream ends inside a message (nothing further may be delivered),
//                  T_REJECT     the next message is one the RFC says MUST be rejected (reason given),
//                  T_MAY        the next message uses something the RFC leaves to the recipient (bare LF, leading
//                               empty lines, invalid request-line (SHOULD 400), obs-fold before the first field, HTTP/1.0
//                               with Transfer-Encoding, doubtful lists, invalid chunk syntax, ...): no claim from there on.
// Strictness is deliberately asymmetric: anything not literally covered by a MUST (accept or reject) ends up in T_MAY.
#pragma once
#include <string>
#include <vector>
#include <stdint.h>
#include <ctype.h>

namespace h9112 {

static inline bool is_tchar(unsigned char c) {
  if (c >= '0' && c <= '9') return true; if (c >= 'a' && c <= 'z') return true; if (c >= 'A' && c <= 'Z') return true;
  switch (c) { case '!': case '#': case '$': case '%': case '&': case '\'': case '*': case '+': case '-': case '.': case '^': case '_': case '`': case '|': case '~': return true; }
  return false;
}
static inline bool is_token(const std::string &s) { if (s.empty()) return false; for (unsigned char c : s) if (!is_tchar(c)) return false; return true; }
static inline bool is_digit(unsigned char c) { return c >= '0' && c <= '9'; }
static inline bool is_hex(unsigned char c) { return is_digit(c) || (c >= 'a' && c <= 'f') || (c >= 'A' && c <= 'F'); }
static inline bool is_ows(unsigned char c) { return c == ' ' || c == '\t'; }
static inline std::string lower(std::string s) { for (auto &c : s) if (c >= 'A' && c <= 'Z') c = (char)(c + 32); return s; }
static inline std::string trim_ows(const std::string &s) { size_t a = 0, b = s.size(); while (a < b && is_ows((unsigned char)s[a])) a++; while (b > a && is_ows((unsigned char)s[b - 1])) b--; return s.substr(a, b - a); }
static inline std::vector<std::string> split_commas(const std::string &s) { std::vector<std::string> v; size_t p = 0; for (;;) { size_t c = s.find(',', p); if (c == std::string::npos) { v.push_back(trim_ows(s.substr(p))); break; } v.push_back(trim_ows(s.substr(p, c - p))); p = c + 1; } return v; }

struct Field { std::string name, value; bool folded = false; bool htab_lead = false; bool fold_content = false; /* some continuation line holds more than SP / HTAB */ };

enum Feature : uint32_t {
  F_CHUNK_EXT = 1, F_HTAB_OWS = 2, F_TE_LIST = 4, F_TE_CL = 8, F_CL_REPEAT = 16, F_FOLD = 32, F_EXPECT_OTHER = 64,
  F_EXPECT_CONTINUE = 128, F_TRAILERS = 256, F_CHUNKED = 512, F_CL = 1024, F_CLOSE = 2048, F_HTTP10 = 4096,
  F_EMPTY_VALUE = 8192, F_DUP_FIELD = 16384, F_CHUNK_LEADING_ZERO = 32768, F_ABS_FORM = 65536,
  F_FOLD_EMPTY = 1u << 17 /* a continuation line holding only SP / HTAB */, F_FOLD_MULTI = 1u << 18 /* >= 2 continuation lines on one field */,
  F_TRAILER_FOLD = 1u << 19, F_FOLD_FIELDLIKE = 1u << 20 /* continuation content contains ':' (looks like a field line) */,
};

struct Msg {
  std::string method, target; int major = 1, minor = 1;
  std::vector<Field> headers, trailers;
  std::string body;
  bool chunked = false, has_cl = false; uint64_t cl = 0;
  bool may_reject = false;        // the RFC lets the server answer this one with an error instead (then it stops there)
  bool close_after = false;       // the server may stop after this message (close option / HTTP/1.0)
  bool must_close_after = false;  // the RFC requires the connection to be closed after the response (TE together with CL)
  uint32_t features = 0;
  size_t begin = 0, hdr_end = 0, end = 0;             // byte offsets in the stream
  std::vector<std::pair<size_t, size_t>> chunk_lines; // [begin,end) of every chunk-size line (incl. CRLF)
};

enum Term { T_END, T_INCOMPLETE, T_REJECT, T_MAY };
struct Result { std::vector<Msg> msgs; Term term = T_END; std::string reason; size_t term_pos = 0; uint32_t term_features = 0; std::string term_method; bool term_content = false; /* the terminal message announces content (chunked or Content-Length > 0) */ };

struct Options { bool (*known_method)(const std::string &) = nullptr; };

namespace detail {
// 0 = line read, 1 = incomplete
static inline int read_line(const std::string &s, size_t pos, std::string &line, size_t &next, bool &bare_lf) {
  size_t nl = s.find('\n', pos);
  if (nl == std::string::npos) return 1;
  if (nl > pos && s[nl - 1] == '\r') { line = s.substr(pos, nl - 1 - pos); bare_lf = false; }
  else { line = s.substr(pos, nl - pos); bare_lf = true; }
  next = nl + 1; return 0;
}
static inline bool has_ctl(const std::string &v) { for (unsigned char c : v) if ((c < 0x20 && c != '\t') || c == 0x7f) return true; return false; }
static inline bool valid_pct(const std::string &t) { for (size_t i = 0; i < t.size(); i++) if (t[i] == '%') { if (i + 2 >= t.size()) return false; if (!is_hex((unsigned char)t[i + 1]) || !is_hex((unsigned char)t[i + 2])) return false; } return true; }
static inline bool is_pchar_or_slash_q(unsigned char c) {
  if (isalnum(c)) return true;
  switch (c) { case '-': case '.': case '_': case '~': case '!': case '$': case '&': case '\'': case '(': case ')': case '*': case '+': case ',': case ';': case '=': case ':': case '@': case '/': case '?': case '%': return true; }
  return false;
}
static inline bool origin_form(const std::string &t) { if (t.empty() || t[0] != '/') return false; for (unsigned char c : t) if (!is_pchar_or_slash_q(c)) return false; return valid_pct(t); }
static inline bool reg_host(const std::string &h) { if (h.empty()) return false; for (unsigned char c : h) if (!(isalnum(c) || c == '-' || c == '.')) return false; return true; }
static inline bool port_ok(const std::string &p) { if (p.empty() || p.size() > 5) return false; for (unsigned char c : p) if (!is_digit(c)) return false; return atoi(p.c_str()) <= 65535; }
static inline bool authority_form(const std::string &t) { size_t c = t.rfind(':'); if (c == std::string::npos) return false; return reg_host(t.substr(0, c)) && port_ok(t.substr(c + 1)); }
static inline bool absolute_form(const std::string &t) {
  if (t.compare(0, 7, "http://") != 0) return false;
  size_t e = t.find_first_of("/?", 7); std::string auth = t.substr(7, e == std::string::npos ? std::string::npos : e - 7);
  size_t c = auth.find(':');
  if (c == std::string::npos) { if (!reg_host(auth)) return false; } else if (!reg_host(auth.substr(0, c)) || !port_ok(auth.substr(c + 1))) return false;
  if (e == std::string::npos) return true;
  std::string rest = t.substr(e);
  if (rest[0] == '?') rest = "/" + rest;
  return origin_form(rest);
}
// strict field line: 0 ok, 1 = MAY (reason), 2 = REJECT (reason)
static inline int parse_field(const std::string &line, Field &f, std::string &reason) {
  size_t colon = line.find(':');
  if (colon == std::string::npos) { reason = "field-without-colon"; return 1; }
  std::string name = line.substr(0, colon);
  if (name.empty()) { reason = "empty-field-name"; return 1; }
  if (!is_token(name)) {
    size_t e = name.size(); while (e > 0 && is_ows((unsigned char)name[e - 1])) e--;
    if (e < name.size() && e > 0 && is_token(name.substr(0, e))) { reason = "ws-before-colon"; return 2; }   // RFC 9112 5.1: MUST reject with 400
    reason = "bad-field-name"; return 1;
  }
  std::string raw = line.substr(colon + 1);
  if (has_ctl(raw)) { reason = "ctl-in-field-value"; return 1; }   // CR / NUL / other CTLs: reject or replace, recipient's choice
  size_t a = 0; bool htab = false; while (a < raw.size() && is_ows((unsigned char)raw[a])) { if (raw[a] == '\t') htab = true; a++; }
  f.name = name; f.value = trim_ows(raw); f.htab_lead = htab;
  return 0;
}
}  // namespace detail

static inline Result parse(const std::string &s, const Options &opt) {
  using namespace detail;
  Result R; size_t pos = 0;
  auto stop = [&](Term t, const char *why, const Msg &m) { R.term = t; R.reason = why; R.term_pos = m.begin; R.term_features = m.features; R.term_method = m.method; R.term_content = m.chunked || (m.has_cl && m.cl > 0); };
  for (;;) {
    Msg m; m.begin = pos;
    if (pos >= s.size()) { R.term = T_END; R.term_pos = pos; return R; }
    std::string line; size_t next; bool bare;
    if (read_line(s, pos, line, next, bare)) { stop(T_INCOMPLETE, "incomplete-request-line", m); return R; }
    if (bare) { stop(T_MAY, "bare-lf", m); return R; }
    if (line.empty()) { stop(T_MAY, "leading-empty-line", m); return R; }
    // request-line = method SP request-target SP HTTP-version
    {
      size_t s1 = line.find(' '); size_t s2 = s1 == std::string::npos ? s1 : line.find(' ', s1 + 1);
      if (s1 == std::string::npos || s2 == std::string::npos || line.find(' ', s2 + 1) != std::string::npos) { stop(T_MAY, "request-line-shape", m); return R; }
      m.method = line.substr(0, s1); m.target = line.substr(s1 + 1, s2 - s1 - 1); std::string ver = line.substr(s2 + 1);
      if (!is_token(m.method) || m.target.empty()) { stop(T_MAY, "request-line-shape", m); return R; }
      for (unsigned char c : m.target) if (c <= 0x20 || c >= 0x7f) { stop(T_MAY, "request-target-bytes", m); return R; }
      if (ver.size() != 8 || ver.compare(0, 5, "HTTP/") != 0 || !is_digit((unsigned char)ver[5]) || ver[6] != '.' || !is_digit((unsigned char)ver[7])) { stop(T_MAY, "http-version-syntax", m); return R; }
      m.major = ver[5] - '0'; m.minor = ver[7] - '0';
      if (m.major != 1 || m.minor > 1) { stop(T_MAY, "http-version-other", m); return R; }
      if (m.minor == 0) m.features |= F_HTTP10;
    }
    pos = next;
    // field lines
    for (;;) {
      if (read_line(s, pos, line, next, bare)) { stop(T_INCOMPLETE, "incomplete-header-section", m); return R; }
      if (bare) { stop(T_MAY, "bare-lf", m); return R; }
      pos = next;
      if (line.empty()) break;
      if (is_ows((unsigned char)line[0])) {
        if (m.headers.empty()) { stop(T_MAY, "ws-before-first-field", m); return R; }
        if (has_ctl(line)) { stop(T_MAY, "ctl-in-field-value", m); return R; }
        Field &p = m.headers.back(); std::string cont = trim_ows(line);
        if (cont.empty()) m.features |= F_FOLD_EMPTY; if (p.folded) m.features |= F_FOLD_MULTI; if (cont.find(':') != std::string::npos) m.features |= F_FOLD_FIELDLIKE;
        if (!cont.empty()) p.fold_content = true;
        p.value = p.value + " " + cont; p.folded = true; m.features |= F_FOLD; m.may_reject = true;   // obs-fold: reject or replace by SP
        continue;
      }
      Field f; std::string why; int rc = parse_field(line, f, why);
      if (rc == 1) { R.reason = why; R.term = T_MAY; R.term_pos = m.begin; R.term_method = m.method; return R; }
      if (rc == 2) { R.reason = why; R.term = T_REJECT; R.term_pos = m.begin; R.term_method = m.method; return R; }
      if (f.htab_lead) m.features |= F_HTAB_OWS;
      if (f.value.empty()) m.features |= F_EMPTY_VALUE;
      for (auto &o : m.headers) if (lower(o.name) == lower(f.name)) m.features |= F_DUP_FIELD;
      m.headers.push_back(f);
    }
    m.hdr_end = pos;
    // the method: unknown -> the server answers 501 (not a framing matter); modelled as a rejection
    if (opt.known_method && !opt.known_method(m.method)) { stop(T_REJECT, "unknown-method", m); return R; }
    // request-target form (RFC 9112 3.2)
    {
      bool ok;
      if (m.method == "CONNECT") ok = authority_form(m.target);
      else if (m.target == "*") ok = m.method == "OPTIONS";
      else if (m.target[0] == '/') ok = origin_form(m.target);
      else { ok = absolute_form(m.target); if (ok) m.features |= F_ABS_FORM; }
      if (!ok) { stop(T_MAY, "request-target-form", m); return R; }
    }
    // message body length (RFC 9112 6.3)
    std::vector<std::string> te, cl; int hosts = 0; std::vector<std::string> expect, conn;
    for (auto &f : m.headers) { std::string n = lower(f.name);
      if (n == "transfer-encoding") te.push_back(f.value); else if (n == "content-length") cl.push_back(f.value);
      else if (n == "host") hosts++; else if (n == "expect") expect.push_back(f.value); else if (n == "connection") conn.push_back(f.value); }
    // a framing field whose value was extended by continuation lines: what the joined value means is left to the recipient -- unless every
    // continuation line held only SP / HTAB: replacing those obs-folds by SP (5.2) only adds trailing whitespace, which is not part of a
    // field value (RFC 9110 5.5), so the server either rejects the message (may_reject is set above) or frames it as if it were unfolded
    for (auto &f : m.headers) if (f.folded) { std::string n = lower(f.name); if (n == "expect" || ((n == "transfer-encoding" || n == "content-length" || n == "host" || n == "connection") && f.fold_content)) { stop(T_MAY, "folded-framing-field", m); return R; } }
    if (!te.empty()) {
      if (m.minor == 0) { stop(T_MAY, "transfer-encoding-in-http10", m); return R; }
      std::vector<std::string> codings;
      for (auto &v : te) for (auto &e : split_commas(v)) {
        if (e.empty()) { stop(T_MAY, "te-empty-list-element", m); return R; }
        if (e.find(';') != std::string::npos) { stop(T_MAY, "te-parameters", m); return R; }
        if (!is_token(e)) { stop(T_MAY, "te-not-a-token", m); return R; }
        codings.push_back(lower(e));
      }
      if (codings.back() != "chunked") { stop(T_REJECT, "te-not-final-chunked", m); return R; }   // 6.3 rule 4: MUST 400 + close
      int nchunked = 0; for (auto &c : codings) if (c == "chunked") nchunked++;
      if (nchunked > 1) { stop(T_MAY, "te-chunked-twice", m); return R; }
      if (codings.size() > 1) { m.features |= F_TE_LIST; m.may_reject = true; }                      // unknown coding: 501 is fine
      if (!cl.empty()) { m.features |= F_TE_CL; m.may_reject = true; m.must_close_after = true; }  // 6.1
      m.chunked = true; m.features |= F_CHUNKED;
    } else if (!cl.empty()) {
      std::vector<std::string> els; bool empty_el = false;
      for (auto &v : cl) { if (v.empty()) { stop(T_REJECT, "cl-malformed", m); return R; } for (auto &e : split_commas(v)) { if (e.empty()) empty_el = true; else els.push_back(e); } }
      for (auto &e : els) for (unsigned char c : e) if (!is_digit(c)) { stop(T_REJECT, "cl-malformed", m); return R; }   // 6.3 rule 5
      if (empty_el || els.empty()) { stop(T_MAY, "cl-empty-list-element", m); return R; }
      std::vector<std::string> norm; for (auto e : els) { size_t z = 0; while (z + 1 < e.size() && e[z] == '0') z++; norm.push_back(e.substr(z)); }
      for (auto &e : norm) if (e.size() > 15) { stop(T_MAY, "cl-huge", m); return R; }
      for (auto &e : norm) if (e != norm[0]) { stop(T_REJECT, "cl-conflict", m); return R; }
      if (els.size() > 1) { m.features |= F_CL_REPEAT; m.may_reject = true; }
      m.has_cl = true; m.cl = strtoull(norm[0].c_str(), nullptr, 10); m.features |= F_CL;
    }
    // Host (RFC 9112 3.2): missing in 1.1 or repeated -> MUST 400
    if (hosts > 1) { stop(T_REJECT, "host-duplicate", m); return R; }
    if (hosts == 0 && m.minor >= 1) { stop(T_REJECT, "host-missing", m); return R; }
    if (m.minor >= 1) for (auto &v : expect) { if (lower(v) == "100-continue") m.features |= F_EXPECT_CONTINUE; else { m.features |= F_EXPECT_OTHER; m.may_reject = true; } }
    for (auto &v : conn) for (auto &e : split_commas(v)) if (lower(e) == "close") { m.close_after = true; m.features |= F_CLOSE; }
    if (m.minor == 0) m.close_after = true;
    // content on a method for which RFC 9110 9.3 defines none (GET, HEAD, DELETE: "might lead some implementations to reject the
    // request"; TRACE: client MUST NOT send content): the server may reject, but framing stays what the fields say (RFC 9112 6)
    if ((m.chunked || (m.has_cl && m.cl > 0)) && (m.method == "GET" || m.method == "HEAD" || m.method == "DELETE" || m.method == "TRACE")) m.may_reject = true;
    // body
    if (m.chunked) {
      for (;;) {
        size_t lstart = pos;
        if (read_line(s, pos, line, next, bare)) { stop(T_INCOMPLETE, "incomplete-chunk-size-line", m); return R; }
        if (bare) { stop(T_MAY, "bare-lf", m); return R; }
        size_t i = 0; while (i < line.size() && is_hex((unsigned char)line[i])) i++;
        if (i == 0) { stop(T_MAY, "chunk-size-syntax", m); return R; }
        if (i > 1 && line[0] == '0') m.features |= F_CHUNK_LEADING_ZERO;
        size_t z = 0; while (z + 1 < i && line[z] == '0') z++;
        if (i - z > 15) { stop(T_MAY, "chunk-size-huge", m); return R; }
        uint64_t size = strtoull(line.substr(0, i).c_str(), nullptr, 16);
        // chunk-ext = *( ";" name [ "=" ( token / quoted-string ) ] )   (BWS -> left to the recipient here)
        bool ext = false;
        while (i < line.size()) {
          if (line[i] != ';') { stop(T_MAY, "chunk-line-syntax", m); return R; }
          i++; size_t n0 = i; while (i < line.size() && is_tchar((unsigned char)line[i])) i++;
          if (i == n0) { stop(T_MAY, "chunk-line-syntax", m); return R; }
          ext = true;
          if (i < line.size() && line[i] == '=') {
            i++;
            if (i < line.size() && line[i] == '"') {
              i++; bool closed = false;
              while (i < line.size()) { unsigned char c = line[i];
                if (c == '"') { closed = true; i++; break; }
                if (c == '\\') { if (i + 1 >= line.size()) break; i += 2; continue; }
                if (c < 0x20 && c != '\t') break; if (c == 0x7f) break;
                i++; }
              if (!closed) { stop(T_MAY, "chunk-line-syntax", m); return R; }
            } else { size_t v0 = i; while (i < line.size() && is_tchar((unsigned char)line[i])) i++; if (i == v0) { stop(T_MAY, "chunk-line-syntax", m); return R; } }
          }
        }
        if (ext) m.features |= F_CHUNK_EXT;   // "A recipient MUST ignore unrecognized chunk extensions" (7.1.1)
        pos = next; m.chunk_lines.push_back({lstart, pos});
        if (size == 0) break;
        if (s.size() - pos < size) { stop(T_INCOMPLETE, "incomplete-chunk-data", m); return R; }
        m.body.append(s, pos, (size_t)size); pos += (size_t)size;
        if (s.size() - pos < 2) { if (s.size() - pos == 1 && s[pos] != '\r') { stop(T_MAY, "chunk-data-not-followed-by-crlf", m); return R; } stop(T_INCOMPLETE, "incomplete-chunk-data", m); return R; }
        if (s[pos] != '\r' || s[pos + 1] != '\n') { stop(T_MAY, "chunk-data-not-followed-by-crlf", m); return R; }
        pos += 2;
      }
      for (;;) {   // trailer section
        if (read_line(s, pos, line, next, bare)) { stop(T_INCOMPLETE, "incomplete-trailer-section", m); return R; }
        if (bare) { stop(T_MAY, "bare-lf", m); return R; }
        pos = next;
        if (line.empty()) break;
        if (is_ows((unsigned char)line[0])) {
          // obs-fold is part of field-value (RFC 9112 5.2) and trailer-section = *( field-line CRLF ): a continuation line after a
          // trailer field is an obs-fold of that field (reject, or replace by SP); it never is the empty line that ends the section.
          // Before the first trailer field there is nothing to continue: left to the recipient.
          if (m.trailers.empty()) { stop(T_MAY, "trailer-fold", m); return R; }
          if (has_ctl(line)) { stop(T_MAY, "trailer-fold", m); R.reason = "trailer-ctl-in-field-value"; return R; }
          Field &p = m.trailers.back(); std::string cont = trim_ows(line);
          if (cont.empty()) m.features |= F_FOLD_EMPTY; if (p.folded) m.features |= F_FOLD_MULTI; if (cont.find(':') != std::string::npos) m.features |= F_FOLD_FIELDLIKE;
          if (!cont.empty()) p.fold_content = true;
          p.value = p.value + " " + cont; p.folded = true; m.features |= F_TRAILER_FOLD; m.may_reject = true;
          continue;
        }
        Field f; std::string why; int rc = parse_field(line, f, why);
        if (rc) { stop(T_MAY, "trailer-syntax", m); R.reason = "trailer-" + why; return R; }
        m.trailers.push_back(f); m.features |= F_TRAILERS;
      }
    } else if (m.has_cl) {
      if (s.size() - pos < m.cl) { stop(T_INCOMPLETE, "incomplete-body", m); return R; }
      m.body.assign(s, pos, (size_t)m.cl); pos += (size_t)m.cl;
    }
    m.end = pos;
    bool is_connect = m.method == "CONNECT";
    R.msgs.push_back(m);
    if (is_connect) { if (pos < s.size()) { R.term = T_MAY; R.reason = "bytes-after-connect"; R.term_pos = pos; } else { R.term = T_END; R.term_pos = pos; } return R; }
  }
}

}  // namespace h9112
