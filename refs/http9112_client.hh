// Reference HTTP/1.1 *response*-stream parser for a user agent, written from RFC 9112 (2.2, 4, 5, 6.1-6.3, 7.1, 8, 9.3, 9.6)
// and RFC 9110 (15.2 interim responses, 9.3.2 HEAD, 9.3.6 CONNECT, 15.3.5 / 15.4.5).  It is NOT derived from http.c.
// Helpers (token classes, OWS trimming, strict field-line parsing) are shared with the request-side reference.
//
// Input: the byte stream one connection delivers, the methods of the requests queued on it (in order), and whether the
// peer has closed the connection behind the last byte.  Output, three-valued as in refs/http9112.hh:
//   * one Resp per request whose final response is complete and which a conforming user agent has to take exactly as
//     parsed here (may_fail: the RFC lets the recipient treat it as an error instead), and
//   * a terminal for the first request that has no such response:
//       T_END         no bytes left (with eof: the connection ended on a message boundary),
//       T_INCOMPLETE  the stream ends inside the message (RFC 9112 8: MUST be recorded as incomplete - never a success),
//       T_REJECT      the message is one the RFC says a user agent MUST treat as an unrecoverable error / discard,
//       T_MAY         something the RFC leaves to the recipient: no claim from there on,
//       T_NOREUSE     the previous response was complete but the connection MUST NOT be used for another request
//                     (close connection option, 9.6): no later request may be answered from this stream.
// Strictness is asymmetric: anything not literally covered by a MUST ends up in T_MAY / may_fail.
#pragma once
#include "http9112.hh"

namespace h9112c {
using h9112::Field;
using h9112::is_digit; using h9112::is_hex; using h9112::is_ows; using h9112::is_tchar; using h9112::is_token;
using h9112::lower; using h9112::trim_ows; using h9112::split_commas;

enum Method { M_OTHER = 0, M_HEAD = 1, M_CONNECT = 2 };
enum Framing { FR_NONE, FR_CL, FR_CHUNKED, FR_CLOSE, FR_TUNNEL };

enum Feature : uint32_t {
  C_CHUNK_EXT = 1, C_HTAB_OWS = 2, C_TE_LIST = 4, C_TE_CL = 8, C_CL_REPEAT = 16, C_FOLD = 32, C_INTERIM_100 = 64,
  C_INTERIM_OTHER = 128, C_TRAILERS = 256, C_CHUNKED = 512, C_CL = 1024, C_CLOSE_OPT = 2048, C_HTTP10 = 4096,
  C_CLOSE_DELIMITED = 8192, C_BODILESS_STATUS = 16384, C_HEAD = 32768, C_CONNECT_2XX = 65536, C_CONNECT_OTHER = 1u << 17,
  C_INTERIM_FIELDS = 1u << 18, C_TE_NOT_CHUNKED = 1u << 19, C_CONN_FIELD = 1u << 20, C_CLOSE_OPT_PLAIN = 1u << 21,
  C_EMPTY_REASON = 1u << 22, C_CHUNK_LEADING_ZERO = 1u << 23, C_HTAB_FRAMING = 1u << 24,
};

struct Resp {
  int status = 0, major = 1, minor = 1; std::string reason;
  std::vector<Field> headers, trailers; std::string body;
  Framing framing = FR_NONE; uint64_t cl = 0;
  int interim = 0;                 // 1xx responses skipped in front of the final one
  bool may_fail = false;           // the recipient may report a failure instead (then nothing later is claimed)
  bool must_not_reuse = false;     // close connection option received: no further request on this connection (9.6)
  bool may_not_reuse = false;      // persistence is the recipient's call (HTTP/1.0, TE together with CL, ...): no claim on later requests
  uint32_t features = 0;
  size_t begin = 0, final_begin = 0, hdr_end = 0, end = 0;
  std::vector<std::pair<size_t, size_t>> chunk_lines;
};

enum Term { T_END, T_INCOMPLETE, T_REJECT, T_MAY, T_NOREUSE };
struct Result {
  std::vector<Resp> msgs; Term term = T_END; std::string reason; size_t term_pos = 0;
  uint32_t term_features = 0;      // what was seen of the terminal message before the verdict
  bool term_headers_done = false;  // the terminal message's header section was complete
  Framing term_framing = FR_NONE;
};

namespace detail {
using h9112::detail::read_line; using h9112::detail::has_ctl; using h9112::detail::parse_field;

// status-line = HTTP-version SP status-code SP [ reason-phrase ]     0 ok, 1 may
static inline int parse_status_line(const std::string &line, Resp &r, std::string &why) {
  if (line.size() < 13) { why = "status-line-shape"; return 1; }      // "HTTP/1.1 200 " is the shortest valid one
  if (line.compare(0, 5, "HTTP/") != 0 || !is_digit((unsigned char)line[5]) || line[6] != '.' || !is_digit((unsigned char)line[7]) || line[8] != ' ') { why = "status-line-shape"; return 1; }
  r.major = line[5] - '0'; r.minor = line[7] - '0';
  if (r.major != 1 || r.minor > 1) { why = "http-version-other"; return 1; }
  if (!is_digit((unsigned char)line[9]) || !is_digit((unsigned char)line[10]) || !is_digit((unsigned char)line[11]) || line[12] != ' ') { why = "status-line-shape"; return 1; }
  r.status = (line[9] - '0') * 100 + (line[10] - '0') * 10 + (line[11] - '0');
  if (r.status < 100 || r.status > 599) { why = "status-code-class"; return 1; }
  r.reason = line.substr(13);
  for (unsigned char c : r.reason) if ((c < 0x20 && c != '\t') || c == 0x7f) { why = "reason-phrase-bytes"; return 1; }
  return 0;
}
}  // namespace detail

static inline Result parse(const std::string &s, const std::vector<Method> &methods, const std::vector<bool> &req_close, bool eof) {
  using namespace detail;
  Result R; size_t pos = 0;
  for (size_t qi = 0; qi < methods.size(); qi++) {
    Method method = methods[qi];
    Resp m; m.begin = pos;
    auto stop = [&](Term t, const std::string &why) { R.term = t; R.reason = why; R.term_pos = m.begin; R.term_features = m.features; R.term_framing = m.framing; };
    if (!R.msgs.empty() && R.msgs.back().framing == FR_TUNNEL) { stop(T_MAY, "tunnel"); return R; }
    if (!R.msgs.empty() && R.msgs.back().must_not_reuse) { stop(T_NOREUSE, "close-option"); return R; }
    if (!R.msgs.empty() && R.msgs.back().may_not_reuse) { stop(T_MAY, "persistence-is-recipients-call"); return R; }
    if (pos >= s.size()) { stop(T_END, ""); R.term_pos = pos; return R; }
    std::string line; size_t next; bool bare;
    // ---- interim responses, then the final status line + header section
    for (;;) {
      m.final_begin = pos; m.headers.clear();
      if (read_line(s, pos, line, next, bare)) { stop(T_INCOMPLETE, "incomplete-status-line"); return R; }
      if (bare) { stop(T_MAY, "bare-lf"); return R; }
      if (line.empty()) { stop(T_MAY, "leading-empty-line"); return R; }
      std::string why;
      if (parse_status_line(line, m, why)) { stop(T_MAY, why); return R; }
      if (m.minor == 0) m.features |= C_HTTP10;
      if (m.reason.empty()) m.features |= C_EMPTY_REASON;
      pos = next;
      bool fold_framing = false;
      for (;;) {
        if (read_line(s, pos, line, next, bare)) { stop(T_INCOMPLETE, "incomplete-header-section"); return R; }
        if (bare) { stop(T_MAY, "bare-lf"); return R; }
        pos = next;
        if (line.empty()) break;
        if (is_ows((unsigned char)line[0])) {
          if (m.headers.empty()) { stop(T_MAY, "ws-before-first-field"); return R; }      // 2.2: reject or ignore the line
          if (has_ctl(line)) { stop(T_MAY, "ctl-in-field-value"); return R; }
          Field &p = m.headers.back(); p.value = p.value + " " + trim_ows(line); p.folded = true; m.features |= C_FOLD;   // 5.2: a user agent MUST replace obs-fold by SP
          continue;
        }
        Field f; int rc = parse_field(line, f, why);
        if (rc) { stop(T_MAY, why); return R; }    // incl. whitespace before the colon: only servers (reject) and proxies (strip) are told what to do
        if (f.htab_lead) m.features |= C_HTAB_OWS;
        m.headers.push_back(f);
      }
      for (auto &f : m.headers) if (f.folded) { std::string n = lower(f.name); if (n == "transfer-encoding" || n == "content-length" || n == "connection") fold_framing = true; }
      if (fold_framing) { stop(T_MAY, "folded-framing-field"); return R; }
      if (m.status >= 100 && m.status < 200) {
        if (m.status == 101) { stop(T_MAY, "switching-protocols"); return R; }
        // RFC 9110 15.2: a client MUST be able to parse one or more 1xx responses received prior to a final response, even if
        // it does not expect one; a 1xx response ends at the end of its header section (RFC 9112 6.3 rule 1).
        m.interim++; m.features |= (m.status == 100 ? C_INTERIM_100 : C_INTERIM_OTHER);
        if (!m.headers.empty()) m.features |= C_INTERIM_FIELDS;
        for (auto &f : m.headers) { std::string n = lower(f.name); if (n == "transfer-encoding" || n == "content-length" || n == "connection") { stop(T_MAY, "framing-field-in-interim"); return R; } }
        if (pos >= s.size()) { stop(T_INCOMPLETE, "only-interim-so-far"); return R; }
        continue;
      }
      break;
    }
    m.hdr_end = pos;
    R.term_headers_done = true;   // (only meaningful when we stop below)
    // ---- connection options
    std::vector<std::string> te, cl; bool keepalive = false;
    for (auto &f : m.headers) { std::string n = lower(f.name);
      if (n == "transfer-encoding") { te.push_back(f.value); if (f.htab_lead) m.features |= C_HTAB_FRAMING; }
      else if (n == "content-length") { cl.push_back(f.value); if (f.htab_lead) m.features |= C_HTAB_FRAMING; }
      else if (n == "connection") { bool first = !(m.features & C_CONN_FIELD); m.features |= C_CONN_FIELD; if (f.htab_lead) m.features |= C_HTAB_FRAMING;
        if (first && lower(f.value) == "close") m.features |= C_CLOSE_OPT_PLAIN;    // the plainest spelling: first Connection line, sole element
        for (auto &e : split_commas(f.value)) { std::string le = lower(e); if (le == "close") { m.must_not_reuse = true; m.features |= C_CLOSE_OPT; } if (le == "keep-alive") keepalive = true; } } }
    if (qi < req_close.size() && req_close[qi]) m.must_not_reuse = true;   // we sent the close option ourselves: no further request on this connection
    if (m.minor == 0 && !keepalive) m.may_not_reuse = true;               // 9.3
    // ---- message body length (RFC 9112 6.3)
    bool bodiless = method == M_HEAD || m.status == 204 || m.status == 304;
    if (method == M_HEAD) m.features |= C_HEAD;
    if (m.status == 204 || m.status == 304) m.features |= C_BODILESS_STATUS;
    if (method == M_CONNECT && m.status >= 200 && m.status < 300) {        // rule 2: tunnel, Content-Length / Transfer-Encoding MUST be ignored
      m.framing = FR_TUNNEL; m.features |= C_CONNECT_2XX; m.end = pos; m.may_not_reuse = true; m.must_not_reuse = false;   /* what follows is tunnel data: no claim */ R.term_headers_done = false; R.msgs.push_back(m); continue;
    }
    if (method == M_CONNECT) m.features |= C_CONNECT_OTHER;
    if (!te.empty()) {
      if (m.minor == 0) { stop(T_MAY, "transfer-encoding-in-http10"); return R; }          // 6.1: framing is to be treated as faulty
      std::vector<std::string> codings;
      for (auto &v : te) for (auto &e : split_commas(v)) {
        if (e.empty()) { stop(T_MAY, "te-empty-list-element"); return R; }
        if (e.find(';') != std::string::npos) { stop(T_MAY, "te-parameters"); return R; }
        if (!is_token(e)) { stop(T_MAY, "te-not-a-token"); return R; }
        codings.push_back(lower(e));
      }
      int nchunked = 0; for (auto &c : codings) if (c == "chunked") nchunked++;
      if (nchunked > 1) { stop(T_MAY, "te-chunked-twice"); return R; }
      if (nchunked == 1 && codings.back() != "chunked") { stop(T_MAY, "te-chunked-not-last"); return R; }
      if (!cl.empty()) { m.features |= C_TE_CL; m.may_fail = true; m.may_not_reuse = true; }   // rule 3: TE overrides CL; "ought to be handled as an error"
      if (codings.size() > 1 || nchunked == 0) { m.features |= C_TE_LIST; m.may_fail = true; } // a coding the recipient may not understand
      if (bodiless) m.framing = FR_NONE;
      else if (nchunked) { m.framing = FR_CHUNKED; m.features |= C_CHUNKED; }
      else { m.framing = FR_CLOSE; m.features |= C_TE_NOT_CHUNKED | C_CLOSE_DELIMITED; }       // rule 4: response, chunked not final -> until close
    } else if (!cl.empty()) {
      std::vector<std::string> els; bool empty_el = false, malformed = false;
      for (auto &v : cl) { if (v.empty()) malformed = true; for (auto &e : split_commas(v)) { if (e.empty()) empty_el = true; else els.push_back(e); } }
      for (auto &e : els) for (unsigned char c : e) if (!is_digit(c)) malformed = true;
      if (malformed) { if (bodiless) { stop(T_MAY, "cl-malformed-on-bodiless"); return R; } stop(T_REJECT, "cl-malformed"); return R; }   // rule 5
      if (empty_el || els.empty()) { stop(T_MAY, "cl-empty-list-element"); return R; }
      std::vector<std::string> norm; for (auto e : els) { size_t z = 0; while (z + 1 < e.size() && e[z] == '0') z++; norm.push_back(e.substr(z)); }
      for (auto &e : norm) if (e.size() > 15) { stop(T_MAY, "cl-huge"); return R; }
      bool conflict = false; for (auto &e : norm) if (e != norm[0]) conflict = true;
      if (conflict) { if (bodiless) { stop(T_MAY, "cl-conflict-on-bodiless"); return R; } stop(T_REJECT, "cl-conflict"); return R; }
      if (els.size() > 1) { m.features |= C_CL_REPEAT; m.may_fail = true; }
      m.cl = strtoull(norm[0].c_str(), nullptr, 10); m.features |= C_CL;
      m.framing = bodiless ? FR_NONE : FR_CL;
    } else {
      m.framing = bodiless ? FR_NONE : FR_CLOSE;                                                // rule 8
      if (!bodiless) m.features |= C_CLOSE_DELIMITED;
    }
    R.term_framing = m.framing;
    // ---- body
    if (m.framing == FR_CHUNKED) {
      for (;;) {
        size_t lstart = pos;
        if (read_line(s, pos, line, next, bare)) { stop(T_INCOMPLETE, "incomplete-chunk-size-line"); return R; }
        if (bare) { stop(T_MAY, "bare-lf"); return R; }
        size_t i = 0; while (i < line.size() && is_hex((unsigned char)line[i])) i++;
        if (i == 0) { stop(T_MAY, "chunk-size-syntax"); return R; }
        if (i > 1 && line[0] == '0') m.features |= C_CHUNK_LEADING_ZERO;
        size_t z = 0; while (z + 1 < i && line[z] == '0') z++;
        if (i - z > 15) { stop(T_MAY, "chunk-size-huge"); return R; }
        uint64_t size = strtoull(line.substr(0, i).c_str(), nullptr, 16);
        bool ext = false;
        while (i < line.size()) {      // chunk-ext = *( BWS ";" BWS chunk-ext-name [ BWS "=" BWS chunk-ext-val ] ); BWS is left to the recipient here
          if (line[i] != ';') { stop(T_MAY, "chunk-line-syntax"); return R; }
          i++; size_t n0 = i; while (i < line.size() && is_tchar((unsigned char)line[i])) i++;
          if (i == n0) { stop(T_MAY, "chunk-line-syntax"); return R; }
          ext = true;
          if (i < line.size() && line[i] == '=') {
            i++;
            if (i < line.size() && line[i] == '"') {
              i++; bool closed = false;
              while (i < line.size()) { unsigned char c = line[i];
                if (c == '"') { closed = true; i++; break; }
                if (c == '\\') { if (i + 1 >= line.size()) break; i += 2; continue; }
                if ((c < 0x20 && c != '\t') || c == 0x7f) break;
                i++; }
              if (!closed) { stop(T_MAY, "chunk-line-syntax"); return R; }
            } else { size_t v0 = i; while (i < line.size() && is_tchar((unsigned char)line[i])) i++; if (i == v0) { stop(T_MAY, "chunk-line-syntax"); return R; } }
          }
        }
        if (ext) m.features |= C_CHUNK_EXT;   // 7.1.1: a recipient MUST ignore unrecognized chunk extensions
        pos = next; m.chunk_lines.push_back({lstart, pos});
        if (size == 0) break;
        if (s.size() - pos < size) { stop(T_INCOMPLETE, "incomplete-chunk-data"); return R; }
        m.body.append(s, pos, (size_t)size); pos += (size_t)size;
        if (s.size() - pos < 2) { if (s.size() - pos == 1 && s[pos] != '\r') { stop(T_MAY, "chunk-data-not-followed-by-crlf"); return R; } stop(T_INCOMPLETE, "incomplete-chunk-data"); return R; }
        if (s[pos] != '\r' || s[pos + 1] != '\n') { stop(T_MAY, "chunk-data-not-followed-by-crlf"); return R; }
        pos += 2;
      }
      for (;;) {   // trailer section
        if (read_line(s, pos, line, next, bare)) { stop(eof ? T_MAY : T_INCOMPLETE, "incomplete-trailer-section"); return R; }   // last chunk seen: whether that still counts as incomplete on close is not spelled out
        if (bare) { stop(T_MAY, "bare-lf"); return R; }
        pos = next;
        if (line.empty()) break;
        if (is_ows((unsigned char)line[0])) { stop(T_MAY, "trailer-fold"); return R; }
        Field f; std::string why; int rc = parse_field(line, f, why);
        if (rc) { stop(T_MAY, "trailer-" + why); return R; }
        m.trailers.push_back(f); m.features |= C_TRAILERS;
      }
    } else if (m.framing == FR_CL) {
      if (s.size() - pos < m.cl) { stop(T_INCOMPLETE, "incomplete-body"); return R; }
      m.body.assign(s, pos, (size_t)m.cl); pos += (size_t)m.cl;
    } else if (m.framing == FR_CLOSE) {
      if (!eof) { stop(T_INCOMPLETE, "close-delimited-still-open"); return R; }
      m.body.assign(s, pos, std::string::npos); pos = s.size();
      m.must_not_reuse = true;
    }
    m.end = pos;
    R.term_headers_done = false;
    R.msgs.push_back(m);
  }
  // every queued request has its response; whatever follows is unsolicited
  R.term = T_END; R.term_pos = pos; R.reason = pos < s.size() ? "unsolicited-bytes" : "";
  return R;
}

}  // namespace h9112c
