// Reference parser for ONE emitted HTTP/1.x message (request or response), written from RFC 9112 (2.2, 3, 4, 5, 6.1-6.3,
// 7.1) and RFC 9110 (5.1, 5.5, 8.6, 15).  It is NOT derived from http.c.  Token helpers are shared with refs/http9112.hh.
//
// Unlike refs/http9112.hh / refs/http9112_client.hh (three-valued *recipient* references: what a recipient must / may do with
// arbitrary input) this is the *sender-side* reading used by C26: the bytes a conforming sender writes have to parse here
// without any leniency that could make two recipients disagree on the structure of the message:
//   * every line of the header section ends in CRLF; a bare LF is INVALID (recipients MAY take it as a line terminator, 2.2);
//     a bare CR inside the header section is INVALID (2.2: a sender MUST NOT generate a bare CR);
//   * request-line = method SP request-target SP HTTP-version with exactly two SP and no other whitespace (HTAB, VT, FF:
//     lenient recipients split on them, section 3); status-line = HTTP-version SP 3DIGIT SP [reason-phrase];
//   * field-line = field-name ":" OWS field-value OWS; no whitespace / CTL in the name (5.1: whitespace before the colon MUST be
//     rejected by a server); a line starting with SP / HTAB is an obs-fold continuation of the previous field line (5.2) and is
//     unfolded to one SP (never allowed in front of the first field line);
//   * message body length by 6.3; sender rules: no Transfer-Encoding together with Content-Length (6.2), no Transfer-Encoding
//     in an HTTP/1.0 message (6.1), no Content-Length / Transfer-Encoding in a 1xx or 204 response (RFC 9110 8.6, RFC 9112 6.1),
//     only the final coding "chunked" is understood here.
// Bytes that are outside the grammar but cannot change the structure (CTLs other than CR / LF / whitespace, bytes >= 0x80,
// delimiter characters in a field name) are tolerated and only counted in Msg::grammar_only.
#pragma once
#include "http9112.hh"

namespace h9112e {
using h9112::is_digit; using h9112::is_hex; using h9112::is_ows; using h9112::is_tchar; using h9112::is_token;
using h9112::lower; using h9112::trim_ows;

enum Kind { REQUEST, RESPONSE };
enum Status { OK, INCOMPLETE, INVALID };
enum Framing { FR_NONE, FR_CL, FR_CHUNKED, FR_CLOSE };

struct Field { std::string name, value; bool folded = false; };
struct Msg {
  Kind kind = REQUEST;
  std::string method, target; int major = 0, minor = 0; int status = 0; std::string reason;
  std::vector<Field> fields, trailers;
  std::string body; std::vector<std::string> chunks;
  Framing framing = FR_NONE; uint64_t cl = 0;
  size_t begin = 0, hdr_end = 0, end = 0;
  unsigned grammar_only = 0;
};
struct Ctx { bool head = false; bool connect = false; bool eof = false; };

// obs-fold = OWS CRLF RWS, replaced by a single SP; used for the expected value of a supplied field value as well
static inline std::string unfold(const std::string &v) {
  std::string o; size_t i = 0;
  while (i < v.size()) {
    if (v[i] == '\r' && i + 2 < v.size() && v[i + 1] == '\n' && is_ows((unsigned char)v[i + 2])) {
      while (!o.empty() && is_ows((unsigned char)o.back())) o.pop_back();
      i += 2; while (i < v.size() && is_ows((unsigned char)v[i])) i++;
      o.push_back(' ');
      continue;
    }
    o.push_back(v[i++]);
  }
  return trim_ows(o);
}

namespace detail {
// 0 line, 1 incomplete, 2 invalid
static inline int line(const std::string &s, size_t pos, std::string &out, size_t &next, std::string &why) {
  size_t nl = s.find('\n', pos);
  if (nl == std::string::npos) {
    return 1;
  }
  if (nl == pos || s[nl - 1] != '\r') { why = "bare-lf"; return 2; }
  out = s.substr(pos, nl - 1 - pos);
  if (out.find('\r') != std::string::npos) { why = "bare-cr"; return 2; }
  next = nl + 1; return 0;
}
static inline bool is_ws_like(unsigned char c) { return c == ' ' || c == '\t' || c == 0x0b || c == 0x0c || c == '\r' || c == '\n'; }
static inline bool is_ctl(unsigned char c) { return c < 0x20 || c == 0x7f; }
static inline bool version(const std::string &v, int &mj, int &mn) {
  if (v.size() != 8 || v.compare(0, 5, "HTTP/") != 0 || !is_digit((unsigned char)v[5]) || v[6] != '.' || !is_digit((unsigned char)v[7])) return false;
  mj = v[5] - '0'; mn = v[7] - '0'; return true;
}
static inline int field_line(const std::string &ln, Field &f, unsigned &grammar_only, std::string &why) {
  size_t colon = ln.find(':');
  if (colon == std::string::npos) { why = "field-line-without-colon"; return 2; }
  f.name = ln.substr(0, colon);
  if (f.name.empty()) { why = "empty-field-name"; return 2; }
  for (unsigned char c : f.name) {
    if (is_ws_like(c) || is_ctl(c)) { why = "whitespace-or-ctl-in-field-name"; return 2; }
    if (!is_tchar(c)) grammar_only++;
  }
  f.value = trim_ows(ln.substr(colon + 1));
  for (unsigned char c : f.value) if (is_ctl(c) && c != '\t') grammar_only++;
  return 0;
}
static inline bool all_digits(const std::string &v) { if (v.empty()) return false; for (unsigned char c : v) if (!is_digit(c)) return false; return true; }
}  // namespace detail

static inline Status parse_one(const std::string &s, size_t pos, Kind kind, const Ctx &ctx, Msg &m, std::string &why) {
  using namespace detail;
  m = Msg(); m.kind = kind; m.begin = pos;
  std::string ln; size_t next = pos; int rc;
  if (pos >= s.size()) { why = "no-bytes"; return INCOMPLETE; }
  rc = line(s, pos, ln, next, why); if (rc == 1) { why = "incomplete-start-line"; return INCOMPLETE; } if (rc == 2) return INVALID;
  if (kind == REQUEST) {
    size_t s1 = ln.find(' '), s2 = ln.rfind(' ');
    if (s1 == std::string::npos || s2 == s1) { why = "request-line-shape"; return INVALID; }
    m.method = ln.substr(0, s1); m.target = ln.substr(s1 + 1, s2 - s1 - 1);
    if (!is_token(m.method)) { why = "request-line-method"; return INVALID; }
    if (m.target.empty()) { why = "request-line-empty-target"; return INVALID; }
    for (unsigned char c : m.target) { if (is_ws_like(c)) { why = "whitespace-in-request-target"; return INVALID; } if (is_ctl(c) || c >= 0x80) m.grammar_only++; }
    if (!version(ln.substr(s2 + 1), m.major, m.minor)) { why = "request-line-version"; return INVALID; }
  } else {
    if (ln.size() < 13 || !version(ln.substr(0, 8), m.major, m.minor) || ln[8] != ' ') { why = "status-line-shape"; return INVALID; }
    if (!is_digit((unsigned char)ln[9]) || !is_digit((unsigned char)ln[10]) || !is_digit((unsigned char)ln[11]) || ln[12] != ' ') { why = "status-line-shape"; return INVALID; }
    m.status = (ln[9] - '0') * 100 + (ln[10] - '0') * 10 + (ln[11] - '0');
    m.reason = ln.substr(13);
    for (unsigned char c : m.reason) if (is_ctl(c) && c != '\t') m.grammar_only++;
  }
  pos = next;
  for (;;) {
    rc = line(s, pos, ln, next, why); if (rc == 1) { why = "incomplete-header-section"; return INCOMPLETE; } if (rc == 2) return INVALID;
    pos = next;
    if (ln.empty()) break;
    if (is_ows((unsigned char)ln[0])) {
      if (m.fields.empty()) { why = "whitespace-line-before-first-field"; return INVALID; }
      Field &p = m.fields.back(); p.value = trim_ows(p.value + " " + trim_ows(ln)); p.folded = true;
      continue;
    }
    Field f; if (field_line(ln, f, m.grammar_only, why)) return INVALID;
    m.fields.push_back(f);
  }
  m.hdr_end = pos;
  // ---- message body length (RFC 9112 6.3) + sender rules
  std::vector<std::string> te, cl;
  for (auto &f : m.fields) { std::string n = lower(f.name); if (n == "transfer-encoding") te.push_back(f.value); else if (n == "content-length") cl.push_back(f.value); }
  if (!te.empty() && !cl.empty()) { why = "transfer-encoding-with-content-length"; return INVALID; }
  if (!te.empty() && (m.major < 1 || (m.major == 1 && m.minor == 0))) { why = "transfer-encoding-in-http10-message"; return INVALID; }
  if (te.size() > 1 || (te.size() == 1 && lower(te[0]) != "chunked")) { why = "transfer-encoding-not-plain-chunked"; return INVALID; }
  for (auto &v : cl) if (!all_digits(v) || v.size() > 15) { why = "content-length-syntax"; return INVALID; }
  for (auto &v : cl) if (v != cl[0]) { why = "content-length-conflict"; return INVALID; }
  bool bodiless = false;
  if (kind == RESPONSE) {
    bool nobody_status = (m.status >= 100 && m.status < 200) || m.status == 204;
    if (nobody_status && (!te.empty() || !cl.empty())) { why = "framing-field-in-1xx-or-204"; return INVALID; }
    bodiless = ctx.head || nobody_status || m.status == 304 || (ctx.connect && m.status >= 200 && m.status < 300);
  }
  if (bodiless) m.framing = FR_NONE;
  else if (!te.empty()) m.framing = FR_CHUNKED;
  else if (!cl.empty()) { m.framing = FR_CL; m.cl = strtoull(cl[0].c_str(), nullptr, 10); }
  else m.framing = kind == RESPONSE ? FR_CLOSE : FR_NONE;
  // ---- body
  if (m.framing == FR_CHUNKED) {
    for (;;) {
      rc = line(s, pos, ln, next, why); if (rc == 1) { why = "incomplete-chunk-size-line"; return INCOMPLETE; } if (rc == 2) { why = "chunk-size-line-" + why; return INVALID; }
      size_t i = 0; while (i < ln.size() && is_hex((unsigned char)ln[i])) i++;
      if (i == 0 || i > 15) { why = "chunk-size-syntax"; return INVALID; }
      if (i != ln.size()) { why = "chunk-size-line-syntax"; return INVALID; }   // chunk extensions are never expected from this sender
      uint64_t size = strtoull(ln.c_str(), nullptr, 16);
      pos = next;
      if (size == 0) break;
      if (s.size() - pos < size) { why = "incomplete-chunk-data"; return INCOMPLETE; }
      m.chunks.push_back(s.substr(pos, (size_t)size)); m.body.append(s, pos, (size_t)size); pos += (size_t)size;
      if (s.size() - pos < 2) { why = "incomplete-chunk-data"; return INCOMPLETE; }
      if (s[pos] != '\r' || s[pos + 1] != '\n') { why = "chunk-data-not-followed-by-crlf"; return INVALID; }
      pos += 2;
    }
    for (;;) {
      rc = line(s, pos, ln, next, why); if (rc == 1) { why = "incomplete-trailer-section"; return INCOMPLETE; } if (rc == 2) { why = "trailer-" + why; return INVALID; }
      pos = next;
      if (ln.empty()) break;
      Field f; if (field_line(ln, f, m.grammar_only, why)) { why = "trailer-" + why; return INVALID; }
      m.trailers.push_back(f);
    }
  } else if (m.framing == FR_CL) {
    if (s.size() - pos < m.cl) { why = "incomplete-body"; return INCOMPLETE; }
    m.body.assign(s, pos, (size_t)m.cl); pos += (size_t)m.cl;
  } else if (m.framing == FR_CLOSE) {
    if (!ctx.eof) { why = "close-delimited-body-on-open-connection"; return INCOMPLETE; }
    m.body.assign(s, pos, std::string::npos); pos = s.size();
  }
  m.end = pos;
  return OK;
}

// IMF-fixdate (RFC 9110 5.6.7): "Sun, 06 Nov 1994 08:49:37 GMT"
static inline bool is_imf_fixdate(const std::string &v) {
  static const char *D[] = {"Mon", "Tue", "Wed", "Thu", "Fri", "Sat", "Sun"};
  static const char *M[] = {"Jan", "Feb", "Mar", "Apr", "May", "Jun", "Jul", "Aug", "Sep", "Oct", "Nov", "Dec"};
  if (v.size() != 29) return false;
  bool ok = false; for (auto d : D) if (v.compare(0, 3, d) == 0) ok = true; if (!ok) return false;
  if (v.compare(3, 2, ", ") != 0) return false;
  ok = false; for (auto mo : M) if (v.compare(8, 3, mo) == 0) ok = true; if (!ok) return false;
  static const char *pat = "___, dd ___ dddd dd:dd:dd GMT";
  for (size_t i = 0; i < 29; i++) {
    if (pat[i] == 'd') { if (!is_digit((unsigned char)v[i])) return false; }
    else if (pat[i] != '_' && v[i] != pat[i]) return false;
  }
  return true;
}

}  // namespace h9112e
