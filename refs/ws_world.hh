// Shared harness world for the WebSocket targets (ws_emit: C32, ws_frames: C31).
// One event_base + evhttp + AF_UNIX abstract-namespace listener + one client connection per case; everything is
// torn down at the end of the case and the library-allocation / fd ledgers are compared.
// The base runs under the harness virtual clock; the clock never advances (no timeouts are involved), every loop
// turn is EVLOOP_NONBLOCK, and "quiescent" means a backend wait that reported nothing ready and no client-side progress.
#pragma once
#include "verif.h"
#include "sim.h"
#include <event2/event.h>
#include <event2/http.h>
#include <event2/listener.h>
#include <event2/buffer.h>
#include <event2/bufferevent.h>
#include <event2/ws.h>
#include <sys/socket.h>
#include <sys/un.h>
#include <unistd.h>
#include <fcntl.h>
#include <errno.h>
#include <string>
#include <vector>

namespace wsw {

struct Delivered { int type; std::string data; };

struct World {
  const char *prop = "C3x";
  struct event_base *base = nullptr; struct evhttp *http = nullptr; int cfd = -1;
  struct evws_connection *evws = nullptr;     // live session (NULL before the upgrade and after on_close)
  int sessions = 0, gencb_calls = 0, close_cb_calls = 0, new_session_failed = 0;
  std::vector<Delivered> got; int deliveries_after_close_cb = 0;
  size_t user_close_after = 0; uint16_t user_close_code = 1000; bool user_closed = false;   // on_msg calls evws_close at message #n
  std::string rx; bool peer_gone = false;     // bytes the server wrote; EOF / reset seen on the client socket
  int last_nready = 0; uint64_t passes = 0;
  int64_t live0 = 0; int fd_probe0 = -1;   // lowest free fd at case start (cheap fd-leak probe)
};
static World *G;

static void quiet_log(int, const char *) {}
// process-wide one-time setup (call from LLVMFuzzerInitialize)
static void init_once() { sim_mem_install(); event_set_log_callback(quiet_log); }

static int64_t wait_hook(const struct sim_wait_info *wi, void *) {
  G->last_nready += wi->nready;
  if (wi->timeout_us < 0 && wi->nready == 0) event_base_loopbreak(G->base);
  return 0;
}

static void on_close(struct evws_connection *e, void *arg) {
  World *w = (World *)arg;
  TR("  on_close");
  w->close_cb_calls++;
  if (w->evws == e) w->evws = nullptr;
}

static void on_msg(struct evws_connection *e, int type, const unsigned char *data, size_t len, void *arg) {
  World *w = (World *)arg;
  TR("  on_msg type=%d len=%zu %s", type, len, hexs(data, len, 24).c_str());
  if (w->close_cb_calls) w->deliveries_after_close_cb++;
  w->got.push_back({type, std::string((const char *)data, data ? len : 0)});
  if (w->user_close_after && w->got.size() == w->user_close_after && !w->user_closed) {
    TR("  on_msg: evws_close(%u)", w->user_close_code);
    w->user_closed = true; evws_close(e, w->user_close_code);
  }
}

static void gencb(struct evhttp_request *req, void *arg) {
  World *w = (World *)arg;
  w->gencb_calls++;
  struct evws_connection *e = evws_new_session(req, on_msg, w, 0);
  if (!e) { w->new_session_failed++; return; }
  w->sessions++; w->evws = e;
  evws_connection_set_closecb(e, on_close, w);
}

static void make_addr(struct sockaddr_un *sa, socklen_t *len, const char *tag) {
  memset(sa, 0, sizeof *sa); sa->sun_family = AF_UNIX;
  int n = snprintf(sa->sun_path + 1, sizeof sa->sun_path - 1, "verif-%s-%d", tag, (int)getpid());
  *len = (socklen_t)(offsetof(struct sockaddr_un, sun_path) + 1 + n);
}

// returns false when the machinery could not be set up (harness trouble)
static bool open_world(World &w, const char *tag) {
  G = &w;
  w.live0 = sim_mem_live_blocks; w.fd_probe0 = dup(0); if (w.fd_probe0 >= 0) close(w.fd_probe0);
  sim_clock_enable(SIM_START_US);
  sim_set_wait_hook(wait_hook, nullptr);
  w.base = event_base_new();
  if (!w.base) return false;
  w.http = evhttp_new(w.base);
  if (!w.http) return false;
  evhttp_set_gencb(w.http, gencb, &w);
  struct sockaddr_un sa; socklen_t sl; make_addr(&sa, &sl, tag);
  struct evconnlistener *l = evconnlistener_new_bind(w.base, nullptr, nullptr, LEV_OPT_CLOSE_ON_FREE | LEV_OPT_CLOSE_ON_EXEC, -1, (struct sockaddr *)&sa, (int)sl);
  if (!l) return false;
  if (!evhttp_bind_listener(w.http, l)) { evconnlistener_free(l); return false; }
  w.cfd = socket(AF_UNIX, SOCK_STREAM | SOCK_CLOEXEC, 0);
  if (w.cfd < 0) return false;
  if (connect(w.cfd, (struct sockaddr *)&sa, sl) != 0) return false;
  int fl = fcntl(w.cfd, F_GETFL); fcntl(w.cfd, F_SETFL, fl | O_NONBLOCK);
  return true;
}

// read whatever the server has written; returns bytes read
static size_t drain_client(World &w) {
  size_t total = 0; char buf[65536];
  while (!w.peer_gone) {
    ssize_t r = recv(w.cfd, buf, sizeof buf, 0);
    if (r > 0) { w.rx.append(buf, (size_t)r); total += (size_t)r; continue; }
    if (r == 0) { w.peer_gone = true; break; }
    if (errno == EINTR) continue;
    if (errno == EAGAIN || errno == EWOULDBLOCK) break;
    w.peer_gone = true; break;   // ECONNRESET: the server closed with unread input
  }
  return total;
}

// run the loop until nothing is ready any more and the client made no progress
static void pump(World &w) {
  for (int it = 0; it < 100000; it++) {
    w.last_nready = 0; w.passes++;
    event_base_loop(w.base, EVLOOP_NONBLOCK);
    size_t got = drain_client(w);
    if (w.last_nready == 0 && got == 0) return;
  }
  VERIF_FAIL("harness/pump-spin", "loop never became quiescent");
}

// write all bytes to the server (pumping when the socket buffer is full); returns false if the peer is gone
static bool client_write(World &w, const char *p, size_t n) {
  size_t off = 0; int stalls = 0;
  while (off < n) {
    ssize_t r = send(w.cfd, p + off, n - off, MSG_NOSIGNAL);
    if (r > 0) { off += (size_t)r; stalls = 0; continue; }
    if (r < 0 && errno == EINTR) continue;
    if (r < 0 && (errno == EAGAIN || errno == EWOULDBLOCK)) {
      if (++stalls > 1000) VERIF_FAIL("harness/write-stall", "server does not read");
      pump(w); continue; }
    return false;   // EPIPE / ECONNRESET
  }
  return true;
}

// Sends the upgrade request, returns the raw response head (through the blank line) in `head`;
// anything after it stays in w.rx.  false if no complete head arrived.
static bool handshake(World &w, const std::string &request, std::string &head) {
  if (!client_write(w, request.data(), request.size())) return false;
  pump(w);
  size_t e = w.rx.find("\r\n\r\n");
  if (e == std::string::npos) return false;
  head = w.rx.substr(0, e + 4); w.rx.erase(0, e + 4);
  return true;
}

static int status_of(const std::string &head) {
  if (head.size() < 12 || head.compare(0, 5, "HTTP/") != 0) return -1;
  size_t sp = head.find(' '); if (sp == std::string::npos) return -1;
  return atoi(head.c_str() + sp + 1);
}
// value of a response header (first occurrence, name compared case-insensitively), "" + found=false if absent
static std::string header_of(const std::string &head, const char *name, bool *found) {
  size_t nl = strlen(name); size_t pos = head.find("\r\n");
  *found = false;
  while (pos != std::string::npos && pos + 2 < head.size()) {
    size_t ls = pos + 2; size_t le = head.find("\r\n", ls); if (le == std::string::npos || le == ls) break;
    if (le - ls > nl && head[ls + nl] == ':' && strncasecmp(head.c_str() + ls, name, nl) == 0) {
      size_t vs = ls + nl + 1; while (vs < le && (head[vs] == ' ' || head[vs] == '\t')) vs++;
      size_t ve = le; while (ve > vs && (head[ve - 1] == ' ' || head[ve - 1] == '\t')) ve--;
      *found = true; return head.substr(vs, ve - vs);
    }
    pos = le;
  }
  return "";
}

// tear everything down; returns the number of on_close calls made by the teardown itself
static void close_world(World &w, const char *leak_key, const char *fd_key) {
  if (w.evws) evws_connection_free(w.evws);
  if (w.cfd >= 0) { close(w.cfd); w.cfd = -1; }
  if (w.http) { evhttp_free(w.http); w.http = nullptr; }
  if (w.base) { event_base_free(w.base); w.base = nullptr; }
  CHECK(sim_mem_live_blocks == w.live0, leak_key, "library allocations outstanding after teardown: %lld blocks", (long long)(sim_mem_live_blocks - w.live0));
  int probe = dup(0); if (probe >= 0) close(probe);
  CHECK(probe == w.fd_probe0, fd_key, "lowest free fd is %d after teardown, was %d at case start (an fd leaked)", probe, w.fd_probe0);
  G = nullptr;
}

// deterministic filler for large payloads (pure function of seed)
static std::string filler(uint32_t seed, size_t n, bool text) {
  std::string s; s.resize(n); uint32_t x = seed * 2654435761u + 0x9e3779b9u;
  for (size_t i = 0; i < n; i++) { x ^= x << 13; x ^= x >> 17; x ^= x << 5; uint8_t c = (uint8_t)(x >> 11);
    if (text) c = (uint8_t)(1 + c % 255); s[i] = (char)c; }   // text: any byte but NUL
  return s;
}

}  // namespace wsw
