// Reference DNS message codec, written from RFC 1035 §4.1 (message format, name compression §4.1.4),
// RFC 6891 §6.1.2 (OPT pseudo-RR) and RFC 3596 (AAAA).  Header-only.  NOT derived from evdns.c.
//
//  * decode():   tolerant structural decoder used as the oracle for replies (C33): decodes the header, the
//                question section and then RRs one by one; stops at the first RR that is not decodable and
//                records how far it got (so an oracle can tell "complete" from "well-formed prefix").
//  * decode_query_strict(): what a careful nameserver would demand of a query datagram (C36).
//  * Builder:    byte-level message builder for valid and deliberately broken replies.
#pragma once
#include <stdint.h>
#include <string.h>
#include <string>
#include <vector>

namespace dnsref {

enum { T_A = 1, T_NS = 2, T_CNAME = 5, T_SOA = 6, T_PTR = 12, T_TXT = 16, T_AAAA = 28, T_OPT = 41, C_IN = 1 };
enum { F_QR = 0x8000, F_OPMASK = 0x7800, F_AA = 0x0400, F_TC = 0x0200, F_RD = 0x0100, F_RA = 0x0080, F_RCODE = 0x000f };

typedef std::vector<std::string> Labels;

static inline char lower(char c) { return (c >= 'A' && c <= 'Z') ? (char)(c + 32) : c; }
static inline bool eq_nocase(const std::string &a, const std::string &b) {
  if (a.size() != b.size()) return false;
  for (size_t i = 0; i < a.size(); i++) if (lower(a[i]) != lower(b[i])) return false;
  return true;
}
static inline std::string join(const Labels &l) { std::string s; for (size_t i = 0; i < l.size(); i++) { if (i) s.push_back('.'); s += l[i]; } return s; }
static inline size_t wire_len(const Labels &l) { size_t n = 1; for (auto &x : l) n += 1 + x.size(); return n; }
// a label sequence whose dotted rendering is unambiguous as a C string (no '.', no NUL inside labels)
static inline bool plain_labels(const Labels &l) { for (auto &x : l) for (char c : x) if (c == '.' || c == 0) return false; return true; }

// Split presentation text at dots WITHOUT escape processing (evdns documents none): "a.b." -> {a,b} + absolute.
// ok=false when the text has an empty label that is not the single trailing root label, a label > 63 octets or
// a total wire length > 255 octets (RFC 1035 §2.3.4) — i.e. the name "cannot be encoded as valid labels".
struct TextName { Labels labels; bool absolute = false; bool ok = true; bool empty_label = false, long_label = false, too_long = false; };
static inline TextName split_text(const std::string &t) {
  TextName r; std::string cur; std::vector<std::string> parts;
  for (char c : t) { if (c == '.') { parts.push_back(cur); cur.clear(); } else cur.push_back(c); }
  parts.push_back(cur);
  // "": one empty part = root. "a." = {a,""} -> absolute.
  if ((parts.size() == 1 && parts[0].empty()) || t == ".") { r.absolute = true; return r; }   // "" and "." both name the root
  if (parts.back().empty()) { r.absolute = true; parts.pop_back(); }
  for (auto &p : parts) { if (p.empty()) { r.empty_label = true; r.ok = false; } if (p.size() > 63) { r.long_label = true; r.ok = false; } r.labels.push_back(p); }
  if (wire_len(r.labels) > 255) { r.too_long = true; r.ok = false; }
  return r;
}

// ---------------------------------------------------------------------------------------- decoding
struct NameResult { bool ok = false; Labels labels; bool compressed = false; bool fwd_ptr = false; bool too_long = false; };

// Decode a possibly compressed name at *off; on success *off is just past the name's in-place encoding.
static inline NameResult parse_name(const uint8_t *p, size_t n, size_t *off) {
  NameResult r; size_t j = *off; size_t after = (size_t)-1; int hops = 0; size_t total = 1;
  for (;;) {
    if (j >= n) return r;
    uint8_t c = p[j];
    if ((c & 0xc0) == 0xc0) {
      if (j + 1 >= n) return r;
      size_t tgt = ((size_t)(c & 0x3f) << 8) | p[j + 1];
      if (after == (size_t)-1) after = j + 2;
      if (tgt >= j) r.fwd_ptr = true;      // RFC: pointer to a PRIOR occurrence; forward/self pointers are noted, loops are fatal
      if (tgt >= n) return r;
      if (++hops > 255) return r;           // more hops than a 255-octet name can have labels: a loop
      r.compressed = true; j = tgt; continue;
    }
    if (c & 0xc0) return r;                 // 0x40 / 0x80 label types are not defined for this use
    j++;
    if (c == 0) break;
    if (j + c > n) return r;
    r.labels.push_back(std::string((const char *)p + j, c));
    total += 1 + c; j += c;
    if (total > 255) r.too_long = true;
    if (total > 4096) return r;
  }
  *off = (after == (size_t)-1) ? j : after;
  r.ok = true; return r;
}

struct Question { Labels name; uint16_t type = 0, klass = 0; bool compressed = false; };
struct RR { Labels name; uint16_t type = 0, klass = 0; uint32_t ttl = 0; size_t rdoff = 0; uint16_t rdlen = 0; bool name_too_long = false; };
struct Msg {
  bool hdr_ok = false; uint16_t id = 0, flags = 0, qd = 0, an = 0, ns = 0, ar = 0;
  std::vector<Question> q; bool q_complete = false;
  std::vector<RR> answers; bool an_complete = false; size_t an_end = 0;
  std::vector<RR> authority; bool ns_complete = false;
  std::vector<RR> additional; bool ar_complete = false;
  size_t end = 0;            // offset just past the last decoded element
  bool trailing = false;     // bytes left after the last section
  int rcode() const { return flags & F_RCODE; }
};
static inline uint16_t rd16(const uint8_t *p) { return (uint16_t)((p[0] << 8) | p[1]); }
static inline uint32_t rd32(const uint8_t *p) { return ((uint32_t)p[0] << 24) | ((uint32_t)p[1] << 16) | ((uint32_t)p[2] << 8) | p[3]; }

static inline bool parse_rr(const uint8_t *p, size_t n, size_t *off, RR *out) {
  NameResult nm = parse_name(p, n, off); if (!nm.ok) return false;
  if (*off + 10 > n) return false;
  out->name = nm.labels; out->name_too_long = nm.too_long;
  out->type = rd16(p + *off); out->klass = rd16(p + *off + 2); out->ttl = rd32(p + *off + 4); out->rdlen = rd16(p + *off + 8);
  *off += 10; out->rdoff = *off;
  if (*off + out->rdlen > n) return false;
  *off += out->rdlen; return true;
}
static inline Msg decode(const uint8_t *p, size_t n) {
  Msg m; if (n < 12) return m;
  m.hdr_ok = true; m.id = rd16(p); m.flags = rd16(p + 2); m.qd = rd16(p + 4); m.an = rd16(p + 6); m.ns = rd16(p + 8); m.ar = rd16(p + 10);
  size_t off = 12; m.end = off;
  for (unsigned i = 0; i < m.qd; i++) {
    NameResult nm = parse_name(p, n, &off); if (!nm.ok || off + 4 > n) return m;
    Question q; q.name = nm.labels; q.compressed = nm.compressed; q.type = rd16(p + off); q.klass = rd16(p + off + 2); off += 4; m.q.push_back(q); m.end = off;
  }
  m.q_complete = true;
  for (unsigned i = 0; i < m.an; i++) { RR r; if (!parse_rr(p, n, &off, &r)) { m.an_end = m.end; return m; } m.answers.push_back(r); m.end = off; }
  m.an_complete = true; m.an_end = off;
  for (unsigned i = 0; i < m.ns; i++) { RR r; if (!parse_rr(p, n, &off, &r)) return m; m.authority.push_back(r); m.end = off; }
  m.ns_complete = true;
  for (unsigned i = 0; i < m.ar; i++) { RR r; if (!parse_rr(p, n, &off, &r)) return m; m.additional.push_back(r); m.end = off; }
  m.ar_complete = true; m.trailing = off < n;
  return m;
}
// name stored in the RDATA of an RR (CNAME/PTR/NS): compression is relative to the whole message
static inline NameResult rdata_name(const uint8_t *p, size_t n, const RR &r) {
  size_t off = r.rdoff; NameResult nm = parse_name(p, n, &off);
  return nm;
}

// ---- strict query decoder (what C36 demands of every datagram the resolver emits)
struct Query { bool ok = false; const char *why = ""; uint16_t id = 0, flags = 0; Labels name; uint16_t type = 0, klass = 0; bool has_opt = false; uint16_t opt_size = 0; size_t qname_off = 12, qname_len = 0; };
static inline Query decode_query_strict(const uint8_t *p, size_t n) {
  Query q;
  if (n < 12) { q.why = "shorter than a header"; return q; }
  q.id = rd16(p); q.flags = rd16(p + 2);
  uint16_t qd = rd16(p + 4), an = rd16(p + 6), ns = rd16(p + 8), ar = rd16(p + 10);
  if (q.flags & F_QR) { q.why = "QR set in a query"; return q; }
  if (q.flags & F_OPMASK) { q.why = "opcode is not QUERY"; return q; }
  if (q.flags & (F_TC | F_RCODE | F_AA | F_RA | 0x0040)) { q.why = "TC/AA/RA/Z/RCODE set in a query"; return q; }
  if (qd != 1) { q.why = "QDCOUNT != 1"; return q; }
  if (an || ns) { q.why = "ANCOUNT/NSCOUNT != 0"; return q; }
  if (ar > 1) { q.why = "ARCOUNT > 1"; return q; }
  size_t off = 12; size_t total = 1;
  for (;;) {
    if (off >= n) { q.why = "question name runs past the end"; return q; }
    uint8_t c = p[off++];
    if (c == 0) break;
    if (c & 0xc0) { q.why = "compression/extended label in a query name"; return q; }
    if (off + c > n) { q.why = "label runs past the end"; return q; }
    q.name.push_back(std::string((const char *)p + off, c)); off += c; total += 1 + c;
    if (total > 255) { q.why = "question name longer than 255 octets"; return q; }
  }
  q.qname_len = off - 12;
  if (off + 4 > n) { q.why = "no room for QTYPE/QCLASS"; return q; }
  q.type = rd16(p + off); q.klass = rd16(p + off + 2); off += 4;
  if (ar == 1) {
    if (off + 11 > n) { q.why = "additional RR truncated"; return q; }
    if (p[off] != 0) { q.why = "OPT owner name is not the root"; return q; }
    if (rd16(p + off + 1) != T_OPT) { q.why = "additional RR is not OPT"; return q; }
    q.opt_size = rd16(p + off + 3);
    if (rd32(p + off + 5) != 0) { q.why = "OPT extended flags not 0"; return q; }
    uint16_t rdl = rd16(p + off + 9); off += 11;
    if (off + rdl > n) { q.why = "OPT rdata past the end"; return q; }
    off += rdl; q.has_opt = true;
  }
  if (off != n) { q.why = "trailing bytes after the last section"; return q; }
  q.ok = true; return q;
}

// ---------------------------------------------------------------------------------------- building
struct Builder {
  std::vector<uint8_t> b;
  void u8(unsigned v) { b.push_back((uint8_t)v); }
  void u16(unsigned v) { b.push_back((uint8_t)(v >> 8)); b.push_back((uint8_t)v); }
  void u32(uint32_t v) { u16(v >> 16); u16(v & 0xffff); }
  void raw(const void *p, size_t n) { const uint8_t *q = (const uint8_t *)p; b.insert(b.end(), q, q + n); }
  void header(uint16_t id, uint16_t flags, uint16_t qd, uint16_t an, uint16_t ns, uint16_t ar) { u16(id); u16(flags); u16(qd); u16(an); u16(ns); u16(ar); }
  void set16(size_t off, unsigned v) { b[off] = (uint8_t)(v >> 8); b[off + 1] = (uint8_t)v; }
  void name(const Labels &l) { for (auto &x : l) { u8((unsigned)x.size()); raw(x.data(), x.size()); } u8(0); }
  void labels_then_ptr(const Labels &l, unsigned ptr) { for (auto &x : l) { u8((unsigned)x.size()); raw(x.data(), x.size()); } u16(0xc000 | (ptr & 0x3fff)); }
  void ptr(unsigned off) { u16(0xc000 | (off & 0x3fff)); }
  void question(const Labels &l, uint16_t type, uint16_t klass) { name(l); u16(type); u16(klass); }
  // RR header with the owner already written; returns offset of RDLENGTH so the caller can patch it
  size_t rr_fixed(uint16_t type, uint16_t klass, uint32_t ttl, uint16_t rdlen) { u16(type); u16(klass); u32(ttl); size_t o = b.size(); u16(rdlen); return o; }
  size_t size() const { return b.size(); }
};

}  // namespace dnsref
