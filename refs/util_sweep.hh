// Systematic sub-space sweeps for the pure-function targets (C40 IPv4 addresses, C46 generator states).
//
// Besides the case decoded from its bytes, every call of LLVMFuzzerTestOneInput may process the next few
// elements of a linear index space [0,total).  The space is split evenly over the workers (`sweep_workers`
// parameter, worker index taken from the "-w<N>/" directory name in libFuzzer's -artifact_prefix, or from the
// `sweep_worker` parameter); a worker spreads its slice over its -runs= budget:
//   * if ceil(slice / runs) <= sweep_kmax  -> the whole slice is visited (thorough tier): all workers together
//     enumerate [0,total) exactly once; the evidence counter "<name>_swept" then equals `total`;
//   * otherwise (quick tier) only `sweep_kquick` elements per case are visited, in blocks spread evenly over
//     the slice, and the counter shows how many.
// A sweep element that fails is NOT reported from the running input (whose bytes have nothing to do with it):
// the target writes a self-contained replay file "crash-sweep-..." (bytes that decode to exactly that element
// through the normal choice-source path) into the artifact directory and exits, so the driver reproduces, shrinks
// and reports it like any other artifact, and a case stays a pure function of its bytes.
#pragma once
#include "verif.h"
#include <string>
#include <unistd.h>

struct SweepArgs {
  long runs = -1; int worker = -1; std::string artdir;
  void parse(int *argc, char ***argv) {
    for (int i = 1; i < *argc; i++) {
      const char *a = (*argv)[i];
      if (!strncmp(a, "-runs=", 6)) runs = atol(a + 6);
      if (!strncmp(a, "-artifact_prefix=", 17)) {
        artdir = a + 17;
        // .../<target>-w<N>/
        std::string d = artdir; while (!d.empty() && d.back() == '/') d.pop_back();
        size_t p = d.rfind("-w");
        if (p != std::string::npos && p + 2 < d.size()) {
          bool dig = true; for (size_t k = p + 2; k < d.size(); k++) if (d[k] < '0' || d[k] > '9') dig = false;
          if (dig) worker = atoi(d.c_str() + p + 2);
        }
      }
    }
    long pw = verif_param("sweep_worker", -1); if (pw >= 0) worker = (int)pw;
    long pr = verif_param("sweep_runs", -1); if (pr > 0) runs = pr;
  }
};

struct Sweep {
  const char *name; uint64_t total = 0, begin = 0, end = 0, cursor = 0, per_case = 0, stride = 0; bool full = false, active = false;
  std::string counter;
  void init(const char *nm, uint64_t tot, const SweepArgs &a) {
    name = nm; total = tot; counter = std::string(nm) + "_swept";
    long W = verif_param("sweep_workers", 16), kmax = verif_param("sweep_kmax", 512), kq = verif_param("sweep_kquick", 16);
    if (verif_param("sweep_off", 0) || a.worker < 0 || a.worker >= W || a.runs <= 0) return;
    begin = total / (uint64_t)W * (uint64_t)a.worker; end = (a.worker == W - 1) ? total : total / (uint64_t)W * (uint64_t)(a.worker + 1);
    uint64_t slice = end - begin, budget = (uint64_t)a.runs - (uint64_t)a.runs / 8;   // libFuzzer also spends runs on seeds
    if (budget == 0) budget = 1;
    uint64_t need = (slice + budget - 1) / budget;
    if (need <= (uint64_t)kmax) { full = true; per_case = need ? need : 1; stride = per_case; }
    else { full = false; per_case = (uint64_t)kq; stride = slice / budget; if (stride < per_case) stride = per_case; }
    cursor = begin; active = per_case > 0;
  }
  // next block [lo,hi) for this case; false when the slice is done
  bool next(uint64_t *lo, uint64_t *hi) {
    if (!active || cursor >= end) return false;
    *lo = cursor; *hi = cursor + per_case; if (*hi > end) *hi = end;
    cursor += stride;
    verif_class_n(counter.c_str(), *hi - *lo);
    return true;
  }
};

// Write the replay bytes for a failing sweep element and stop this worker.
[[noreturn]] static inline void sweep_fail(const SweepArgs &a, const char *label, const uint8_t *bytes, size_t n, const char *key, const char *msg) {
  fprintf(stderr, "\nSWEEP-FAIL key=%s %s msg=%s\n", key, label, msg);
  if (!a.artdir.empty()) {
    std::string p = a.artdir + "crash-sweep-" + label;
    FILE *f = fopen(p.c_str(), "wb"); if (f) { fwrite(bytes, 1, n, f); fclose(f); fprintf(stderr, "replay bytes written to %s\n", p.c_str()); }
  }
  fflush(stderr);
  verif_stats_flush();
  _exit(78);
}
