// RFC 3986 reference: Appendix B component split (regex semantics written out by hand), the
// authority sub-split of section 3.2, the character-level validity rules of sections 3.1-3.5 and the
// recomposition of section 5.3.  Written from the RFC text, not from libevent's http.c.
//
//   Appendix B:  ^(([^:/?#]+):)?(//([^/?#]*))?([^?#]*)(\?([^#]*))?(#(.*))?
//                  scheme = $2, authority = $4 (present iff $3 matched), path = $5,
//                  query = $7 (present iff $6 matched), fragment = $9 (present iff $8 matched)
#pragma once
#include <string>
#include <string.h>

namespace uri3986 {

struct Opt {
  bool has = false; std::string v;
  bool operator==(const Opt &o) const { return has == o.has && (!has || v == o.v); }
  bool operator!=(const Opt &o) const { return !(*this == o); }
};
static inline Opt some(const std::string &s) { Opt o; o.has = true; o.v = s; return o; }

struct Parts { Opt scheme, authority, query, fragment; std::string path; };

// The tail of Appendix B from group 5 on: path [ "?" query ] [ "#" fragment ]
static inline void split_pqf(const std::string &s, size_t i, std::string *path, Opt *query, Opt *fragment) {
  size_t n = s.size(), j = i;
  while (j < n && s[j] != '?' && s[j] != '#') j++;                 // ([^?#]*)
  *path = s.substr(i, j - i);
  *query = Opt(); *fragment = Opt();
  if (j < n && s[j] == '?') { size_t k = j + 1; while (k < n && s[k] != '#') k++;   // (\?([^#]*))?
    *query = some(s.substr(j + 1, k - j - 1)); j = k; }
  if (j < n && s[j] == '#') *fragment = some(s.substr(j + 1));      // (#(.*))?
}

static inline Parts split_b(const std::string &s) {
  Parts p; size_t n = s.size(), i = 0;
  // (([^:/?#]+):)?   -- greedy run of non-delimiters, must be non-empty and followed by ':'
  size_t j = 0; while (j < n && s[j] != ':' && s[j] != '/' && s[j] != '?' && s[j] != '#') j++;
  if (j > 0 && j < n && s[j] == ':') { p.scheme = some(s.substr(0, j)); i = j + 1; }
  // (//([^/?#]*))?
  if (i + 1 < n && s[i] == '/' && s[i + 1] == '/') {
    size_t k = i + 2; while (k < n && s[k] != '/' && s[k] != '?' && s[k] != '#') k++;
    p.authority = some(s.substr(i + 2, k - i - 2)); i = k;
  }
  split_pqf(s, i, &p.path, &p.query, &p.fragment);
  return p;
}

// ---------------------------------------------------------------- character classes (section 2)
static inline bool is_alpha(unsigned char c) { return (c >= 'a' && c <= 'z') || (c >= 'A' && c <= 'Z'); }
static inline bool is_digit(unsigned char c) { return c >= '0' && c <= '9'; }
static inline bool is_hex(unsigned char c) { return is_digit(c) || (c >= 'a' && c <= 'f') || (c >= 'A' && c <= 'F'); }
static inline bool is_unreserved(unsigned char c) { return is_alpha(c) || is_digit(c) || c == '-' || c == '.' || c == '_' || c == '~'; }
static inline bool is_subdelim(unsigned char c) { return c && strchr("!$&'()*+,;=", c) != NULL; }

// *( unreserved / pct-encoded / sub-delims / <any of extra> )
static inline bool chars_ok(const std::string &s, const char *extra, bool pct = true) {
  for (size_t i = 0; i < s.size(); i++) {
    unsigned char c = s[i];
    if (is_unreserved(c) || is_subdelim(c) || (c && strchr(extra, c))) continue;
    if (pct && c == '%' && i + 2 < s.size() && is_hex(s[i + 1]) && is_hex(s[i + 2])) { i += 2; continue; }   // "%" HEXDIG HEXDIG
    return false;
  }
  return true;
}
static inline bool valid_scheme(const std::string &s) {      // ALPHA *( ALPHA / DIGIT / "+" / "-" / "." )
  if (s.empty() || !is_alpha(s[0])) return false;
  for (size_t i = 1; i < s.size(); i++) { unsigned char c = s[i]; if (!is_alpha(c) && !is_digit(c) && c != '+' && c != '-' && c != '.') return false; }
  return true;
}
static inline bool valid_userinfo(const std::string &s) { return chars_ok(s, ":"); }
static inline bool valid_regname(const std::string &s) { return chars_ok(s, ""); }
static inline bool valid_port(const std::string &s) { for (unsigned char c : s) if (!is_digit(c)) return false; return true; }
static inline bool valid_path_chars(const std::string &s) { return chars_ok(s, ":@/"); }     // *( pchar / "/" )
static inline bool valid_query_chars(const std::string &s) { return chars_ok(s, ":@/?"); }   // *( pchar / "/" / "?" )

// IP-literal = "[" ( IPv6address / IPvFuture ) "]".  kind: 0 = not an IP-literal, 1 = IPv6-shaped, 2 = IPvFuture.
// For IPv6address only the alphabet (HEXDIG ":" ".") is judged here; the address structure is another
// property's business (evutil_inet_pton).
struct IpLit { int kind; bool ok; bool future_empty_tail; };
static inline IpLit ip_literal(const std::string &h) {
  IpLit r = {0, false, false};
  if (h.size() < 2 || h[0] != '[' || h[h.size() - 1] != ']') return r;
  std::string in = h.substr(1, h.size() - 2);
  if (!in.empty() && (in[0] == 'v' || in[0] == 'V')) {
    // "v" 1*HEXDIG "." 1*( unreserved / sub-delims / ":" )
    r.kind = 2; size_t i = 1, d = 0;
    while (i < in.size() && is_hex(in[i])) { i++; d++; }
    if (d == 0 || i >= in.size() || in[i] != '.') return r;
    std::string tail = in.substr(i + 1);
    if (tail.empty()) { r.future_empty_tail = true; return r; }
    r.ok = chars_ok(tail, ":", false);
    return r;
  }
  r.kind = 1; r.ok = !in.empty();
  for (unsigned char c : in) if (!is_hex(c) && c != ':' && c != '.') r.ok = false;
  return r;
}

// ---------------------------------------------------------------- authority = [ userinfo "@" ] host [ ":" port ]
struct Auth { bool ok = false; Opt userinfo; std::string host; Opt port; bool bracketed = false; };
static inline Auth split_authority(const std::string &a) {
  Auth r; std::string rest = a;
  size_t at = a.find('@');
  if (at != std::string::npos) { r.userinfo = some(a.substr(0, at)); rest = a.substr(at + 1); }
  if (rest.find('@') != std::string::npos) return r;            // neither host nor port may contain "@"
  if (!rest.empty() && rest[0] == '[') {
    size_t rb = rest.find(']');
    if (rb == std::string::npos) return r;
    r.host = rest.substr(0, rb + 1); r.bracketed = true;
    std::string tail = rest.substr(rb + 1);
    if (!tail.empty()) { if (tail[0] != ':') return r; r.port = some(tail.substr(1)); }
  } else {
    size_t c = rest.find(':');                                    // reg-name / IPv4address contain no ":"
    if (c == std::string::npos) r.host = rest;
    else { r.host = rest.substr(0, c); r.port = some(rest.substr(c + 1)); }
  }
  r.ok = true;
  return r;
}

// section 5.3 component recomposition
static inline std::string recompose(const Opt &scheme, const Opt &authority, const std::string &path, const Opt &query, const Opt &fragment) {
  std::string r;
  if (scheme.has) { r += scheme.v; r += ":"; }
  if (authority.has) { r += "//"; r += authority.v; }
  r += path;
  if (query.has) { r += "?"; r += query.v; }
  if (fragment.has) { r += "#"; r += fragment.v; }
  return r;
}

} // namespace uri3986
