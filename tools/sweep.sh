#!/bin/bash
# usage: [TIER=thorough] tools/sweep.sh "<ids>" [workers] [seed]  — run checks sequentially, summarize into build/sweep.log
W=${2:-8}; S=${3:-1}; TIER=${TIER:-quick}; SUF=""; [ $TIER = thorough ] && SUF="-thorough"
mkdir -p /verif/build
for id in $1; do
  start=$(date +%s)
  VERIF_SEED=$S /verif/check $id --tier $TIER --workers $W > /verif/build/sweep-$id$SUF.out 2>&1; rc=$?
  echo "$(date +%H:%M:%S) $id rc=$rc $(( $(date +%s) - start ))s $(grep -E "evaluations" /verif/build/sweep-$id$SUF.out | head -1)" >> /verif/build/sweep$SUF.log
  grep -E "VIOLATION|BROKEN|KNOWN-FINDING|key=" /verif/build/sweep-$id$SUF.out | head -6 >> /verif/build/sweep$SUF.log
done
echo "SWEEP DONE $(date +%H:%M:%S)" >> /verif/build/sweep$SUF.log
