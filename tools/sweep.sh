#!/bin/bash
# usage: tools/sweep.sh "<ids>" [workers] [seed]  — run quick checks sequentially, summarize into build/sweep.log
W=${2:-8}; S=${3:-1}
mkdir -p /verif/build
for id in $1; do
  start=$(date +%s)
  VERIF_SEED=$S /verif/check $id --tier quick --workers $W > /verif/build/sweep-$id.out 2>&1; rc=$?
  echo "$(date +%H:%M:%S) $id rc=$rc $(( $(date +%s) - start ))s $(grep -E "evaluations" /verif/build/sweep-$id.out | head -1)" >> /verif/build/sweep.log
  grep -E "VIOLATION|BROKEN|KNOWN-FINDING|key=" /verif/build/sweep-$id.out | head -6 >> /verif/build/sweep.log
done
echo "SWEEP DONE $(date +%H:%M:%S)" >> /verif/build/sweep.log
