#!/usr/bin/env python3
"""Regenerate DESIGN.md §4-bis (per-property 'as built' summary) from props/*.json."""
import json, glob, os, re
rows = []
for f in sorted(glob.glob('/verif/props/C*.json')):
    c = json.load(open(f))
    pid = c['id']
    tg = ", ".join("`props/%s.cc`" % t['name'] for t in c['targets'])
    muts = len(glob.glob('/verif/mutants/%s-*.patch' % pid))
    rows.append((pid, tg, c['level'], muts, c.get('assumptions', []), c['rule']))
ready = set(open('/verif/props/ready.txt').read().split()) if os.path.exists('/verif/props/ready.txt') else set()
out = ["## 4-bis. As built: per-property summary", "",
       "Generated from `props/<ID>.json` (which is also what `MANIFEST.json` and the evidence files quote). The generator and",
       "non-trivial rule of each check are the `rule` text of its json; code-derived corners and narrowed sub-domains are its",
       "`assumptions`. Deviations from the §4 plan are listed there per property. `registered` = claimed in MANIFEST.json.", "",
       "| id | target(s) | level | kept mutants | registered |", "|---|---|---|---|---|"]
for pid, tg, lvl, muts, ass, rule in rows:
    out.append("| %s | %s | %s | %d | %s |" % (pid, tg, lvl, muts, "yes" if pid in ready else "not yet"))
out.append("")
for pid, tg, lvl, muts, ass, rule in rows:
    out.append("**%s** — %s" % (pid, rule))
    if ass:
        out.append("")
        out.append("Assumptions / code-derived corners: " + " · ".join(a.rstrip('.') for a in ass) + ".")
    out.append("")
s = open('/verif/DESIGN.md').read()
if "## 4-bis." in s:
    a = s.index("## 4-bis."); b = s.index("## 5. ")
    s = s[:a] + "\n".join(out) + "\n---------------------------------------------------------------------------------------\n\n" + s[b:]
else:
    b = s.index("## 5. ")
    s = s[:b] + "\n".join(out) + "\n---------------------------------------------------------------------------------------\n\n" + s[b:]
open('/verif/DESIGN.md', 'w').write(s)
print("§4-bis regenerated:", len(rows), "properties")
