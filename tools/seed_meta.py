#!/usr/bin/env python3
# usage: tools/seed_meta.py <dir-name> <property> <caught|missed> "<keys/what>" "<breaks>" "<needs>"  — writes seeded/<dir>/meta.json
import json, sys
d, prop, verdict, keys, breaks, needs = sys.argv[1:7]
m = {"property": prop, "source": "independent sub-agent (given only the property text and a scratch worktree)", "breaks": breaks, "needs": needs,
     "confirmed": "tools/confirm_seed.sh %s: builds; demo rc=1 with / rc=0 without; ctest -E '^regress' 68/68 with the patch" % prop,
     "ran": ["tools/seed_batch.sh (tools/confirm_seed.sh %s; tools/mutant.sh %s seeded/%s/patch.diff)" % (prop, prop, d)]}
if verdict == "caught": m["caught_by"] = {prop: "quick tier: VIOLATION key=" + keys}
else: m["caught_by"] = {}; m["missed"] = keys
json.dump(m, open("/verif/seeded/%s/meta.json" % d, "w"), indent=1)
