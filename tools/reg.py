#!/usr/bin/env python3
"""tools/reg.py PROP fixed|open COMMIT KEY TARGET REPLAY WHAT  — add an entry to known_findings.json (renames known-* to regress-* for fixed)."""
import json, os, sys
prop, status, commit, key, target, replay, what = sys.argv[1:8]
p = '/verif/known_findings.json'; d = json.load(open(p))
if status == 'fixed' and replay and os.path.basename(replay).startswith('known-'):
    new = os.path.join(os.path.dirname(replay), 'regress-' + os.path.basename(replay)[6:])
    if os.path.exists('/verif/' + replay): os.rename('/verif/' + replay, '/verif/' + new)
    replay = new
e = {"property": prop, "status": status, "key": key, "target": target, "replay": replay}
if status == 'fixed':
    e["commit"] = commit; e["what"] = "fixed: property=%s %s %s" % (prop, commit, what)
else:
    e["what"] = what
d['findings'] = [x for x in d['findings'] if not (x['property'] == prop and x['key'] == key)] + [e]
json.dump(d, open(p, 'w'), indent=1)
print("registered", prop, status, key)
