#!/usr/bin/env python3
"""Regenerate the 'Status' paragraph at the top of DESIGN.md from the repository state."""
import json, subprocess, glob, re
base = open('/root/.vp/repo_root_sha').read().strip()
log = subprocess.check_output(['git', '-C', '/repo', 'log', '--oneline', base + '..HEAD']).decode().splitlines()
nfix = sum(1 for l in log if ' fix:' in l); nother = len(log) - nfix
kf = json.load(open('/verif/known_findings.json'))['findings']
nopen = sum(1 for e in kf if e['status'] == 'open'); nfixed = sum(1 for e in kf if e['status'] == 'fixed')
man = json.load(open('/verif/MANIFEST.json'))
nchecks = len(man['checks']); nna = len(man.get('not_applicable', []))
seeds = glob.glob('/verif/seeded/*/meta.json'); caught = sum(1 for f in seeds if json.load(open(f)).get('caught_by'))
txt = ("Status: built. All %d properties are claimed (%d listed as not applicable); every check is a libFuzzer choice-sequence target with an\n"
       "explicit oracle, driven by `./check`. `/repo` carries %d `fix:` commits on top of the pinned commit (and %d others: no hooks were\n"
       "needed, the simulation layer is linked in with `-Wl,--wrap`); the pinned baseline (68 tests) passes, and upstream's own `regress`\n"
       "program fails only where it fails on the pinned commit (`tools/regress_diff.sh`, §8-bis). `known_findings.json` lists %d findings:\n"
       "%d fixed (each with a replay that must stay green) and %d open (printed as KNOWN-FINDING, excluded by construction in their narrow\n"
       "sub-domain). %d independently seeded changes were run against the checks, %d are caught (§11). §0–§7 are the design as written\n"
       "before the code; where the build deviates from it the deviation is listed in **§2.10 \"As built\"** and per property in **§4-bis**;\n"
       "those sections win. §8 lists the genuine defects found (fixed and open), §8-bis how the repairs were kept acceptable, §9 the false\n"
       "alarms that were corrected, §10 observations outside the listed properties, §11 which checks catch which seeded changes."
       % (nchecks, nna, nfix, nother, len(kf), nfixed, nopen, len(seeds), caught))
s = open('/verif/DESIGN.md').read()
a = s.index("Status: built"); b = s.index("\n\n", a)
open('/verif/DESIGN.md', 'w').write(s[:a] + txt + s[b:])
print(txt[:200])
