#!/bin/bash
# usage: tools/mutant.sh <ID> <patch-file> [tier]   — apply a patch to a scratch copy of /repo, run the check there,
# expect a VIOLATION (exit 1).  Prints KILLED / SURVIVED.  The scratch copy and its build dir are removed.
set -u
ID=$1; PATCH=$(readlink -f "$2"); TIER=${3:-quick}
D=/var/tmp/vs/mut-$$
CK=$(echo $D | cksum | cut -d' ' -f1)
trap 'rm -rf $D /verif/build/alt-$CK /tmp/mut-$$.out' EXIT
mkdir -p /var/tmp/vs && rsync -a --exclude _build --exclude .git /repo/ $D/
if ! (cd $D && patch -p1 -s < "$PATCH"); then echo "PATCH-FAILED $PATCH"; rm -rf $D; exit 3; fi
cd /verif
CK=$(echo $D | cksum | cut -d' ' -f1)
VERIF_SHRINK_BUDGET=${VERIF_SHRINK_BUDGET:-40} VERIF_REPO=$D ./check $ID --tier $TIER > /tmp/mut-$$.out 2>&1; rc=$?
grep -E "VIOLATION|BROKEN|key=|evaluations" /tmp/mut-$$.out | head -8
rm -rf $D /verif/build/alt-$CK /tmp/mut-$$.out
if [ $rc -eq 1 ]; then echo "KILLED $ID $(basename $PATCH)"; exit 0; fi
echo "SURVIVED(rc=$rc) $ID $(basename $PATCH)"; exit 1
