#!/bin/bash
# usage: tools/confirm_seed.sh <ID> [extra cc flags]  — confirm a seeded change in its scratch worktree /tmp/seed/<ID>:
# with the patch: builds, baseline suite passes, demo fails; without: demo passes.  Leaves the worktree clean.
ID=$1; shift; W=/tmp/seed/$ID; D=/tmp/seed/$ID-${SEEDWORK:-work}
cd $W || exit 2
git checkout -q -- . ; git apply $D/patch.diff || { echo "APPLY-FAILED"; exit 2; }
timeout 1500 cmake --build _build -j8 2>&1 | tail -1
cc -g -O1 -I include -I _build/include -I . "$@" $D/demo.c _build/lib/libevent_extra.a _build/lib/libevent_core.a _build/lib/libevent_pthreads.a -lpthread -o $D/demo || { echo "DEMO-BUILD-FAILED"; }
timeout 120 $D/demo > $D/demo-with.out 2>&1; echo "demo rc WITH patch = $? ($(tail -1 $D/demo-with.out))"
timeout 1800 ctest --test-dir _build -j8 --timeout 900 -E '^regress' 2>&1 | grep "tests passed\|tests failed"
git checkout -q -- .
timeout 1500 cmake --build _build -j8 2>&1 | tail -1
cc -g -O1 -I include -I _build/include -I . "$@" $D/demo.c _build/lib/libevent_extra.a _build/lib/libevent_core.a _build/lib/libevent_pthreads.a -lpthread -o $D/demo
timeout 120 $D/demo > $D/demo-without.out 2>&1; echo "demo rc WITHOUT patch = $?"
