#!/usr/bin/env python3
"""Regenerate DESIGN.md §8 (findings) from known_findings.json."""
import json, re
d = json.load(open('/verif/known_findings.json'))['findings']
out = ["## 8. Genuine defects found by the checks",
       "",
       "Every entry below was first reported by a registered check from a saved replay file against the real code",
       "(replay files are committed under `corpus/<target>/`: `regress-*` for repaired defects, `known-*` for open ones).",
       "`fixed` entries are minimal unguarded `fix:` commits in /repo and suppress nothing: their replays are ordinary",
       "regression inputs now. `open` entries are reported as `KNOWN-FINDING` and excluded from generation by construction;",
       "they were left open because the repair is not small (protocol behaviour of ws.c, evdns object lifetime) or not",
       "clearly a maintainer-acceptable patch. The authoritative list is `known_findings.json`.",
       "",
       "| property | status | key | what fails |",
       "|---|---|---|---|"]
for f in sorted(d, key=lambda x: (x['property'], x.get('status') != 'fixed', x['key'])):
    what = re.sub(r'^fixed: property=\S+ \S+ ', '', f['what'])
    st = ("fixed `%s`" % f['commit']) if f.get('status') == 'fixed' else 'open'
    out.append("| %s | %s | `%s` | %s |" % (f['property'], st, f['key'], what.replace('|', '\\|')))
out.append("")
s = open('/verif/DESIGN.md').read()
a = s.index("## 8. ")
b = s.index("## 9. ")
s = s[:a] + "\n".join(out) + "\n" + s[b:]
open('/verif/DESIGN.md', 'w').write(s)
print("§8 regenerated with", len(d), "entries")
