#!/usr/bin/env python3
"""Regenerate the table in DESIGN.md §11 from seeded/*/meta.json."""
import json, glob, os
rows = []
for f in sorted(glob.glob('/verif/seeded/*/meta.json')):
    m = json.load(open(f)); name = os.path.basename(os.path.dirname(f))
    caught = "; ".join("**%s**: %s" % (k, v) for k, v in m.get('caught_by', {}).items())
    missed = "; ".join("%s: %s" % (k, v) for k, v in m.get('missed_by', {}).items())
    res = caught if caught else "NOT caught"
    if missed: res += (" — " if caught else ": ") + missed
    rows.append("| `%s` | %s | %s | %s |" % (name, m['property'], m['needs'].replace('|', '\\|'), res.replace('|', '\\|')))
s = open('/verif/DESIGN.md').read()
a = s.index("| seeded change | property | needs | caught by |")
b = s.index("\n\n", a)
s = s[:a] + "| seeded change | property | needs | caught by |\n|---|---|---|---|\n" + "\n".join(rows) + s[b:]
open('/verif/DESIGN.md', 'w').write(s)
print("§11 table:", len(rows), "rows")
