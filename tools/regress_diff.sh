#!/bin/bash
# usage: tools/regress_diff.sh  — differential run of the repository's own `regress` program (NOT part of the pinned baseline: it needs
# the network for a few tests) on the pinned base commit and on /repo HEAD; prints the tests that fail on HEAD only.  A "fix:" commit
# that makes an upstream unit test fail is not a patch a maintainer would accept, so this is run after every batch of fixes.
# Scratch worktrees live under /var/tmp/vs and are removed at the end (~25 min on a loaded machine).
set -u
BASE=$(cat /root/.vp/repo_root_sha); S=/var/tmp/vs/rd-$$; mkdir -p $S
for t in base head; do
  rev=$BASE; [ $t = head ] && rev=$(git -C /repo rev-parse HEAD)
  git -C /repo worktree add -f --detach $S/$t $rev > /dev/null 2>&1
  (cd $S/$t && cmake -G Ninja -B _build -DCMAKE_BUILD_TYPE=RelWithDebInfo > /dev/null 2>&1 && timeout 2400 cmake --build _build -j6 --target regress > build.log 2>&1
   cd _build && EVENT_NOWIN32=1 timeout 2400 ./bin/regress > ../regress.out 2>&1; echo "rc=$?" >> ../regress.out)
  grep -E "FAILED|^\s+FAIL " $S/$t/regress.out | sed "s#$S/$t/##" | sort > $S/$t.fail
  tail -2 $S/$t/regress.out | head -1
done
echo "--- failing on HEAD only:"; diff $S/base.fail $S/head.fail | grep '^>' ; rc=$?
for t in base head; do git -C /repo worktree remove --force $S/$t; done; rm -rf $S
[ $rc -ne 0 ] && echo "none" && exit 0
exit 1
