#!/bin/bash
# (SEEDWORK=work2 for second-round deliveries in /tmp/seed/<ID>-work2)
# usage: tools/seed_batch.sh "ID:name ID:name ..."  — confirm each seeded change and run its property's check against it; log to build/seed_batch.log
for x in $1; do id=${x%%:*}; name=${x#*:}
  echo "=== $id $name $(date +%H:%M:%S)" >> /verif/build/seed_batch.log
  /verif/tools/confirm_seed.sh $id 2>&1 | grep -E "demo rc|tests passed|tests failed|APPLY|FAILED" >> /verif/build/seed_batch.log
  mkdir -p /verif/seeded/$name && cp /tmp/seed/$id-${SEEDWORK:-work}/{patch.diff,demo.c,notes.md} /verif/seeded/$name/
  /verif/tools/mutant.sh $id /verif/seeded/$name/patch.diff 2>&1 | tail -4 >> /verif/build/seed_batch.log
done
echo "BATCH DONE $(date +%H:%M:%S)" >> /verif/build/seed_batch.log
