// C01 — timers fire exactly once, never early, never late (virtual clock owned by the harness).
// History over <= 12 pure-timer events on one base; every wait's clock advance is drawn from the input.
// Preconditions respected: events are freed before the base; no op on a freed event; durations normalised.
#include "verif.h"
#include "sim.h"
#include <event2/event.h>
#include <event2/event_struct.h>
extern "C" {
#include "event-internal.h"
}

namespace {
const int MAXEV = 12;
struct MEv {
  struct event *ev = nullptr;
  bool persist = false; int pri = 0;
  bool pending = false;       // model: timer armed
  int64_t deadline = 0;       // µs, monotonic
  int64_t interval = 0;       // persist interval (µs)
  bool has_interval = false;  // persistent re-arm configured (cleared by remove_timer on a pending timer)
  int common = -1;            // index of common-timeout queue, -1 = heap timer
  uint64_t armed_seq = 0;     // wait ordinal current when armed
  uint64_t add_seq = 0;       // global add sequence (FIFO check)
  bool act_timeout = false;   // model: activated by timeout, callback not yet run
  uint64_t act_iter = 0;      // wait ordinal at which it was activated
  bool act_manual = false;    // event_active() called, callback not yet run
  int fired = 0;
};
struct World {
  Src *s; struct event_base *base; MEv e[MAXEV]; int npri;
  std::vector<std::pair<int64_t, const struct timeval *>> commons;  // (duration µs, handle)
  uint64_t add_counter = 0; int waits_this_turn = 0; bool in_loop = false;
  bool poll_like = false;  // backend rounds the wait up to ms
  // ordering trackers: key (act_iter, pri) -> last deadline (heap) ; key (act_iter, pri, queue) -> last add_seq
  uint64_t last_iter_heap[8]; int64_t last_deadline_heap[8];
  uint64_t last_iter_common[8][4]; uint64_t last_addseq_common[8][4]; int64_t last_deadline_common[8][4];
  int total_fired = 0; bool saw_readd = false, saw_remove = false, saw_rearm = false, saw_common = false, saw_jump = false;
  int cb_depth = 0;
};
World *W;

const int64_t DURS[] = {0, 1, 999, 1000, 1500, 999999, 1000000, 1000001, 10000000, 3600000000ll, 1000000000000000ll};

int64_t draw_dur(Src &s) { return DURS[s.below(sizeof DURS / sizeof DURS[0])]; }
struct timeval tv_of(int64_t us) { struct timeval tv; tv.tv_sec = us / 1000000; tv.tv_usec = us % 1000000; return tv; }

void model_arm(MEv &m, int64_t dur, int common, bool timeout_merged) {
  m.pending = true; m.deadline = sim_now_us() + dur; m.common = common; m.armed_seq = sim_wait_count; m.add_seq = ++W->add_counter;
  m.interval = m.persist ? dur : 0; m.has_interval = m.persist && (common >= 0 || dur > 0);
  // a re-add removes a not-yet-run timeout activation (and whatever was merged into it)
  // (a due common-timeout event whose queue callback has not run yet still carries only its manual activation)
  if (m.act_timeout) { m.act_timeout = false; if (timeout_merged) m.act_manual = false; }
}

void check_pending_agrees(int i, const char *when) {
  MEv &m = W->e[i]; if (!m.ev) return;
  struct timeval tv = {0, 0};
  int p = event_pending(m.ev, EV_TIMEOUT, &tv);
  bool expect = m.pending || m.act_timeout;
  CHECK(!!p == expect, "C01/pending-mismatch", "%s: event %d event_pending(EV_TIMEOUT)=%d model pending=%d activated=%d", when, i, p, m.pending, m.act_timeout);
  if (m.pending && !m.act_timeout && !m.act_manual) {
    int64_t got = (int64_t)tv.tv_sec * 1000000 + tv.tv_usec;
    CHECK(got == m.deadline + SIM_WALL_OFFSET_US, "C01/expiry-mismatch", "%s: event %d reported expiry %lld, model deadline %lld (+wall offset)", when, i, (long long)(got - SIM_WALL_OFFSET_US), (long long)m.deadline);
  }
}
void check_all(const char *when) {
  event_base_assert_ok_(W->base);
  for (int i = 0; i < MAXEV; i++) check_pending_agrees(i, when);
}

// "never late": everything due at the previous wait's clock reading and armed before it must have been activated
void check_not_late(const char *when, uint64_t armed_before) {
  int64_t now = sim_now_us();
  for (int i = 0; i < MAXEV; i++) { MEv &m = W->e[i];
    if (m.ev && m.pending && m.deadline <= now && m.armed_seq < armed_before) {
      bool active_in_lib = (m.ev->ev_flags & EVLIST_ACTIVE) && (m.ev->ev_res & EV_TIMEOUT);
      CHECK(false, "C01/late", "%s: event %d deadline %lld <= clock %lld, armed before wait %llu, still not fired (lib active=%d)", when, i, (long long)m.deadline, (long long)now, (unsigned long long)sim_wait_count, active_in_lib);
    } }
}

// after the clock moved in wait w: the model activates what is due
void model_activate_due() {
  int64_t now = sim_now_us(); uint64_t w = sim_wait_count;
  for (int i = 0; i < MAXEV; i++) { MEv &m = W->e[i];
    if (m.ev && m.pending && m.deadline <= now && m.armed_seq < w) { m.pending = false; m.act_timeout = true; m.act_iter = w; } }
}

int64_t wait_hook(const struct sim_wait_info *wi, void *) {
  Src &s = *W->s;
  check_not_late("before wait", sim_wait_count - 1);
  // the loop must not plan to sleep past the earliest deadline
  int64_t now = sim_now_us(), earliest = -1; bool any_active = false;
  for (int i = 0; i < MAXEV; i++) { MEv &m = W->e[i]; if (!m.ev) continue;
    if (m.pending && (earliest < 0 || m.deadline < earliest)) earliest = m.deadline;
    if (m.act_timeout || m.act_manual) any_active = true; }
  int64_t req = wi->timeout_us;
  if (any_active) CHECK(req == 0, "C01/wait-with-active", "loop waits %lld us although callbacks are active", (long long)req);
  else if (earliest >= 0) {
    int64_t maxwait = earliest > now ? earliest - now : 0;
    CHECK(req >= 0 && req <= maxwait + 1000, "C01/oversleep", "requested wait %lld us but earliest deadline is %lld us away", (long long)req, (long long)maxwait);
  }
  W->waits_this_turn++;
  int64_t adv;
  if (req < 0) { event_base_loopbreak(W->base); TR("  wait#%llu infinite -> loopbreak", (unsigned long long)wi->ordinal); return 0; }
  int mode = s.below(7);
  if (W->waits_this_turn > 4 && (mode == 1 || mode == 3)) mode = 0;
  switch (mode) {
    case 0: adv = req; break;
    case 1: adv = req > 0 ? req - 1 : 0; break;
    case 2: adv = req + 1; break;
    case 3: adv = req / 2; break;
    case 4: adv = req + s.below(2000000); break;
    case 5: adv = req + 3600000000ll * (1 + s.below(48)); W->saw_jump = true; break;
    default: adv = req; break;
  }
  TR("  wait#%llu req=%lld adv=%lld -> now=%lld", (unsigned long long)wi->ordinal, (long long)req, (long long)adv, (long long)(now + adv));
  sim_advance_us(adv);   // the hook's return value is added too; advance here and return 0 so the model sees the new clock
  model_activate_due();
  return 0;
}

void do_add(int i, Src &s);
void timer_cb(evutil_socket_t, short what, void *arg) {
  int i = (int)(intptr_t)arg; MEv &m = W->e[i]; Src &s = *W->s;
  int64_t now = sim_now_us();
  TR("  cb ev%d what=0x%x now=%lld", i, what, (long long)now);
  CHECK(m.ev != nullptr, "C01/callback-after-free", "callback for freed event %d", i);
  if (what & EV_TIMEOUT) {
    CHECK(m.act_timeout, "C01/early-or-duplicate", "event %d ran with EV_TIMEOUT at %lld but the model has no due firing (pending=%d deadline=%lld armed_seq=%llu wait=%llu)", i, (long long)now, m.pending, (long long)m.deadline, (unsigned long long)m.armed_seq, (unsigned long long)sim_wait_count);
    CHECK(m.deadline <= now, "C01/early", "event %d fired at %lld before deadline %lld", i, (long long)now, (long long)m.deadline);
    // ordering among timers activated in the same iteration, same priority
    int p = m.pri;
    if (m.act_manual) { /* merged with an earlier manual activation: keeps that queue position, no order claim */ }
    else if (m.common < 0) {
      if (W->last_iter_heap[p] == m.act_iter) CHECK(m.deadline >= W->last_deadline_heap[p], "C01/heap-order", "event %d (deadline %lld) ran after a same-priority timer with later deadline %lld fired in the same iteration", i, (long long)m.deadline, (long long)W->last_deadline_heap[p]);
      W->last_iter_heap[p] = m.act_iter; W->last_deadline_heap[p] = m.deadline;
    } else if (m.common < 4) {
      // the queue is kept sorted by deadline (persistent re-arms are relative to the old deadline); equal deadlines run in add order
      if (W->last_iter_common[p][m.common] == m.act_iter) {
        int64_t ld = W->last_deadline_common[p][m.common]; uint64_t ls = W->last_addseq_common[p][m.common];
        CHECK(m.deadline > ld || (m.deadline == ld && m.add_seq > ls), "C01/common-fifo", "common-timeout queue %d: event %d (deadline %lld, add #%llu) ran after (deadline %lld, add #%llu)", m.common, i, (long long)m.deadline, (unsigned long long)m.add_seq, (long long)ld, (unsigned long long)ls);
      }
      W->last_iter_common[p][m.common] = m.act_iter; W->last_addseq_common[p][m.common] = m.add_seq; W->last_deadline_common[p][m.common] = m.deadline;
      W->saw_common = true;
    }
    m.fired++; W->total_fired++;
  } else {
    CHECK(m.act_manual, "C01/spurious-callback", "event %d ran with what=0x%x but was neither due nor manually activated", i, what);
  }
  bool by_timeout = (what & EV_TIMEOUT) != 0;
  int64_t prev_deadline = m.deadline;
  m.act_timeout = false; m.act_manual = false;
  if (m.persist) {
    if (m.has_interval) {
      int64_t nd = (by_timeout ? prev_deadline : now) + m.interval;
      if (nd < now) nd = now + m.interval;
      m.pending = true; m.deadline = nd; m.armed_seq = sim_wait_count; m.add_seq = ++W->add_counter;
      W->saw_rearm = true;
      struct timeval tv; int p = event_pending(m.ev, EV_TIMEOUT, &tv);
      int64_t got = (int64_t)tv.tv_sec * 1000000 + tv.tv_usec - SIM_WALL_OFFSET_US;
      CHECK(p && got == nd, "C01/persist-rearm", "persistent event %d re-armed at %lld, expected %lld (prev deadline %lld, interval %lld, now %lld, by_timeout=%d)", i, (long long)got, (long long)nd, (long long)prev_deadline, (long long)m.interval, (long long)now, by_timeout);
    } else if (!by_timeout) { /* persistent without interval: a pending timer added with duration 0 stays as it was */ }
  } else {
    m.pending = false;   // one-shot: deleted before its callback runs
  }
  // optional action from inside the callback
  if (W->cb_depth == 0) {
    W->cb_depth++;
    switch (s.below(6)) {
      case 1: do_add(i, s); break;
      case 2: { int j = s.below(MAXEV); if (W->e[j].ev) do_add(j, s); break; }
      case 3: { int j = s.below(MAXEV); MEv &o = W->e[j]; if (o.ev) { TR("    in-cb del ev%d", j); event_del(o.ev); o.pending = o.act_timeout = o.act_manual = false; } break; }
      case 4: { int j = s.below(MAXEV); MEv &o = W->e[j]; if (o.ev) { TR("    in-cb remove_timer ev%d", j); 
        // a common-timeout event that is due in this iteration becomes active only when its queue's internal callback runs;
        // a remove_timer issued earlier in the same iteration legitimately still cancels it
        bool not_yet_active = o.act_timeout && o.common >= 0 && (o.ev->ev_flags & EVLIST_TIMEOUT);
        event_remove_timer(o.ev);
        if (o.pending || not_yet_active) { o.pending = false; o.has_interval = false; if (not_yet_active) o.act_timeout = false; W->saw_remove = true; } } break; }
      default: break;
    }
    W->cb_depth--;
  }
}

void do_add(int i, Src &s) {
  MEv &m = W->e[i];
  int common = -1; int64_t dur;
  if (!W->commons.empty() && s.chance(1, 3)) { common = s.below((uint32_t)W->commons.size()); dur = W->commons[common].first; }
  else dur = draw_dur(s);
  bool was_pending = m.pending || m.act_timeout;
  struct timeval tv = tv_of(dur);
  const struct timeval *arg = common >= 0 ? W->commons[common].second : &tv;
  bool merged = (m.ev->ev_flags & EVLIST_ACTIVE) && (m.ev->ev_res & EV_TIMEOUT);
  int r = event_add(m.ev, arg);
  TR("%sadd ev%d dur=%lld common=%d now=%lld -> %d", W->cb_depth ? "    in-cb " : "", i, (long long)dur, common, (long long)sim_now_us(), r);
  CHECK(r == 0, "C01/add-failed", "event_add returned %d", r);
  if (was_pending) W->saw_readd = true;
  model_arm(m, dur, common, merged);
}
}  // namespace

extern "C" int LLVMFuzzerInitialize(int *, char ***) { sim_mem_install(); return 0; }

extern "C" int LLVMFuzzerTestOneInput(const uint8_t *data, size_t size) {
  sim_reset();
  verif_case_begin("C01");
  Src s(data, size);
  World w; W = &w; w.s = &s;
  memset(w.last_iter_heap, 0, sizeof w.last_iter_heap); memset(w.last_iter_common, 0, sizeof w.last_iter_common);
  int64_t live0 = sim_mem_live_blocks;
  sim_clock_enable(SIM_START_US + s.below(1000000));
  sim_set_wait_hook(wait_hook, nullptr);
  struct event_config *cfg = event_config_new();
  int backend = s.below(4);
  static const char *AVOID[][3] = {{nullptr}, {nullptr}, {"epoll", nullptr}, {"epoll", "poll", nullptr}};
  for (int k = 0; AVOID[backend][k]; k++) event_config_avoid_method(cfg, AVOID[backend][k]);
  int flags = 0;
  if (backend == 1) flags |= EVENT_BASE_FLAG_EPOLL_USE_CHANGELIST;
  if (s.flag()) flags |= EVENT_BASE_FLAG_NO_CACHE_TIME;
  if (s.flag()) flags |= EVENT_BASE_FLAG_PRECISE_TIMER;
  event_config_set_flag(cfg, flags);
  w.base = event_base_new_with_config(cfg); event_config_free(cfg);
  if (!w.base) { verif_case_end(0, s.h); return 0; }
  w.poll_like = backend == 2;
  w.npri = 1 + s.below(3);
  event_base_priority_init(w.base, w.npri);
  TR("base backend=%s flags=0x%x npri=%d start=%lld", event_base_get_method(w.base), flags, w.npri, (long long)sim_now_us());

  for (int step = 0; step < 64; step++) {
    int op = s.below(9);
    if (op == 0) break;
    int i = s.below(MAXEV); MEv &m = w.e[i];
    switch (op) {
      case 1: case 2:
        if (!m.ev) { m = MEv(); m.persist = s.flag(); m.pri = s.below(w.npri);
          m.ev = event_new(w.base, -1, m.persist ? EV_PERSIST : 0, timer_cb, (void *)(intptr_t)i); event_priority_set(m.ev, m.pri);
          TR("new ev%d persist=%d pri=%d", i, m.persist, m.pri); }
        do_add(i, s); break;
      case 3: if (m.ev) { int r = event_del(m.ev); TR("del ev%d -> %d", i, r); CHECK(r == 0, "C01/del-failed", "event_del=%d", r); m.pending = m.act_timeout = m.act_manual = false; } break;
      case 4: if (m.ev) { int r = event_remove_timer(m.ev); TR("remove_timer ev%d -> %d", i, r); CHECK(r == 0, "C01/remove-timer-failed", "r=%d", r); if (m.pending) { w.saw_remove = true; m.pending = false; m.has_interval = false; } } break;
      case 5: if (m.ev) { TR("active ev%d EV_READ", i); event_active(m.ev, EV_READ, 1); m.act_manual = true; } break;
      case 6: if (w.commons.size() < 4) { int64_t d = draw_dur(s); if (d >= 1000000000000000ll) d = 10000000; if (d == 0) d = 1; /* a 0-interval persistent timer is a user-made livelock under NONBLOCK */ struct timeval tv = tv_of(d);
          const struct timeval *h = event_base_init_common_timeout(w.base, &tv); TR("init_common_timeout %lld -> %p", (long long)d, (void *)(h ? (void *)1 : nullptr));
          CHECK(h != nullptr, "C01/common-init-failed", "NULL"); bool dup = false; for (auto &c : w.commons) if (c.first == d) dup = true; if (!dup) w.commons.push_back({d, h}); } break;
      case 7: case 8: {
        bool any = false; for (auto &x : w.e) if (x.ev && (x.pending || x.act_manual || x.act_timeout)) any = true;
        int lf = (w.npri == 1 && s.chance(1, 4)) ? EVLOOP_NONBLOCK : EVLOOP_ONCE;
        w.waits_this_turn = 0;
        TR("turn flags=%d any=%d now=%lld", lf, any, (long long)sim_now_us());
        w.in_loop = true; int r = event_base_loop(w.base, lf); w.in_loop = false;
        TR("turn -> %d now=%lld", r, (long long)sim_now_us());
        CHECK(r >= 0, "C01/loop-error", "event_base_loop=%d", r);
        if (!any) CHECK(r == 1, "C01/loop-empty-return", "loop returned %d with no events pending", r);
        check_not_late("after turn", sim_wait_count);
        if (lf == EVLOOP_ONCE) for (int k = 0; k < MAXEV; k++) CHECK(!w.e[k].act_timeout && !w.e[k].act_manual, "C01/activation-not-run", "event %d still active after EVLOOP_ONCE returned", k);
        break; }
    }
    check_all("after op");
  }
  for (auto &m : w.e) if (m.ev) { event_free(m.ev); m.ev = nullptr; }
  event_base_free(w.base);
  CHECK(sim_mem_live_blocks == live0, "C01/leak", "library allocations outstanding after base free: %lld", (long long)(sim_mem_live_blocks - live0));
  int nontrivial = w.total_fired >= 1 && (w.saw_readd || w.saw_remove || w.saw_rearm || w.saw_common || w.saw_jump);
  if (w.total_fired) verif_class("fired"); if (w.saw_readd) verif_class("readd"); if (w.saw_remove) verif_class("remove_timer");
  if (w.saw_rearm) verif_class("persist_rearm"); if (w.saw_common) verif_class("common_fired"); if (w.saw_jump) verif_class("clock_jump");
  verif_case_end(nontrivial, s.h);
  W = nullptr;
  return 0;
}
