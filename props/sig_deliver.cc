// C07 — signal events deliver every signal and restore the prior disposition.
// A case is a history over 5 signals (USR1, USR2, WINCH, URG, HUP) and <= 8 signal events on one base whose backend
// (epoll / epoll+changelist / poll / select), signal mechanism (self-pipe or signalfd) and number of priorities are
// drawn.  Before the base exists every signal gets a distinct sentinel sigaction (handler pointer, sa_flags, sa_mask).
// Ops: new(+add) / add / del / free / raise x1..5 / turn until quiescent / single loop pass / fork+event_reinit (the
// child runs the rest of the history and reports through a pipe; the parent then runs the rest too) / early base free.
// Callbacks may raise their own or another signal, delete themselves or another event, add another event, or call
// event_base_loopbreak; the action is either the same on every call or follows a per-event script indexed by the number of
// calls since the event was created (run once or cyclically), so an activation of N coalesced deliveries can be cut short at
// its k-th call and the SAME struct event can behave differently after it is added again.
// Oracle (per process): see props/C07.json.
// Preconditions respected: one base per process owns signals; events are deleted/freed before the base except for
// harness-owned (event_assign) storage which may stay added across event_base_free; event_reinit is the first
// libevent call in the child; no libevent call from a signal handler; signals are raised synchronously with raise().
#include "verif.h"
#include "sim.h"
#include <dirent.h>
#include <errno.h>
#include <fcntl.h>
#include <signal.h>
#include <unistd.h>
#include <sys/mman.h>
#include <sys/prctl.h>
#include <sys/wait.h>
#include <event2/event.h>
#include <event2/event_struct.h>
extern "C" {
#include "event-internal.h"
#include "util-internal.h"
ssize_t __real_read(int, void *, size_t);
ssize_t __real_write(int, const void *, size_t);
}

namespace {
const int NSIG_ = 5, NEV = 8;
const int SIGS[NSIG_] = {SIGUSR1, SIGUSR2, SIGWINCH, SIGURG, SIGHUP};
const char *SIGN[NSIG_] = {"USR1", "USR2", "WINCH", "URG", "HUP"};

volatile sig_atomic_t g_sent[NSIG_];
void sh0(int) { g_sent[0]++; } void sh1(int) { g_sent[1]++; } void sh2(int) { g_sent[2]++; } void sh3(int) { g_sent[3]++; } void sh4(int) { g_sent[4]++; }
void si0(int, siginfo_t *, void *) { g_sent[0]++; } void si1(int, siginfo_t *, void *) { g_sent[1]++; } void si2(int, siginfo_t *, void *) { g_sent[2]++; }
void si3(int, siginfo_t *, void *) { g_sent[3]++; } void si4(int, siginfo_t *, void *) { g_sent[4]++; }
void (*const SH[NSIG_])(int) = {sh0, sh1, sh2, sh3, sh4};
void (*const SI[NSIG_])(int, siginfo_t *, void *) = {si0, si1, si2, si3, si4};

enum { SK_HANDLER = 0, SK_SIGINFO = 1, SK_IGN = 2, SK_DFL = 3 };   // SK_DFL only for WINCH/URG (default action: ignore)

struct MSig { int n_added = 0; int D_batch = 0; int after_disp = 0 /* deliveries (event added) since the loop last polled */; int kind = 0; struct sigaction want; struct sigaction seen; bool multi = false; };
struct MEv {
  struct event *ev = nullptr; struct event store; bool heap = false;
  int sig = 0; bool persist = true; int prio = 0; int act = 0, arg = 0;
  int nscript = 0; int script[4] = {0, 0, 0, 0}; bool cyc = false;   // nscript > 0: call j (1-based, since creation) does script[j-1]; afterwards nothing, or the script again when cyc
  bool cut = false;             // the last activation was cut short (delete / loop break) with calls still pending
  bool added = false; bool in_cb = false;
  int act_remaining = 0;        // calls still to come from the activation whose callback ran last (library's ev_ncalls)
  long total_calls = 0;         // callbacks since creation
  long need_calls = 0;          // lower bound: total_calls must reach this before the batch ends (0 = nothing owed)
  int calls_batch = 0;          // callbacks in the current batch
};
struct ChildRec { int status; char key[96]; char msg[1400]; uint32_t callbacks, lib_deliveries, flags; };

struct World {
  Src *s = nullptr; struct event_base *base = nullptr; MSig sg[NSIG_]; MEv e[NEV];
  int backend = 0, mech = 0, nprio = 1;
  bool in_child = false, forked = false; int res_fd = -1;
  bool eintr = false; int cb_depth = 0; int cb_raise_budget = 8;
  bool broke = false, dispatched = false;   // per event_base_loop call: a callback asked for loopbreak / the backend was polled
  bool saw_varying = false, saw_break = false, saw_cut = false, saw_call_after_cut = false, saw_idle_no_events = false;
  uint32_t callbacks = 0, lib_deliveries = 0;
  bool saw_partial = false, saw_raise_in_cb = false, saw_del_in_cb = false, saw_restore = false, saw_coalesce = false, saw_basefree_added = false, saw_nonpersist = false;
  std::string ctrace;   // child-local trace tail
};
World *W;

// ------------------------------------------------------------------ failure routing (child -> pipe, parent -> verif_fail)
__attribute__((format(printf, 2, 3), noreturn)) void fail_(const char *key, const char *fmt, ...) {
  char buf[1200]; va_list ap; va_start(ap, fmt); vsnprintf(buf, sizeof buf, fmt, ap); va_end(ap);
  if (W && W->in_child) {
    ChildRec r; memset(&r, 0, sizeof r); r.status = 1; snprintf(r.key, sizeof r.key, "%s", key);
    std::string tail = W->ctrace.size() > 500 ? W->ctrace.substr(W->ctrace.size() - 500) : W->ctrace;
    for (auto &c : tail) if (c == '\n') c = ';';
    snprintf(r.msg, sizeof r.msg, "%s || child ops after fork: %s", buf, tail.c_str());
    ssize_t x = __real_write(W->res_fd, &r, sizeof r); (void)x;
    _exit(3);
  }
  verif_fail(key, "%s", buf);
}
#define CK(cond, key, ...) do { if (!(cond)) fail_(key, __VA_ARGS__); } while (0)
#define TRC(...) do { if (verif_trace_on) verif_tracef(__VA_ARGS__); if (W->in_child) { char b_[256]; snprintf(b_, sizeof b_, __VA_ARGS__); if (W->ctrace.size() < 8192) { W->ctrace += b_; W->ctrace += '\n'; } } } while (0)

// ------------------------------------------------------------------ dispositions
bool same_mask(const sigset_t &a, const sigset_t &b) { for (int s = 1; s < 65; s++) if (sigismember(&a, s) != sigismember(&b, s)) return false; return true; }
std::string mask_str(const sigset_t &a) { std::string r; for (int s = 1; s < 65; s++) if (sigismember(&a, s) == 1) { r += std::to_string(s); r += ','; } return r; }

void install_sentinels(Src &s) {
  World &w = *W;
  static const int FLAGS[] = {0, SA_RESTART, SA_NODEFER, SA_RESTART | SA_NODEFER, SA_ONSTACK, SA_RESTART | SA_ONSTACK};
  sigset_t all; sigemptyset(&all); for (int i = 0; i < NSIG_; i++) sigaddset(&all, SIGS[i]);
  sigprocmask(SIG_UNBLOCK, &all, nullptr);
  for (int i = 0; i < NSIG_; i++) {
    MSig &m = w.sg[i];
    int kind = s.below(4); int fl = FLAGS[s.below(6)]; int mbits = s.below(64);
    if (kind == SK_DFL && !(SIGS[i] == SIGWINCH || SIGS[i] == SIGURG)) kind = SK_HANDLER;   // never a terminating default
    m.kind = kind;
    memset(&m.want, 0, sizeof m.want); sigemptyset(&m.want.sa_mask);
    for (int j = 0; j < NSIG_; j++) if (j != i && (mbits & (1 << j))) sigaddset(&m.want.sa_mask, SIGS[j]);
    if (mbits & 32) sigaddset(&m.want.sa_mask, SIGCHLD);
    m.want.sa_flags = fl;
    switch (kind) {
      case SK_HANDLER: m.want.sa_handler = SH[i]; break;
      case SK_SIGINFO: m.want.sa_sigaction = SI[i]; m.want.sa_flags |= SA_SIGINFO; break;
      case SK_IGN: m.want.sa_handler = SIG_IGN; break;
      default: m.want.sa_handler = SIG_DFL; break;
    }
    if (sigaction(SIGS[i], &m.want, nullptr) != 0) verif_fail("harness/sigaction", "install sentinel for %s: errno=%d", SIGN[i], errno);
    if (sigaction(SIGS[i], nullptr, &m.seen) != 0) verif_fail("harness/sigaction", "read back sentinel for %s: errno=%d", SIGN[i], errno);
    g_sent[i] = 0;
    TR("sentinel %s kind=%d flags=0x%x mask={%s}", SIGN[i], kind, (unsigned)m.seen.sa_flags, mask_str(m.seen.sa_mask).c_str());
  }
}

void do_raise(int si, int times, const char *who);

// the disposition of signal si must be the sentinel again (called whenever the model says no event is added for it)
void check_restored(int si, const char *when, bool probe) {
  World &w = *W; MSig &m = w.sg[si];
  struct sigaction cur; memset(&cur, 0, sizeof cur);
  if (sigaction(SIGS[si], nullptr, &cur) != 0) fail_("harness/sigaction", "read %s: errno=%d", SIGN[si], errno);
  bool same_h = (m.kind == SK_SIGINFO) ? (cur.sa_sigaction == m.seen.sa_sigaction) : (cur.sa_handler == m.seen.sa_handler);
  CK(same_h && cur.sa_flags == m.seen.sa_flags, "C07/handler-not-restored",
     "%s: SIG%s (%s, %s) has handler %p flags 0x%x but before the first event_add it had handler %p flags 0x%x",
     when, SIGN[si], w.mech ? "signalfd" : "self-pipe", w.in_child ? "forked child after event_reinit" : "original process",
     (void *)cur.sa_handler, (unsigned)cur.sa_flags, (void *)m.seen.sa_handler, (unsigned)m.seen.sa_flags);
  CK(same_mask(cur.sa_mask, m.seen.sa_mask), "C07/handler-mask-not-restored",
     "%s: SIG%s (%s) has sa_mask {%s} but before the first event_add it had {%s}", when, SIGN[si], w.mech ? "signalfd" : "self-pipe",
     mask_str(cur.sa_mask).c_str(), mask_str(m.seen.sa_mask).c_str());
  if (probe) do_raise(si, 1, when);   // functional: the prior handler runs again
}

void model_del(int i, const char *when) {
  World &w = *W; MEv &m = w.e[i];
  if (!m.added) return;
  m.added = false; m.need_calls = 0;
  MSig &sg = w.sg[m.sig];
  sg.n_added--;
  if (sg.n_added > 0) w.saw_partial = true;
  if (sg.n_added == 0) { w.saw_restore = true; check_restored(m.sig, when, true); }
}
void model_add(int i) {
  World &w = *W; MEv &m = w.e[i];
  if (m.added) return;
  m.added = true; w.sg[m.sig].n_added++;
  if (w.sg[m.sig].n_added >= 2) w.sg[m.sig].multi = true;
}

void do_raise(int si, int times, const char *who) {
  World &w = *W; MSig &sg = w.sg[si];
  for (int k = 0; k < times; k++) {
    bool lib = sg.n_added > 0;
    long before = g_sent[si];
    TRC("%s%sraise SIG%s (%s)", who, (who[0] && who[strlen(who) - 1] != ' ') ? ": " : "", SIGN[si], lib ? "an event is added" : "no event added");
    raise(SIGS[si]);
    if (lib) {
      sg.D_batch++; sg.after_disp++; w.lib_deliveries++;
      if (sg.D_batch >= 2) w.saw_coalesce = true;
      for (auto &e : w.e) if (e.ev && e.added && e.sig == si) {
        // calls still pending from the activation whose callback is running right now were caused by earlier deliveries
        long need = e.total_calls + (e.in_cb ? e.act_remaining : 0) + 1;
        if (need > e.need_calls) e.need_calls = need;
      }
    } else if (sg.kind == SK_HANDLER || sg.kind == SK_SIGINFO) {
      CK(g_sent[si] == before + 1, "C07/prior-handler-not-run",
         "%s: raise(SIG%s) with no event added for it (%s, %s): the handler installed before the first event_add ran %ld times instead of once",
         who, SIGN[si], w.mech ? "signalfd" : "self-pipe", w.in_child ? "forked child after event_reinit" : "original process", (long)(g_sent[si] - before));
    }
  }
}

void do_add(int i, const char *who) {
  World &w = *W; MEv &m = w.e[i]; if (!m.ev) return;
  int r = event_add(m.ev, nullptr);
  TRC("%sadd ev%d (SIG%s) -> %d", who, i, SIGN[m.sig], r);
  CK(r == 0, "C07/add-failed", "event_add(ev%d SIG%s) returned %d", i, SIGN[m.sig], r);
  model_add(i);
}
void do_del(int i, const char *who) {
  World &w = *W; MEv &m = w.e[i]; if (!m.ev) return;
  int r = event_del(m.ev);
  TRC("%sdel ev%d (SIG%s) -> %d", who, i, SIGN[m.sig], r);
  CK(r == 0, "C07/del-failed", "event_del(ev%d SIG%s) returned %d", i, SIGN[m.sig], r);
  if (m.in_cb && m.act_remaining > 0) { m.cut = true; w.saw_cut = true; }
  m.act_remaining = 0;   // a delete cancels the calls still pending from the running activation
  model_del(i, "after event_del of the last event");
}

void sig_cb(evutil_socket_t fd, short what, void *arg) {
  World &w = *W; int i = (int)(intptr_t)arg; MEv &m = w.e[i];
  int remaining = m.ev->ev_ncalls;   // the library's count of calls still to come from this activation
  TRC("  cb ev%d fd=%d what=0x%x (remaining calls %d)", i, (int)fd, what, remaining);
  CK(what == EV_SIGNAL, "C07/wrong-flags", "callback of ev%d (SIG%s) got what=0x%x, expected EV_SIGNAL only", i, SIGN[m.sig], what);
  CK((int)fd == SIGS[m.sig], "C07/wrong-signal-number", "callback of ev%d (SIG%s = %d) got fd=%d", i, SIGN[m.sig], SIGS[m.sig], (int)fd);
  bool continuation = m.act_remaining > 0;
  if (!continuation) {
    if (m.cut) { m.cut = false; w.saw_call_after_cut = true; }
    CK(m.added, "C07/callback-after-del", "callback of ev%d (SIG%s) ran although the event is not added (deleted earlier and not re-added) [%s, %s]",
       i, SIGN[m.sig], w.mech ? "signalfd" : "self-pipe", w.in_child ? "forked child" : "original process");
  }
  MSig &sg = w.sg[m.sig];
  m.total_calls++; m.calls_batch++; w.callbacks++;
  CK(m.calls_batch <= sg.D_batch, "C07/more-calls-than-deliveries",
     "ev%d (SIG%s): %d callbacks in this batch but only %d deliveries of the signal while an event was added [%s, %s]",
     i, SIGN[m.sig], m.calls_batch, sg.D_batch, w.mech ? "signalfd" : "self-pipe", w.in_child ? "forked child" : "original process");
  m.act_remaining = remaining;
  m.in_cb = true; w.cb_depth++;
  if (!continuation && !m.persist) { w.saw_nonpersist = true; model_del(i, "in the callback of a non-persistent event that was the last one"); }   // removed by the library before the first call
  int act = m.act;
  if (m.nscript) {
    long j = m.total_calls - 1;
    act = j < m.nscript ? m.script[j] : (m.cyc ? m.script[j % m.nscript] : 0);
    if (act != m.script[0]) w.saw_varying = true;
    TRC("    scripted action of call %ld: %d", j + 1, act);
  }
  switch (act) {
    case 1: if (w.cb_raise_budget > 0) { w.cb_raise_budget--; w.saw_raise_in_cb = true; do_raise(m.sig, 1, "    in-cb "); } break;
    case 2: if (w.cb_raise_budget > 0) { w.cb_raise_budget--; w.saw_raise_in_cb = true; do_raise(m.arg % NSIG_, 1, "    in-cb "); } break;
    case 3: w.saw_del_in_cb = true; do_del(i, "    in-cb "); break;
    case 4: if (w.e[m.arg % NEV].ev && !w.e[m.arg % NEV].in_cb) { w.saw_del_in_cb = true; do_del(m.arg % NEV, "    in-cb "); } break;
    case 5: do_add(m.arg % NEV, "    in-cb "); break;
    case 6: w.saw_del_in_cb = true; do_del(i, "    in-cb "); do_add(i, "    in-cb "); break;
    case 7: {   // event_base_loopbreak: the loop returns after this callback; the calls still pending from this activation are dropped
      int r = event_base_loopbreak(w.base);
      TRC("    in-cb loopbreak -> %d (%d calls of this activation pending)", r, m.act_remaining);
      CK(r == 0, "C07/loopbreak-failed", "event_base_loopbreak returned %d inside the callback of ev%d", r, i);
      w.broke = true; w.saw_break = true;
      if (m.act_remaining > 0) {
        // a delivery made earlier in this activation was promised a call beyond the pending ones: those are gone now, the extra call is still owed
        if (m.need_calls > m.total_calls) { m.need_calls -= m.act_remaining; if (m.need_calls < m.total_calls) m.need_calls = m.total_calls; }
        m.cut = true; w.saw_cut = true;
      }
      m.act_remaining = 0;
      break; }
    default: break;
  }
  m.in_cb = false; w.cb_depth--;
}

int64_t wait_hook(const struct sim_wait_info *wi, void *) {
  World &w = *W;
  if (wi->nready < 0) w.eintr = true;   // a zero-timeout poll/select may be interrupted by libFuzzer's SIGALRM: redo the turn
  w.dispatched = true; for (auto &sg : w.sg) sg.after_disp = 0;   // everything delivered so far is visible to this poll
  if (wi->timeout_us < 0) event_base_loopbreak(w.base);
  return 0;
}

// one turn; quiescent = loop until a pass finds nothing active (resumed when a callback stopped it with loopbreak)
void do_turn(bool quiescent) {
  World &w = *W;
  int flags = quiescent ? EVLOOP_NONBLOCK : (EVLOOP_ONCE | EVLOOP_NONBLOCK);
  int r;
  for (int round = 0;; round++) {
    for (int attempt = 0;; attempt++) {
      w.eintr = false; w.broke = false; w.dispatched = false;
      { sigset_t al, old; sigemptyset(&al); sigaddset(&al, SIGALRM); sigprocmask(SIG_BLOCK, &al, &old);   // libFuzzer's SIGALRM must not interrupt a zero-timeout poll/select
        r = event_base_loop(w.base, flags);
        if (!sigismember(&old, SIGALRM)) sigprocmask(SIG_UNBLOCK, &al, nullptr);   /* not SIG_SETMASK: signalfd add/del inside the loop changes the mask */ }
      TRC("turn(%s) -> %d%s", quiescent ? "quiescent" : "one pass", r, w.broke ? " [stopped by loopbreak]" : "");
      CK(r >= 0, "C07/loop-error", "event_base_loop returned %d", r);
      if (!w.eintr || attempt >= 3) break;
    }
    if (quiescent && w.broke && !w.eintr && round < 40) continue;
    break;
  }
  // End of batch: the loop went idle by itself -- nothing active, and either a poll found nothing (0) or no event is left (1) --
  // and it polled at least once.  Every delivery made before its last poll has been turned into callbacks or was cancelled by a
  // delete / loopbreak; deliveries made after that poll (only possible when it returned 1) are still in flight and open the next batch.
  if (quiescent && (r == 0 || r == 1) && !w.eintr && !w.broke && w.dispatched) {
    if (r == 1) w.saw_idle_no_events = true;
    for (int i = 0; i < NEV; i++) { MEv &m = w.e[i]; if (!m.ev) continue;
      CK(!(m.added && m.need_calls > m.total_calls), "C07/delivery-lost",
         "ev%d (SIG%s) stayed added while its signal was delivered, the loop ran until idle, but the callback ran %ld times where at least %ld were due [%s, %s, %s]",
         i, SIGN[m.sig], m.total_calls, m.need_calls, w.mech ? "signalfd" : "self-pipe", event_base_get_method(w.base), w.in_child ? "forked child after event_reinit" : "original process");
      m.need_calls = 0; m.calls_batch = 0; }
    for (auto &sg : w.sg) sg.D_batch = sg.after_disp;
  }
}

void free_event(int i, const char *who) {
  World &w = *W; MEv &m = w.e[i]; if (!m.ev) return;
  TRC("%sfree ev%d (SIG%s)%s", who, i, SIGN[m.sig], m.heap ? "" : " [assigned storage: event_del]");
  if (m.heap) event_free(m.ev); else { int r = event_del(m.ev); CK(r == 0, "C07/del-failed", "event_del(ev%d) returned %d", i, r); }
  m.act_remaining = 0;
  model_del(i, "after freeing the last event");
  m.ev = nullptr;
}

// open descriptors of this process, as "fd->target" strings (cheap: one directory read)
int list_fds(std::string *desc) {
  int n = 0; DIR *d = opendir("/proc/self/fd"); if (!d) return -1; int self = dirfd(d);
  while (struct dirent *de = readdir(d)) { if (de->d_name[0] == '.') continue; int fd = atoi(de->d_name); if (fd == self) continue; n++;
    if (desc) { char l[128], t[96]; snprintf(l, sizeof l, "/proc/self/fd/%d", fd); ssize_t k = readlink(l, t, sizeof t - 1); if (k < 0) k = 0; t[k] = 0; *desc += std::to_string(fd) + "->" + t + " "; } }
  closedir(d); return n;
}

void read_all(int fd, std::string &out) { char b[4096]; for (;;) { ssize_t r = __real_read(fd, b, sizeof b); if (r <= 0) break; out.append(b, (size_t)r); } }

// returns true in the child
bool do_fork() {
  World &w = *W;
  int rp[2]; if (pipe2(rp, O_CLOEXEC) != 0) verif_fail("harness/pipe", "errno=%d", errno);
  int efd = memfd_create("c07-child-stderr", MFD_CLOEXEC); if (efd < 0) verif_fail("harness/memfd", "errno=%d", errno);
  TR("fork");
  fflush(stderr); fflush(stdout);
  pid_t pid = fork();
  if (pid < 0) verif_fail("harness/fork", "errno=%d", errno);
  if (pid == 0) {
    prctl(PR_SET_PDEATHSIG, SIGKILL);
    signal(SIGALRM, SIG_DFL); alarm(30);   // a stuck child must not outlive the case
    w.in_child = true; w.res_fd = rp[1]; close(rp[0]);
    dup2(efd, 2); close(efd);
    int r = event_reinit(w.base);
    TRC("child: event_reinit -> %d", r);
    CK(r == 0, "C07/reinit-failed", "event_reinit returned %d in the forked child", r);
    // deliveries made before fork() and not dispatched yet stay with the parent (pending signals and the notification pipe are per process)
    for (auto &e : w.e) e.need_calls = 0;
    return true;
  }
  close(rp[1]);
  ChildRec rec; memset(&rec, 0, sizeof rec); size_t got = 0;
  for (;;) { ssize_t r = __real_read(rp[0], (char *)&rec + got, sizeof rec - got); if (r < 0 && errno == EINTR) continue; if (r <= 0) break; got += (size_t)r; if (got == sizeof rec) break; }
  close(rp[0]);
  int st = 0; for (;;) { pid_t r = waitpid(pid, &st, 0); if (r < 0 && errno == EINTR) continue; break; }
  std::string cerr_; lseek(efd, 0, SEEK_SET); read_all(efd, cerr_); close(efd);
  bool ok = got == sizeof rec && rec.status == 0 && WIFEXITED(st) && WEXITSTATUS(st) == 0;
  if (!cerr_.empty() && (!ok || getenv("VERIF_TRACE"))) { fprintf(stderr, "---- stderr of the forked child ----\n%s---- end of child stderr ----\n", cerr_.c_str()); }
  if (ok) {
    w.callbacks += rec.callbacks; w.lib_deliveries += rec.lib_deliveries;
    if (rec.callbacks) verif_class("child_callback_ran");
    if (rec.flags & 1) w.saw_partial = true; if (rec.flags & 2) w.saw_raise_in_cb = true; if (rec.flags & 4) verif_class("child_restore_checked");
    return false;
  }
  if (got == sizeof rec && rec.status == 1) { rec.key[sizeof rec.key - 1] = 0; rec.msg[sizeof rec.msg - 1] = 0; verif_fail(rec.key, "[forked child] %s", rec.msg); }
  // the child died without a record: derive the key from what it printed
  char key[160]; const char *p;
  if ((p = strstr(cerr_.c_str(), "Assertion ")) != nullptr) { char cond[80] = "", fn[64] = ""; sscanf(p, "Assertion %79[^\n] failed in %63s", cond, fn);
    char *f = strstr(cond, " failed in "); if (f) { snprintf(fn, sizeof fn, "%s", f + 11); *f = 0; }
    for (char *c = cond; *c; c++) if (*c == ' ') *c = '_';
    snprintf(key, sizeof key, "assert:%s:%s", fn, cond); }
  else if ((p = strstr(cerr_.c_str(), "ERROR: AddressSanitizer: ")) != nullptr) { char kind[64] = ""; sscanf(p + 25, "%63s", kind); snprintf(key, sizeof key, "asan:%s@forked-child", kind); }
  else if (strstr(cerr_.c_str(), "runtime error:")) snprintf(key, sizeof key, "ubsan:forked-child");
  else if (WIFSIGNALED(st)) snprintf(key, sizeof key, "C07/child-killed-by-signal-%d", WTERMSIG(st));
  else snprintf(key, sizeof key, "C07/child-exit-%d", WIFEXITED(st) ? WEXITSTATUS(st) : -1);
  verif_fail(key, "forked child (event_reinit + rest of the history) died: wait status 0x%x, record bytes %zu; last stderr: %.600s", st, got,
             cerr_.size() > 600 ? cerr_.c_str() + cerr_.size() - 600 : cerr_.c_str());
}
}  // namespace

extern "C" int LLVMFuzzerInitialize(int *, char ***) {
  sim_mem_install();
  return 0;
}

extern "C" int LLVMFuzzerTestOneInput(const uint8_t *data, size_t size) {
  sim_reset();
  verif_case_begin("C07");
  Src s(data, size);
  World w; W = &w; w.s = &s;
  int64_t live0 = sim_mem_live_blocks;
  int nfd0 = list_fds(nullptr);
  sim_clock_enable(SIM_START_US);
  sim_set_wait_hook(wait_hook, nullptr);

  w.backend = s.below(4); w.mech = s.below(2); w.nprio = 1 + s.below(3);
  bool may_fork = s.below(verif_param("fork_one_in", 12)) == 1;   // forking costs milliseconds under ASan: keep it to a fraction of the cases
  install_sentinels(s);
  struct event_config *cfg = event_config_new();
  static const char *AVOID[][3] = {{nullptr}, {nullptr}, {"epoll", nullptr}, {"epoll", "poll", nullptr}};
  for (int k = 0; AVOID[w.backend][k]; k++) event_config_avoid_method(cfg, AVOID[w.backend][k]);
  int flags = EVENT_BASE_FLAG_IGNORE_ENV;
  if (w.backend == 1) flags |= EVENT_BASE_FLAG_EPOLL_USE_CHANGELIST;
  if (w.mech == 1) flags |= EVENT_BASE_FLAG_USE_SIGNALFD;
  event_config_set_flag(cfg, flags);
  w.base = event_base_new_with_config(cfg); event_config_free(cfg);
  if (!w.base) verif_fail("harness/no-base", "backend %d", w.backend);
  evutil_weakrand_seed_(&w.base->weakrand_seed, 1 + s.below(255));
  if (w.nprio > 1) event_base_priority_init(w.base, w.nprio);
  TR("base method=%s signal method=%s priorities=%d", event_base_get_method(w.base), event_base_get_signal_method(w.base), w.nprio);
  CK((strcmp(event_base_get_signal_method(w.base), "signalfd_signal") == 0) == (w.mech == 1), "C07/wrong-mechanism", "asked for %s, base reports %s",
     w.mech ? "signalfd" : "self-pipe", event_base_get_signal_method(w.base));

  bool base_freed = false;
  for (int step = 0; step < 48; step++) {
    int op = s.below(16);
    if (op == 0) break;
    switch (op) {
      case 1: case 2: {   // new event (+ add)
        int i = s.below(NEV); int si = s.below(NSIG_); int cfgb = s.below(16); int act = s.below(10); int arg = s.below(NEV * NSIG_); bool addnow = s.below(4) != 0;
        MEv &m = w.e[i]; if (m.ev) { do_add(i, ""); break; }
        bool was_added = false; (void)was_added;
        m.sig = si; m.persist = (cfgb & 3) != 0; m.heap = (cfgb & 4) != 0; m.prio = (cfgb >> 3) ? (int)s.below(w.nprio) : 0;
        m.act = act > 6 ? 0 : act; m.arg = arg; m.added = false; m.in_cb = false; m.act_remaining = 0; m.total_calls = 0; m.need_calls = 0; m.calls_batch = 0;
        m.nscript = 0; m.cyc = false; m.cut = false;
        if (act > 6) {   // per-call script of 2..4 actions (0 none, 1..6 as above, 7 loopbreak)
          m.nscript = act - 5; m.cyc = s.flag();
          for (int k = 0; k < m.nscript; k++) { m.script[k] = s.below(8); if (!m.persist && (m.script[k] == 3 || m.script[k] == 6)) m.script[k] = 0; }
        }
        if (!m.persist && (m.act == 3 || m.act == 6)) m.act = 0;
        short what = EV_SIGNAL | (m.persist ? EV_PERSIST : 0);
        if (m.heap) { m.ev = event_new(w.base, SIGS[si], what, sig_cb, (void *)(intptr_t)i); if (!m.ev) fail_("harness/event-new", "NULL"); }
        else { memset(&m.store, 0, sizeof m.store); int r = event_assign(&m.store, w.base, SIGS[si], what, sig_cb, (void *)(intptr_t)i); if (r != 0) fail_("harness/event-assign", "%d", r); m.ev = &m.store; }
        if (w.nprio > 1) event_priority_set(m.ev, m.prio);
        TRC("new ev%d SIG%s persist=%d %s prio=%d cb_action=%d/%d", i, SIGN[si], m.persist, m.heap ? "event_new" : "event_assign", m.prio, m.act, m.arg);
        if (m.nscript) TRC("  per-call script [%d,%d,%d,%d] length %d %s", m.script[0], m.script[1], m.script[2], m.script[3], m.nscript, m.cyc ? "cyclic" : "once");
        if (addnow) do_add(i, "");
        break; }
      case 3: {   // add: the drawn slot, or the next slot (cyclically) holding an event that is not added right now
        int i = s.below(NEV);
        for (int k = 0; k < NEV; k++) { MEv &c = w.e[(i + k) % NEV]; if (c.ev && !c.added) { i = (i + k) % NEV; break; } }
        do_add(i, ""); break; }
      case 4: case 5: do_del(s.below(NEV), ""); break;
      case 6: free_event(s.below(NEV), ""); break;
      case 7: case 8: case 9: { int si = s.below(NSIG_); int n = 1 + s.below(5); do_raise(si, n, ""); break; }
      case 10: case 11: case 12: do_turn(true); break;
      case 13: do_turn(false); break;
      case 14: {   // fork + event_reinit in the child (at most once, never in the child)
        if (w.forked || w.in_child || !may_fork) break;
        w.forked = true;
        if (do_fork()) TRC("child continues with the rest of the history"); else TR("parent continues after the child finished");
        break; }
      case 15: {   // free the base early: heap events first, harness-owned events may stay added
        if (!s.chance(1, 3)) break;
        for (int i = 0; i < NEV; i++) if (w.e[i].ev && w.e[i].heap) free_event(i, "before base free: ");
        bool any = false; for (auto &m : w.e) if (m.ev && m.added) any = true;
        if (any) w.saw_basefree_added = true;
        TRC("event_base_free with %s", any ? "signal events still added" : "no event added");
        event_base_free(w.base); w.base = nullptr; base_freed = true;
        for (int i = 0; i < NEV; i++) if (w.e[i].ev) { w.e[i].ev = nullptr; if (w.e[i].added) { w.e[i].added = false; w.sg[w.e[i].sig].n_added--; } }
        for (int si = 0; si < NSIG_; si++) { if (w.sg[si].n_added != 0) fail_("harness/model", "n_added"); check_restored(si, "after event_base_free", true); }
        if (any) w.saw_restore = true;
        break; }
    }
    if (base_freed) break;
    event_base_assert_ok_(w.base);
    for (int si = 0; si < NSIG_; si++) if (w.sg[si].n_added == 0) check_restored(si, "while no event is added for the signal", false);
  }
  if (!base_freed) {
    if (s.flag()) do_turn(true);
    for (int i = 0; i < NEV; i++) free_event(i, "teardown: ");
    event_base_free(w.base); w.base = nullptr;
    for (int si = 0; si < NSIG_; si++) check_restored(si, "after event_base_free", true);
  }
  CK(sim_mem_live_blocks == live0, "C07/leak", "library allocations outstanding after event_base_free: %lld blocks [%s, %s]", (long long)(sim_mem_live_blocks - live0),
     w.mech ? "signalfd" : "self-pipe", w.in_child ? "forked child after event_reinit" : "original process");
  {
    int nfd1 = list_fds(nullptr) - (w.in_child ? 1 : 0);   // the child additionally holds its result pipe
    if (nfd1 != nfd0) { std::string d; list_fds(&d);
      fail_("C07/fd-leak", "%d descriptors open after event_base_free, %d before the base was created [%s, %s]; open now: %s", nfd1, nfd0,
            w.mech ? "signalfd" : "self-pipe", w.in_child ? "forked child after event_reinit" : "original process", d.c_str()); } }
  { sigset_t cur; sigprocmask(SIG_SETMASK, nullptr, &cur);
    for (int si = 0; si < NSIG_; si++) CK(sigismember(&cur, SIGS[si]) != 1, "C07/signal-left-blocked", "SIG%s is blocked after event_base_free (it was not blocked before the base was created) [%s, %s]",
       SIGN[si], w.mech ? "signalfd" : "self-pipe", w.in_child ? "forked child after event_reinit" : "original process"); }

  if (w.in_child) {
    ChildRec r; memset(&r, 0, sizeof r); r.status = 0; r.callbacks = w.callbacks; r.lib_deliveries = w.lib_deliveries;
    r.flags = (w.saw_partial ? 1 : 0) | (w.saw_raise_in_cb ? 2 : 0) | (w.saw_restore ? 4 : 0);
    ssize_t x = __real_write(w.res_fd, &r, sizeof r); (void)x;
    _exit(0);
  }
  static const char *BK[] = {"bk_epoll", "bk_epoll_changelist", "bk_poll", "bk_select"};
  verif_class(BK[w.backend]); verif_class(w.mech ? "mech_signalfd" : "mech_selfpipe");
  if (w.forked) verif_class("forked"); if (w.saw_partial) verif_class("partial_delete"); if (w.saw_raise_in_cb) verif_class("raise_in_callback");
  if (w.saw_del_in_cb) verif_class("del_in_callback"); if (w.saw_restore) verif_class("restore_checked"); if (w.saw_coalesce) verif_class("several_deliveries_in_batch");
  if (w.saw_basefree_added) verif_class("base_free_with_added_events"); if (w.saw_nonpersist) verif_class("nonpersistent_fired"); if (w.callbacks) verif_class("callback_ran");
  if (w.nprio > 1) verif_class("several_priorities");
  if (w.saw_varying) verif_class("callback_action_varied"); if (w.saw_break) verif_class("loopbreak_in_callback"); if (w.saw_cut) verif_class("activation_cut_short");
  if (w.saw_call_after_cut) verif_class("called_again_after_cut_activation"); if (w.saw_idle_no_events) verif_class("batch_ended_with_no_event_left");
  int nontrivial = (w.saw_partial || w.saw_raise_in_cb || w.forked || w.saw_cut) && w.lib_deliveries >= 1 && w.callbacks >= 1;
  if (nontrivial) verif_class(w.mech ? "nt_signalfd" : "nt_selfpipe");
  verif_case_end(nontrivial, s.h);
  W = nullptr;
  return 0;
}
