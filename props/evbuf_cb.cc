// C13 — evbuffer change callbacks report exactly the changes that happened.
// C12's interpreter on 3 buffers, each immediate or deferred (evbuffer_defer_callbacks on a real event_base, flushed by
// event_base_loop(EVLOOP_NONBLOCK) = op "turn"), with 0-3 callbacks per buffer added / removed / enabled / disabled /
// NODEFER-toggled at any point; callbacks may add to / drain from their buffer, remove or disable themselves.
// Oracle (evbuf_world.hh): per invocation orig+added-deleted == length at that moment; per callback the sums of what it was
// told equal the bytes really added/removed while it was registered and enabled (immediate: at the end of every op;
// deferred: assignment at flush time, exactly one report per flush); disabled / removed callbacks are never invoked;
// deferred callbacks never run outside the loop turn.
#include "evbuf_ops.hh"
using namespace evb;

extern "C" int LLVMFuzzerInitialize(int *, char ***) { sim_mem_install(); ref_region_init(); return 0; }

extern "C" int LLVMFuzzerTestOneInput(const uint8_t *data, size_t size) {
  sim_reset();
  verif_case_begin("C13");
  Src s(data, size);
  int64_t live0 = sim_mem_live_blocks;
  {
    World w; world_init(w, "C13"); w.use_cbs = true;
    unsigned defer_mask = s.below(8);
    if (defer_mask) {
      sim_clock_enable(SIM_START_US);
      w.base = event_base_new();
      if (!w.base) { world_free(w); verif_case_end(0, s.h); return 0; }
      for (int i = 0; i < NB; i++) if (defer_mask & (1u << i)) { CHECK(evbuffer_defer_callbacks(w.B[i].eb, w.base) == 0, "C13/defer-ret", "evbuffer_defer_callbacks failed"); w.B[i].deferred = true; }
    }
    std::vector<Op> ops = decode_ops(s, 60, MIX_CB, sizeof MIX_CB);
    Exec ex(w); ex.init();
    for (const Op &o : ops) ex.run(o);
    if (w.base) { Op t; memset(&t, 0, sizeof t); t.kind = K_TURN; ex.run(t); }
    ex.post("end");
    int ncalls = w.n_cb_calls, ntog = w.n_toggles, nself = w.n_selfmod, ndef = w.n_deferred_runs;
    world_free(w);
    CHECK(sim_mem_live_blocks == live0, "C13/leak", "library allocations outstanding after freeing everything: %lld", (long long)(sim_mem_live_blocks - live0));
    if (ncalls) verif_class("cb_invoked"); if (nself) verif_class("self_modifying_cb"); if (ndef) verif_class("deferred_flush_reported"); if (defer_mask) verif_class("deferred_case");
    if (ntog >= 2) verif_class("toggled");
    verif_class_n("cb_calls", (uint64_t)ncalls);
    // a first add_cb counts as one toggle; non-trivial needs a later flag change / removal or a self-modifying callback
    verif_case_end(ncalls >= 2 && (ntog >= 2 || nself >= 1), s.h);
  }
  return 0;
}
