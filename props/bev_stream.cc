// C17 — bufferevents deliver the written byte stream intact, in order, then EOF at most once.
// World, generator and monitors: props/bev_world.hh (monitor "17").
#include "bev_world.hh"
extern "C" int LLVMFuzzerInitialize(int *, char ***) { bevw::process_init(); return 0; }
extern "C" int LLVMFuzzerTestOneInput(const uint8_t *data, size_t size) { return bevw::run_case(data, size, 17); }
