// C03 (second target) — EVLOOP_ONCE must keep waiting until a USER callback has run: iterations in which only
// library-internal callbacks run (here: the internal timer of a common-timeout queue whose members were all deleted
// or re-added elsewhere) do not end the loop.  Virtual clock; complements props/loop_prio.cc, whose histories never
// contain an iteration with internal callbacks only.
// Oracle: event_base_loop(EVLOOP_ONCE) with user timers pending returns 0 only after at least one user callback ran in
// that call, and all user callbacks that were active at that point have run; with nothing pending it returns 1.
#include "verif.h"
#include "sim.h"
#include <event2/event.h>
#include <event2/event_struct.h>
extern "C" {
#include "event-internal.h"
}

namespace {
struct W { struct event_base *base; struct event *u[4]; int64_t udl[4]; bool upend[4]; int ran_this_turn; int waits_this_turn; bool broke; Src *s; };
W *G;
const int64_t QD[] = {1000, 20000, 50000, 300000};   // common-timeout durations (µs)
struct timeval tv_of(int64_t us) { struct timeval tv; tv.tv_sec = us / 1000000; tv.tv_usec = us % 1000000; return tv; }
void u_cb(evutil_socket_t, short, void *arg) { int i = (int)(intptr_t)arg; G->ran_this_turn++; G->upend[i] = false; TR("  user cb u%d at %lld", i, (long long)sim_now_us()); }
void m_cb(evutil_socket_t, short, void *) { G->ran_this_turn++; }
int64_t hook(const struct sim_wait_info *wi, void *) {
  G->waits_this_turn++;
  if (wi->timeout_us < 0 || G->waits_this_turn > 64) { G->broke = true; event_base_loopbreak(G->base); return 0; }
  int64_t adv = wi->timeout_us; if (G->s->chance(1, 4)) adv += G->s->below(3000);
  TR("  wait req=%lld adv=%lld", (long long)wi->timeout_us, (long long)adv);
  return adv;
}
}  // namespace

extern "C" int LLVMFuzzerInitialize(int *, char ***) { sim_mem_install(); return 0; }

extern "C" int LLVMFuzzerTestOneInput(const uint8_t *data, size_t size) {
  sim_reset();
  verif_case_begin("C03");
  Src s(data, size);
  W w; memset(&w, 0, sizeof w); G = &w; w.s = &s;
  int64_t live0 = sim_mem_live_blocks;
  sim_clock_enable(SIM_START_US); sim_set_wait_hook(hook, nullptr);
  struct event_config *cfg = event_config_new();
  int backend = s.below(4); if (backend >= 2) event_config_avoid_method(cfg, "epoll"); if (backend == 3) event_config_avoid_method(cfg, "poll");
  if (backend == 1) event_config_set_flag(cfg, EVENT_BASE_FLAG_EPOLL_USE_CHANGELIST);
  w.base = event_base_new_with_config(cfg); event_config_free(cfg);
  if (!w.base) { G = nullptr; verif_case_end(0, s.h); return 0; }
  const struct timeval *q[2]; int64_t qd[2];
  for (int k = 0; k < 2; k++) { qd[k] = QD[s.below(4)]; struct timeval t = tv_of(qd[k]); q[k] = event_base_init_common_timeout(w.base, &t); }
  struct event *m[3] = {nullptr, nullptr, nullptr};
  int internal_only_turns = 0, turns = 0;
  for (int step = 0; step < 24; step++) {
    int op = s.below(6); if (op == 0) break;
    switch (op) {
      case 1: { int i = s.below(4); int64_t d = 1000 * (1 + s.below(600)); if (!w.u[i]) w.u[i] = event_new(w.base, -1, 0, u_cb, (void *)(intptr_t)i);
                struct timeval t = tv_of(d); event_add(w.u[i], &t); w.udl[i] = sim_now_us() + d; w.upend[i] = true; TR("add user timer u%d in %lld us", i, (long long)d); break; }
      case 2: { int i = s.below(3), k = s.below(2); if (!m[i]) m[i] = event_new(w.base, -1, 0, m_cb, nullptr);
                event_add(m[i], q[k]); TR("add member m%d to common queue %d (%lld us)", i, k, (long long)qd[k]);
                // ... and take it out again (delete, or move to a plain far timeout): the queue's internal timer stays scheduled
                if (s.flag()) { event_del(m[i]); TR("  del m%d", i); } else { struct timeval far = tv_of(5000000 + 1000 * s.below(1000)); event_del(m[i]); TR("  del m%d (queue now empty)", i); (void)far; }
                break; }
      case 3: { int i = s.below(4); if (w.u[i] && w.upend[i]) { event_del(w.u[i]); w.upend[i] = false; TR("del u%d", i); } break; }
      default: {
        bool any = false; int64_t earliest = -1; for (int i = 0; i < 4; i++) if (w.upend[i]) { any = true; if (earliest < 0 || w.udl[i] < earliest) earliest = w.udl[i]; }
        w.ran_this_turn = 0; w.waits_this_turn = 0; w.broke = false; int64_t t0 = sim_now_us();
        int r = event_base_loop(w.base, EVLOOP_ONCE); turns++;
        TR("turn ONCE: any=%d -> r=%d ran=%d waits=%d now=%lld (earliest user deadline %lld)", any, r, w.ran_this_turn, w.waits_this_turn, (long long)sim_now_us(), (long long)earliest);
        if (w.broke) break;
        if (!any) { CHECK(r == 1 || w.ran_this_turn == 0, "C03/once-empty-return", "no user event pending: r=%d ran=%d", r, w.ran_this_turn); break; }
        CHECK(r == 0, "C03/once-return-value", "EVLOOP_ONCE with user timers pending returned %d", r);
        if (w.waits_this_turn > 1) internal_only_turns++;
        CHECK(w.ran_this_turn >= 1, "C03/once-returned-without-user-callback", "EVLOOP_ONCE returned after %d wait(s) at +%lld us without having run any user callback (earliest user deadline in +%lld us)", w.waits_this_turn, (long long)(sim_now_us() - t0), (long long)(earliest - t0));
        for (int i = 0; i < 4; i++) if (w.upend[i]) CHECK(w.udl[i] > sim_now_us(), "C03/once-left-due-timer", "u%d was due (deadline %lld <= now %lld) but EVLOOP_ONCE returned without running it", i, (long long)w.udl[i], (long long)sim_now_us());
        break; }
    }
  }
  for (auto *e : w.u) if (e) event_free(e); for (auto *e : m) if (e) event_free(e);
  event_base_free(w.base);
  CHECK(sim_mem_live_blocks == live0, "C03/leak", "library blocks outstanding: %lld", (long long)(sim_mem_live_blocks - live0));
  if (internal_only_turns) verif_class("turn_with_internal_only_iteration");
  verif_case_end(internal_only_turns > 0, s.h);
  G = nullptr;
  return 0;
}
