// C46 — bounded random choices stay in range and terminate; evutil_secure_rng_get_bytes fills the whole buffer.
// Preconditions (util-internal.h): 1 <= top <= EVUTIL_WEAKRAND_MAX; the state is any 32-bit value
// (evutil_weakrand_seed_ stores the caller's seed verbatim; only its low 31 bits influence the sequence).
// Oracle for evutil_weakrand_range_(state, top), black-box (no knowledge of the generator's constants):
//   * 0 <= r < top                                                        (C46/range-out-of-bounds)
//   * the state after the call is reached from the state before the call by k applications of the library's
//     own step function evutil_weakrand_, 0 <= k <= DRAW_BOUND            (C46/range-unbounded-draws)
//   * evutil_weakrand_ itself returns 0 <= v <= EVUTIL_WEAKRAND_MAX        (C46/weakrand-out-of-range)
// Oracle for evutil_secure_rng_get_bytes(buf, n): guard bytes around the buffer intact (C46/rng-guard); every one
// of the n positions differs from its pre-filled value in at least one of RNG_CALLS calls, each call with a different
// pre-fill pattern (C46/rng-position-never-written; false-alarm probability 256^-RNG_CALLS per position).
#include "verif.h"
#include "sim.h"
#include "util_sweep.hh"
#include <event2/util.h>
extern "C" {
#include "util-internal.h"
}

static const int DRAW_BOUND = 64;
static const int RNG_CALLS = 10;
static const int32_t SWEEP_TOPS[] = {1, 2, 3, 7, 1000, (1 << 30) - 1, 1 << 30, (1 << 30) + 1, 0x7ffffffe, 0x7fffffff};
static const size_t N_SWEEP_TOPS = sizeof SWEEP_TOPS / sizeof SWEEP_TOPS[0];

static char g_msg[512];
// returns NULL when fine, else the violation key (message in g_msg); *draws_out = number of generator steps used
static const char *check_range(uint32_t state0, int32_t top, int *draws_out, int32_t *r_out) {
  struct evutil_weakrand_state st, ref;
  st.seed = state0; ref.seed = state0;
  int32_t r = evutil_weakrand_range_(&st, top);
  if (r_out) *r_out = r;
  if (!(r >= 0 && r < top)) { snprintf(g_msg, sizeof g_msg, "state=%u top=%d -> %d, not in [0,top)", state0, top, r); return "C46/range-out-of-bounds"; }
  int k = 0; bool found = ref.seed == st.seed;
  while (!found && k < DRAW_BOUND) { (void)evutil_weakrand_(&ref); k++; if (ref.seed == st.seed) { found = true; break; } }
  if (draws_out) *draws_out = k;
  if (!found) { snprintf(g_msg, sizeof g_msg, "state=%u top=%d -> %d: final state %u not reached within %d generator steps", state0, top, r, st.seed, DRAW_BOUND); return "C46/range-unbounded-draws"; }
  return NULL;
}
static const char *check_step(uint32_t state0) {
  struct evutil_weakrand_state st; st.seed = state0;
  int32_t v = evutil_weakrand_(&st);
  if (!(v >= 0 && v <= EVUTIL_WEAKRAND_MAX)) { snprintf(g_msg, sizeof g_msg, "evutil_weakrand_(state=%u) = %d outside [0,EVUTIL_WEAKRAND_MAX]", state0, v); return "C46/weakrand-out-of-range"; }
  return NULL;
}
static const char *check_state_all_tops(uint32_t state0, int *maxdraws) {
  const char *k = check_step(state0); if (k) return k;
  for (size_t i = 0; i < N_SWEEP_TOPS; i++) { int d = 0; k = check_range(state0, SWEEP_TOPS[i], &d, NULL); if (k) return k; if (maxdraws && d > *maxdraws) *maxdraws = d; if (d >= 16) verif_class("draws_ge_16"); }
  return NULL;
}

// generator-side only: a state whose NEXT output is `target` under the generator described in evutil.c's comment
// (LCG a=1103515245 c=12345 mod 2^31).  Used to aim at outputs next to a multiple of the divisor; if the library's
// generator ever changes this merely loses the bias (the oracle does not use it).
static uint32_t lcg_preimage(uint32_t target) {
  static uint32_t inv; if (!inv) { uint32_t x = 1; for (int i = 0; i < 6; i++) x *= 2u - 1103515245u * x; inv = x; }
  return ((target - 12345u) * inv) & 0x7fffffffu;
}

static SweepArgs g_args; static Sweep g_sweep; static int g_sweep_maxdraws;
extern "C" int LLVMFuzzerInitialize(int *argc, char ***argv) {
  g_args.parse(argc, argv);
  g_sweep.init("states", 1ull << 31, g_args);
  return 0;
}

static int32_t gen_top(Src &s) {
  int32_t top;
  switch (s.below(6)) {
    case 0: top = SWEEP_TOPS[s.below(N_SWEEP_TOPS)]; break;
    case 1: top = 1 + (int32_t)s.below(64); break;                        // poll/select/group sized
    case 2: top = 1 + (int32_t)s.below(70000); break;
    case 3: { int32_t d = 1 + (int32_t)s.below(8); int64_t q = EVUTIL_WEAKRAND_MAX / d; int64_t t = q - 2 + (int64_t)s.below(5); top = t > EVUTIL_WEAKRAND_MAX ? EVUTIL_WEAKRAND_MAX : (int32_t)t; break; }  // around MAX/d
    default: top = (int32_t)s.boundary(31); break;
  }
  if (top < 1) top = 1;
  return top;
}

extern "C" int LLVMFuzzerTestOneInput(const uint8_t *data, size_t size) {
  sim_reset();
  verif_case_begin("C46");
  Src s(data, size);
  int nontrivial = 0;
  switch (s.below(4)) {
  case 1: { // one state against the whole list of sweep bounds (also the replay form of a sweep element)
    verif_class("state_all_tops");
    uint32_t st = s.u32();
    int md = 0; const char *k = check_state_all_tops(st, &md);
    TR("state=%u against %zu bounds: max draws %d", st, N_SWEEP_TOPS, md);
    if (k) verif_fail(k, "%s", g_msg);
    nontrivial = md >= 2;
    break; }
  case 2: { // secure RNG fills the whole buffer
    verif_class("secure_rng");
    size_t n = s.chance(1, 4) ? s.below(9) : s.below(600);
    size_t off = s.below(8);      // alignment of the destination
    std::vector<uint8_t> buf(n + off + 16), seen(n, 0);
    uint8_t pat0 = s.byte();
    for (int c = 0; c < RNG_CALLS; c++) {
      uint8_t pat = (uint8_t)(pat0 + 37 * c);
      memset(buf.data(), pat, buf.size());
      evutil_secure_rng_get_bytes(buf.data() + off, n);
      for (size_t i = 0; i < off; i++) CHECK(buf[i] == pat, "C46/rng-guard", "byte %zu before the buffer modified (n=%zu)", off - i, n);
      for (size_t i = off + n; i < buf.size(); i++) CHECK(buf[i] == pat, "C46/rng-guard", "byte %zu after the buffer modified (n=%zu)", i - off - n, n);
      for (size_t i = 0; i < n; i++) if (buf[off + i] != pat) seen[i] = 1;
    }
    TR("secure_rng_get_bytes(n=%zu, align=%zu) x%d", n, off, RNG_CALLS);
    for (size_t i = 0; i < n; i++) CHECK(seen[i], "C46/rng-position-never-written", "position %zu of %zu kept its pre-filled value in all %d calls", i, n, RNG_CALLS);
    if (n == 0) verif_class("secure_rng_n0");
    nontrivial = n >= 1;
    break; }
  default: { // a short run of bounded choices on one state, as the call sites do
    verif_class("range_run");
    int32_t top = gen_top(s);
    uint32_t st;
    int32_t divisor = EVUTIL_WEAKRAND_MAX / top;
    switch (s.below(4)) {
      case 0: st = s.u32(); break;
      case 1: st = (uint32_t)s.boundary(32); break;
      default: { // aim the next output at the edge of the accepted range: q*divisor + {-2..2}, or the very top
        uint32_t q = s.flag() ? (uint32_t)top : (s.flag() ? (uint32_t)EVUTIL_WEAKRAND_MAX / (uint32_t)divisor : s.below((uint32_t)top + 1));
        int64_t t = (int64_t)q * divisor - 2 + (int64_t)s.below(5);
        if (s.chance(1, 4)) t = (int64_t)EVUTIL_WEAKRAND_MAX - (int64_t)s.below(4);
        if (t < 0) t = 0; if (t > EVUTIL_WEAKRAND_MAX) t = EVUTIL_WEAKRAND_MAX;
        st = lcg_preimage((uint32_t)t);
        if (s.flag()) st |= 0x80000000u;    // bit 31 of the stored seed must not matter
        verif_class("range_aimed_state");
        break; }
    }
    unsigned calls = 1 + s.below(6);
    struct evutil_weakrand_state cur; cur.seed = st;
    int maxd = 0;
    for (unsigned c = 0; c < calls; c++) {
      int d = 0; int32_t r = -1;
      uint32_t before = cur.seed;
      const char *k = check_range(before, top, &d, &r);
      TR("weakrand_range(state=%u, top=%d) -> %d after %d draw(s)", before, top, r, d);
      if (k) verif_fail(k, "%s", g_msg);
      k = check_step(before); if (k) verif_fail(k, "%s", g_msg);
      if (d > maxd) maxd = d;
      (void)evutil_weakrand_range_(&cur, top);     // advance exactly as a call site would
    }
    if (maxd >= 2) verif_class("range_rejection_loop_taken");
    if (top == 1) verif_class("range_top1");
    if (divisor == 1) verif_class("range_divisor1");
    nontrivial = top >= 2;
    break; }
  }
  // systematic sweep: next block of generator states x all listed bounds
  uint64_t lo, hi;
  if (g_sweep.next(&lo, &hi)) {
    for (uint64_t v = lo; v < hi; v++) {
      const char *k = check_state_all_tops((uint32_t)v, &g_sweep_maxdraws);
      if (k) {
        uint8_t b[5] = {1, (uint8_t)v, (uint8_t)(v >> 8), (uint8_t)(v >> 16), (uint8_t)(v >> 24)};
        char label[64]; snprintf(label, sizeof label, "state-%llu", (unsigned long long)v);
        sweep_fail(g_args, label, b, sizeof b, k, g_msg);
      }
    }
    verif_class_n("states_swept_x_bounds", (hi - lo) * N_SWEEP_TOPS);
  }
  verif_case_end(nontrivial, s.h);
  return 0;
}
