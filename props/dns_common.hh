// Shared world for the resolver-side DNS checks (C33, C34, C36): an event_base under the harness virtual clock,
// an evdns_base without system configuration, and up to 3 fake nameservers = loopback UDP sockets (plus a TCP
// listener on the same port number) owned by the harness.  The fake servers are created once per process and
// drained at the start of every case; everything else is per case.
#pragma once
#include "verif.h"
#include "sim.h"
#include "dnscodec.hh"
#include <event2/event.h>
#include <event2/dns.h>
#include <event2/util.h>
#include <arpa/inet.h>
#include <errno.h>
#include <fcntl.h>
#include <netinet/in.h>
#include <sys/socket.h>
#include <unistd.h>

namespace dnsw {
using namespace dnsref;

const int MAXNS = 3;
struct FakeNS { int udp = -1, lst = -1; struct sockaddr_in addr; };
static FakeNS g_ns[MAXNS];
static bool g_servers_ready;

static void quiet_log(int, const char *) {}

static void set_nonblock(int fd) { int fl = fcntl(fd, F_GETFL); fcntl(fd, F_SETFL, fl | O_NONBLOCK); }

// bind a UDP socket to 127.0.0.1:0 and a TCP listener to the same port number (retry until both succeed)
static void servers_init() {
  if (g_servers_ready) return;
  for (int i = 0; i < MAXNS; i++) {
    for (int attempt = 0; attempt < 200; attempt++) {
      int u = socket(AF_INET, SOCK_DGRAM | SOCK_CLOEXEC, 0);
      struct sockaddr_in sin; memset(&sin, 0, sizeof sin); sin.sin_family = AF_INET; sin.sin_addr.s_addr = htonl(INADDR_LOOPBACK); sin.sin_port = 0;
      if (u < 0 || bind(u, (struct sockaddr *)&sin, sizeof sin) < 0) { if (u >= 0) close(u); continue; }
      socklen_t sl = sizeof sin; getsockname(u, (struct sockaddr *)&sin, &sl);
      int t = socket(AF_INET, SOCK_STREAM | SOCK_CLOEXEC, 0);
      int one = 1; setsockopt(t, SOL_SOCKET, SO_REUSEADDR, &one, sizeof one);
      if (t < 0 || bind(t, (struct sockaddr *)&sin, sizeof sin) < 0 || listen(t, 64) < 0) { if (t >= 0) close(t); close(u); continue; }
      int big = 1 << 20; setsockopt(u, SOL_SOCKET, SO_RCVBUF, &big, sizeof big);
      set_nonblock(u); set_nonblock(t);
      g_ns[i].udp = u; g_ns[i].lst = t; g_ns[i].addr = sin; break;
    }
    if (g_ns[i].udp < 0) { fprintf(stderr, "dns_common: cannot create fake nameserver %d\n", i); abort(); }
  }
  g_servers_ready = true;
}

struct Datagram { int ns = 0; std::vector<uint8_t> data; struct sockaddr_in from; };
static bool udp_recv(int ns, Datagram *d) {
  uint8_t buf[70000]; struct sockaddr_in from; socklen_t fl = sizeof from;
  ssize_t r = recvfrom(g_ns[ns].udp, buf, sizeof buf, 0, (struct sockaddr *)&from, &fl);
  if (r < 0) return false;
  d->ns = ns; d->data.assign(buf, buf + r); d->from = from; return true;
}
static bool udp_send(int ns, const struct sockaddr_in &to, const uint8_t *p, size_t n) {
  ssize_t r = sendto(g_ns[ns].udp, p, n, 0, (const struct sockaddr *)&to, sizeof to);
  return r == (ssize_t)n;
}
static int tcp_accept(int ns) {
  int fd = accept(g_ns[ns].lst, nullptr, nullptr);
  if (fd >= 0) { set_nonblock(fd); int one = 1; setsockopt(fd, IPPROTO_TCP, 1 /*TCP_NODELAY*/, &one, sizeof one); }
  return fd;
}
// nothing from a previous case may be visible to the next one
static void servers_drain() {
  Datagram d;
  for (int i = 0; i < MAXNS; i++) {
    while (udp_recv(i, &d)) {}
    for (;;) { int fd = accept(g_ns[i].lst, nullptr, nullptr); if (fd < 0) break; close(fd); }
  }
}

struct TcpConn { int fd = -1; int ns = 0; std::vector<uint8_t> in; bool eof = false; };

struct World {
  struct event_base *base = nullptr;
  struct evdns_base *dns = nullptr;
  int nns = 0;
  int64_t live0 = 0;
  bool idle = false;        // the last EVLOOP_ONCE turn ended in an infinite wait with nothing ready
  std::vector<TcpConn> conns;

  static int64_t wait_hook(const struct sim_wait_info *wi, void *arg) {
    World *w = (World *)arg;
    if (wi->nready > 0) return 0;
    if (wi->timeout_us < 0) { w->idle = true; event_base_loopbreak(w->base); return 0; }
    return wi->timeout_us;
  }
  // per case, after sim_reset()
  void open(int nservers, int evdns_flags = 0) {
    servers_init(); servers_drain();
    live0 = sim_mem_live_blocks;
    sim_clock_enable(SIM_START_US);
    sim_set_wait_hook(wait_hook, this);
    base = event_base_new();
    dns = evdns_base_new(base, evdns_flags);
    CHECK(base && dns, "harness/setup", "event_base_new/evdns_base_new failed");
    nns = nservers;
    for (int i = 0; i < nns; i++) {
      int r = evdns_base_nameserver_sockaddr_add(dns, (struct sockaddr *)&g_ns[i].addr, sizeof g_ns[i].addr, 0);
      CHECK(r == 0, "harness/setup", "nameserver_sockaddr_add=%d", r);
    }
  }
  void set_opt(const char *k, const char *v) { int r = evdns_base_set_option(dns, k, v); CHECK(r == 0, "harness/setup", "set_option(%s,%s)=%d", k, v, r); }
  void set_opt(const char *k, long v) { char b[32]; snprintf(b, sizeof b, "%ld", v); set_opt(k, b); }
  // run everything that is ready now (no time passes)
  void turn() { event_base_loop(base, EVLOOP_NONBLOCK); }
  // let virtual time jump to the next timer and run what fires; returns false when nothing is scheduled at all
  bool advance() { idle = false; event_base_loop(base, EVLOOP_ONCE); return !idle; }
  // accept pending TCP connections on every fake server
  void tcp_poll() {
    for (int i = 0; i < nns; i++) for (;;) { int fd = tcp_accept(i); if (fd < 0) break; TcpConn c; c.fd = fd; c.ns = i; conns.push_back(c); }
    for (auto &c : conns) { if (c.fd < 0 || c.eof) continue;
      for (;;) { uint8_t buf[4096]; ssize_t r = read(c.fd, buf, sizeof buf); if (r > 0) c.in.insert(c.in.end(), buf, buf + r); else { if (r == 0) c.eof = true; break; } } }
  }
  // pop one complete length-prefixed message from a connection's input
  static bool tcp_pop(TcpConn &c, std::vector<uint8_t> *msg) {
    if (c.in.size() < 2) return false; size_t n = ((size_t)c.in[0] << 8) | c.in[1];
    if (c.in.size() < 2 + n) return false;
    msg->assign(c.in.begin() + 2, c.in.begin() + 2 + n); c.in.erase(c.in.begin(), c.in.begin() + 2 + n); return true;
  }
  void tcp_close(TcpConn &c) { if (c.fd >= 0) { close(c.fd); c.fd = -1; } }
  // free the resolver (if still there), flush deferred callbacks, free the loop, check the allocator ledger
  void close_dns(int fail_requests) { if (dns) { evdns_base_free(dns, fail_requests); dns = nullptr; } }
  void finish(const char *leak_key) {
    close_dns(0);
    if (base) { event_base_loop(base, EVLOOP_NONBLOCK); event_base_free(base); base = nullptr; }
    for (auto &c : conns) tcp_close(c);
    conns.clear();
    int64_t d = sim_mem_live_blocks - live0;
    CHECK(d == 0, leak_key, "library allocations outstanding after evdns_base_free + event_base_free: %lld block(s)", (long long)d);
  }
};

// ---- reply construction helpers (valid replies; the adversarial grammar lives in dns_reply.cc)
// Echo the question of `q` (raw bytes) and append nothing; rcode/flags given.
static inline Builder reply_header_echo(const std::vector<uint8_t> &query, uint16_t flags, uint16_t an, uint16_t ns = 0, uint16_t ar = 0) {
  Builder b; Query q = decode_query_strict(query.data(), query.size());
  b.header(rd16(query.data()), flags, 1, an, ns, ar);
  size_t qlen = q.ok ? q.qname_len + 4 : 0;
  if (q.ok) b.raw(query.data() + 12, qlen); else { b.u8(0); b.u16(1); b.u16(1); }
  return b;
}
static inline void add_a(Builder &b, uint32_t ttl, const uint8_t addr[4]) { b.ptr(12); b.rr_fixed(T_A, C_IN, ttl, 4); b.raw(addr, 4); }
static inline void add_aaaa(Builder &b, uint32_t ttl, const uint8_t addr[16]) { b.ptr(12); b.rr_fixed(T_AAAA, C_IN, ttl, 16); b.raw(addr, 16); }
static inline void add_ptr(Builder &b, uint32_t ttl, const Labels &target) { b.ptr(12); b.rr_fixed(T_PTR, C_IN, ttl, (uint16_t)wire_len(target)); b.name(target); }

static inline void common_init() {
  sim_mem_install();
  event_set_log_callback(quiet_log);
  servers_init();
}
}  // namespace dnsw
