// C12 — an evbuffer always holds exactly the byte string its operations imply.
// History of <= 80 ops over 3 buffers executed in lock-step against refs/bytebuf_model.hh; after every op the
// internal chain bookkeeping of every buffer is validated and its contents compared with the model.
#include "evbuf_ops.hh"
using namespace evb;

extern "C" int LLVMFuzzerInitialize(int *, char ***) { sim_mem_install(); ref_region_init(); return 0; }

extern "C" int LLVMFuzzerTestOneInput(const uint8_t *data, size_t size) {
  sim_reset();
  verif_case_begin("C12");
  Src s(data, size);
  int64_t live0 = sim_mem_live_blocks;
  {
    World w; world_init(w, "C12");
    std::vector<Op> ops = decode_ops(s, 80, MIX_MODEL, sizeof MIX_MODEL);
    Exec ex(w); ex.init();
    for (const Op &o : ops) ex.run(o);
    ex.post("end");
    int maxch = 0; for (auto &b : w.B) if (b.max_chains > maxch) maxch = b.max_chains;
    world_free(w);
    CHECK(w.refs_cleaned == w.refs_added, "C12/ref-cleanup-count", "%d references added, %d cleanup calls after all buffers were freed", w.refs_added, w.refs_cleaned);
    CHECK(sim_mem_live_blocks == live0, "C12/leak", "library allocations outstanding after freeing all buffers: %lld", (long long)(sim_mem_live_blocks - live0));
    if (w.saw_multi_chain) verif_class("multi_chain"); if (w.saw_cross) verif_class("crossed_boundary"); if (w.saw_move) verif_class("buffer_move");
    if (maxch >= 4) verif_class("chains>=4");
    verif_class_n("ops", ops.size());
    verif_case_end(w.saw_multi_chain && w.saw_cross, s.h);
  }
  return 0;
}
