// C15 — references, buffer references and file segments deliver their bytes and clean up exactly once.
//
// A case is a history of <= 56 ops over up to 4 evbuffers: evbuffer_add_reference(_with_offset) into read-only pages,
// evbuffer_add_buffer_reference, evbuffer_file_segment_new (all flag combinations of CLOSE_ON_FREE / DISABLE_MMAP /
// DISABLE_SENDFILE) over memfd files, evbuffer_add_file_segment(offset, length | -1), evbuffer_add_file,
// evbuffer_file_segment_add_cleanup_cb / _free, plain add / prepend, add_buffer / prepend_buffer / remove_buffer,
// drain / remove / copyout / copyout_from / peek / pullup, evbuffer_write(_atmost) to a socketpair (sendfile when the
// buffer has EVBUFFER_FLAG_DRAINS_TO_FD), set/clear flags, freeze/unfreeze of the end, free / new of buffers in any order.
//
// Model (written from include/event2/buffer.h): per buffer a byte string plus a list of spans; a span is either
// untracked bytes (plain / multicast copies of plain chains) or exactly one immutable chain that depends on a tracked
// resource (reference r, multicast child of reference r, file segment s).  Liveness of a resource = reachability from
// the buffers the user still owns (a buffer freed by the user stays alive while multicast chains made from it are alive).
// Oracle: bytes through every read path == model; cleanup callbacks: never while a reachable chain depends on the
// resource, exactly once, and run by the time nothing depends on it; callback arguments; CLOSE_ON_FREE closes the fd
// exactly when the segment dies, otherwise the fd stays open; fd ledger; allocation ledger; read-only pages and pages made
// inaccessible by the cleanup callback turn "modified in place" / "used after cleanup" into faults.
#include "verif.h"
#include "sim.h"
#include <event2/event.h>
#include <event2/buffer.h>
#include <sys/mman.h>
#include <sys/socket.h>
#include <sys/uio.h>
#include <fcntl.h>
#include <unistd.h>
#include <signal.h>
#include <errno.h>
#include <vector>
#include <string>

extern "C" const char *__asan_default_options() { return "quarantine_size_mb=16"; }

namespace {
const size_t PG = 4096;
const int NFILE = 4;
const size_t FSIZE[NFILE] = {100, 8192, 12411, 20481};
const int NSLOT = 8;
const size_t SLOT_SZ = 3 * PG;
const int NB = 4;
const int NSEG = 6;       // segment records per case (handles + evbuffer_add_file)
const int MAXOPS = 56;

int g_memfd[NFILE];
std::string g_fdata[NFILE];
unsigned char *g_slots;
std::string g_slotdata[NSLOT];
bool g_slot_none[NSLOT];
int g_sock[2];
std::string g_plain;      // plain payload stream

inline uint8_t fbyte(int f, size_t i) { uint32_t x = (uint32_t)i * 2654435761u ^ (uint32_t)(f + 1) * 0x9e3779b9u; x ^= x >> 15; x *= 0x85ebca6bu; x ^= x >> 13; return (uint8_t)x; }
inline uint8_t rbyte(int k, size_t i) { uint32_t x = (uint32_t)i * 0x9e3779b1u ^ (uint32_t)(k + 11) * 0x85ebca77u; x ^= x >> 16; x *= 0xc2b2ae3du; x ^= x >> 13; return (uint8_t)x; }
void quiet_log(int, const char *) {}

enum { S_PLAIN, S_MCP, S_UNK, S_REF, S_MCREF, S_SEG };
struct Span { size_t len; int kind; int id; int src; bool sf; int inst; };
struct Inst { bool moved = false; int pieces = 0; };
struct MB { int uid; struct evbuffer *eb; std::string d; std::vector<Span> sp; bool user = true, drains = false, fz_end = false, may = true, must = true; bool empties = false; /* may hold an empty immutable chain */ };
struct Ref { bool used = false, ok = false, has_cb = false, loose = false, revoke = false; int slot = 0; size_t a = 0, off = 0, len = 0; int count = 0; const unsigned char *data = nullptr; };
struct Seg { bool used = false, handle = false, anon = false, has_cb = false, loose = false, fd_done = false; struct evbuffer_file_segment *h = nullptr;
  int file = 0; size_t off = 0, len = 0; unsigned flags = 0; int fd = -1; int count = 0; bool minus1 = false; };

struct World {
  std::vector<MB *> all; MB *slot[NB] = {nullptr, nullptr, nullptr, nullptr};
  Ref refs[NSLOT]; int nref = 0; Seg segs[NSEG]; int nseg = 0; std::vector<Inst> inst;
  int opno = 0; int next_fd = 0; uint32_t plain_pos = 0; bool any_empty_seg_chain = false; bool cycle = false;
  // statistics
  int n_ref = 0, n_mc = 0, n_seg_add = 0, n_sf_add = 0, n_sf_write = 0, n_move = 0, n_pullup_copy = 0, n_fail_add = 0, n_zombie = 0, n_page_cross = 0, n_cleanup = 0, n_segdeath = 0;
};
World *W;

#define K(s) "C15/" s

// ------------------------------------------------------------------------------------------------ callbacks
void ref_cleanup(const void *data, size_t len, void *extra) {
  World &w = *W; int r = (int)(intptr_t)extra - 100;
  CHECK(r >= 0 && r < NSLOT && w.refs[r].used, K("cleanup-args"), "reference cleanup called with unknown argument %p", extra);
  Ref &R = w.refs[r];
  TR("    [cleanup ref%d]", r);
  CHECK(R.ok, K("cleanup-after-failed-add"), "cleanup of ref%d invoked although evbuffer_add_reference failed", r);
  R.count++;
  CHECK(R.count == 1, K("cleanup-twice"), "cleanup of ref%d invoked %d times", r, R.count);
  CHECK(data == (const void *)R.data && len == R.off + R.len, K("cleanup-args"), "cleanup of ref%d got (%p,%zu), expected (%p,%zu)", r, data, len, (const void *)R.data, R.off + R.len);
  w.n_cleanup++;
  // the owner releases the memory: any later access through the library faults
  if (R.revoke) { mprotect(g_slots + (size_t)R.slot * SLOT_SZ, SLOT_SZ, PROT_NONE); g_slot_none[R.slot] = true; }   // (page-table calls are very slow in this sandbox, so only some references do this)
}
void seg_cleanup(struct evbuffer_file_segment const *seg, int flags, void *arg) {
  World &w = *W; int s = (int)(intptr_t)arg - 200;
  CHECK(s >= 0 && s < NSEG && w.segs[s].used && w.segs[s].has_cb, K("seg-cleanup-args"), "segment cleanup called with unknown argument %p", arg);
  Seg &S = w.segs[s];
  TR("    [cleanup seg%d]", s);
  S.count++;
  CHECK(S.count == 1, K("seg-cleanup-twice"), "cleanup of seg%d invoked %d times", s, S.count);
  CHECK(seg == S.h && (unsigned)flags == S.flags, K("seg-cleanup-args"), "cleanup of seg%d got (%p,%d), expected (%p,%u)", s, (const void *)seg, flags, (void *)S.h, S.flags);
}

// ------------------------------------------------------------------------------------------------ model helpers
bool mergeable(const Span &a, const Span &b) {
  if (a.kind != b.kind) return false;
  if (a.kind == S_PLAIN) return true;
  if (a.kind == S_MCP || a.kind == S_UNK) return a.src == b.src;
  return false;
}
void normalize(std::vector<Span> &v) {
  std::vector<Span> o; o.reserve(v.size());
  for (auto &s : v) { if (s.len == 0) continue; if (!o.empty() && mergeable(o.back(), s)) o.back().len += s.len; else o.push_back(s); }
  v.swap(o);
}
bool tracked(const Span &s) { return s.kind == S_REF || s.kind == S_MCREF || s.kind == S_SEG; }
Span plain(size_t n) { return Span{n, S_PLAIN, -1, -1, false, -1}; }
bool has_sf(const MB &b) { for (auto &s : b.sp) if (s.sf) return true; return false; }
bool readable(const MB &b) { return !b.drains && !has_sf(b); }
MB *byuid(int uid) { return W->all[uid]; }
// pin graph: X -> S when X holds a multicast chain made from a chain of S
bool reaches(int from, int to, int depth = 0) {
  if (from == to) return true; if (depth > 16) return false;
  for (auto &s : byuid(from)->sp) if (s.src >= 0 && reaches(s.src, to, depth + 1)) return true;
  return false;
}
// would moving the first n bytes of src into dst make dst (transitively) pin itself?
bool makes_cycle(const MB &src, size_t n, const MB &dst) {
  size_t pos = 0;
  for (auto &s : src.sp) { if (pos >= n) break; if (s.src >= 0 && reaches(s.src, dst.uid)) return true; pos += s.len; }
  return false;
}
const char *CYCLE_KEY = "C15/bufref-cycle-never-freed";
// returns true when the op must be skipped
bool cycle_guard(const MB &src, size_t n, const MB &dst) {
  if (!makes_cycle(src, n, dst)) return false;
  if (verif_known(CYCLE_KEY)) { verif_known_skipped(CYCLE_KEY); return true; }
  W->cycle = true; return false;
}

// remove n bytes from the front of b; the removed spans go to *out (if any).  consume: the bytes are read/drained/copied
// (counts as a piece of each tracked chain touched); otherwise whole chains are moved to another buffer.
void take_front(MB &b, size_t n, std::vector<Span> *out, bool consume) {
  World &w = *W; size_t left = n; size_t i = 0;
  while (left > 0 && i < b.sp.size()) {
    Span &s = b.sp[i];
    if (s.len <= left) { left -= s.len; if (s.inst >= 0) { if (consume) w.inst[s.inst].pieces++; else w.inst[s.inst].moved = true; } if (out) out->push_back(s); i++; }
    else { Span part = s; part.len = left; s.len -= left; if (s.inst >= 0) w.inst[s.inst].pieces++; if (out) out->push_back(part); left = 0; }
  }
  b.sp.erase(b.sp.begin(), b.sp.begin() + i);
  b.d.erase(0, n);
}

// liveness by reachability from the buffers the user owns
void mark() {
  World &w = *W;
  for (MB *b : w.all) b->may = b->must = b->user;
  for (bool ch = true; ch;) { ch = false;
    for (MB *x : w.all) for (auto &s : x->sp) { if (s.src < 0) continue; MB *t = byuid(s.src);
      if (x->may && !t->may) { t->may = true; ch = true; }
      if (x->must && (s.kind == S_MCP || s.kind == S_MCREF) && !t->must) { t->must = true; ch = true; } } }
  for (MB *b : w.all) if (!b->may && !b->sp.empty()) { b->sp.clear(); b->d.clear(); }
}
void live_of(int kind_direct, int kind_child, int id, bool &may, bool &must) {
  may = must = false;
  for (MB *b : W->all) for (auto &s : b->sp) if ((s.kind == kind_direct || s.kind == kind_child) && s.id == id) { if (b->may) may = true; if (b->must) must = true; }
}
bool fd_open(int fd) { return fcntl(fd, F_GETFD) != -1; }

void check_resources(const char *when) {
  World &w = *W; mark();
  for (int r = 0; r < NSLOT; r++) { Ref &R = w.refs[r]; if (!R.used || !R.has_cb) continue;
    if (!R.ok) { CHECK(R.count == 0, K("cleanup-after-failed-add"), "%s: ref%d", when, r); continue; }
    bool may, must; live_of(S_REF, S_MCREF, r, may, must);
    if (R.count && must) VERIF_FAIL(K("cleanup-too-early"), "%s (op %d): cleanup of ref%d has run but a live chain still depends on it", when, w.opno, r);
    if (!R.count && !may && !R.loose && !w.cycle) VERIF_FAIL(K("cleanup-missing"), "%s (op %d): nothing depends on ref%d any more but its cleanup has not run", when, w.opno, r);
  }
  for (int s = 0; s < NSEG; s++) { Seg &S = w.segs[s]; if (!S.used || S.fd_done) continue;
    bool may, must; live_of(S_SEG, S_SEG, s, may, must);
    if (S.handle) may = must = true;
    bool cof = (S.flags & EVBUF_FS_CLOSE_ON_FREE) != 0;
    // an empty chain of this segment may sit in some buffer (or a leaked cycle exists): the moment of death is not known to the
    // model, so it is taken from what can be observed (fd closed / callback ran) and only checked for consistency
    bool lax = S.loose || w.cycle;
    bool observed = (cof && !fd_open(S.fd)) || (S.has_cb && S.count > 0);
    if (must) {
      if (S.has_cb && S.count) VERIF_FAIL(K("seg-cleanup-too-early"), "%s (op %d): cleanup of seg%d has run but the segment is still in use", when, w.opno, s);
      CHECK(fd_open(S.fd), K("seg-fd-closed-early"), "%s (op %d): fd %d of seg%d is closed while the segment is still in use", when, w.opno, S.fd, s);
    }
    if (!may && (!lax || observed)) {
      if (S.has_cb && !S.count) VERIF_FAIL(K("seg-cleanup-missing"), "%s (op %d): no reference to seg%d is left but its cleanup has not run", when, w.opno, s);
      if (cof) CHECK(!fd_open(S.fd), K("seg-fd-not-closed"), "%s (op %d): seg%d (CLOSE_ON_FREE) is gone but fd %d is still open", when, w.opno, s, S.fd);
      else { CHECK(fd_open(S.fd), K("seg-fd-closed-unasked"), "%s (op %d): seg%d has no CLOSE_ON_FREE but fd %d was closed", when, w.opno, s, S.fd); close(S.fd); }
      S.fd_done = true; w.n_segdeath++;
      TR("    [seg%d dead]", s);
    }
  }
}

// content of every buffer the documentation allows us to look at
void verify_all(const char *when) {
  World &w = *W;
  for (int bi = 0; bi < NB; bi++) { MB *b = w.slot[bi]; if (!b) continue;
    size_t L = evbuffer_get_length(b->eb);
    CHECK(L == b->d.size(), K("length-mismatch"), "%s (op %d): buf%d evbuffer_get_length=%zu model=%zu", when, w.opno, bi, L, b->d.size());
    if (!readable(*b) || L == 0) continue;
    struct evbuffer_iovec st[32]; std::vector<struct evbuffer_iovec> dyn; struct evbuffer_iovec *v = st;
    int n = evbuffer_peek(b->eb, (ev_ssize_t)L, nullptr, nullptr, 0);
    if (n > 32) { dyn.resize(n); v = dyn.data(); }
    int n2 = evbuffer_peek(b->eb, (ev_ssize_t)L, nullptr, v, n);
    CHECK(n2 == n, K("peek-count"), "%s: buf%d peek said %d then %d extents", when, bi, n, n2);
    size_t pos = 0;
    for (int i = 0; i < n; i++) {
      CHECK(pos + v[i].iov_len <= L, K("content-mismatch"), "%s (op %d): buf%d extents exceed the length %zu", when, w.opno, bi, L);
      if (v[i].iov_len && memcmp(v[i].iov_base, b->d.data() + pos, v[i].iov_len) != 0) {
        const unsigned char *p = (const unsigned char *)v[i].iov_base; size_t k = 0; while (p[k] == (unsigned char)b->d[pos + k]) k++;
        VERIF_FAIL(K("content-mismatch"), "%s (op %d): buf%d byte %zu of %zu is %02x, expected %02x", when, w.opno, bi, pos + k, L, p[k], (unsigned char)b->d[pos + k]);
      }
      pos += v[i].iov_len;
    }
    CHECK(pos == L, K("content-mismatch"), "%s (op %d): buf%d extents cover %zu of %zu bytes", when, w.opno, bi, pos, L);
  }
}
void after_op(const char *what) { check_resources(what); verify_all(what); }

std::string drain_peer(size_t want) {
  std::string got; char tmp[32768];
  while (got.size() < want) { size_t ask = want - got.size(); if (ask > sizeof tmp) ask = sizeof tmp; ssize_t r = read(g_sock[1], tmp, ask); if (r <= 0) break; got.append(tmp, (size_t)r); }
  return got;
}
bool peer_empty() { char c; ssize_t r = recv(g_sock[1], &c, 1, MSG_PEEK | MSG_DONTWAIT); return r < 0; }

// ------------------------------------------------------------------------------------------------ generator helpers
struct Gen {
  World &w; Src &s;
  Gen(World &ww, Src &ss) : w(ww), s(ss) {}

  int pick_live() { int live[NB], n = 0; for (int i = 0; i < NB; i++) if (w.slot[i]) live[n++] = i; if (!n) return -1; return live[s.below(n)]; }
  int pick_where(bool (*pred)(const MB &)) { if (s.chance(1, 3)) { for (int i = NB - 1; i >= 0; i--) if (w.slot[i] && pred(*w.slot[i])) return i; } return pick_live(); }
  static bool is_drains(const MB &b) { return b.drains; }
  static bool front_sf(const MB &b) { return !b.sp.empty() && b.sp[0].sf; }
  int pick_other(int a) { int live[NB], n = 0; for (int i = 0; i < NB; i++) if (w.slot[i] && i != a) live[n++] = i; if (!n) return -1; return live[s.below(n)]; }
  size_t small_len() { switch (s.below(8)) { case 0: return 1; case 1: return 1 + s.below(8); case 2: return 1 + s.below(64); case 3: return 500 + s.below(30); case 4: return 1000 + s.below(100); case 5: return PG - 1 + s.below(3); case 6: return 1 + s.below(300); default: return 1 + s.below(2000); } }
  // a count relative to a buffer of L bytes whose first span has F bytes
  size_t rel_len(size_t L, size_t F) {
    switch (s.below(12)) {
      case 0: return 1; case 1: return F; case 2: return F ? F - 1 : 0; case 3: return F + 1; case 4: return L; case 5: return L ? L - 1 : 0; case 6: return L + 1;
      case 7: return s.below(16); case 8: return L ? s.below((uint32_t)L + 1) : 0; case 9: return F ? s.below((uint32_t)F + 1) : 0; case 10: return F + s.below(64); default: return L / 2; }
  }
  size_t first_len(const MB &b) { return b.sp.empty() ? 0 : b.sp[0].len; }
  std::string plain_bytes(size_t n) { std::string r; size_t p = w.plain_pos % 60000; if (p + n > g_plain.size()) p = 0; r.assign(g_plain, p, n); w.plain_pos += (uint32_t)n + 7; return r; }
  void append_spans(MB &dst, std::vector<Span> &v) { for (auto &x : v) dst.sp.push_back(x); normalize(dst.sp); }

  // ---------------------------------------------------------------- adds
  void op_add_plain(bool front) {
    int bi = pick_live(); if (bi < 0) return; MB &b = *w.slot[bi]; size_t n = small_len(); std::string pl = plain_bytes(n);
    int rc = front ? evbuffer_prepend(b.eb, pl.data(), n) : evbuffer_add(b.eb, pl.data(), n);
    TR("%s(buf%d, %zu) -> %d", front ? "prepend" : "add", bi, n, rc);
    bool expect_ok = front || !b.fz_end;
    CHECK((rc == 0) == expect_ok, K("add-ret"), "plain %s on buf%d returned %d (end frozen %d)", front ? "prepend" : "add", bi, rc, b.fz_end);
    if (rc == 0) { if (front) { b.d.insert(0, pl); b.sp.insert(b.sp.begin(), plain(n)); } else { b.d += pl; b.sp.push_back(plain(n)); } normalize(b.sp); }
  }
  void op_add_ref() {
    int bi = pick_live(); if (bi < 0) return; MB &b = *w.slot[bi];
    if (w.nref >= NSLOT) { op_add_plain(false); return; }
    int r = w.nref++; Ref &R = w.refs[r]; R.used = true; R.slot = r;
    static const size_t AS[] = {0, 0, 1, PG - 1, PG, PG + 1, 17};
    R.a = AS[s.below(7)]; if (s.chance(1, 6)) R.a = s.below((uint32_t)(2 * PG));
    bool with_off = s.flag();
    if (with_off) { static const size_t OS[] = {1, PG - 1, PG, PG + 1, 5, 0}; R.off = OS[s.below(6)]; if (s.chance(1, 6)) R.off = s.below((uint32_t)PG); }
    size_t room = SLOT_SZ - R.a - R.off, start = R.a + R.off, to_page = PG - start % PG;
    switch (s.below(10)) { case 0: R.len = 1; break; case 1: R.len = to_page; break; case 2: R.len = to_page + 1; break; case 3: R.len = to_page > 1 ? to_page - 1 : 1; break; case 4: R.len = room; break;
      case 5: R.len = PG; break; case 6: R.len = 1 + s.below(64); break; case 7: R.len = s.chance(1, 3) ? 0 : 2; break; default: R.len = 1 + s.below((uint32_t)room); }
    if (R.len > room) R.len = room;
    R.has_cb = !s.chance(1, 10); R.revoke = R.has_cb && s.chance(1, 6);
    R.loose = R.len == 0;
    R.data = g_slots + (size_t)r * SLOT_SZ + R.a;
    int rc = with_off ? evbuffer_add_reference_with_offset(b.eb, R.data, R.off, R.len, R.has_cb ? ref_cleanup : nullptr, (void *)(intptr_t)(100 + r))
                      : evbuffer_add_reference(b.eb, R.data, R.len, R.has_cb ? ref_cleanup : nullptr, (void *)(intptr_t)(100 + r));
    TR("add_reference%s(buf%d, ref%d slot+%zu, off %zu, len %zu, cb %d) -> %d", with_off ? "_with_offset" : "", bi, r, R.a, R.off, R.len, R.has_cb, rc);
    CHECK((rc == 0) == !b.fz_end, K("add-ret"), "add_reference on buf%d returned %d (end frozen %d)", bi, rc, b.fz_end);
    if (rc != 0) { w.n_fail_add++; return; }
    R.ok = true; w.n_ref++; if (!R.len) b.empties = true;
    if ((start % PG) + R.len > PG) w.n_page_cross++;
    if (R.len) { b.d.append(g_slotdata[r], start, R.len); w.inst.push_back(Inst()); b.sp.push_back(Span{R.len, S_REF, r, -1, false, (int)w.inst.size() - 1}); }
  }
  void op_add_bufref() {
    int di = pick_live(); if (di < 0) return; int si = s.chance(1, 24) ? di : pick_other(di); if (si < 0) return;
    MB &dst = *w.slot[di], &src = *w.slot[si];
    if (!readable(src) && di != si) { op_add_plain(false); return; }
    bool hard = false, unk = false;
    const char *UAF = "asan:heap-use-after-free@evbuffer_free_trailing_empty_chains";   // empty destination that still owns an (empty) chain
    if (dst.d.empty() && dst.empties && !src.d.empty() && verif_known(UAF)) { verif_known_skipped(UAF); return; }
    for (auto &x : src.sp) { if (x.kind == S_SEG || x.kind == S_MCREF || x.kind == S_MCP) hard = true; if (x.kind == S_UNK) unk = true; }
    int rc = evbuffer_add_buffer_reference(dst.eb, src.eb);
    TR("add_buffer_reference(buf%d <- buf%d [%zu]) -> %d", di, si, src.d.size(), rc);
    if (src.d.empty()) { CHECK(rc == 0, K("bufref-ret"), "empty source: %d", rc); return; }
    if (di == si || dst.fz_end || hard) { CHECK(rc == -1, K("bufref-ret"), "add_buffer_reference must be refused (same %d, frozen %d, unreferencable chains %d) but returned %d", di == si, dst.fz_end, hard, rc); w.n_fail_add++; return; }
    if (!unk && !w.any_empty_seg_chain) CHECK(rc == 0, K("bufref-ret"), "add_buffer_reference(buf%d <- buf%d) failed: %d", di, si, rc);
    if (rc != 0) return;
    for (auto &x : src.sp) { if (x.kind == S_UNK) x.kind = S_PLAIN, x.src = -1; }   // it succeeded: there were no multicast chains in there
    normalize(src.sp);
    for (auto &x : src.sp) {
      if (x.kind == S_REF) { w.inst.push_back(Inst()); dst.sp.push_back(Span{x.len, S_MCREF, x.id, src.uid, false, (int)w.inst.size() - 1}); }
      else dst.sp.push_back(Span{x.len, S_MCP, -1, src.uid, false, -1});
    }
    normalize(dst.sp); dst.d += src.d; w.n_mc++;
  }
  // ---------------------------------------------------------------- segments
  // descriptor numbers are never reused within a case: a segment whose moment of death the model does not know (empty chain)
  // must not be confused with a later segment that happens to get the same number
  int fresh_fd(int file) {
    if (getenv("VERIF_C15_FDREUSE_PROBE")) {   // development probe: the old allocation, reporting a number handed out twice while its first holder is not known dead
      int fd = dup(g_memfd[file]); if (fd < 0) abort();
      for (int k = 0; k < w.nseg; k++) if (w.segs[k].used && !w.segs[k].fd_done && w.segs[k].fd == fd) verif_fail("harness/fd-number-reused", "fd %d given to a new segment while seg%d (same number) is not known dead", fd, k);
      return fd; }
    int fd = fcntl(g_memfd[file], F_DUPFD, w.next_fd); if (fd < 0) abort(); w.next_fd = fd + 1; return fd; }
  int new_seg_record() { if (w.nseg >= NSEG) return -1; int k = w.nseg++; w.segs[k] = Seg(); w.segs[k].used = true; return k; }
  // file range; returns false if nothing sensible can be drawn
  void draw_range(int f, size_t &off, long &len, bool allow_minus1) {
    size_t F = FSIZE[f];
    static const size_t OS[] = {0, 0, 0, 1, PG - 1, PG, PG + 1, 2 * PG, 2 * PG - 1};
    uint32_t k = s.below(12);
    if (k < 9) off = OS[k]; else if (k == 9) off = F - 1; else off = s.below((uint32_t)F);
    if (off >= F) off = F - 1;
    size_t room = F - off, to_page = PG - off % PG; size_t L;
    switch (s.below(10)) { case 0: L = 1; break; case 1: L = to_page; break; case 2: L = to_page + 1; break; case 3: L = to_page - 1; break; case 4: L = room; break; case 5: L = room - 1; break;
      case 6: L = PG; break; case 7: L = 1 + s.below(64); break; default: L = 1 + s.below((uint32_t)room); }
    if (L < 1) L = 1; if (L > room) L = room;
    len = (long)L;
    if (allow_minus1 && s.chance(1, 4)) {
      if (off > 0 && verif_known("C15/length-all-ignores-offset")) { verif_known_skipped("C15/length-all-ignores-offset"); len = (long)room; }
      else len = -1;
    }
  }
  void op_seg_new() {
    int k = new_seg_record(); if (k < 0) return; Seg &S = w.segs[k];
    S.file = (int)s.below(NFILE); long len; draw_range(S.file, S.off, len, true);
    S.minus1 = len < 0; S.len = len < 0 ? FSIZE[S.file] - S.off : (size_t)len;
    S.flags = s.below(8);   // CLOSE_ON_FREE=1 DISABLE_MMAP=2 DISABLE_SENDFILE=4
    if (!(S.flags & 2) && s.chance(1, 3)) S.flags |= 2;   // mmap/munmap are very slow in this sandbox: 1/3 of the segments may map
    S.fd = fresh_fd(S.file);
    S.h = evbuffer_file_segment_new(S.fd, (ev_off_t)S.off, (ev_off_t)len, S.flags);
    TR("seg%d = file_segment_new(file%d fd %d, off %zu, len %ld, flags %u) -> %p", k, S.file, S.fd, S.off, len, S.flags, (void *)S.h);
    CHECK(S.h != nullptr, K("segment-new-failed"), "evbuffer_file_segment_new(file of %zu bytes, off %zu, len %ld, flags %u) failed", FSIZE[S.file], S.off, len, S.flags);
    S.handle = true;
    if (s.chance(1, 2)) { S.has_cb = true; evbuffer_file_segment_add_cleanup_cb(S.h, seg_cleanup, (void *)(intptr_t)(200 + k)); TR("  add_cleanup_cb(seg%d)", k); }
  }
  int pick_seg_handle() { int c[NSEG], n = 0; for (int i = 0; i < w.nseg; i++) if (w.segs[i].handle) c[n++] = i; if (!n) return -1; return c[s.below(n)]; }
  void op_seg_cb() {
    int k = pick_seg_handle(); if (k < 0) return; Seg &S = w.segs[k]; if (S.has_cb) return;
    S.has_cb = true; evbuffer_file_segment_add_cleanup_cb(S.h, seg_cleanup, (void *)(intptr_t)(200 + k)); TR("add_cleanup_cb(seg%d)", k);
  }
  void op_seg_free() {
    int k = pick_seg_handle(); if (k < 0) return; Seg &S = w.segs[k];
    TR("file_segment_free(seg%d)", k);
    S.handle = false; evbuffer_file_segment_free(S.h);
  }
  void op_add_seg() {
    int bi = pick_where(is_drains); if (bi < 0) return; MB &b = *w.slot[bi];
    int k = pick_seg_handle(); if (k < 0) { op_seg_new(); return; } Seg &S = w.segs[k];
    size_t fo = S.off;   // file offset of the segment start
    size_t off; long len; bool valid = true;
    size_t to_page = PG - fo % PG;
    switch (s.below(10)) { case 0: case 1: case 2: off = 0; break; case 3: off = 1; break; case 4: off = to_page; break; case 5: off = to_page + 1; break; case 6: off = to_page - 1; break;
      case 7: off = s.chance(1, 3) ? S.len : S.len / 2; break; case 8: off = S.len - 1; break; default: off = s.below((uint32_t)S.len + 1); }
    if (off > S.len) off = S.len;
    size_t room = S.len - off, tp2 = PG - (fo + off) % PG;
    switch (s.below(10)) { case 0: case 1: len = -1; break; case 2: len = 1; break; case 3: len = (long)tp2; break; case 4: len = (long)tp2 + 1; break; case 5: len = (long)room; break; case 6: len = (long)room - 1; break;
      case 7: len = s.chance(1, 3) ? 0 : 2; break; default: len = (long)s.below((uint32_t)room + 1); }
    if (len < -1) len = 0; if (len > (long)room) len = (long)room;
    if (s.chance(1, 20)) { valid = false; if (s.flag()) { off = S.len + 1; if (s.flag()) len = -1; else len = 0; } else len = (long)room + 1; }
    bool minus1_exposed = S.minus1 && S.off > 0;   // a segment made with length -1 at a non-zero offset
    size_t eff = len < 0 ? room : (size_t)len;
    size_t L0 = b.d.size();
    int rc = evbuffer_add_file_segment(b.eb, S.h, (ev_off_t)off, (ev_off_t)len);
    TR("add_file_segment(buf%d%s, seg%d [file%d+%zu,%zu], off %zu, len %ld)%s -> %d", bi, b.drains ? " D" : "", k, S.file, S.off, S.len, off, len, valid ? "" : " [out of range]", rc);
    bool expect_ok = valid && !b.fz_end;
    if (!valid && minus1_exposed && rc == 0) VERIF_FAIL(K("length-all-ignores-offset"), "segment made from offset %zu with length -1 of a %zu-byte file accepts offset %zu length %ld (beyond its %zu bytes)", S.off, FSIZE[S.file], off, len, S.len);
    CHECK((rc == 0) == expect_ok, K("add-segment-ret"), "add_file_segment(off %zu, len %ld) on a %zu-byte segment returned %d (end frozen %d)", off, len, S.len, rc, b.fz_end);
    if (rc != 0) { S.handle = false; w.n_fail_add++; TR("  (failed add consumed the caller's reference to seg%d)", k); return; }   // code-derived corner
    size_t got = evbuffer_get_length(b.eb) - L0;
    if (got != eff && minus1_exposed && len < 0) VERIF_FAIL(K("length-all-ignores-offset"), "segment made from offset %zu with length -1 of a %zu-byte file holds %zu bytes, expected %zu", S.off, FSIZE[S.file], got + off, S.len);
    CHECK(got == eff, K("length-mismatch"), "add_file_segment(off %zu, len %ld) grew the buffer by %zu, expected %zu", off, len, got, eff);
    bool sf = b.drains && !(S.flags & EVBUF_FS_DISABLE_SENDFILE);
    w.n_seg_add++; if (sf) w.n_sf_add++;
    if (eff == 0) { S.loose = true; w.any_empty_seg_chain = true; b.empties = true; return; }   // an empty chain: freed at some later point, and it makes add_buffer_reference refuse the buffer
    if (((fo + off) % PG) + eff > PG) w.n_page_cross++;
    b.d.append(g_fdata[S.file], fo + off, eff); w.inst.push_back(Inst()); b.sp.push_back(Span{eff, S_SEG, k, -1, sf, (int)w.inst.size() - 1});
  }
  void op_add_file() {
    int bi = pick_where(is_drains); if (bi < 0) return; MB &b = *w.slot[bi];
    int k = new_seg_record(); if (k < 0) return; Seg &S = w.segs[k];
    S.anon = true; S.file = (int)s.below(NFILE); long len; draw_range(S.file, S.off, len, true);
    S.minus1 = len < 0; S.len = len < 0 ? FSIZE[S.file] - S.off : (size_t)len; S.flags = EVBUF_FS_CLOSE_ON_FREE;
    S.fd = fresh_fd(S.file);
    size_t L0 = b.d.size();
    int rc = evbuffer_add_file(b.eb, S.fd, (ev_off_t)S.off, (ev_off_t)len);
    TR("add_file(buf%d%s, file%d fd %d, off %zu, len %ld) -> %d", bi, b.drains ? " D" : "", S.file, S.fd, S.off, len, rc);
    CHECK((rc == 0) == !b.fz_end, K("add-file-ret"), "evbuffer_add_file(off %zu, len %ld) on a %zu-byte file returned %d (end frozen %d)", S.off, len, FSIZE[S.file], rc, b.fz_end);
    if (rc != 0) { w.n_fail_add++; CHECK(!fd_open(S.fd), K("add-file-fd-not-closed"), "evbuffer_add_file failed but did not close fd %d", S.fd); S.fd_done = true; return; }
    size_t got = evbuffer_get_length(b.eb) - L0;
    if (got != S.len && S.minus1 && S.off > 0) VERIF_FAIL(K("length-all-ignores-offset"), "add_file from offset %zu with length -1 of a %zu-byte file added %zu bytes, expected %zu", S.off, FSIZE[S.file], got, S.len);
    CHECK(got == S.len, K("length-mismatch"), "add_file(off %zu, len %ld) grew the buffer by %zu, expected %zu", S.off, len, got, S.len);
    w.n_seg_add++; if (b.drains) w.n_sf_add++;
    if ((S.off % PG) + S.len > PG) w.n_page_cross++;
    b.d.append(g_fdata[S.file], S.off, S.len); w.inst.push_back(Inst()); b.sp.push_back(Span{S.len, S_SEG, k, -1, b.drains, (int)w.inst.size() - 1});
  }
  // ---------------------------------------------------------------- moves
  void op_move(int how) {   // 0 add_buffer, 1 prepend_buffer
    int di = pick_live(); if (di < 0) return; int si = pick_other(di); if (si < 0) return; MB &dst = *w.slot[di], &src = *w.slot[si];
    if (!src.d.empty() && (how == 1 || !dst.fz_end) && cycle_guard(src, src.d.size(), dst)) return;
    int rc = how == 0 ? evbuffer_add_buffer(dst.eb, src.eb) : evbuffer_prepend_buffer(dst.eb, src.eb);
    TR("%s(buf%d <- buf%d [%zu]) -> %d", how == 0 ? "add_buffer" : "prepend_buffer", di, si, src.d.size(), rc);
    bool expect_ok = src.d.empty() || how == 1 || !dst.fz_end;
    CHECK((rc == 0) == expect_ok, K("move-ret"), "buffer move returned %d (dst end frozen %d)", rc, dst.fz_end);
    if (rc != 0 || src.d.empty()) return;
    std::vector<Span> v; std::string bytes = src.d; take_front(src, src.d.size(), &v, false); dst.empties |= src.empties;
    if (how == 0) { dst.d += bytes; append_spans(dst, v); } else { dst.d.insert(0, bytes); for (auto &x : dst.sp) v.push_back(x); dst.sp.swap(v); normalize(dst.sp); }
    w.n_move++;
  }
  void op_remove_buffer() {
    int si = pick_live(); if (si < 0) return; int di = pick_other(si); if (di < 0) return; MB &dst = *w.slot[di], &src = *w.slot[si];
    size_t n = rel_len(src.d.size(), first_len(src));
    if (!readable(src)) { do_drain(si, n); return; }
    if (!dst.fz_end && cycle_guard(src, n, dst)) return;
    int rc = evbuffer_remove_buffer(src.eb, dst.eb, n);
    TR("remove_buffer(buf%d [%zu] -> buf%d, %zu) -> %d", si, src.d.size(), di, n, rc);
    if (n == 0) { CHECK(rc == 0, K("move-ret"), "remove_buffer(0) -> %d", rc); return; }
    if (dst.fz_end) { CHECK(rc == -1, K("move-ret"), "remove_buffer into an end-frozen buffer -> %d", rc); return; }
    size_t eff = n < src.d.size() ? n : src.d.size();
    CHECK(rc == (int)eff, K("move-ret"), "remove_buffer(%zu) from %zu bytes returned %d", n, src.d.size(), rc);
    if (eff == 0) return;
    bool whole = eff == src.d.size(); dst.empties |= src.empties;
    std::string bytes = src.d.substr(0, eff); std::vector<Span> v;
    // whole chains move; the chain that is only partly wanted is copied
    size_t left = eff; size_t i = 0;
    while (i < src.sp.size() && src.sp[i].len <= left) { left -= src.sp[i].len; if (src.sp[i].inst >= 0) w.inst[src.sp[i].inst].moved = true; v.push_back(src.sp[i]); i++; }
    src.sp.erase(src.sp.begin(), src.sp.begin() + i);
    if (left) { Span &x = src.sp[0]; Span part = x; part.len = left; x.len -= left;
      if (tracked(x)) { if (x.inst >= 0) w.inst[x.inst].pieces++; part = plain(left); }
      else if (x.kind == S_MCP) part.kind = S_UNK;
      v.push_back(part); }
    src.d.erase(0, eff); dst.d += bytes; append_spans(dst, v); (void)whole; w.n_move++;
  }
  // ---------------------------------------------------------------- reads
  void do_drain(int bi, size_t n) {
    MB &b = *w.slot[bi]; int rc = evbuffer_drain(b.eb, n);
    TR("drain(buf%d [%zu], %zu) -> %d", bi, b.d.size(), n, rc);
    CHECK(rc == 0, K("drain-ret"), "drain -> %d", rc);
    size_t eff = n < b.d.size() ? n : b.d.size(); take_front(b, eff, nullptr, true);
  }
  void op_drain() { int bi = pick_live(); if (bi < 0) return; MB &b = *w.slot[bi]; do_drain(bi, rel_len(b.d.size(), first_len(b))); }
  void op_remove() {
    int bi = pick_live(); if (bi < 0) return; MB &b = *w.slot[bi]; size_t n = rel_len(b.d.size(), first_len(b));
    if (!readable(b)) { do_drain(bi, n); return; }
    std::string out(n + 1, '\xee'); int rc = evbuffer_remove(b.eb, &out[0], n);
    TR("remove(buf%d [%zu], %zu) -> %d", bi, b.d.size(), n, rc);
    size_t eff = n < b.d.size() ? n : b.d.size();
    CHECK(rc == (int)eff, K("remove-ret"), "remove(%zu) from %zu bytes returned %d", n, b.d.size(), rc);
    CHECK(memcmp(out.data(), b.d.data(), eff) == 0 && out[eff] == '\xee', K("content-mismatch"), "remove(%zu) from buf%d returned wrong bytes", n, bi);
    take_front(b, eff, nullptr, true);
  }
  void op_copyout(bool from) {
    int bi = pick_live(); if (bi < 0) return; MB &b = *w.slot[bi]; if (!readable(b)) return;
    size_t L = b.d.size(); size_t pos = 0;
    if (from) pos = L ? rel_len(L, first_len(b)) % (L + 1) : 0;
    size_t n = rel_len(L - pos, first_len(b) > pos ? first_len(b) - pos : 0);
    std::string out(n + 1, '\xee'); ev_ssize_t rc;
    if (from) { struct evbuffer_ptr p; int pr = evbuffer_ptr_set(b.eb, &p, pos, EVBUFFER_PTR_SET); CHECK(pr == 0, K("ptr-set"), "ptr_set(%zu) on %zu bytes -> %d", pos, L, pr); rc = evbuffer_copyout_from(b.eb, &p, &out[0], n); }
    else rc = evbuffer_copyout(b.eb, &out[0], n);
    TR("copyout%s(buf%d [%zu], pos %zu, %zu) -> %zd", from ? "_from" : "", bi, L, pos, n, rc);
    size_t eff = n < L - pos ? n : L - pos;
    CHECK(rc == (ev_ssize_t)eff, K("copyout-ret"), "copyout(pos %zu, %zu) on %zu bytes returned %zd", pos, n, L, rc);
    CHECK(memcmp(out.data(), b.d.data() + pos, eff) == 0 && out[eff] == '\xee', K("content-mismatch"), "copyout(pos %zu, %zu) from buf%d returned wrong bytes", pos, n, bi);
  }
  void op_peek() {
    int bi = pick_live(); if (bi < 0) return; MB &b = *w.slot[bi]; if (!readable(b)) return;
    size_t L = b.d.size(); size_t n = rel_len(L, first_len(b)); if (n > L) n = L;
    struct evbuffer_iovec v[8]; int k = evbuffer_peek(b.eb, (ev_ssize_t)n, nullptr, v, 8);
    TR("peek(buf%d [%zu], %zu) -> %d extents", bi, L, n, k);
    size_t pos = 0; for (int i = 0; i < k && i < 8; i++) { size_t m = v[i].iov_len; CHECK(pos + m <= L, K("content-mismatch"), "peek extents exceed the buffer");
      CHECK(m == 0 || memcmp(v[i].iov_base, b.d.data() + pos, m) == 0, K("content-mismatch"), "peek extent %d of buf%d differs from the model at %zu", i, bi, pos); pos += m; }
    if (k <= 8) CHECK(pos >= n, K("peek-count"), "peek(%zu) returned extents covering only %zu bytes", n, pos);
  }
  void op_pullup() {
    int bi = pick_live(); if (bi < 0) return; MB &b = *w.slot[bi]; size_t L = b.d.size();
    long n = s.chance(1, 6) ? -1 : (long)rel_len(L, first_len(b));
    if (!readable(b)) { do_drain(bi, n < 0 ? 0 : (size_t)n); return; }
    size_t contig = evbuffer_get_contiguous_space(b.eb);
    const char *INPLACE = "C15/pullup-writes-into-shared-chain";
    int kf = b.sp.empty() ? S_PLAIN : b.sp[0].kind; const void *base0 = nullptr;
    if ((kf == S_MCP || kf == S_UNK) && (n < 0 ? L : (size_t)n) > contig && (n < 0 ? L : (size_t)n) <= L && verif_known(INPLACE)) { verif_known_skipped(INPLACE); n = (long)contig; }
    if (kf != S_PLAIN && kf != S_UNK && L) { struct evbuffer_iovec v1; if (evbuffer_peek(b.eb, 1, nullptr, &v1, 1) == 1) base0 = v1.iov_base; }
    unsigned char *p = evbuffer_pullup(b.eb, (ev_ssize_t)n);
    size_t eff = n < 0 ? L : (size_t)n;
    TR("pullup(buf%d [%zu], %ld) contiguous before %zu -> %s", bi, L, n, contig, p ? "ptr" : "NULL");
    if (eff == 0 || eff > L) { CHECK(p == nullptr || eff == 0, K("pullup-ret"), "pullup(%ld) on %zu bytes returned a pointer", n, L); return; }
    CHECK(p != nullptr, K("pullup-ret"), "pullup(%ld) on %zu bytes returned NULL", n, L);
    CHECK(memcmp(p, b.d.data(), eff) == 0, K("content-mismatch"), "pullup(%ld) of buf%d points at wrong bytes", n, bi);
    CHECK(evbuffer_get_contiguous_space(b.eb) >= eff, K("pullup-ret"), "after pullup(%zu) only %zu bytes are contiguous", eff, evbuffer_get_contiguous_space(b.eb));
    if (!b.sp.empty() && tracked(b.sp[0])) CHECK(contig == b.sp[0].len, K("chain-split"), "buf%d starts with an immutable chain of %zu bytes but %zu were contiguous", bi, b.sp[0].len, contig);
    if (contig >= eff) return;   // nothing had to be copied
    // the first chain is immutable (reference / buffer reference / file segment): the bytes that follow it must be gathered
    // somewhere else, never written behind it into memory that belongs to the owner of the shared chain
    if (base0 && p == base0) VERIF_FAIL(INPLACE, "pullup(%ld) on buf%d, whose first chain is a read-only %s chain of %zu bytes, extended that chain in place", n, bi,
                                        kf == S_MCP || kf == S_MCREF ? "buffer-reference" : kf == S_REF ? "reference" : "file-segment", contig);
    // bytes [0,eff) now live in one ordinary chain; every chain that was wholly inside is gone, a partly covered one keeps its tail
    int k0 = b.sp[0].kind, src0 = b.sp[0].src;
    std::string keep = b.d; std::vector<Span> dropped; take_front(b, eff, &dropped, true); b.d = keep;
    Span head = plain(eff);
    if (k0 == S_MCP || k0 == S_UNK) { head.kind = S_UNK; head.src = src0; }   // the first chain may have been extended in place: still a multicast chain
    b.sp.insert(b.sp.begin(), head); normalize(b.sp); w.n_pullup_copy++;
  }
  void op_write(bool atmost) {
    int bi = pick_where(front_sf); if (bi < 0) return; MB &b = *w.slot[bi]; size_t L = b.d.size();
    long howmuch = -1;
    if (atmost) howmuch = s.chance(1, 8) ? -1 : (long)rel_len(L, first_len(b));
    uint32_t scr = s.below(6);
    if (scr == 1) { long k = 1 + (long)s.below(200); sim_script(SYS_SENDFILE, g_sock[0], ACT_SHORT, k); sim_script(SYS_WRITE, g_sock[0], ACT_SHORT, k); sim_script(SYS_WRITEV, g_sock[0], ACT_SHORT, k); }
    bool front_sf = !b.sp.empty() && b.sp[0].sf;
    uint64_t sf0 = sim_sys_calls[SYS_SENDFILE];
    int rc = atmost ? evbuffer_write_atmost(b.eb, g_sock[0], howmuch) : evbuffer_write(b.eb, g_sock[0]);
    sim_script_clear();
    bool used_sf = sim_sys_calls[SYS_SENDFILE] > sf0;
    TR("%s(buf%d [%zu]%s, %ld)%s -> %d%s", atmost ? "write_atmost" : "write", bi, L, front_sf ? " sendfile-chain-first" : "", howmuch, scr == 1 ? " [short]" : "", rc, used_sf ? " (sendfile)" : "");
    size_t eff = (howmuch < 0 || (size_t)howmuch > L) ? L : (size_t)howmuch;
    if (eff == 0) { CHECK(rc == 0 || rc == -1, K("write-ret"), "write of nothing returned %d", rc); CHECK(peer_empty(), K("fd-extra-bytes"), "write of nothing sent bytes"); return; }
    CHECK(rc >= 1 && (size_t)rc <= L, K("write-ret"), "write(howmuch %ld) of %zu bytes returned %d (errno %d)", howmuch, L, rc, errno);
    std::string got = drain_peer((size_t)rc);
    CHECK(got.size() == (size_t)rc, K("fd-bytes-missing"), "write returned %d but the peer received %zu bytes", rc, got.size());
    if (memcmp(got.data(), b.d.data(), got.size()) != 0) { size_t k = 0; while (got[k] == b.d[k]) k++;
      VERIF_FAIL(K("fd-bytes-mismatch"), "byte %zu written from buf%d is %02x, expected %02x (%s)", k, bi, (unsigned char)got[k], (unsigned char)b.d[k], used_sf ? "sendfile" : "write"); }
    CHECK(peer_empty(), K("fd-extra-bytes"), "write returned %d but the peer received more", rc);
    if (used_sf) w.n_sf_write++;
    take_front(b, (size_t)rc, nullptr, true);
  }
  // ---------------------------------------------------------------- buffer state
  void op_flags() {
    int bi = pick_live(); if (bi < 0) return; MB &b = *w.slot[bi];
    if (!b.drains) { int rc = evbuffer_set_flags(b.eb, EVBUFFER_FLAG_DRAINS_TO_FD); TR("set_flags(buf%d, DRAINS_TO_FD) -> %d", bi, rc); CHECK(rc == 0, K("flags-ret"), "set_flags -> %d", rc); b.drains = true; }
    else { int rc = evbuffer_clear_flags(b.eb, EVBUFFER_FLAG_DRAINS_TO_FD); TR("clear_flags(buf%d, DRAINS_TO_FD) -> %d", bi, rc); CHECK(rc == 0, K("flags-ret"), "clear_flags -> %d", rc); b.drains = false; }
  }
  void op_freeze() {
    int bi = pick_live(); if (bi < 0) return; MB &b = *w.slot[bi];
    if (!b.fz_end) { int rc = evbuffer_freeze(b.eb, 0); TR("freeze(buf%d, end) -> %d", bi, rc); CHECK(rc == 0, K("flags-ret"), "freeze -> %d", rc); b.fz_end = true; }
    else { int rc = evbuffer_unfreeze(b.eb, 0); TR("unfreeze(buf%d, end) -> %d", bi, rc); CHECK(rc == 0, K("flags-ret"), "unfreeze -> %d", rc); b.fz_end = false; }
  }
  void free_buf(int bi) {
    MB &b = *w.slot[bi]; TR("free(buf%d [%zu])", bi, b.d.size());
    bool pinned = false; for (MB *x : w.all) for (auto &sp : x->sp) if (sp.src == b.uid && x != &b) pinned = true;
    if (pinned && !b.sp.empty()) w.n_zombie++;
    evbuffer_free(b.eb); b.eb = nullptr; b.user = false; w.slot[bi] = nullptr;
  }
  void op_free() { int bi = pick_live(); if (bi < 0) return; free_buf(bi); }
  void new_buf(int bi) {
    MB *b = new MB(); b->uid = (int)w.all.size(); b->eb = evbuffer_new(); if (!b->eb) abort(); w.all.push_back(b); w.slot[bi] = b;
    if (bi == 3) { evbuffer_set_flags(b->eb, EVBUFFER_FLAG_DRAINS_TO_FD); b->drains = true; }
  }
  void op_new() { for (int i = 0; i < NB; i++) if (!w.slot[i]) { new_buf(i); TR("buf%d = evbuffer_new()%s", i, i == 3 ? " + DRAINS_TO_FD" : ""); return; } }

  void step(uint32_t op) {
    size_t total = 0; for (int i = 0; i < NB; i++) if (w.slot[i]) total += w.slot[i]->d.size();
    if (total == 0 && op >= 19 && op <= 41) op = 1 + op % 16;   // nothing to move or read yet: add something instead
    switch (op) {
      case 1: case 2: op_add_plain(false); break;
      case 3: op_add_plain(true); break;
      case 4: case 5: case 6: op_add_ref(); break;
      case 7: case 8: op_add_bufref(); break;
      case 9: case 10: op_seg_new(); break;
      case 11: case 12: case 13: case 14: op_add_seg(); break;
      case 15: case 16: op_add_file(); break;
      case 17: op_seg_free(); break;
      case 18: op_seg_cb(); break;
      case 19: case 20: case 21: op_move(0); break;
      case 22: case 23: op_move(1); break;
      case 24: case 25: op_remove_buffer(); break;
      case 26: case 27: case 28: op_drain(); break;
      case 29: case 30: op_remove(); break;
      case 31: op_copyout(false); break;
      case 32: op_copyout(true); break;
      case 33: op_peek(); break;
      case 34: case 35: case 36: op_pullup(); break;
      case 37: case 38: op_write(false); break;
      case 39: case 40: case 41: op_write(true); break;
      case 42: case 43: op_flags(); break;
      case 44: op_freeze(); break;
      case 45: case 46: op_free(); break;
      case 47: op_new(); break;
      default: break;
    }
  }
};
const uint32_t NOPS = 48;
}  // namespace

extern "C" int LLVMFuzzerInitialize(int *, char ***) {
  sim_mem_install(); signal(SIGPIPE, SIG_IGN); event_set_log_callback(quiet_log);
  for (int f = 0; f < NFILE; f++) {
    g_fdata[f].resize(FSIZE[f]); for (size_t i = 0; i < FSIZE[f]; i++) g_fdata[f][i] = (char)fbyte(f, i);
    char name[32]; snprintf(name, sizeof name, "c15-file%d", f);
    g_memfd[f] = memfd_create(name, 0); if (g_memfd[f] < 0) abort();
    size_t done = 0; while (done < FSIZE[f]) { ssize_t r = pwrite(g_memfd[f], g_fdata[f].data() + done, FSIZE[f] - done, (off_t)done); if (r <= 0) abort(); done += (size_t)r; }
  }
  void *p = mmap(nullptr, NSLOT * SLOT_SZ, PROT_READ | PROT_WRITE, MAP_PRIVATE | MAP_ANONYMOUS, -1, 0); if (p == MAP_FAILED) abort();
  g_slots = (unsigned char *)p;
  for (int k = 0; k < NSLOT; k++) { g_slotdata[k].resize(SLOT_SZ); for (size_t i = 0; i < SLOT_SZ; i++) { g_slotdata[k][i] = (char)rbyte(k, i); g_slots[(size_t)k * SLOT_SZ + i] = rbyte(k, i); } }
  mprotect(p, NSLOT * SLOT_SZ, PROT_READ);
  g_plain.resize(64 * 1024); for (size_t i = 0; i < g_plain.size(); i++) g_plain[i] = (char)('A' + (i * 7 + (i >> 6)) % 53);
  if (socketpair(AF_UNIX, SOCK_STREAM | SOCK_NONBLOCK, 0, g_sock) != 0) abort();
  return 0;
}

extern "C" int LLVMFuzzerTestOneInput(const uint8_t *data, size_t size) {
  sim_reset();
  verif_case_begin("C15");
  { bool any = false; for (int k = 0; k < NSLOT; k++) if (g_slot_none[k]) { any = true; g_slot_none[k] = false; } if (any) mprotect(g_slots, NSLOT * SLOT_SZ, PROT_READ); }
  Src s(data, size);
  World w; W = &w; Gen g(w, s);
  // fd ledger restricted to the range a case can touch: every fd below the lowest free one, plus the next 16 numbers
  // (a case holds at most NSEG duplicated fds at a time; sim_fd_snapshot's 1024 fcntl calls twice per case dominated the run time)
  int fd_lo = dup(0); if (fd_lo < 0) abort(); close(fd_lo);
  const int FD_SPAN = 16 + NSEG; w.next_fd = fd_lo; unsigned char fd0[256], fd1[256]; int fd_n = fd_lo + FD_SPAN; if (fd_n > 256) fd_n = 256;
  for (int i = 0; i < fd_n; i++) fd0[i] = fd_open(i);
  int64_t live0 = sim_mem_live_blocks;
  for (int i = 0; i < 3; i++) g.new_buf(i);
  if (s.flag()) g.new_buf(3);
  for (w.opno = 1; w.opno <= MAXOPS; w.opno++) {
    uint32_t op = s.below(NOPS); if (op == 0) break;
    g.step(op); after_op("after op");
  }
  // teardown in a generated order: remaining segment handles and buffers
  TR("-- teardown");
  for (;;) {
    int cand[NB + NSEG], n = 0;
    for (int i = 0; i < NB; i++) if (w.slot[i]) cand[n++] = i;
    for (int i = 0; i < w.nseg; i++) if (w.segs[i].handle) cand[n++] = 100 + i;
    if (!n) break;
    int c = cand[s.below(n)]; w.opno++;
    if (c < 100) g.free_buf(c); else { Seg &S = w.segs[c - 100]; TR("file_segment_free(seg%d)", c - 100); S.handle = false; evbuffer_file_segment_free(S.h); }
    after_op("teardown");
  }
  if (w.cycle) {   // a buffer was made to hold a multicast chain that (transitively) pins the buffer itself
    bool bad = sim_mem_live_blocks != live0;
    for (int r = 0; r < NSLOT; r++) { Ref &R = w.refs[r]; if (R.used && R.ok && R.has_cb && R.count != 1) bad = true; }
    for (int k = 0; k < w.nseg; k++) { Seg &S = w.segs[k]; if (S.has_cb && S.count != 1) bad = true; }
    if (bad) VERIF_FAIL(CYCLE_KEY, "every buffer and segment handle was freed, but a buffer that holds a buffer-reference chain made (transitively) from its own chains is never released: %lld allocations outstanding, cleanup callbacks not run", (long long)(sim_mem_live_blocks - live0));
    w.cycle = false;
  }
  for (int r = 0; r < NSLOT; r++) { Ref &R = w.refs[r]; if (R.used && R.ok && R.has_cb) CHECK(R.count == 1, K("cleanup-missing"), "end of case: cleanup of ref%d ran %d times", r, R.count); }
  for (int k = 0; k < w.nseg; k++) { Seg &S = w.segs[k]; if (S.has_cb) CHECK(S.count == 1, K("seg-cleanup-missing"), "end of case: cleanup of seg%d ran %d times", k, S.count);
    if (!S.fd_done) { S.loose = false; } }
  check_resources("end of case");
  for (int k = 0; k < w.nseg; k++) CHECK(w.segs[k].fd_done, K("seg-fd-not-closed"), "end of case: seg%d still alive", k);
  CHECK(peer_empty(), K("fd-extra-bytes"), "end of case: unread bytes on the socket");
  for (int i = 0; i < fd_n; i++) { fd1[i] = fd_open(i); CHECK(fd0[i] == fd1[i], K("fd-ledger"), "fd %d was %s at the start of the case and is %s at the end", i, fd0[i] ? "open" : "closed", fd1[i] ? "open" : "closed"); }
  CHECK(sim_mem_live_blocks == live0, K("leak"), "library allocations outstanding at the end of the case: %lld", (long long)(sim_mem_live_blocks - live0));

  bool nontrivial = false;
  for (auto &in : w.inst) if (in.moved && in.pieces >= 2) nontrivial = true;
  if (w.n_ref) verif_class("reference"); if (w.n_mc) verif_class("buffer_reference"); if (w.n_seg_add) verif_class("segment_added");
  if (w.n_sf_add) verif_class("sendfile_chain"); if (w.n_sf_write) verif_class("sendfile_write"); if (w.n_move) verif_class("move");
  if (w.n_pullup_copy) verif_class("pullup_copied"); if (w.n_fail_add) verif_class("failed_add"); if (w.n_zombie) verif_class("source_freed_while_referenced");
  if (w.n_page_cross) verif_class("page_crossing"); if (w.n_cleanup) verif_class("ref_cleanup_ran"); if (w.n_segdeath) verif_class("segment_died");
  if (nontrivial) verif_class("moved_and_drained_in_pieces");
  for (MB *b : w.all) delete b;
  W = nullptr;
  verif_case_end(nontrivial, s.h);
  return 0;
}
