// C33 — the resolver accepts only what a DNS reply actually says.
// One request (A / AAAA / PTR, optionally DNS_CNAME_CALLBACK, UDP or TCP) per case; the fake nameserver sends up to
// three messages: "must be ignored" ones (wrong ID, QR clear, question that does not match) and replies from a
// grammar of valid and adversarial messages (compression pointers forward / self / looping / into the header,
// truncation, counts that disagree with the content, several CNAMEs, SOA in authority, RDLENGTH lies, byte flips,
// TC -> TCP fallback with the TCP stream cut into generated pieces).  The same bytes are decoded by the reference
// decoder (refs/dnscodec.hh) and the callback is compared with it.  ASan/UBSan + the allocator ledger give the
// memory-safety and leak clauses.
#include "dns_common.hh"
using namespace dnsw;

namespace {
struct Cb { int result, type, count; uint32_t ttl; std::vector<uint8_t> data; std::string str; };
struct Case { std::vector<Cb> cbs; int main_count = 0, cname_count = 0; };
void resolve_cb(int result, char type, int count, int ttl, void *addrs, void *arg) {
  Case *c = (Case *)arg; Cb r; r.result = result; r.type = type; r.count = count; r.ttl = (uint32_t)ttl;
  if (result == DNS_ERR_NONE && addrs) {
    if (type == DNS_IPv4_A) r.data.assign((uint8_t *)addrs, (uint8_t *)addrs + 4 * (size_t)count);
    else if (type == DNS_IPv6_AAAA) r.data.assign((uint8_t *)addrs, (uint8_t *)addrs + 16 * (size_t)count);
    else if (type == DNS_PTR && count > 0) r.str = *(char **)addrs;
    else if (type == DNS_CNAME) r.str = (char *)addrs;
  }
  if (type == DNS_CNAME) c->cname_count++; else c->main_count++;
  TR("  callback result=%d type=%d count=%d ttl=%u %s", result, type, count, (unsigned)ttl, r.str.empty() ? hexs(r.data.data(), r.data.size(), 40).c_str() : esc(r.str, 80).c_str());
  c->cbs.push_back(r);
}

const char LAB[] = "abcXYZ019-";
Labels gen_labels(Src &s, bool adv) {
  Labels l; int n = 1 + s.below(3);
  for (int i = 0; i < n; i++) { int len = 1 + s.below(6); if (adv && s.chance(1, 8)) len = s.chance(1, 2) ? 63 : 40;
    std::string x; for (int k = 0; k < len; k++) { char ch = LAB[s.below(sizeof LAB - 1)]; if (adv && s.chance(1, 24)) ch = s.flag() ? '.' : (char)s.below(256); x.push_back(ch); } l.push_back(x); }
  return l;
}
struct Gen { std::vector<uint8_t> bytes; bool pristine = true; bool tc = false; };

// write a domain name: plain, compressed against the question (offset 12) or an earlier name, or (adversarial) broken
void put_name(Src &s, Builder &b, const Labels &l, bool adv, bool *pristine, std::vector<size_t> &name_offsets) {
  int mode = adv ? s.below(12) : s.below(3);
  size_t here = b.size();
  // a label with a NUL octet cannot be carried by the C strings of the API: evdns refuses such a message (an error is always allowed), so it is not "a valid reply that must be used"
  for (auto &x : l) if (x.find('\0') != std::string::npos) *pristine = false;
  switch (mode) {
    case 0: b.name(l); name_offsets.push_back(here); break;
    case 1: b.labels_then_ptr(l, 12); name_offsets.push_back(here); break;                  // suffix = the question name
    case 2: if (!name_offsets.empty()) b.ptr((unsigned)name_offsets[s.below((uint32_t)name_offsets.size())]); else b.ptr(12); break;
    case 3: b.ptr((unsigned)here); *pristine = false; break;                                   // pointer to itself
    case 4: b.labels_then_ptr(l, (unsigned)here); *pristine = false; break;                    // loop through its own labels
    case 5: b.ptr((unsigned)(here + 2 + s.below(40))); *pristine = false; break;               // forward pointer
    case 6: b.ptr(s.below(12)); *pristine = false; break;                                      // into the header
    case 7: b.ptr(0x3fff - s.below(64)); *pristine = false; break;                             // far out of range
    case 8: { Labels big; for (int i = 0; i < 5; i++) big.push_back(std::string(60, 'a' + i)); b.name(big); *pristine = false; break; }   // > 255 octets
    case 9: b.u8(0x40 + s.below(0x80)); *pristine = false; break;                              // reserved label type / runaway length
    case 10: for (auto &x : l) { b.u8((unsigned)x.size()); b.raw(x.data(), x.size()); } *pristine = false; break;   // no terminator
    default: b.name(l); break;
  }
}

Gen gen_reply(Src &s, const std::vector<uint8_t> &query, const Query &q, uint16_t qtype, bool cname_flag, bool known_rdl, bool known_multiq) {
  Gen g; Builder b;
  bool adv = s.below(4) != 0;                 // 1 in 4 replies is built by the valid productions only
  uint16_t flags = F_QR | F_RD | F_RA; if (s.flag()) flags |= F_AA;
  int rcode = 0;
  if (adv) { int r = s.below(12); if (r == 1) rcode = 3; else if (r == 2) rcode = 2; else if (r == 3) rcode = 5; else if (r == 4) rcode = 4; else if (r == 5) rcode = 1; else if (r == 6) rcode = 6 + s.below(10);
    if (s.chance(1, 8)) { flags |= F_TC; g.tc = true; } if (s.chance(1, 16)) flags |= (uint16_t)(s.below(16) << 11); }
  else if (s.chance(1, 6)) rcode = 3;
  if (adv && s.chance(1, 12)) { flags &= (uint16_t)~F_QR; g.pristine = false; }      // a query, not a response: must be ignored
  if (rcode || g.tc) { if (rcode != 0 && rcode != 3) g.pristine = false; if (g.tc) g.pristine = false; }
  flags |= (uint16_t)rcode;
  b.header(q.id, flags, 1, 0, 0, 0);
  // question section
  int qmode = adv ? s.below(16) : 0; uint16_t qd = 1;
  if (qmode == 6 && known_multiq) { verif_known_skipped("C33/multi-question-mismatch-fails-request"); qmode = 0; }
  switch (qmode) {
    case 1: { Labels other = q.name; if (other.empty()) other.push_back("x"); else other[0] += "x"; b.question(other, qtype, C_IN); g.pristine = false; break; }      // another name
    case 2: b.question(q.name, qtype == T_A ? T_AAAA : T_A, C_IN); g.pristine = false; break;                           // another type
    case 3: b.question(q.name, qtype, 3 /* CHAOS */); g.pristine = false; break;                                         // another class
    case 4: qd = 0; g.pristine = false; break;                                                                          // no question at all
    case 5: { Labels fl = q.name; for (auto &x : fl) for (auto &ch : x) if ((ch >= 'a' && ch <= 'z') || (ch >= 'A' && ch <= 'Z')) ch ^= 0x20; b.question(fl, qtype, C_IN); g.pristine = false; break; }   // case flipped
    case 6: b.raw(query.data() + 12, q.qname_len + 4); b.question(gen_labels(s, false), qtype, C_IN); qd = 2; g.pristine = false; break;   // two questions, first matches
    default: b.raw(query.data() + 12, q.qname_len + 4); break;                                                          // echo
  }
  std::vector<size_t> offs;
  // answer section
  static const int NANS[] = {1, 1, 2, 3, 0, 4, 6, 12, 40};
  int nan = NANS[s.below(adv ? 9 : 6)]; int written = 0; int ncname = 0;
  for (int i = 0; i < nan; i++) {
    int tsel = s.below(10); uint16_t type = qtype;
    if (tsel == 1 || tsel == 2) type = T_CNAME; else if (tsel == 3) type = (qtype == T_A) ? T_AAAA : T_A; else if (tsel == 4) type = T_PTR; else if (tsel == 5) type = 16 + s.below(90); else if (tsel == 6 && adv) type = T_SOA;
    if (type == T_CNAME) ncname++;
    uint16_t klass = C_IN; if (adv && s.chance(1, 12)) { klass = s.flag() ? 3 : 255; g.pristine = false; }
    put_name(s, b, q.name, adv, &g.pristine, offs);
    uint32_t ttl = (uint32_t)s.boundary(32);
    size_t rdl_off = b.rr_fixed(type, klass, ttl, 0); size_t rd0 = b.size();
    if (type == T_A) { for (int k = 0; k < 4; k++) b.u8(s.byte()); }
    else if (type == T_AAAA) { for (int k = 0; k < 16; k++) b.u8(s.byte()); }
    else if (type == T_CNAME || type == T_PTR) put_name(s, b, gen_labels(s, adv), adv, &g.pristine, offs);
    else if (type == T_SOA) { put_name(s, b, gen_labels(s, false), adv, &g.pristine, offs); put_name(s, b, gen_labels(s, false), adv, &g.pristine, offs); for (int k = 0; k < 5; k++) b.u32(s.u32()); }
    else { int n = s.below(20); for (int k = 0; k < n; k++) b.u8(s.byte()); }
    size_t rdlen = b.size() - rd0;
    int lie = adv ? s.below(14) : 0;
    if (lie >= 1 && lie <= 5 && known_rdl && (type == T_CNAME || type == T_PTR)) { verif_known_skipped("C33/name-rdlength-ignored"); lie = 0; }
    if (adv) switch (lie) {                       // RDLENGTH lies / rdata of the wrong size
      case 1: rdlen = 0; g.pristine = false; break;
      case 2: rdlen += 1 + s.below(8); g.pristine = false; break;
      case 3: if (rdlen) { rdlen -= 1; g.pristine = false; } break;
      case 4: rdlen = 0xffff; g.pristine = false; break;
      case 5: { int extra = 4 * (1 + s.below(3)); for (int k = 0; k < extra; k++) b.u8(s.byte()); rdlen += extra; g.pristine = false; break; }   // A with 8/12/16 octets
      default: break;
    }
    b.set16(rdl_off, (unsigned)rdlen); written++;
  }
  int ancount = written;
  if (adv) switch (s.below(10)) { case 1: ancount = written + 1; g.pristine = false; break; case 2: if (written) { ancount = written - 1; g.pristine = false; } break; case 3: ancount = 0xffff; g.pristine = false; break; default: break; }
  // authority: SOA (negative answers) or NS
  int nns = s.below(3); int nsw = 0;
  for (int i = 0; i < nns; i++) {
    bool soa = s.flag(); put_name(s, b, q.name, adv, &g.pristine, offs);
    size_t rdl_off = b.rr_fixed(soa ? T_SOA : T_NS, C_IN, (uint32_t)s.boundary(32), 0); size_t rd0 = b.size();
    put_name(s, b, gen_labels(s, false), adv, &g.pristine, offs);
    if (soa) { put_name(s, b, gen_labels(s, false), adv, &g.pristine, offs); int words = (adv && s.chance(1, 6)) ? s.below(5) : 5; if (words != 5) g.pristine = false; for (int k = 0; k < words; k++) b.u32((uint32_t)s.boundary(32)); }
    b.set16(rdl_off, (unsigned)(b.size() - rd0)); nsw++;
  }
  int nar = s.below(2);
  if (nar) { b.u8(0); b.rr_fixed(T_OPT, 1232, 0, 0); }
  b.set16(4, qd); b.set16(6, (unsigned)ancount); b.set16(8, (unsigned)((adv && s.chance(1, 10)) ? nsw + 1 + s.below(3) : nsw)); b.set16(10, (unsigned)nar);
  g.bytes = b.b;
  if (adv) {
    const bool allow_q_mismatch = true; size_t lo = 2;      // flips / cuts anywhere behind the ID
    switch (s.below(8)) {
      case 1: { size_t cut = s.below((uint32_t)g.bytes.size() + 1); if (s.flag() && g.bytes.size() > 30) cut = g.bytes.size() - 1 - s.below(24);   /* often: inside the last record */ if (!allow_q_mismatch && cut < lo) cut = lo; if (cut < g.bytes.size()) { g.bytes.resize(cut); g.pristine = false; } break; }
      case 2: { int n = 1 + s.below(3); for (int k = 0; k < n && g.bytes.size() > lo; k++) { size_t at = lo + s.below((uint32_t)(g.bytes.size() - lo)); if (known_multiq && (at == 4 || at == 5)) at = 6;   /* QDCOUNT stays <= 1 */ g.bytes[at] ^= (uint8_t)(1u << s.below(8)); } g.pristine = false; break; }
      case 3: { int n = 1 + s.below(12); for (int k = 0; k < n; k++) g.bytes.push_back(s.byte()); g.pristine = false; break; }
      case 4: g.bytes[0] ^= 0x40; g.pristine = false; break;     // ID off by a bit
      default: break;
    }
  }
  return g;
}

bool label_eq(const Labels &a, const Labels &b, bool nocase) {
  if (a.size() != b.size()) return false;
  for (size_t i = 0; i < a.size(); i++) if (nocase ? !eq_nocase(a[i], b[i]) : a[i] != b[i]) return false;
  return true;
}
}  // namespace

extern "C" int LLVMFuzzerInitialize(int *, char ***) {
  common_init();
  sim_reset(); World w; w.open(1); Case c;
  evdns_base_resolve_ipv4(w.dns, "warm.up", DNS_QUERY_NO_SEARCH, resolve_cb, &c); w.turn();
  Datagram d; while (udp_recv(0, &d)) { Builder b = reply_header_echo(d.data, F_QR | F_RD | F_RA | 3, 0); udp_send(0, d.from, b.b.data(), b.b.size()); }
  w.turn(); w.close_dns(0); w.turn(); event_base_free(w.base); w.base = nullptr; sim_reset();
  return 0;
}

extern "C" int LLVMFuzzerTestOneInput(const uint8_t *data, size_t size) {
  sim_reset();
  verif_case_begin("C33");
  Src s(data, size);
  const bool k_rdl = verif_known("C33/name-rdlength-ignored"), k_multiq = verif_known("C33/multi-question-mismatch-fails-request");
  World w; w.open(1); Case c;

  bool randcase = true; if (s.flag()) { randcase = false; w.set_opt("randomize-case:", 0L); }
  long udp_max = 512; if (s.chance(1, 3)) { udp_max = s.flag() ? 1232 : 4096; w.set_opt("edns-udp-size:", udp_max); }
  int kind = s.below(4); uint16_t qtype = kind == 1 ? T_AAAA : kind == 2 ? T_PTR : T_A;
  bool cname_flag = s.chance(1, 3); bool use_tcp = s.chance(1, 5);
  int flags = DNS_QUERY_NO_SEARCH | (cname_flag ? DNS_CNAME_CALLBACK : 0) | (use_tcp ? DNS_QUERY_USEVC : 0);
  struct evdns_request *h;
  if (qtype == T_PTR) { struct in_addr in; in.s_addr = htonl(0xc0000200u + s.below(4)); h = evdns_base_resolve_reverse(w.dns, &in, flags, resolve_cb, &c); }
  else { static const char *const NAMES[] = {"host.example.com", "a.b", "MiXed.Case.Example", "x"}; const char *nm = NAMES[s.below(4)];
    h = qtype == T_A ? evdns_base_resolve_ipv4(w.dns, nm, flags, resolve_cb, &c) : evdns_base_resolve_ipv6(w.dns, nm, flags, resolve_cb, &c); }
  CHECK(h != nullptr, "harness/setup", "resolve returned NULL");
  TR("request type=%u randomize-case=%d udp_max=%ld cname_cb=%d tcp=%d", qtype, randcase, udp_max, cname_flag, use_tcp);

  // fetch the query (UDP datagram, or the first length-prefixed message of a TCP connection)
  std::vector<uint8_t> query; struct sockaddr_in from; memset(&from, 0, sizeof from); int conn = -1; bool on_tcp = false;
  auto fetch_query = [&]() -> bool {
    for (int i = 0; i < 4; i++) {
      w.turn(); Datagram d; if (udp_recv(0, &d)) { query = d.data; from = d.from; on_tcp = false; return true; }
      w.tcp_poll();
      for (size_t k = 0; k < w.conns.size(); k++) { std::vector<uint8_t> m; if (w.conns[k].fd >= 0 && World::tcp_pop(w.conns[k], &m)) { query = m; conn = (int)k; on_tcp = true; return true; } }
    }
    return false; };
  CHECK(fetch_query(), "harness/no-query", "no query arrived at the fake nameserver (tcp=%d)", use_tcp);
  Query q = decode_query_strict(query.data(), query.size());
  CHECK(q.ok, "harness/bad-query", "query does not decode: %s", q.why);
  CHECK(on_tcp == use_tcp, "C33/wrong-transport", "query arrived over %s", on_tcp ? "TCP" : "UDP");

  int reached_content = 0, adversarial = 0, tcp_replies = 0, ignored_ok = 0, successes = 0; bool lenient_seen = false;
  int n_cname_rr_total = 0; bool any_cname_unused = false;
  auto refetch = [&]() {      // the request may have been retransmitted (same or other transport): always answer the latest query
    w.turn(); w.tcp_poll(); bool got = false;
    for (size_t k = 0; k < w.conns.size(); k++) { std::vector<uint8_t> mm; while (w.conns[k].fd >= 0 && World::tcp_pop(w.conns[k], &mm)) { query = mm; conn = (int)k; if (!on_tcp) verif_class("transport_switch"); on_tcp = true; got = true; } }
    Datagram d; while (udp_recv(0, &d)) { if (!got) { query = d.data; from = d.from; } }
    if (got) { Query q2 = decode_query_strict(query.data(), query.size()); CHECK(q2.ok && label_eq(q2.name, q.name, true) && q2.type == qtype, "C33/tcp-retry-query", "the TCP retry does not repeat the question"); q = q2; }
  };
  for (int round = 0; round < 3 && c.main_count == 0; round++) {
    if (round) refetch();
    if (on_tcp && (conn < 0 || w.conns[conn].fd < 0 || w.conns[conn].eof)) break;
    Gen g = gen_reply(s, query, q, qtype, cname_flag, k_rdl, k_multiq);
    // what the resolver can see: a UDP datagram is cut at its receive buffer
    std::vector<uint8_t> seen = g.bytes; if (!on_tcp && (long)seen.size() > udp_max) { seen.resize(udp_max); g.pristine = false; }
    if (on_tcp && (seen.empty() || seen.size() > 65535)) { seen.resize(seen.empty() ? 1 : 65535); }
    Msg m = decode(seen.data(), seen.size());
    TR("reply #%d over %s [%zu]%s %s", round, on_tcp ? "TCP" : "UDP", g.bytes.size(), g.pristine ? " pristine" : "", hexs(g.bytes.data(), g.bytes.size(), 120).c_str());
    // ---- deliver
    if (!on_tcp) udp_send(0, from, g.bytes.data(), g.bytes.size());
    else {
      std::vector<uint8_t> st; st.push_back((uint8_t)(seen.size() >> 8)); st.push_back((uint8_t)seen.size()); st.insert(st.end(), seen.begin(), seen.end());
      size_t pos = 0; int pieces = 0;
      while (pos < st.size()) { size_t n = st.size() - pos; if (pieces < 6) { size_t cut = 1 + s.below(s.flag() ? 4 : 64); if (cut < n) n = cut; }
        ssize_t r = send(w.conns[conn].fd, st.data() + pos, n, MSG_NOSIGNAL); if (r <= 0) break; pos += (size_t)r; pieces++; w.turn(); }
      tcp_replies++; TR("  sent in %d piece(s)", pieces);
    }
    w.turn();
    // ---- classify with the reference decoder
    bool id_ok = m.hdr_ok && m.id == q.id, qr = m.hdr_ok && (m.flags & F_QR);
    // question matching: names compare case-insensitively (RFC 1035).  A reply whose question differs from the request ONLY in letter
    // case is a "may" in both settings of randomize-case: evdns may use it (then the content oracle applies) or ignore it.
    bool match_name = false, match_full = false, case_only = true;
    for (auto &qq : m.q) { if (label_eq(qq.name, q.name, true)) { match_name = true; if (qq.type == qtype && qq.klass == C_IN) { match_full = true; if (label_eq(qq.name, q.name, false)) case_only = false; } } }
    if (!match_full) case_only = false;
    if (!g.pristine) adversarial++;
    if (!id_ok || !qr) {
      CHECK(c.main_count == 0 && c.cname_count == 0, "C33/unmatched-reply-used", "a message with %s completed the request (result %d)", !m.hdr_ok ? "no complete header" : !id_ok ? "a wrong ID" : "QR clear", c.cbs.empty() ? -1 : c.cbs[0].result);
      ignored_ok++; continue;
    }
    if (m.qd == 0 || !m.q_complete) {           // no (decodable) question: rejecting or ignoring are both fine, using it is not
      if (c.main_count) CHECK(c.cbs[0].result != DNS_ERR_NONE, "C33/questionless-reply-used", "a reply without a decodable question section delivered data");
      continue;
    }
    if (!match_name) {
      CHECK(c.main_count == 0, m.qd >= 2 ? "C33/multi-question-mismatch-fails-request" : "C33/question-name-mismatch-fails-request", "a reply whose question name \"%s\" is not the one asked (\"%s\", randomize-case=%d) completed the request with result %d", esc(join(m.q[0].name), 60).c_str(), esc(join(q.name), 60).c_str(), randcase, c.cbs[0].result);
      ignored_ok++; continue;
    }
    if (!match_full) {
      CHECK(c.main_count == 0, m.qd >= 2 ? "C33/multi-question-mismatch-fails-request" : "C33/question-type-class-not-compared", "a reply whose question is type %u class %u (asked: %u/IN) completed the request with result %d count %d", m.q[0].type, m.q[0].klass, qtype, c.cbs[0].result, c.cbs[0].count);
      ignored_ok++; continue;
    }
    if (case_only) { verif_class("question_case_only_diff"); lenient_seen = true; if (c.main_count == 0) continue; }
    reached_content++;
    // ---- content oracle.  Reference view of the answer section (decodable prefix).
    std::vector<uint8_t> want; uint32_t min_ttl = 0xffffffffu; bool odd_rdlen = false; std::vector<std::string> cnames; bool name_rdl_lie = false;
    std::string want_ptr; bool have_ptr = false, ptr_plain = true; uint32_t ptr_ttl = 0;
    size_t alen = qtype == T_AAAA ? 16 : 4;
    for (auto &rr : m.answers) {
      if (rr.type == T_CNAME || (rr.type == T_PTR && rr.klass == C_IN)) { size_t off = rr.rdoff; NameResult nm = parse_name(seen.data(), seen.size(), &off);
        if (!nm.ok || off - rr.rdoff != rr.rdlen) name_rdl_lie = true;
        if (rr.type == T_CNAME) { n_cname_rr_total++; if (nm.ok) cnames.push_back(join(nm.labels)); else cnames.push_back("\x01<undecodable>"); }
        else if (qtype == T_PTR && !have_ptr) { have_ptr = true; ptr_ttl = rr.ttl; if (nm.ok) { want_ptr = join(nm.labels); ptr_plain = plain_labels(nm.labels) && !nm.too_long; } else ptr_plain = false; } }
      if (qtype != T_PTR && rr.type == qtype && rr.klass == C_IN) { if (rr.rdlen != alen) odd_rdlen = true; want.insert(want.end(), seen.begin() + rr.rdoff, seen.begin() + rr.rdoff + rr.rdlen); if (rr.ttl < min_ttl) min_ttl = rr.ttl; }
    }
    bool owner_undecodable = false;
    if (!m.an_complete) { size_t off = m.an_end; NameResult nm = parse_name(seen.data(), seen.size(), &off);
      if (!nm.ok) owner_undecodable = true;
      if (nm.ok && off + 10 <= seen.size()) { uint16_t t = rd16(seen.data() + off); if (t == T_CNAME || t == T_PTR) name_rdl_lie = true; } }
    bool err_flags = (m.flags & F_RCODE) || (m.flags & F_TC);
    if (c.main_count == 0) {
      // no callback yet: fine for TC (TCP retry), SERVFAIL/NOTIMPL/REFUSED (retry), otherwise the request must have completed
      int rc = m.rcode();
      bool may_wait = (m.flags & F_TC) || rc == 2 || rc == 4 || rc == 5;
      if (g.pristine) CHECK(may_wait, "C33/valid-reply-ignored", "a valid matching reply did not complete the request");
      if (cnames.size()) any_cname_unused = true;
      continue;
    }
    CHECK(c.main_count == 1, "C33/callback-count", "main callback ran %d times", c.main_count);
    const Cb &r = c.cbs[0];
    int want_type = qtype == T_A ? DNS_IPv4_A : qtype == T_AAAA ? DNS_IPv6_AAAA : DNS_PTR;
    CHECK(r.type == want_type, "C33/callback-type", "callback type %d for a type-%u request", r.type, qtype);
    if (r.result != DNS_ERR_NONE) {
      if (cnames.size()) any_cname_unused = true;
      CHECK(r.count == 0, "C33/error-with-data", "error %d reported with count %d", r.result, r.count);
      CHECK(c.cname_count == 0, "C33/cname-with-error", "CNAME callback although the request failed");
      if (g.pristine) {
        bool has = qtype == T_PTR ? have_ptr : !want.empty();
        CHECK(err_flags || !has, "C33/valid-answer-rejected", "a valid reply with %s was reported as error %d", qtype == T_PTR ? "a PTR record" : "address records", r.result);
        if (m.rcode() == 3) CHECK(r.result == DNS_ERR_NOTEXIST, "C33/nxdomain-result", "NXDOMAIN reported as %d", r.result);
      }
      continue;
    }
    successes++;
    // success: nothing invented
    CHECK(!err_flags, "C33/error-reply-used", "reply with rcode %d%s delivered data", m.rcode(), (m.flags & F_TC) ? " and TC" : "");
    const char *wrong_key = (name_rdl_lie && !k_rdl) ? "C33/name-rdlength-ignored" : "C33/wrong-answer";
    if (name_rdl_lie && k_rdl) { verif_known_skipped("C33/name-rdlength-ignored"); lenient_seen = true; }
    else if (!m.an_complete && owner_undecodable) { lenient_seen = true; verif_class("lenient_malformed_answer_section"); }   // undecodable RR (reserved label type, ...): no claim about what follows
    else if (qtype == T_PTR) {
      CHECK(have_ptr, wrong_key, "PTR result \"%s\" but the answer section holds no PTR/IN record", esc(r.str, 60).c_str());
      if (ptr_plain) CHECK(r.str == want_ptr, wrong_key, "PTR result \"%s\", the first PTR record says \"%s\"", esc(r.str, 80).c_str(), esc(want_ptr, 80).c_str()); else lenient_seen = true;
      CHECK(r.ttl <= ptr_ttl, "C33/ttl-too-large", "ttl %u > %u of the record used", r.ttl, ptr_ttl);
      CHECK(r.count == 1, "C33/wrong-answer", "PTR count %d", r.count);
    } else {
      CHECK(!want.empty() || odd_rdlen, wrong_key, "%d address(es) delivered but the answer section holds no %s/IN record", r.count, qtype == T_A ? "A" : "AAAA");
      if (!odd_rdlen) {
        CHECK(r.data == want, wrong_key, "delivered %s, the answer section says %s", hexs(r.data.data(), r.data.size(), 64).c_str(), hexs(want.data(), want.size(), 64).c_str());
        CHECK((size_t)r.count * alen == want.size(), wrong_key, "count %d", r.count);
      } else lenient_seen = true;    // a record of the asked type with an impossible RDLENGTH: error or any chunking of its rdata tolerated
      CHECK(r.ttl <= min_ttl, "C33/ttl-too-large", "ttl %u > minimum %u of the records used", r.ttl, min_ttl);
    }
    // the reported CNAME must be one that is present
    if (c.cname_count) {
      CHECK(cname_flag, "C33/cname-unrequested", "CNAME callback without DNS_CNAME_CALLBACK");
      CHECK(c.cname_count == 1, "C33/cname-callback-count", "CNAME callback ran %d times", c.cname_count);
      const Cb *cc = nullptr; for (auto &x : c.cbs) if (x.type == DNS_CNAME) cc = &x;
      bool found = false, fuzzy = false; for (auto &cn : cnames) { if (cn == cc->str) found = true; if (cn.find('\x01') != std::string::npos || cn.find('\0') != std::string::npos) fuzzy = true; }
      if (!fuzzy && !(name_rdl_lie && k_rdl)) CHECK(found, wrong_key, "reported CNAME \"%s\" is not the target of any CNAME record in the answer section", esc(cc->str, 80).c_str());
    } else if (cname_flag && g.pristine && qtype != T_PTR) CHECK(cnames.empty(), "C33/cname-lost", "DNS_CNAME_CALLBACK set, answer has a CNAME, none reported");
  }
  bool completed = c.main_count > 0;
  if (!completed) { w.close_dns(1); w.turn(); CHECK(c.main_count == 1 && c.cbs.back().result == DNS_ERR_SHUTDOWN, "C33/shutdown-callback", "pending request got %d callbacks at evdns_base_free(fail_requests=1)", c.main_count); }
  // ledger: attribute leaks involving DNS_CNAME_CALLBACK to their own keys
  {
    w.close_dns(0);
    event_base_loop(w.base, EVLOOP_NONBLOCK); event_base_free(w.base); w.base = nullptr;
    for (auto &cn : w.conns) w.tcp_close(cn); w.conns.clear();
    int64_t d = sim_mem_live_blocks - w.live0;
    if (d != 0) {
      const char *key = "C33/leak";
      if (cname_flag && n_cname_rr_total >= 2) key = "C33/leak-cname-repeated"; else if (cname_flag && n_cname_rr_total >= 1) key = "C33/leak-cname-unused-reply";
      VERIF_FAIL(key, "%lld library allocation(s) outstanding after evdns_base_free + event_base_free (DNS_CNAME_CALLBACK=%d, CNAME records parsed=%d, request completed by reply=%d)", (long long)d, cname_flag, n_cname_rr_total, completed);
    }
  }
  (void)any_cname_unused;
  int nontrivial = reached_content >= 1 && (adversarial || tcp_replies || successes);
  if (reached_content) verif_class("content_checked"); if (successes) verif_class("success"); if (adversarial) verif_class("adversarial"); if (tcp_replies) verif_class("tcp");
  if (ignored_ok) verif_class("ignored_ok"); if (lenient_seen) verif_class("lenient"); if (cname_flag && c.cname_count) verif_class("cname_reported");
  verif_case_end(nontrivial, s.h);
  return 0;
}
