// C19 — bufferevent callbacks follow a well-formed lifecycle.
// World, generator and monitors: props/bev_world.hh (monitor "19").
#include "bev_world.hh"
extern "C" int LLVMFuzzerInitialize(int *, char ***) { bevw::process_init(); return 0; }
extern "C" int LLVMFuzzerTestOneInput(const uint8_t *data, size_t size) { return bevw::run_case(data, size, 19); }
