// C08 — every library call returns with all internal locks released (single-threaded lock monitor).
// Histories over the event / evbuffer / bufferevent / listener / evdns / evhttp APIs with locking enabled,
// including documented-to-fail arguments, n-th allocation failure and scripted syscall failures.
// Oracle (sim lockmon): after every top-level call no lock is held; never an unlock of a lock not held,
// a second acquire of a non-recursive lock, a free of a held lock, or a condition wait (single thread).
// Preconditions respected: objects are used only while alive; events deleted before their fd is closed;
// no pipe/socketpair fault while a base is being created (evsig_init_ treats that as fatal by design).
#include "verif.h"
#include "sim.h"
#include <errno.h>
#include <fcntl.h>
#include <signal.h>
#include <unistd.h>
#include <sys/mman.h>
#include <sys/socket.h>
#include <sys/un.h>
#include <netinet/in.h>
#include <arpa/inet.h>
#include <event2/event.h>
#include <event2/buffer.h>
#include <event2/bufferevent.h>
#include <event2/listener.h>
#include <event2/dns.h>
#include <event2/http.h>
#include <event2/thread.h>
#include <event2/util.h>

namespace {
struct W {
  Src *s; struct event_base *base = nullptr;
  struct event *ev[6] = {}; int evfd[6];
  int pipes[3][2]; int sp[2][2]; int regfd = -1;
  struct evbuffer *buf[3] = {};
  struct bufferevent *bev[4] = {};  // 0,1 = pair; 2 = socket on sp[0][0]; 3 = filter
  struct evconnlistener *lev = nullptr; int lev_clients[4]; int nclients = 0;
  struct evdns_base *dns = nullptr; struct evdns_request *dreq = nullptr;
  struct evhttp *http = nullptr;
  struct bufferevent_rate_limit_group *grp = nullptr; struct ev_token_bucket_cfg *cfg = nullptr; bool limited = false, in_group = false;
  int failed_calls = 0, faults_consumed = 0; int once_pending = 0;
  const char *last_op = ""; int waits = 0; int cb_ctl = 0; int gai_outstanding = 0;   // evdns_getaddrinfo requests whose callback has not run yet
};
W *G;

void quiesce(const char *op) {
  const char *d = nullptr;
  const char *e = sim_lockmon_error();
  CHECK(!e, "C08/lock-misuse", "during %s: %s", op, e);
  int held = sim_lockmon_held(&d);
  CHECK(held == 0, "C08/lock-held-after-return", "%s returned with %d lock acquisition(s) outstanding: %s", op, held, d ? d : "?");
}
#define OP(name, expr) do { G->last_op = name; G->waits = 0; expr; quiesce(name); } while (0)

// always-ready persistent events would keep a NONBLOCK loop spinning: every callback removes its event again
void ev_cb(evutil_socket_t, short what, void *arg) {
  int i = (int)(intptr_t)arg; if (!G) return;
  // loop-control calls from inside callbacks (also signal callbacks, which run in their own closure)
  switch (G->s->below(6)) { case 1: event_base_loopbreak(G->base); G->cb_ctl++; break; case 2: event_base_loopexit(G->base, nullptr); G->cb_ctl++; break; case 3: event_base_loopcontinue(G->base); G->cb_ctl++; break; default: break; }
  if (G->ev[i] && !((what & EV_SIGNAL) && G->s->flag())) event_del(G->ev[i]);
}
void once_cb(evutil_socket_t, short, void *) { if (G) G->once_pending--; }
void bev_rcb(struct bufferevent *b, void *) { char tmp[64]; bufferevent_read(b, tmp, sizeof tmp); }
void bev_ecb(struct bufferevent *, short, void *) {}
enum bufferevent_filter_result filt(struct evbuffer *src, struct evbuffer *dst, ev_ssize_t, enum bufferevent_flush_mode, void *) {
  evbuffer_add_buffer(dst, src); return BEV_OK; }
void lev_cb(struct evconnlistener *, evutil_socket_t fd, struct sockaddr *, int, void *) { close(fd); }
void lev_err(struct evconnlistener *, void *) {}
void dns_cb(int, char, int, int, void *, void *) { if (G) G->dreq = nullptr; }
void gai_cb(int err, struct evutil_addrinfo *res, void *) { if (err) G->failed_calls++; if (res) evutil_freeaddrinfo(res); if (G->gai_outstanding > 0) G->gai_outstanding--; }
void http_cb(struct evhttp_request *req, void *) { evhttp_send_reply(req, 200, "OK", nullptr); }
void buf_cb(struct evbuffer *, const struct evbuffer_cb_info *, void *) {}

void arm_fault(Src &s) {
  switch (s.below(8)) {
    case 1: sim_mem_fail_at(1 + s.below(6), s.chance(1, 4)); TR("  fault: alloc"); break;
    case 2: sim_script(SYS_EPOLL_CTL, -1, ACT_FAIL, s.pick((const int[]){EPERM, EBADF, ENOMEM | SIM_NOT_ON_DEL, ENOSPC | SIM_NOT_ON_DEL, EEXIST | SIM_NOT_ON_DEL, ENOENT})); TR("  fault: epoll_ctl"); break;
    case 3: sim_script(SYS_SOCKET, -1, ACT_FAIL, s.pick((const int[]){EMFILE, ENOMEM, EACCES})); TR("  fault: socket"); break;
    case 4: sim_script(SYS_WRITE, -1, ACT_FAIL, EAGAIN); sim_script(SYS_WRITEV, -1, ACT_FAIL, s.pick((const int[]){EAGAIN, EPIPE, ECONNRESET})); TR("  fault: write"); break;
    case 5: sim_script(SYS_READ, -1, ACT_FAIL, EAGAIN); sim_script(SYS_READV, -1, ACT_FAIL, s.pick((const int[]){EAGAIN, ECONNRESET})); TR("  fault: read"); break;
    case 6: sim_script(SYS_ACCEPT, -1, ACT_FAIL, s.pick((const int[]){EMFILE, ECONNABORTED, EAGAIN})); TR("  fault: accept"); break;
    case 7: sim_lockmon_fail_try(2); TR("  fault: try-lock fails (held by another thread)"); break;
    default: break;
  }
}
void disarm() { sim_mem_fail_at(0, 0); sim_script_clear(); sim_lockmon_fail_try(0); }
void note(int r) { if (r != 0) G->failed_calls++; }

int64_t wait_hook(const struct sim_wait_info *wi, void *) {
  if (G && G->base && ++G->waits > 400) event_base_loopbreak(G->base);   // e.g. a stale always-ready registration left behind by an injected epoll_ctl failure
  if (wi->nready > 0) return 20;   // a ready fd may be one the library ignores (stale registration after an injected epoll_ctl failure): time must still pass
  if (wi->timeout_us < 0) { if (G && G->base) event_base_loopbreak(G->base); return 0; }   // nothing can ever happen: end the turn
  return wi->timeout_us < 2000000 ? wi->timeout_us : 2000000;
}
}  // namespace

extern "C" int LLVMFuzzerInitialize(int *, char ***) {
  sim_mem_install(); sim_lockmon_install(); signal(SIGPIPE, SIG_IGN);
  event_set_log_callback([](int, const char *) {});
  // warm up one-time global allocations (secure RNG etc.)
  struct event_base *b = event_base_new(); char x[8]; evutil_secure_rng_get_bytes(x, sizeof x); event_base_free(b);
  return 0;
}

extern "C" int LLVMFuzzerTestOneInput(const uint8_t *data, size_t size) {
  sim_reset();
  verif_case_begin("C08");
  Src s(data, size);
  W w; G = &w; w.s = &s;
  sim_clock_enable(SIM_START_US); sim_set_wait_hook(wait_hook, nullptr);
  struct sim_fdset fd0; sim_fd_snapshot(&fd0);
  for (auto &p : w.pipes) if (pipe2(p, O_NONBLOCK | O_CLOEXEC)) abort();
  for (auto &p : w.sp) if (socketpair(AF_UNIX, SOCK_STREAM | SOCK_NONBLOCK, 0, p)) abort();
  w.regfd = open("/proc/self/exe", O_RDONLY | O_CLOEXEC);   // a regular file: epoll refuses it with EPERM
  struct event_config *cfg = event_config_new();
  int backend = s.below(4);
  if (backend >= 2) event_config_avoid_method(cfg, "epoll");
  if (backend == 3) event_config_avoid_method(cfg, "poll");
  event_config_set_flag(cfg, (backend == 1 ? EVENT_BASE_FLAG_EPOLL_USE_CHANGELIST : 0) | (s.flag() ? EVENT_BASE_FLAG_USE_SIGNALFD : 0));
  if (s.chance(1, 4)) { sim_script(SYS_EVENTFD, -1, ACT_FAIL, EMFILE); }
  OP("event_base_new_with_config", w.base = event_base_new_with_config(cfg));
  sim_script_clear(); event_config_free(cfg);
  if (!w.base) { G = nullptr; for (auto &p : w.pipes) { close(p[0]); close(p[1]); } for (auto &p : w.sp) { close(p[0]); close(p[1]); } close(w.regfd); verif_case_end(0, s.h); return 0; }
  TR("base %s", event_base_get_method(w.base));
  // documented precondition: set the number of priorities before any event exists
  { int r0; OP("event_base_priority_init", r0 = event_base_priority_init(w.base, 1 + s.below(3))); (void)r0; }

  for (int step = 0; step < 48; step++) {
    int op = s.below(45);
    if (op == 0) break;
    bool faulty = s.chance(1, 3);
    if (faulty) arm_fault(s);
    // Constructors are exercised under syscall faults only: several of them crash outright on allocation failure
    // (bufferevent_pair_new -> finalizer with NULL arg; a NULL evbuffer_add_cb result passed to evbuffer_cb_set_flags),
    // which is a memory-safety matter outside this property and would mask everything behind it.
    if (op == 15 || op == 21 || op == 22 || op == 23 || op == 25 /* bufferevent_setwatermark: same NULL cb entry */ || op == 26 || op == 29 || op == 32 || op == 37) sim_mem_fail_at(0, 0);
    uint64_t f0 = sim_mem_failed, tf0 = sim_try_failed; uint64_t sf0 = 0; for (int k = 0; k < SYS__N; k++) sf0 += sim_sys_faults[k];
    int i = s.below(6), r = 0;
    TR("op %d i=%d", op, i);
    switch (op) {
      case 1: if (!w.ev[i]) { int kind = s.below(4); int fd = kind == 0 ? w.pipes[i % 3][0] : kind == 1 ? w.pipes[i % 3][1] : kind == 2 ? -1 : SIGUSR1;
          short what = kind == 0 ? EV_READ : kind == 1 ? EV_WRITE : kind == 2 ? 0 : EV_SIGNAL; if (s.flag()) what |= EV_PERSIST;
          OP("event_new", w.ev[i] = event_new(w.base, fd, what, ev_cb, (void *)(intptr_t)i)); w.evfd[i] = fd; } break;
      case 2: if (w.ev[i]) { struct timeval tv = {0, (long)s.below(5000)}; OP("event_add", r = event_add(w.ev[i], s.flag() ? &tv : nullptr)); note(r); } break;
      case 3: if (w.ev[i]) { OP("event_del", r = event_del(w.ev[i])); note(r); } break;
      case 4: if (w.ev[i]) { OP("event_active", event_active(w.ev[i], EV_READ, 1)); } break;
      case 5: if (w.ev[i]) { OP("event_free", event_free(w.ev[i])); w.ev[i] = nullptr; } break;
      case 6: if (w.ev[i]) { OP("event_priority_set", r = event_priority_set(w.ev[i], (int)s.below(4) - 1)); note(r); } break;
      case 7: { // event_base_once: valid and documented-to-fail forms
        int form = s.below(7); struct timeval tv = {0, (long)s.below(3000)}; int fd = -1; short what = EV_TIMEOUT;
        if (backend >= 2 && (form == 3 || form == 4)) form = 1;   // poll/select accept any fd number at add time: adding a closed fd there is a caller error
        if (verif_known("C08/once-error-path-lock") && (form == 3 || form == 4)) { verif_known_skipped("C08/once-error-path-lock"); form = 0; }
        switch (form) { case 0: break; case 1: fd = w.pipes[1][0]; what = EV_READ; break; case 2: fd = w.pipes[2][1]; what = EV_WRITE; break;
          case 3: fd = w.regfd; what = EV_READ; break;           // epoll: EPERM -> -1
          case 4: fd = dup(w.regfd); close(fd); what = EV_READ; break;          // EBADF -> -1 (epoll)
          case 5: what = EV_SIGNAL; fd = SIGUSR2; break;         // documented: -1
          case 6: what = EV_READ | EV_PERSIST; fd = w.pipes[1][0]; break; }
        OP("event_base_once", r = event_base_once(w.base, fd, what, once_cb, nullptr, form == 0 && s.flag() ? nullptr : &tv));
        TR("  once form=%d -> %d", form, r); if (r == 0) w.once_pending++; note(r);
        break; }
      case 8: { OP("event_base_loop", r = event_base_loop(w.base, EVLOOP_NONBLOCK)); break; }
      case 9: { OP("event_base_loop", r = event_base_loop(w.base, EVLOOP_NONBLOCK)); break; }
      case 10: { struct timeval tv = {0, 1000}; OP("event_base_loopexit", r = event_base_loopexit(w.base, s.flag() ? &tv : nullptr)); OP("event_base_loop", event_base_loop(w.base, EVLOOP_ONCE)); break; }
      case 11: { OP("event_base_loopbreak", event_base_loopbreak(w.base)); OP("queries", (void)(event_base_got_break(w.base) + event_base_get_num_events(w.base, EVENT_BASE_COUNT_ADDED | EVENT_BASE_COUNT_ACTIVE) + event_base_get_max_events(w.base, EVENT_BASE_COUNT_ADDED, s.flag()))); break; }
      case 12: { struct timeval tv; OP("gettimeofday_cached", event_base_gettimeofday_cached(w.base, &tv)); OP("update_cache_time", event_base_update_cache_time(w.base));
                 FILE *f = fopen("/dev/null", "w"); if (f) { OP("dump_events", event_base_dump_events(w.base, f)); fclose(f); } break; }
      case 13: { const struct timeval tv = {0, (long)(1000 + s.below(3) * 1000)}; OP("init_common_timeout", (void)event_base_init_common_timeout(w.base, &tv)); break; }
      case 14: { disarm(); /* a reinit that cannot rebuild the backend is fatal by design (event_errx) */ OP("event_reinit", r = event_reinit(w.base)); note(r); break; }
      // ---- evbuffers with locking
      case 15: { int b = s.below(3); if (!w.buf[b]) { OP("evbuffer_new", w.buf[b] = evbuffer_new()); if (w.buf[b]) { OP("evbuffer_enable_locking", r = evbuffer_enable_locking(w.buf[b], nullptr)); note(r);
                   if (s.flag()) OP("evbuffer_defer_callbacks", evbuffer_defer_callbacks(w.buf[b], w.base)); if (s.flag()) OP("evbuffer_add_cb", (void)evbuffer_add_cb(w.buf[b], buf_cb, nullptr)); } } break; }
      case 16: { int b = s.below(3); if (w.buf[b]) { std::string d(s.pick((const int[]){1, 100, 600, 5000}), 'x'); OP("evbuffer_add", r = evbuffer_add(w.buf[b], d.data(), d.size())); note(r);
                   OP("evbuffer_add_printf", r = evbuffer_add_printf(w.buf[b], "%d\r\n", step)); OP("evbuffer_prepend", r = evbuffer_prepend(w.buf[b], "hdr", 3)); note(r); } break; }
      case 17: { int a = s.below(3), b = s.below(3); if (w.buf[a] && w.buf[b] && a != b) { OP("evbuffer_add_buffer", r = evbuffer_add_buffer(w.buf[a], w.buf[b])); note(r);
                   OP("evbuffer_remove_buffer", r = evbuffer_remove_buffer(w.buf[a], w.buf[b], 1 + s.below(700))); note(r < 0); OP("evbuffer_prepend_buffer", r = evbuffer_prepend_buffer(w.buf[b], w.buf[a])); note(r);
                   OP("evbuffer_add_buffer_reference", r = evbuffer_add_buffer_reference(w.buf[a], w.buf[b])); note(r); } break; }
      case 18: { int b = s.below(3); if (w.buf[b]) { char tmp[128]; OP("evbuffer_remove", r = evbuffer_remove(w.buf[b], tmp, sizeof tmp)); OP("evbuffer_drain", r = evbuffer_drain(w.buf[b], s.below(300))); note(r);
                   OP("evbuffer_pullup", (void)evbuffer_pullup(w.buf[b], s.flag() ? -1 : (ev_ssize_t)s.below(2000))); size_t n; char *l; OP("evbuffer_readln", l = evbuffer_readln(w.buf[b], &n, EVBUFFER_EOL_CRLF)); sim_mem_free(l);
                   OP("evbuffer_search", (void)evbuffer_search(w.buf[b], "\r\n", 2, nullptr)); OP("evbuffer_expand", r = evbuffer_expand(w.buf[b], s.below(9000))); note(r);
                   struct evbuffer_iovec v[2]; OP("evbuffer_reserve_space", r = evbuffer_reserve_space(w.buf[b], 1 + s.below(3000), v, 2)); if (r > 0) { v[0].iov_len = v[0].iov_len ? 1 : 0; OP("evbuffer_commit_space", r = evbuffer_commit_space(w.buf[b], v, 1)); note(r); }
                   OP("evbuffer_freeze", r = evbuffer_freeze(w.buf[b], 0)); OP("evbuffer_add(frozen)", r = evbuffer_add(w.buf[b], "z", 1)); note(r); OP("evbuffer_unfreeze", r = evbuffer_unfreeze(w.buf[b], 0)); } break; }
      case 19: { int b = s.below(3); if (w.buf[b]) { OP("evbuffer_write", r = evbuffer_write(w.buf[b], w.sp[1][0])); note(r < 0); { int cf = w.sp[1][1]; if (!s.flag()) { cf = dup(w.regfd); close(cf); }   /* a descriptor number that is closed NOW (the number saved at the start may have been reused by the library since) */
                   OP("evbuffer_read", r = evbuffer_read(w.buf[b], cf, -1)); note(r < 0); }
                   OP("evbuffer_add_reference", r = evbuffer_add_reference(w.buf[b], "static", 6, nullptr, nullptr)); note(r);
                   // file segments (they carry their own lock): a regular file, a pipe (mmap and pread both fail when the segment is
                   // materialised), a closed descriptor; through evbuffer_add_file or the explicit segment API.  The library owns the fd
                   // (CLOSE_ON_FREE) in every case, so nothing is left for the harness to close.
                   int fk = s.below(6);
                   if (fk) { int fd = fk <= 2 ? dup(w.regfd) : fk == 3 ? dup(w.pipes[2][0]) : fk == 4 ? -1 : dup(w.regfd); if (fk == 4) { fd = dup(w.regfd); close(fd); }
                     ev_off_t off = (ev_off_t)s.pick((const int[]){0, 1, 4096, 5000}), len = (ev_off_t)s.pick((const int[]){1, 64, 4096, 10000});
                     if (s.flag()) { OP("evbuffer_add_file", r = evbuffer_add_file(w.buf[b], fd, off, len)); note(r); }
                     else { unsigned fl = EVBUF_FS_CLOSE_ON_FREE | (s.flag() ? EVBUF_FS_DISABLE_MMAP : 0) | (s.flag() ? EVBUF_FS_DISABLE_SENDFILE : 0); struct evbuffer_file_segment *seg = nullptr;
                       OP("evbuffer_file_segment_new", seg = evbuffer_file_segment_new(fd, off, fk == 5 ? -1 : len, fl));
                       if (!seg) { G->failed_calls++; if (fk != 4) close(fd); }
                       else { // code-derived corner (buffer.c; evbuffer_add_file relies on it): a FAILED evbuffer_add_file_segment releases the caller's reference
                              OP("evbuffer_add_file_segment", r = evbuffer_add_file_segment(w.buf[b], seg, 0, s.flag() ? -1 : 1)); note(r); if (r != 0) seg = nullptr;
                              if (seg && s.flag()) { int o = (b + 1) % 3; if (w.buf[o]) { OP("evbuffer_add_file_segment", r = evbuffer_add_file_segment(w.buf[o], seg, 0, -1)); note(r); if (r != 0) seg = nullptr; } }
                              if (seg) OP("evbuffer_file_segment_free", evbuffer_file_segment_free(seg)); } } } } break; }
      case 20: { int b = s.below(3); if (w.buf[b]) { OP("evbuffer_free", evbuffer_free(w.buf[b])); w.buf[b] = nullptr; } break; }
      // ---- bufferevents (thread-safe)
      case 21: if (!w.bev[0] && !w.bev[1]) { struct bufferevent *pr[2] = {nullptr, nullptr}; int opt = BEV_OPT_THREADSAFE | (s.flag() ? BEV_OPT_DEFER_CALLBACKS : 0) | (s.flag() ? BEV_OPT_UNLOCK_CALLBACKS | BEV_OPT_DEFER_CALLBACKS : 0);
          OP("bufferevent_pair_new", r = bufferevent_pair_new(w.base, opt, pr)); note(r); if (r == 0) { w.bev[0] = pr[0]; w.bev[1] = pr[1]; for (int k = 0; k < 2; k++) { bufferevent_setcb(pr[k], bev_rcb, nullptr, bev_ecb, nullptr); OP("bufferevent_enable", bufferevent_enable(pr[k], EV_READ | EV_WRITE)); } } } break;
      case 22: if (!w.bev[2]) { int opt = BEV_OPT_THREADSAFE | (s.flag() ? BEV_OPT_DEFER_CALLBACKS : 0);
          OP("bufferevent_socket_new", w.bev[2] = bufferevent_socket_new(w.base, w.sp[0][0], opt)); if (w.bev[2]) { bufferevent_setcb(w.bev[2], bev_rcb, nullptr, bev_ecb, nullptr); OP("bufferevent_enable", r = bufferevent_enable(w.bev[2], EV_READ | EV_WRITE)); note(r); } } break;
      case 23: if (!w.bev[3] && w.bev[0]) { OP("bufferevent_filter_new", w.bev[3] = bufferevent_filter_new(w.bev[0], filt, filt, BEV_OPT_THREADSAFE, nullptr, nullptr)); if (w.bev[3]) { bufferevent_setcb(w.bev[3], bev_rcb, nullptr, bev_ecb, nullptr); OP("bufferevent_enable", bufferevent_enable(w.bev[3], EV_READ | EV_WRITE)); } } break;
      case 24: { int b = s.below(4); if (w.bev[b] && !(b == 0 && w.bev[3])) { std::string d(s.pick((const int[]){1, 300, 5000}), 'y'); OP("bufferevent_write", r = bufferevent_write(w.bev[b], d.data(), d.size())); note(r);
                   OP("bufferevent_flush", r = bufferevent_flush(w.bev[b], EV_WRITE, s.flag() ? BEV_FLUSH : BEV_FINISHED)); OP("bufferevent_trigger", bufferevent_trigger(w.bev[b], EV_READ, s.flag() ? BEV_TRIG_DEFER_CALLBACKS : 0)); } break; }
      case 25: { int b = s.below(4); if (w.bev[b]) { OP("bufferevent_disable", r = bufferevent_disable(w.bev[b], EV_READ)); OP("bufferevent_setwatermark", bufferevent_setwatermark(w.bev[b], EV_READ, s.below(10), s.below(100)));
                   struct timeval tv = {0, 2000}; OP("bufferevent_set_timeouts", r = bufferevent_set_timeouts(w.bev[b], s.flag() ? &tv : nullptr, &tv)); OP("bufferevent_enable", r = bufferevent_enable(w.bev[b], EV_READ)); note(r);
                   OP("bufferevent_priority_set", r = bufferevent_priority_set(w.bev[b], 0)); note(r); OP("bufferevent_get_enabled", (void)bufferevent_get_enabled(w.bev[b])); char tmp[32]; OP("bufferevent_read", (void)bufferevent_read(w.bev[b], tmp, sizeof tmp)); } break; }
      case 26: { int b = 2; if (w.bev[b]) { if (!w.cfg) { struct timeval tick = {0, 10000}; w.cfg = ev_token_bucket_cfg_new(100, 200, 100, 200, &tick); }
                   if (w.cfg) { bool on = s.flag(); OP("bufferevent_set_rate_limit", r = bufferevent_set_rate_limit(w.bev[b], on ? w.cfg : nullptr)); note(r); if (r == 0) w.limited = on;
                     // documented precondition of the decrement calls: the bufferevent has a rate limit configured
                     if (w.limited) OP("decrement_read_limit", r = bufferevent_decrement_read_limit(w.bev[b], (ev_ssize_t)s.below(500) - 100));
                     if (!w.grp) OP("rate_limit_group_new", w.grp = bufferevent_rate_limit_group_new(w.base, w.cfg));
                     if (w.grp) { OP("add_to_rate_limit_group", r = bufferevent_add_to_rate_limit_group(w.bev[b], w.grp)); note(r); if (r == 0) w.in_group = true;
                       OP("group_decrement_write", r = bufferevent_rate_limit_group_decrement_write(w.grp, 50));
                       if (w.in_group && s.flag()) { OP("remove_from_rate_limit_group", r = bufferevent_remove_from_rate_limit_group(w.bev[b])); w.in_group = false; } } } } break; }
      case 27: { int b = s.below(4); if (b == 0 && w.bev[3]) b = 3; if (w.bev[b]) { if (b == 2 && w.in_group) { bufferevent_remove_from_rate_limit_group(w.bev[2]); w.in_group = false; } if (b == 2) w.limited = false;
                   OP("bufferevent_free", bufferevent_free(w.bev[b])); w.bev[b] = nullptr; } break; }
      case 28: { char c = 'q'; (void)!write(w.pipes[s.below(3)][1], &c, 1); (void)!write(w.sp[0][1], "hello", 5); (void)!write(w.sp[1][0], "w", 1); break; }
      // ---- listener
      case 29: if (!w.lev) { struct sockaddr_un sun; memset(&sun, 0, sizeof sun); sun.sun_family = AF_UNIX; int n = snprintf(sun.sun_path + 1, sizeof sun.sun_path - 1, "verif-c08-%d", getpid());
          OP("evconnlistener_new_bind", w.lev = evconnlistener_new_bind(w.base, lev_cb, nullptr, LEV_OPT_THREADSAFE | LEV_OPT_CLOSE_ON_FREE | (s.flag() ? LEV_OPT_DEFERRED_ACCEPT : 0) | (s.flag() ? LEV_OPT_DISABLED : 0), 4, (struct sockaddr *)&sun, (int)(offsetof(struct sockaddr_un, sun_path) + 1 + n)));
          if (w.lev) OP("evconnlistener_set_error_cb", evconnlistener_set_error_cb(w.lev, lev_err)); } break;
      case 30: if (w.lev) { if (w.nclients < 4) { int c = socket(AF_UNIX, SOCK_STREAM | SOCK_NONBLOCK, 0); struct sockaddr_un sun; memset(&sun, 0, sizeof sun); sun.sun_family = AF_UNIX; int n = snprintf(sun.sun_path + 1, sizeof sun.sun_path - 1, "verif-c08-%d", getpid());
            if (c >= 0) { (void)connect(c, (struct sockaddr *)&sun, (socklen_t)(offsetof(struct sockaddr_un, sun_path) + 1 + n)); w.lev_clients[w.nclients++] = c; } }
          OP("evconnlistener_enable", r = evconnlistener_enable(w.lev)); note(r); OP("event_base_loop", event_base_loop(w.base, EVLOOP_NONBLOCK));
          if (s.flag()) OP("evconnlistener_disable", r = evconnlistener_disable(w.lev)); OP("evconnlistener_set_cb", evconnlistener_set_cb(w.lev, s.flag() ? lev_cb : nullptr, nullptr)); } break;
      case 31: if (w.lev) { OP("evconnlistener_free", evconnlistener_free(w.lev)); w.lev = nullptr; } break;
      // ---- evdns
      case 32: if (!w.dns) { OP("evdns_base_new", w.dns = evdns_base_new(w.base, 0)); if (w.dns) { OP("evdns_base_nameserver_ip_add", r = evdns_base_nameserver_ip_add(w.dns, s.flag() ? "127.0.0.1:5353" : "not-an-address")); note(r); } } break;
      case 33: if (w.dns) { static const char *opts[][2] = {{"timeout", "1"}, {"attempts", "2"}, {"ndots", "1"}, {"max-inflight", "2"}, {"randomize-case", "0"}, {"bogus-option", "1"}, {"timeout", "abc"}, {"edns-udp-size", "1232"}, {"so-rcvbuf", "99999999999"}};
          int k = s.below(9); OP("evdns_base_set_option", r = evdns_base_set_option(w.dns, opts[k][0], opts[k][1])); note(r); OP("evdns_base_search_add", evdns_base_search_add(w.dns, "example.test")); OP("evdns_base_count_nameservers", (void)evdns_base_count_nameservers(w.dns)); } break;
      case 34: if (w.dns && !w.dreq) { OP("evdns_base_resolve_ipv4", w.dreq = evdns_base_resolve_ipv4(w.dns, s.flag() ? "host.example.test" : "a..b", s.flag() ? DNS_QUERY_NO_SEARCH : 0, (evdns_callback_type)dns_cb, nullptr)); if (!w.dreq) w.failed_calls++; } break;
      case 35: if (w.dns && w.dreq) { OP("evdns_cancel_request", evdns_cancel_request(w.dns, w.dreq)); w.dreq = nullptr; OP("event_base_loop", event_base_loop(w.base, EVLOOP_NONBLOCK)); } break;
      case 36: if (w.dns) {
                 // a hosts table and getaddrinfo lookups answered from it (synchronously, under the base lock) or sent to DNS and cancelled
                 if (s.flag()) { int mf = memfd_create("hosts", MFD_CLOEXEC); if (mf >= 0) { static const char H[] = "10.9.8.7 hosty.test alias.test\n::9 hosty.test\n"; (void)!write(mf, H, sizeof H - 1);
                     char path[64]; snprintf(path, sizeof path, "/proc/self/fd/%d", mf); OP("evdns_base_load_hosts", r = evdns_base_load_hosts(w.dns, path)); note(r); close(mf); }
                   struct evutil_addrinfo hints; memset(&hints, 0, sizeof hints); hints.ai_family = s.pick((const int[]){AF_UNSPEC, AF_INET, AF_INET6}); hints.ai_socktype = s.flag() ? SOCK_STREAM : 0; hints.ai_flags = s.flag() ? EVUTIL_AI_CANONNAME : 0;
                   struct evdns_getaddrinfo_request *gr = nullptr;
                   OP("evdns_getaddrinfo", gr = evdns_getaddrinfo(w.dns, s.flag() ? "hosty.test" : "elsewhere.test", s.flag() ? "80" : nullptr, &hints, gai_cb, nullptr));
                   // (a loop turn lets the cancelled sub-requests report before the base is freed below: freeing at once is the listed C34 finding asan:heap-use-after-free@evdns_getaddrinfo_gotresolve)
                   if (gr) { w.gai_outstanding++; OP("evdns_getaddrinfo_cancel", evdns_getaddrinfo_cancel(gr)); } }
                 for (int k = 0; k < 4 && w.gai_outstanding > 0; k++) OP("event_base_loop", event_base_loop(w.base, EVLOOP_NONBLOCK));
                 if (w.gai_outstanding > 0) break;   // its callback has not run yet: the base is freed by a later op or by the teardown
                 OP("evdns_base_clear_nameservers_and_suspend", r = evdns_base_clear_nameservers_and_suspend(w.dns)); OP("evdns_base_resume", r = evdns_base_resume(w.dns)); OP("evdns_base_free", evdns_base_free(w.dns, s.flag())); w.dns = nullptr; w.dreq = nullptr; } break;
      // ---- evhttp objects
      case 37: if (!w.http) { OP("evhttp_new", w.http = evhttp_new(w.base)); if (w.http) { OP("evhttp_set_cb", r = evhttp_set_cb(w.http, "/a", http_cb, nullptr)); note(r); OP("evhttp_set_cb(dup)", r = evhttp_set_cb(w.http, "/a", http_cb, nullptr)); note(r);
                   OP("evhttp_del_cb", r = evhttp_del_cb(w.http, "/zz")); note(r); OP("evhttp_set_gencb", evhttp_set_gencb(w.http, http_cb, nullptr)); OP("evhttp_add_server_alias", r = evhttp_add_server_alias(w.http, "alias.test")); note(r);
                   OP("evhttp_bind_socket(bad)", r = evhttp_bind_socket(w.http, "256.1.1.1", 0)); note(r); } } break;
      case 38: if (w.http) { OP("evhttp_free", evhttp_free(w.http)); w.http = nullptr; } break;
      // persistent freeze state, so that every buffer op above also runs against frozen ends (documented: they fail with -1)
      case 39: { int b = s.below(3); if (w.buf[b]) { OP("evbuffer_freeze", r = evbuffer_freeze(w.buf[b], s.flag())); note(r); } break; }
      case 40: { int b = s.below(3); if (w.buf[b]) { OP("evbuffer_unfreeze", r = evbuffer_unfreeze(w.buf[b], s.flag())); note(r); } break; }
      // deliver a signal (only while one of our signal events is really added: the default action would end the process)
      case 41: case 42: { bool armed = false; for (auto *e : w.ev) if (e && event_pending(e, EV_SIGNAL, nullptr)) armed = true;
                 if (armed) { int n = 1 + s.below(3); for (int k = 0; k < n; k++) raise(SIGUSR1); OP("event_base_loop", r = event_base_loop(w.base, s.flag() ? EVLOOP_NONBLOCK : EVLOOP_ONCE)); } break; }
      default: { OP("event_base_loop", event_base_loop(w.base, EVLOOP_NONBLOCK)); break; }
    }
    uint64_t sf1 = 0; for (int k = 0; k < SYS__N; k++) sf1 += sim_sys_faults[k];
    if (sim_mem_failed != f0 || sf1 != sf0 || sim_try_failed != tf0) w.faults_consumed++;
    disarm();
    quiesce(w.last_op);
  }
  disarm();
  // teardown (also under the monitor)
  TR("teardown live=%lld", (long long)sim_mem_live_blocks);
  for (auto &e : w.ev) if (e) { OP("event_free", event_free(e)); e = nullptr; }
  if (w.bev[2] && w.in_group) bufferevent_remove_from_rate_limit_group(w.bev[2]);
  if (w.bev[3]) { OP("bufferevent_free", bufferevent_free(w.bev[3])); w.bev[3] = nullptr; }
  for (auto &b : w.bev) if (b) { OP("bufferevent_free", bufferevent_free(b)); b = nullptr; }
  if (w.lev) OP("evconnlistener_free", evconnlistener_free(w.lev));
  for (int k = 0; k < 4 && w.dns && w.gai_outstanding > 0; k++) OP("event_base_loop", event_base_loop(w.base, EVLOOP_NONBLOCK));
  if (w.dns) OP("evdns_base_free", evdns_base_free(w.dns, 1));
  if (w.http) OP("evhttp_free", evhttp_free(w.http));
  OP("event_base_loop", event_base_loop(w.base, EVLOOP_NONBLOCK));
  if (w.grp) OP("rate_limit_group_free", bufferevent_rate_limit_group_free(w.grp));
  if (w.cfg) ev_token_bucket_cfg_free(w.cfg);
  for (auto &b : w.buf) if (b) { OP("evbuffer_free", evbuffer_free(b)); b = nullptr; }
  { int lr; OP("event_base_loop", lr = event_base_loop(w.base, EVLOOP_NONBLOCK)); TR("teardown loop -> %d", lr); }
  OP("event_base_free", event_base_free(w.base));
  TR("after base free live=%lld", (long long)sim_mem_live_blocks);
  for (int k = 0; k < w.nclients; k++) close(w.lev_clients[k]);
  for (auto &p : w.pipes) { close(p[0]); close(p[1]); }
  close(w.sp[0][1]); close(w.sp[1][0]); close(w.sp[1][1]); if (fcntl(w.sp[0][0], F_GETFD) != -1) close(w.sp[0][0]);
  close(w.regfd);
  if (w.cb_ctl) verif_class("loop_control_from_callback");
  if (w.failed_calls) verif_class("api_call_failed"); if (w.faults_consumed) verif_class("fault_consumed");
  verif_case_end(w.failed_calls > 0, s.h);
  G = nullptr;
  return 0;
}
