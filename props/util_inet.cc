// C40 — textual address conversion: evutil_inet_ntop / evutil_inet_pton / evutil_parse_sockaddr_port /
// evutil_format_sockaddr_port_, with the platform's inet_pton / inet_ntop as the oracle.
// Preconditions: src/dst non-NULL; strings are NUL-terminated C strings; dst has at least `len` bytes.
//
// Oracle clauses (keys):
//   ntop, for EVERY buffer length 0..64 of one address:
//     C40/ntop-guard               a byte at or beyond dst+len was written
//     C40/ntop-bad-return          non-NULL result that is not dst
//     C40/ntop4-truncated, C40/ntop6-truncated
//                                  success, but the text is not the complete NUL-terminated text (the one a 64-byte
//                                  buffer receives) or is not terminated inside len
//     C40/ntop-spurious-fail       NULL although len > strlen(text)  (inet_ntop contract the function replaces)
//     C40/ntop-not-parsed-back     platform inet_pton does not parse the text back to the same address
//   pton (reference = platform inet_pton on the string with leading zeros of IPv4 components removed):
//     C40/pton-scanf-lenient       accepted although the platform rejects; the IPv4 part carries whitespace, a sign
//                                  or a number >= 2^32 (sscanf("%u") syntax)
//     C40/pton6-accepts-0x-prefix  accepted although the platform rejects; a group carries a 0x / 0X prefix
//     C40/pton6-accepts-trailing-colon   accepted although the platform rejects; the string ends in a single ':'
//     C40/pton-accepts-invalid     any other string accepted that the platform rejects
//     C40/pton-rejects-valid       rejected although the platform accepts
//     C40/pton-wrong-address       both accept, different address bytes
//     C40/pton-wrote-on-failure-guard   bytes beyond the 4/16 address bytes written
//   sockaddr text:
//     C40/sockaddr-roundtrip       format(sa, port != 0) -> parse does not give back family/address/port
//     C40/sockaddr-parse-form      one of the five documented forms of a canonical address text is not parsed to
//                                  that address/port (port absent -> 0), or an out-of-range port / too small outlen is accepted
#include "verif.h"
#include "sim.h"
#include "util_sweep.hh"
#include <event2/util.h>
#include <arpa/inet.h>
#include <netinet/in.h>
#include <sys/socket.h>
extern "C" {
#include "util-internal.h"
}

static const char *K_NTOP6_TRUNC = "C40/ntop6-truncated";
static const char *K_SCANF = "C40/pton-scanf-lenient";
static const char *K_0X = "C40/pton6-accepts-0x-prefix";
static const char *K_TRAILCOLON = "C40/pton6-accepts-trailing-colon";

static char g_msg[700];
#define FAILK(key, ...) do { snprintf(g_msg, sizeof g_msg, __VA_ARGS__); return key; } while (0)

// ------------------------------------------------------------------------------------------ ntop
// All buffer lengths lo..hi for one address.  Returns a violation key or NULL.
static const char *check_ntop(int af, const void *addr, size_t lo, size_t hi, size_t *textlen_out, bool *hit_known) {
  const size_t alen = af == AF_INET ? 4 : 16;
  char full[80]; memset(full, 0x5a, sizeof full);
  const char *r = evutil_inet_ntop(af, addr, full, 64);
  if (!r) FAILK("C40/ntop-spurious-fail", "af=%d addr=%s len=64 -> NULL", af, hexs(addr, alen).c_str());
  if (r != full) FAILK("C40/ntop-bad-return", "af=%d addr=%s len=64: result is not dst", af, hexs(addr, alen).c_str());
  size_t L = strnlen(full, 64);
  if (L >= 64) FAILK(af == AF_INET ? "C40/ntop4-truncated" : "C40/ntop6-truncated", "af=%d addr=%s len=64: not NUL-terminated", af, hexs(addr, alen).c_str());
  for (size_t i = 64; i < sizeof full; i++) if (full[i] != 0x5a) FAILK("C40/ntop-guard", "af=%d addr=%s len=64 wrote at offset %zu", af, hexs(addr, alen).c_str(), i);
  if (textlen_out) *textlen_out = L;
  unsigned char back[16];
  if (inet_pton(af, full, back) != 1 || memcmp(back, addr, alen)) FAILK("C40/ntop-not-parsed-back", "af=%d addr=%s -> \"%s\", which the platform inet_pton %s", af, hexs(addr, alen).c_str(), full, inet_pton(af, full, back) == 1 ? "parses to another address" : "rejects");
  for (size_t len = lo; len <= hi; len++) {
    if (af == AF_INET6 && len == L && verif_known(K_NTOP6_TRUNC)) { if (hit_known) *hit_known = true; continue; }
    char buf[80]; memset(buf, 0x5a, sizeof buf);
    r = evutil_inet_ntop(af, addr, buf, len);
    for (size_t i = len; i < sizeof buf; i++) if (buf[i] != 0x5a) FAILK("C40/ntop-guard", "af=%d addr=%s (\"%s\") len=%zu wrote at offset %zu", af, hexs(addr, alen).c_str(), full, len, i);
    if (!r) { if (len > L) FAILK("C40/ntop-spurious-fail", "af=%d \"%s\" (%zu chars) len=%zu -> NULL", af, full, L, len); continue; }
    if (r != buf) FAILK("C40/ntop-bad-return", "af=%d \"%s\" len=%zu: result is not dst", af, full, len);
    size_t l2 = strnlen(buf, len);
    if (l2 >= len || l2 != L || memcmp(buf, full, L))
      FAILK(af == AF_INET ? "C40/ntop4-truncated" : "C40/ntop6-truncated", "af=%d len=%zu returned success with \"%.*s\"%s, complete text is \"%s\" (%zu chars)", af, len, (int)l2, buf, l2 >= len ? " (unterminated)" : "", full, L);
  }
  return NULL;
}

// ------------------------------------------------------------------------------------------ pton
static bool is_dig(char c) { return c >= '0' && c <= '9'; }
// the IPv4 part of a string: whole string for AF_INET; for AF_INET6 the part after the last ':' when it contains a '.'
static size_t v4_part_start(int af, const std::string &str, bool *has) {
  *has = true; if (af == AF_INET) return 0;
  size_t c = str.rfind(':'); size_t st = c == std::string::npos ? 0 : c + 1;
  if (str.find('.', st) == std::string::npos) { *has = false; return 0; }
  return st;
}
// documented extension: leading zeros in IPv4 components are allowed and read as decimal
static std::string strip_v4_leading_zeros(int af, const std::string &str) {
  bool has; size_t st = v4_part_start(af, str, &has); if (!has) return str;
  std::string out = str.substr(0, st);
  size_t i = st;
  while (i < str.size()) {
    if (is_dig(str[i]) && (i == st || str[i - 1] == '.')) {
      size_t j = i; while (j < str.size() && is_dig(str[j])) j++;
      size_t k = i; while (k + 1 < j && str[k] == '0') k++;
      out.append(str, k, j - k); i = j;
    } else out.push_back(str[i++]);
  }
  return out;
}
static bool feat_scanf(int af, const std::string &str) {
  bool has; size_t st = v4_part_start(af, str, &has); if (!has) return false;
  for (size_t i = st; i < str.size(); i++) {
    char c = str[i];
    if (c == ' ' || c == '\t' || c == '\n' || c == '\v' || c == '\f' || c == '\r' || c == '+' || c == '-') return true;
    if (is_dig(c) && (i == st || !is_dig(str[i - 1]))) { size_t j = i; while (j < str.size() && str[j] == '0') j++; size_t k = j; while (k < str.size() && is_dig(str[k])) k++; if (k - j >= 10) return true; }
  }
  return false;
}
static bool feat_0x(const std::string &str) { return str.find("0x") != std::string::npos || str.find("0X") != std::string::npos; }
static bool feat_trailing_colon(const std::string &str) { size_t n = str.size(); return n >= 2 && str[n - 1] == ':' && str[n - 2] != ':'; }

static const char *check_pton(int af, const std::string &str, bool *ref_accepts, bool *skipped_known) {
  const size_t alen = af == AF_INET ? 4 : 16;
  if ((feat_scanf(af, str) && verif_known(K_SCANF)) || (af == AF_INET6 && feat_0x(str) && verif_known(K_0X)) || (af == AF_INET6 && feat_trailing_colon(str) && verif_known(K_TRAILCOLON))) {
    if (skipped_known) *skipped_known = true; return NULL; }
  std::string norm = strip_v4_leading_zeros(af, str);
  unsigned char want[16]; memset(want, 0, sizeof want);
  bool ref = inet_pton(af, norm.c_str(), want) == 1;
  if (ref_accepts) *ref_accepts = ref;
  unsigned char got[24]; memset(got, 0x5a, sizeof got);
  int r = evutil_inet_pton(af, str.c_str(), got);
  for (size_t i = alen; i < sizeof got; i++) if (got[i] != 0x5a) FAILK("C40/pton-wrote-on-failure-guard", "af=%d \"%s\": byte %zu beyond the address written", af, esc(str).c_str(), i);
  if (r == 1 && !ref) {
    const char *key = feat_scanf(af, str) ? K_SCANF : (af == AF_INET6 && feat_0x(str)) ? K_0X : (af == AF_INET6 && feat_trailing_colon(str)) ? K_TRAILCOLON : "C40/pton-accepts-invalid";
    FAILK(key, "af=%d \"%s\" accepted as %s; the platform inet_pton rejects it%s", af, esc(str).c_str(), hexs(got, alen).c_str(), norm != str ? " (also after removing leading zeros)" : "");
  }
  if (r != 1 && ref) FAILK("C40/pton-rejects-valid", "af=%d \"%s\" rejected (%d); the platform inet_pton accepts \"%s\" as %s", af, esc(str).c_str(), r, esc(norm).c_str(), hexs(want, alen).c_str());
  if (r == 1 && memcmp(got, want, alen)) FAILK("C40/pton-wrong-address", "af=%d \"%s\" -> %s, platform -> %s", af, esc(str).c_str(), hexs(got, alen).c_str(), hexs(want, alen).c_str());
  return NULL;
}

// one IPv4 address (host-order index): text, parse back, exact boundary lengths.  The sweep element.
static const char *check_ipv4_value(uint32_t a) {
  struct in_addr ia; ia.s_addr = htonl(a);
  size_t L = 0;
  const char *k = check_ntop(AF_INET, &ia, 0, 0, &L, NULL); if (k) return k;       // len 64 + len 0
  k = check_ntop(AF_INET, &ia, L, L + 1, NULL, NULL); if (k) return k;               // exactly too small / exactly enough
  char txt[64]; evutil_inet_ntop(AF_INET, &ia, txt, sizeof txt);
  struct in_addr back; back.s_addr = ~ia.s_addr;
  if (evutil_inet_pton(AF_INET, txt, &back) != 1 || back.s_addr != ia.s_addr) FAILK("C40/pton-rejects-valid", "evutil_inet_pton(AF_INET, \"%s\") does not give back %08x", txt, a);
  return NULL;
}

// ------------------------------------------------------------------------------------------ generators
static uint32_t gen_v4(Src &s) {
  if (s.chance(1, 4)) return (uint32_t)s.boundary(32);
  static const uint8_t OCT[] = {0, 1, 9, 10, 11, 99, 100, 101, 127, 128, 199, 200, 249, 250, 254, 255};
  uint32_t a = 0; for (int i = 0; i < 4; i++) a = a << 8 | (s.chance(3, 4) ? OCT[s.below(sizeof OCT)] : s.byte());
  return a;
}
static void gen_v6(Src &s, unsigned char out[16]) {
  static const uint16_t W[] = {1, 0xf, 0x10, 0xff, 0x100, 0xfff, 0x1000, 0xffff, 0xa, 0xabcd, 0x8000};
  unsigned zeromask = s.byte();       // every zero-run pattern
  unsigned form = s.below(8);
  for (int i = 0; i < 8; i++) { uint16_t w = (zeromask >> i & 1) ? 0 : (s.chance(3, 4) ? W[s.below(sizeof W / sizeof W[0])] : s.u16()); out[2 * i] = (unsigned char)(w >> 8); out[2 * i + 1] = (unsigned char)w; }
  if (form == 0 || form == 1) { // v4-compatible / v4-mapped shapes
    memset(out, 0, 10); out[10] = out[11] = form == 1 ? 0xff : 0;
    uint32_t a = gen_v4(s); if (s.chance(1, 4)) a &= s.flag() ? 0xffff0000u : 0x0000ffffu;
    out[12] = a >> 24; out[13] = a >> 16; out[14] = a >> 8; out[15] = a;
  }
}
static std::string gen_v4_text(Src &s, bool *pristine) {
  static const char *COMP[] = {"0", "1", "9", "10", "99", "100", "199", "200", "249", "250", "255", "256", "260", "300", "999", "1000", "00", "01", "010", "0255", "0256", "000000000000000000001",
    "4294967295", "4294967296", "4294967297", "99999999999999999999", "18446744073709551617", "0x1", "0x10", "a", "+1", "-0", "-1", " 1", "1 ", "\t2", "", "1e1", "0377"};
  std::string r; unsigned n = s.chance(7, 8) ? 4 : s.below(7); bool ok = n == 4;
  for (unsigned i = 0; i < n; i++) {
    if (i) r += s.chance(30, 31) ? "." : (ok = false, s.flag() ? ".." : ",");
    if (s.chance(2, 3)) { unsigned v = s.chance(1, 2) ? s.below(256) : (unsigned)s.boundary(8); unsigned z = s.chance(1, 5) ? 1 + s.below(3) : 0; r.append(z, '0'); r += std::to_string(v); }
    else { r += COMP[s.below(sizeof COMP / sizeof COMP[0])]; ok = false; }
  }
  if (pristine) *pristine = ok;
  return r;
}
static std::string gen_v6_text(Src &s) {
  std::string r; unsigned n = s.chance(1, 2) ? 8 : s.below(10);
  int gap = s.chance(1, 2) ? (int)s.below(n + 1) : -1;
  if (gap >= 0 && n == 8) n = 1 + s.below(7), gap = (int)s.below(n + 1);
  bool v4tail = s.chance(1, 4);
  static const char *GRP[] = {"0", "1", "a", "f", "A", "F", "10", "ff", "FF", "100", "abc", "1000", "ffff", "FFFF", "00", "0000", "00000", "10000", "fffff", "0x1", "0X1", "0x12", "0xa", "x", "g", "", "+1", "-1", " 1", "1 "};
  for (unsigned i = 0; i < n; i++) {
    if ((int)i == gap) r += i == 0 ? "::" : ":";
    if (v4tail && i + 1 == n) { r += gen_v4_text(s, NULL); break; }
    if (s.chance(3, 4)) { unsigned len = 1 + s.below(4); static const char HEX[] = "0123456789abcdefABCDEF"; for (unsigned k = 0; k < len; k++) r.push_back(HEX[s.below(22)]); }
    else r += GRP[s.below(sizeof GRP / sizeof GRP[0])];
    if (i + 1 < n) r += ":";
  }
  if (gap == (int)n) r += n == 0 ? "::" : ":";
  return r;
}
static void mutate_text(Src &s, std::string &t) {
  static const char ALPH[] = "0123456789abcdefABCDEFxX:.:.%+- g/[]\t\n";
  unsigned k = s.below(3);
  for (unsigned m = 0; m < k; m++) {
    size_t pos = t.empty() ? 0 : s.below((uint32_t)t.size() + 1);
    switch (s.below(5)) {
      case 0: t.insert(t.begin() + pos, ALPH[s.below(sizeof ALPH - 1)]); break;
      case 1: if (pos < t.size()) t[pos] = ALPH[s.below(sizeof ALPH - 1)]; break;
      case 2: if (pos < t.size()) t.erase(t.begin() + pos); break;
      case 3: if (pos < t.size()) t.insert(t.begin() + pos, t[pos]); break;      // duplicate a char (extra ':' / '.' / digit)
      default: t.push_back(s.pick((const char[]){':', '.', ' ', '0', 'x', '\n'})); break;
    }
  }
}

static SweepArgs g_args; static Sweep g_sweep;
extern "C" int LLVMFuzzerInitialize(int *argc, char ***argv) {
  g_args.parse(argc, argv);
  g_sweep.init("ipv4", 1ull << 32, g_args);
  return 0;
}

extern "C" int LLVMFuzzerTestOneInput(const uint8_t *data, size_t size) {
  sim_reset();
  verif_case_begin("C40");
  Src s(data, size);
  int nontrivial = 0;
  const char *k = NULL;
  switch (s.below(10)) {   // 8, 9: sockaddr text
  case 1: { // one IPv4 address, boundary lengths + parse back (also the replay form of a sweep element)
    verif_class("ipv4_value");
    uint32_t a = s.u32();
    k = check_ipv4_value(a);
    TR("ipv4 value %08x", a);
    if (k) verif_fail(k, "%s", g_msg);
    nontrivial = 1;
    break; }
  case 2: { // ntop IPv4, every buffer length 0..64
    verif_class("ntop4_all_lengths");
    uint32_t a = gen_v4(s); struct in_addr ia; ia.s_addr = htonl(a); size_t L = 0;
    k = check_ntop(AF_INET, &ia, 0, 64, &L, NULL);
    TR("ntop(AF_INET, %08x) for len 0..64, text length %zu", a, L);
    if (k) verif_fail(k, "%s", g_msg);
    nontrivial = 1;
    break; }
  case 3: case 4: { // ntop IPv6, every buffer length 0..64
    verif_class("ntop6_all_lengths");
    unsigned char a6[16]; gen_v6(s, a6); size_t L = 0; bool hit = false;
    k = check_ntop(AF_INET6, a6, 0, 64, &L, &hit);
    TR("ntop(AF_INET6, %s) for len 0..64, text length %zu", hexs(a6, 16).c_str(), L);
    if (k) verif_fail(k, "%s", g_msg);
    if (hit) verif_known_skipped(K_NTOP6_TRUNC);
    // the text must also be accepted by evutil_inet_pton itself
    char txt[64]; evutil_inet_ntop(AF_INET6, a6, txt, sizeof txt);
    bool ra = false, sk = false; k = check_pton(AF_INET6, txt, &ra, &sk); if (k) verif_fail(k, "%s", g_msg);
    { bool allz = true; for (int i = 0; i < 16; i++) if (a6[i]) allz = false; bool anyz = false; for (int i = 0; i < 8; i++) if (!a6[2 * i] && !a6[2 * i + 1]) anyz = true;
      if (anyz && !allz) verif_class("ntop6_has_zero_word"); if (!memcmp(a6, "\0\0\0\0\0\0\0\0\0\0", 10)) verif_class("ntop6_v4_shape"); }
    nontrivial = 1;
    break; }
  case 5: { // pton IPv4 over the grammar + mutations
    verif_class("pton4");
    bool pristine = false; std::string t;
    if (s.chance(1, 4)) { uint32_t a = gen_v4(s); struct in_addr ia; ia.s_addr = htonl(a); char b[32]; inet_ntop(AF_INET, &ia, b, sizeof b); t = b; pristine = true; }
    else t = gen_v4_text(s, &pristine);
    size_t before = t.size(); std::string t0 = t; mutate_text(s, t); bool mutated = t != t0; (void)before;
    for (auto &c : t) if (!c) c = '0';
    bool ra = false, sk = false; k = check_pton(AF_INET, t, &ra, &sk);
    TR("pton(AF_INET, \"%s\") platform(after zero-stripping)=%s%s", esc(t).c_str(), ra ? "accept" : "reject", sk ? " SKIPPED(known)" : "");
    if (k) verif_fail(k, "%s", g_msg);
    if (sk) { verif_known_skipped(feat_scanf(AF_INET, t) ? K_SCANF : K_0X); break; }
    verif_class(ra ? "pton4_ref_accept" : "pton4_ref_reject");
    if (ra && t != strip_v4_leading_zeros(AF_INET, t)) verif_class("pton4_leading_zeros_accepted");
    nontrivial = ra || (pristine && mutated);
    break; }
  case 6: case 7: { // pton IPv6 over the grammar + mutations
    verif_class("pton6");
    std::string t; bool from_valid = false;
    if (s.chance(1, 3)) { unsigned char a6[16]; gen_v6(s, a6); char b[64]; if (s.flag()) inet_ntop(AF_INET6, a6, b, sizeof b); else evutil_inet_ntop(AF_INET6, a6, b, sizeof b); t = b; from_valid = true;
      if (s.chance(1, 4)) for (auto &c : t) if (c >= 'a' && c <= 'f' && s.flag()) c = (char)(c - 32); }
    else t = gen_v6_text(s);
    std::string t0 = t; mutate_text(s, t); bool mutated = t != t0;
    for (auto &c : t) if (!c) c = '0';
    bool ra = false, sk = false; k = check_pton(AF_INET6, t, &ra, &sk);
    TR("pton(AF_INET6, \"%s\") platform(after zero-stripping)=%s%s", esc(t).c_str(), ra ? "accept" : "reject", sk ? " SKIPPED(known)" : "");
    if (k) verif_fail(k, "%s", g_msg);
    if (sk) { verif_known_skipped(feat_scanf(AF_INET6, t) ? K_SCANF : feat_0x(t) ? K_0X : K_TRAILCOLON); break; }
    verif_class(ra ? "pton6_ref_accept" : "pton6_ref_reject");
    if (ra && t.find('.') != std::string::npos) verif_class("pton6_embedded_v4_accepted");
    if (ra && t.find("::") != std::string::npos) verif_class("pton6_gap_accepted");
    nontrivial = ra || (from_valid && mutated);
    break; }
  default: { // sockaddr text: format -> parse round trip, and the five documented input forms
    verif_class("sockaddr");
    struct sockaddr_storage ss; memset(&ss, 0, sizeof ss);
    bool v6 = s.flag(); int port = s.chance(1, 2) ? 1 + (int)s.below(65535) : (int)(uint16_t[]){1, 2, 9, 10, 80, 99, 100, 999, 1000, 9999, 10000, 65534, 65535}[s.below(13)];
    unsigned char a6[16]; uint32_t a4 = 0;
    if (v6) { gen_v6(s, a6); struct sockaddr_in6 *sin6 = (struct sockaddr_in6 *)&ss; sin6->sin6_family = AF_INET6; sin6->sin6_port = htons((uint16_t)port); memcpy(&sin6->sin6_addr, a6, 16); }
    else { a4 = gen_v4(s); struct sockaddr_in *sin = (struct sockaddr_in *)&ss; sin->sin_family = AF_INET; sin->sin_port = htons((uint16_t)port); sin->sin_addr.s_addr = htonl(a4); }
    auto same = [&](const struct sockaddr *got, int gotlen, int want_port) -> bool {
      if (v6) { const struct sockaddr_in6 *g = (const struct sockaddr_in6 *)got; return gotlen == (int)sizeof(struct sockaddr_in6) && g->sin6_family == AF_INET6 && !memcmp(&g->sin6_addr, a6, 16) && ntohs(g->sin6_port) == want_port && g->sin6_scope_id == 0; }
      const struct sockaddr_in *g = (const struct sockaddr_in *)got; return gotlen == (int)sizeof(struct sockaddr_in) && g->sin_family == AF_INET && ntohl(g->sin_addr.s_addr) == a4 && ntohs(g->sin_port) == want_port; };
    unsigned form = s.below(8);
    if (form < 3) { // round trip through the library's own formatter
      char text[160]; memset(text, 0x5a, sizeof text);
      const char *r = evutil_format_sockaddr_port_((struct sockaddr *)&ss, text, 128);
      CHECK(r == text && strnlen(text, 128) < 128, "C40/sockaddr-roundtrip", "format returned %p / unterminated", (const void *)r);
      for (size_t i = 128; i < sizeof text; i++) CHECK(text[i] == 0x5a, "C40/sockaddr-roundtrip", "format wrote beyond outlen");
      struct sockaddr_storage out; memset(&out, 0x5a, sizeof out); int outlen = sizeof out;
      int rc = evutil_parse_sockaddr_port(text, (struct sockaddr *)&out, &outlen);
      TR("format -> \"%s\" -> parse rc=%d outlen=%d", text, rc, outlen);
      CHECK(rc == 0 && same((struct sockaddr *)&out, outlen, port), "C40/sockaddr-roundtrip", "\"%s\" parsed back rc=%d outlen=%d as %s", text, rc, outlen, hexs(&out, 28).c_str());
      verif_class(v6 ? "sockaddr_roundtrip6" : "sockaddr_roundtrip4");
    } else {
      char at[64]; if (v6) inet_ntop(AF_INET6, a6, at, sizeof at); else { struct in_addr ia; ia.s_addr = htonl(a4); inet_ntop(AF_INET, &ia, at, sizeof at); }
      bool badport = s.chance(1, 6); int ptxt = badport ? (int[]){0, 65536, 65537, 100000, -1}[s.below(5)] : port;
      bool withport = v6 ? form < 6 : form < 6; std::string text;
      if (v6) text = withport ? "[" + std::string(at) + "]:" + std::to_string(ptxt) : (form == 6 ? "[" + std::string(at) + "]" : std::string(at));
      else text = withport ? std::string(at) + ":" + std::to_string(ptxt) : std::string(at);
      bool small = s.chance(1, 8); int need = v6 ? (int)sizeof(struct sockaddr_in6) : (int)sizeof(struct sockaddr_in);
      int cap = small ? need - 1 - (int)s.below(4) : (s.flag() ? need : (int)sizeof(struct sockaddr_storage));
      unsigned char *out = (unsigned char *)malloc((size_t)cap); memset(out, 0x5a, (size_t)cap); int outlen = cap;
      int rc = evutil_parse_sockaddr_port(text.c_str(), (struct sockaddr *)out, &outlen);
      TR("parse(\"%s\", cap=%d) rc=%d outlen=%d", text.c_str(), cap, rc, outlen);
      bool expect_ok = !(withport && badport) && !small;
      if (expect_ok) CHECK(rc == 0 && same((struct sockaddr *)out, outlen, withport ? port : 0), "C40/sockaddr-parse-form", "\"%s\" (cap %d) -> rc=%d outlen=%d %s", text.c_str(), cap, rc, outlen, hexs(out, (size_t)(cap < 28 ? cap : 28)).c_str());
      else CHECK(rc == -1, "C40/sockaddr-parse-form", "\"%s\" with cap=%d (need %d)%s accepted", text.c_str(), cap, need, withport && badport ? ", port out of range," : "");
      free(out);
      verif_class(expect_ok ? "sockaddr_form_ok" : "sockaddr_form_must_fail");
    }
    nontrivial = 1;
    break; }
  case 0: verif_class("empty_case"); break;
  }
  // systematic sweep over IPv4 addresses
  uint64_t lo, hi;
  if (g_sweep.next(&lo, &hi)) {
    for (uint64_t v = lo; v < hi; v++) {
      const char *kk = check_ipv4_value((uint32_t)v);
      if (kk) { uint8_t b[5] = {1, (uint8_t)v, (uint8_t)(v >> 8), (uint8_t)(v >> 16), (uint8_t)(v >> 24)}; char label[64]; snprintf(label, sizeof label, "ipv4-%08llx", (unsigned long long)v); sweep_fail(g_args, label, b, sizeof b, kk, g_msg); }
    }
  }
  verif_case_end(nontrivial, s.h);
  return 0;
}
