// Shared op decoder + interpreter for the EVBUF family.  An op sequence is decoded from the choice source
// into plain structs first (so C14 can re-execute the very same sequence once per allocation index);
// state-dependent quantities (sizes relative to chain geometry, positions) are resolved at execution time.
//
// Preconditions honoured (include/event2/buffer.h):
//  * evbuffer_commit_space only directly after the matching evbuffer_reserve_space on that buffer;
//  * an evbuffer_ptr is used only while no modifying / re-packing call has been made on its buffer since it was set;
//  * callbacks only add to / drain from / remove / disable themselves on their own buffer;
//  * strings returned by evbuffer_readln are released with the installed allocator's free.
#pragma once
#include "evbuf_world.hh"

namespace evb {

enum Kind : uint8_t { K_END = 0, K_ADD, K_DRAIN, K_REMOVE, K_PREPEND, K_ADD_BUFFER, K_REMOVE_BUFFER, K_PULLUP, K_COPYOUT, K_SEARCH,
  K_SEARCH_EOL, K_READLN, K_RESERVE_COMMIT, K_EXPAND, K_ADD_IOVEC, K_PEEK, K_PTR_SET, K_COPYOUT_FROM, K_PREPEND_BUFFER, K_PRINTF,
  K_FREEZE, K_UNFREEZE, K_ADD_REF, K_SEARCH_RANGE, K_CONTIG,
  K_CB_ADD, K_CB_REMOVE, K_CB_FLAGS, K_TURN, K_BUFREF, K_RECREATE, K__N };
static const char *const KNAME[] = {"end", "add", "drain", "remove", "prepend", "add_buffer", "remove_buffer", "pullup", "copyout", "search",
  "search_eol", "readln", "reserve+commit", "expand", "add_iovec", "peek", "ptr_set", "copyout_from", "prepend_buffer", "add_printf",
  "freeze", "unfreeze", "add_reference", "search_range", "contiguous_space", "cb_add", "cb_remove", "cb_flags", "turn", "add_buffer_reference", "free+new"};

struct SizeSpec { uint8_t mode; int32_t v; };
struct Op { uint8_t kind, b, b2, a1, a2, a3; SizeSpec n, n2, n3; uint32_t seed; };

static const int32_t SIZE_TABLE[] = {0, 1, 2, 3, 5, 63, 64, 65, 255, 256, 257, 511, 512, 513, 975, 976, 977, 1023, 1024, 1025, 1999, 2000, 2001,
  2047, 2048, 2049, 4047, 4048, 4049, 4095, 4096, 4097, 8143, 8144};
static const int32_t BIG_TABLE[] = {65535, 65536, 65537, 16384, 32720};
static inline SizeSpec draw_size(Src &s) {
  SizeSpec z; uint32_t sel = s.below(10);
  if (sel <= 3) { z.mode = 0; uint32_t k = s.below(sizeof SIZE_TABLE / sizeof SIZE_TABLE[0] + 1);
    z.v = k < sizeof SIZE_TABLE / sizeof SIZE_TABLE[0] ? SIZE_TABLE[k] : (s.below(8) == 7 ? BIG_TABLE[s.below(5)] : 1024); }
  else if (sel == 4 || sel == 5) { z.mode = 0; z.v = (int32_t)s.below(48); }
  else { z.mode = (uint8_t)(sel - 5); z.v = (int32_t)s.below(5) - 2; }   // 1 len, 2 free space of last-with-data, 3 first chain off, 4 first chain misalign
  return z;
}
static inline size_t resolve(const SizeSpec &z, const Geometry &g, size_t len) {
  long base = 0;
  switch (z.mode) { case 0: base = 0; break; case 1: base = (long)len; break; case 2: base = (long)g.lwd_space; break; case 3: base = (long)g.first_off; break; case 4: base = (long)g.first_misalign; break; }
  long v = base + z.v; if (v < 0) v = 0; if (v > 70000) v = 70000; return (size_t)v;
}
static inline std::string specs(const SizeSpec &z) { static const char *M[] = {"", "len", "space", "firstoff", "misalign"}; char b[40];
  if (z.mode == 0) snprintf(b, sizeof b, "%d", z.v); else snprintf(b, sizeof b, "%s%+d", M[z.mode], z.v); return b; }

// kind tables: index 0 must be K_END ("0 = most benign")
static const uint8_t MIX_MODEL[] = {K_END, K_ADD, K_ADD, K_ADD, K_ADD, K_DRAIN, K_DRAIN, K_REMOVE, K_REMOVE, K_PREPEND, K_PREPEND, K_ADD_BUFFER, K_ADD_BUFFER,
  K_REMOVE_BUFFER, K_REMOVE_BUFFER, K_BUFREF, K_PULLUP, K_PULLUP, K_COPYOUT, K_SEARCH, K_SEARCH, K_SEARCH_EOL, K_SEARCH_EOL, K_READLN, K_READLN,
  K_RESERVE_COMMIT, K_RESERVE_COMMIT, K_RESERVE_COMMIT, K_EXPAND, K_EXPAND, K_ADD_IOVEC, K_ADD_IOVEC, K_PEEK, K_PEEK, K_PTR_SET, K_BUFREF, K_COPYOUT_FROM,
  K_PREPEND_BUFFER, K_PREPEND_BUFFER, K_PRINTF, K_PRINTF, K_FREEZE, K_UNFREEZE, K_BUFREF, K_ADD_REF, K_ADD_REF, K_SEARCH_RANGE, K_RECREATE, K_CONTIG};
static const uint8_t MIX_CB[] = {K_END, K_ADD, K_ADD, K_ADD, K_DRAIN, K_DRAIN, K_REMOVE, K_PREPEND, K_ADD_BUFFER, K_REMOVE_BUFFER, K_REMOVE_BUFFER, K_READLN,
  K_RESERVE_COMMIT, K_ADD_IOVEC, K_PREPEND_BUFFER, K_PRINTF, K_FREEZE, K_UNFREEZE, K_ADD_REF, K_PULLUP, K_EXPAND,
  K_CB_ADD, K_CB_ADD, K_CB_ADD, K_CB_REMOVE, K_CB_FLAGS, K_CB_FLAGS, K_CB_FLAGS, K_TURN, K_TURN, K_TURN};
static const uint8_t MIX_OOM[] = {K_END, K_ADD, K_ADD, K_ADD, K_DRAIN, K_REMOVE, K_PREPEND, K_PREPEND, K_PREPEND, K_ADD_BUFFER, K_REMOVE_BUFFER, K_REMOVE_BUFFER,
  K_REMOVE_BUFFER, K_PULLUP, K_PULLUP, K_READLN, K_RESERVE_COMMIT, K_RESERVE_COMMIT, K_EXPAND, K_EXPAND, K_ADD_IOVEC, K_ADD_IOVEC, K_PREPEND_BUFFER, K_PRINTF,
  K_PRINTF, K_ADD_REF, K_FREEZE, K_UNFREEZE, K_SEARCH, K_COPYOUT};
static const uint8_t MIX_SHAPE[] = {K_END, K_ADD, K_ADD, K_ADD, K_ADD, K_DRAIN, K_PREPEND, K_PREPEND, K_ADD_BUFFER, K_REMOVE_BUFFER, K_RESERVE_COMMIT, K_EXPAND,
  K_ADD_IOVEC, K_PREPEND_BUFFER, K_PRINTF, K_ADD_REF, K_BUFREF, K_PULLUP, K_FREEZE, K_UNFREEZE, K_UNFREEZE};

static inline std::vector<Op> decode_ops(Src &s, int maxops, const uint8_t *mix, size_t mixlen) {
  std::vector<Op> v;
  for (int i = 0; i < maxops; i++) {
    Op o; memset(&o, 0, sizeof o);
    o.kind = mix[s.below((uint32_t)mixlen)];
    if (o.kind == K_END) break;
    o.b = (uint8_t)s.below(NB); o.b2 = (uint8_t)s.below(NB);
    o.a1 = s.byte(); o.a2 = s.byte(); o.a3 = s.byte();
    o.n = draw_size(s); o.n2 = draw_size(s); o.n3 = draw_size(s);
    o.seed = s.below(251);
    v.push_back(o);
  }
  return v;
}

// ------------------------------------------------------------------------------------------------
struct Exec {
  World &w; char key[80];
  explicit Exec(World &ww) : w(ww) {}
  const char *K(const char *suffix) { snprintf(key, sizeof key, "%s/%s", w.prop, suffix); return key; }
  Geometry geo[NB];

  // keep buffers below ~200 KB: growth ops shrink their size once a buffer is large (relative sizes would otherwise compound)
  size_t grow(const BufW &b, size_t n) { return b.m.len() > 40000 ? n % 61 : n; }
  void invalidate(int b) { for (auto &p : w.P) if (p.buf == b) p.valid = false; }
  bool faulted(uint64_t f0) { bool f = w.oom_mode && sim_mem_failed > f0; if (f) w.oom_hit_in_op = true; return f; }

  void post(const char *name, unsigned touched = 7) {
    if ((w.opno & 15) == 0 || w.sharing) touched = 7;   // shared chains: an op on one buffer must not change any other
    for (int bi = 0; bi < NB; bi++) {
      if (!(touched & (1u << bi))) continue;
      geo[bi] = validate(w.prop, bi, name);
      BufW &b = w.B[bi]; size_t L = b.m.len();
      if (!b.fd_only && (L <= 4300 || (w.opno & 15) == 0)) {
        std::string out; out.resize(L + 4);
        ev_ssize_t r = evbuffer_copyout(b.eb, &out[0], L + 3);
        if (L == 0) CHECK(r == 0, K("copyout-ret"), "after %s: copyout of empty buf%d returned %zd", name, bi, r);
        else if (b.m.fz_start) CHECK(r == -1, K("copyout-ret"), "after %s: copyout of front-frozen buf%d returned %zd", name, bi, r);
        else { CHECK(r == (ev_ssize_t)L, K("copyout-ret"), "after %s: copyout(buf%d) returned %zd, model length %zu", name, bi, r, L);
          CHECK(memcmp(out.data(), b.m.d.data(), L) == 0, K("content-mismatch"), "after %s: copyout(buf%d) differs from the model", name, bi); }
      }
    }
    check_cb_sums(name);
  }
  void init() { for (int bi = 0; bi < NB; bi++) geo[bi] = validate(w.prop, bi, "init"); }

  // --- individual ops ---------------------------------------------------------------------------
  void op_add(const Op &o) {
    BufW &b = w.B[o.b]; size_t n = grow(b, resolve(o.n, geo[o.b], b.m.len())); std::string pl = bytebuf::payload(o.seed, n);
    uint64_t f0 = sim_mem_failed; int rc = evbuffer_add(b.eb, pl.data(), n);
    TR("  add(buf%d, %zu [%s]) -> %d", o.b, n, specs(o.n).c_str(), rc);
    if (faulted(f0) && rc == -1) return;
    CHECK(rc == (b.m.fz_end ? -1 : 0), K("add-ret"), "evbuffer_add(buf%d,%zu) returned %d, end frozen=%d", o.b, n, rc, b.m.fz_end);
    if (rc == 0) m_append(o.b, pl);
  }
  void op_prepend(const Op &o) {
    BufW &b = w.B[o.b]; size_t n = grow(b, resolve(o.n, geo[o.b], b.m.len())); std::string pl = bytebuf::payload(o.seed, n);
    uint64_t f0 = sim_mem_failed; int rc = evbuffer_prepend(b.eb, pl.data(), n);
    TR("  prepend(buf%d, %zu [%s]) -> %d", o.b, n, specs(o.n).c_str(), rc);
    if (faulted(f0) && rc == -1) {
      size_t L1 = evbuffer_get_length(b.eb), L0 = b.m.len();
      if (L1 != L0) {
        if (verif_known("C14/prepend-partial-on-oom")) { verif_known_skipped("C14/prepend-partial-on-oom"); w.abandon = true; w.use_cbs = false;
          // resynchronise the model so that teardown validation passes: the tail of the data went in
          if (L1 > L0 && L1 - L0 < n) b.m.prepend(pl.substr(n - (L1 - L0))); return; }
        VERIF_FAIL("C14/prepend-partial-on-oom", "evbuffer_prepend(buf%d,%zu) failed on an allocation failure but the buffer grew from %zu to %zu bytes", o.b, n, L0, L1);
      }
      return;
    }
    int exp = n == 0 ? 0 : (b.m.fz_start ? -1 : 0);
    CHECK(rc == exp, K("prepend-ret"), "evbuffer_prepend(buf%d,%zu) returned %d, expected %d", o.b, n, rc, exp);
    if (rc == 0) m_prepend(o.b, pl);
  }
  void op_printf(const Op &o) {
    BufW &b = w.B[o.b]; size_t n = resolve(o.n, geo[o.b], b.m.len()); if (n > 6000) n = 6000;
    std::string sarg = bytebuf::payload(o.seed, n); for (auto &c : sarg) if (c == 0) c = 'z';
    char *exp = nullptr; int elen = 0, rc; uint64_t f0 = sim_mem_failed;
    switch (o.a1 & 3) {
      case 0: elen = asprintf(&exp, "%s", sarg.c_str()); rc = evbuffer_add_printf(b.eb, "%s", sarg.c_str()); break;
      case 1: elen = asprintf(&exp, "%d", (int)o.seed - 100); rc = evbuffer_add_printf(b.eb, "%d", (int)o.seed - 100); break;
      case 2: elen = asprintf(&exp, "%*d", (int)n, (int)o.seed); rc = evbuffer_add_printf(b.eb, "%*d", (int)n, (int)o.seed); break;
      default: elen = asprintf(&exp, "x%sy%uz\r\n", sarg.c_str(), (unsigned)o.seed); rc = evbuffer_add_printf(b.eb, "x%sy%uz\r\n", sarg.c_str(), (unsigned)o.seed); break;
    }
    TR("  add_printf(buf%d, variant %d, arg %zu) -> %d (expected text of %d bytes)", o.b, o.a1 & 3, n, rc, elen);
    std::string es(exp, (size_t)elen); free(exp);
    if (faulted(f0) && rc == -1) return;
    CHECK(rc == (b.m.fz_end ? -1 : elen), K("printf-ret"), "evbuffer_add_printf(buf%d) returned %d, expected %d", o.b, rc, b.m.fz_end ? -1 : elen);
    if (rc >= 0) m_append(o.b, es);
  }
  void op_add_buffer(const Op &o, bool pre) {
    int d = o.b, s = o.b2; BufW &D = w.B[d], &S = w.B[s]; size_t sl = S.m.len();
    if (d != s && move_would_cycle(s, d)) { TR("  (%s buf%d<-buf%d skipped: would build a buffer-reference cycle)", pre ? "prepend_buffer" : "add_buffer", d, s); w.n_cycle_skips++; return; }
    if (geo[s].bounds.size() >= 1 || geo[d].bounds.size() >= 1) w.saw_move = w.saw_move || (sl > 0 && d != s);
    uint64_t f0 = sim_mem_failed;
    int rc = pre ? evbuffer_prepend_buffer(D.eb, S.eb) : evbuffer_add_buffer(D.eb, S.eb);
    TR("  %s(dst buf%d, src buf%d [%zu bytes]) -> %d", pre ? "prepend_buffer" : "add_buffer", d, s, sl, rc);
    if (faulted(f0) && rc == -1) return;
    int exp = (sl == 0 || d == s) ? 0 : ((pre ? D.m.fz_start : D.m.fz_end) || S.m.fz_start) ? -1 : 0;
    CHECK(rc == exp, K("add-buffer-ret"), "%s(buf%d<-buf%d) returned %d, expected %d", pre ? "prepend_buffer" : "add_buffer", d, s, rc, exp);
    if (rc == 0 && sl && d != s) { std::string x = m_take(s, sl); if (pre) m_prepend(d, x); else m_append(d, x); }
  }
  void op_remove_buffer(const Op &o) {
    int s = o.b, d = o.b2; BufW &S = w.B[s], &D = w.B[d]; size_t n = resolve(o.n, geo[s], S.m.len()); size_t sl = S.m.len();
    if (d != s && move_would_cycle(s, d)) { TR("  (remove_buffer buf%d->buf%d skipped: would build a buffer-reference cycle)", s, d); w.n_cycle_skips++; return; }
    uint64_t f0 = sim_mem_failed; w.op_multi_step = true;
    int rc = evbuffer_remove_buffer(S.eb, D.eb, n); w.op_multi_step = false;
    TR("  remove_buffer(src buf%d [%zu], dst buf%d, %zu [%s]) -> %d", s, sl, d, n, specs(o.n).c_str(), rc);
    bool f = faulted(f0);
    if (f && rc == -1) return;
    int exp = (n == 0 || d == s) ? 0 : (D.m.fz_end || S.m.fz_start) ? -1 : (int)(n < sl ? n : sl);
    // under an injected allocation failure a smaller byte count is an honest report (checked below against what really moved)
    if (!(f && rc >= 0 && rc <= exp)) CHECK(rc == exp, K("remove-buffer-ret"), "evbuffer_remove_buffer(buf%d->buf%d,%zu) returned %d, expected %d", s, d, n, rc, exp);
    if (rc > 0) {
      if (f) {
        size_t dl = evbuffer_get_length(D.eb);
        if (dl != D.m.len() + (size_t)rc || evbuffer_get_length(S.eb) != sl - (size_t)rc) {
          if (verif_known("C14/remove-buffer-loses-data-on-oom")) { verif_known_skipped("C14/remove-buffer-loses-data-on-oom"); w.abandon = true; w.use_cbs = false;
            std::string x = S.m.take_front((size_t)rc); size_t got = dl > D.m.len() ? dl - D.m.len() : 0; D.m.append(x.substr(0, got < x.size() ? got : x.size())); return; }
          VERIF_FAIL("C14/remove-buffer-loses-data-on-oom", "evbuffer_remove_buffer(buf%d->buf%d,%zu) returned %d on an allocation failure but dst grew by %zu and src shrank by %zu",
                     s, d, n, rc, dl - D.m.len(), sl - evbuffer_get_length(S.eb));
        }
      }
      if (crosses(geo[s], 0, (size_t)rc) || geo[d].bounds.size()) w.saw_cross = true; w.saw_move = true;
      std::string x = m_take(s, (size_t)rc); m_append(d, x);
    }
  }
  void op_drain(const Op &o) {
    BufW &b = w.B[o.b]; size_t L = b.m.len(), n = resolve(o.n, geo[o.b], L);
    int rc = evbuffer_drain(b.eb, n);
    TR("  drain(buf%d [%zu], %zu [%s]) -> %d", o.b, L, n, specs(o.n).c_str(), rc);
    int exp = L == 0 ? 0 : b.m.fz_start ? -1 : 0;
    CHECK(rc == exp, K("drain-ret"), "evbuffer_drain(buf%d,%zu) returned %d, expected %d (len %zu)", o.b, n, rc, exp, L);
    if (rc == 0 && L) { size_t k = n < L ? n : L; if (crosses(geo[o.b], 0, k + 1)) w.saw_cross = true; m_take(o.b, k); }
  }
  void op_remove(const Op &o, bool copy_only) {
    BufW &b = w.B[o.b]; size_t L = b.m.len(), n = resolve(o.n, geo[o.b], L); size_t k = n < L ? n : L;
    std::string out; out.resize(n + 1);
    long rc = copy_only ? (long)evbuffer_copyout(b.eb, &out[0], n) : (long)evbuffer_remove(b.eb, &out[0], n);
    TR("  %s(buf%d [%zu], %zu [%s]) -> %ld", copy_only ? "copyout" : "remove", o.b, L, n, specs(o.n).c_str(), rc);
    long exp = k == 0 ? 0 : b.m.fz_start ? -1 : (long)k;
    CHECK(rc == exp, K("remove-ret"), "%s(buf%d,%zu) returned %ld, expected %ld", copy_only ? "copyout" : "remove", o.b, n, rc, exp);
    if (rc > 0) { CHECK(memcmp(out.data(), b.m.d.data(), k) == 0, K("remove-bytes"), "%s(buf%d,%zu) returned bytes that differ from the model prefix", copy_only ? "copyout" : "remove", o.b, n);
      if (crosses(geo[o.b], 0, k)) w.saw_cross = true; if (!copy_only) m_take(o.b, k); }
  }
  void op_pullup(const Op &o) {
    BufW &b = w.B[o.b]; size_t L = b.m.len(); long size = (o.a1 & 7) == 0 ? -1 : (long)resolve(o.n, geo[o.b], L);
    if ((o.a1 & 7) <= 2 && (o.a1 & 7) >= 1) { size = (long)(geo[o.b].first_off + 1 + o.a2 % 24); if ((size_t)size > L) size = (long)L; }   // just past the first chain
    struct evbuffer_chain *fc = b.eb->first; bool fc_imm = fc && (fc->flags & EVBUFFER_IMMUTABLE); size_t fc_off = fc ? fc->off : 0;
    uint64_t f0 = sim_mem_failed; unsigned char *p = evbuffer_pullup(b.eb, size);
    // evbuffer-internal.h: an EVBUFFER_IMMUTABLE chain is read-only (reference memory, or memory shared with other buffers)
    static const long no_imm_check = verif_param("noimm", 0);   // experiment switch: rely on the content oracle alone
    if (!no_imm_check && fc_imm && b.eb->first == fc) CHECK(fc->off <= fc_off, K("immutable-chain-written"), "evbuffer_pullup(buf%d,%ld) extended an IMMUTABLE first chain in place from %zu to %zu bytes", o.b, size, fc_off, fc->off);
    TR("  pullup(buf%d [%zu], %ld [%s]) -> %s", o.b, L, size, specs(o.n).c_str(), p ? "ptr" : "NULL");
    if (faulted(f0) && !p) return;
    size_t eff = size < 0 ? L : (size_t)size;
    bool expnull = eff == 0 || eff > L;
    CHECK((p == nullptr) == expnull, K("pullup-ret"), "evbuffer_pullup(buf%d,%ld) returned %s with %zu bytes buffered", o.b, size, p ? "a pointer" : "NULL", L);
    if (p) { CHECK(memcmp(p, b.m.d.data(), eff) == 0, K("pullup-bytes"), "evbuffer_pullup(buf%d,%ld): bytes behind the returned pointer differ from the model", o.b, size);
      CHECK(evbuffer_get_contiguous_space(b.eb) >= eff, K("pullup-contiguous"), "after pullup(%ld) contiguous space is %zu", size, evbuffer_get_contiguous_space(b.eb));
      if (crosses(geo[o.b], 0, eff)) w.saw_cross = true; }
  }
  void op_expand(const Op &o) {
    BufW &b = w.B[o.b]; size_t n = resolve(o.n, geo[o.b], b.m.len());
    uint64_t f0 = sim_mem_failed; int rc = evbuffer_expand(b.eb, n);
    TR("  expand(buf%d, %zu [%s]) -> %d", o.b, n, specs(o.n).c_str(), rc);
    if (faulted(f0) && rc == -1) return;
    CHECK(rc == 0, K("expand-ret"), "evbuffer_expand(buf%d,%zu) returned %d", o.b, n, rc);
  }
  void op_reserve_commit(const Op &o) {
    BufW &b = w.B[o.b]; size_t size = grow(b, resolve(o.n, geo[o.b], b.m.len())); int nvec = 1 + o.a1 % 3;
    struct evbuffer_iovec v[3]; memset(v, 0, sizeof v);
    static const char *KF_RS0 = "assert:evbuffer_read_setup_vecs_:chain";   // reserve_space(size 0, >=2 vecs) with a full last chain trips EVUTIL_ASSERT
    if (size == 0 && nvec >= 2 && verif_known(KF_RS0)) { verif_known_skipped(KF_RS0); size = 1; }
    TR("  reserve_space(buf%d, %zu, %d vecs) ...", o.b, size, nvec);
    uint64_t f0 = sim_mem_failed; int nv = evbuffer_reserve_space(b.eb, (ev_ssize_t)size, v, nvec);
    TR("  reserve_space(buf%d, %zu [%s], %d vecs) -> %d", o.b, size, specs(o.n).c_str(), nvec, nv);
    if (faulted(f0) && nv == -1) return;
    if (b.m.fz_end) { CHECK(nv == -1, K("reserve-ret"), "reserve_space on end-frozen buf%d returned %d", o.b, nv); return; }
    CHECK(nv >= 0 && nv <= nvec, K("reserve-ret"), "reserve_space(buf%d,%zu,%d vecs) returned %d", o.b, size, nvec, nv);
    size_t tot = 0; for (int i = 0; i < nv; i++) tot += v[i].iov_len;
    CHECK(tot >= size, K("reserve-too-small"), "reserve_space(buf%d,%zu) gave %zu bytes in %d extents", o.b, size, tot, nv);
    if (nv == 1 && nvec == 1 && (o.a3 & 1)) {  // "multiple subsequent calls make the same space available"
      struct evbuffer_iovec v2[1]; int nv2 = evbuffer_reserve_space(b.eb, (ev_ssize_t)size, v2, 1);
      if (!(w.oom_mode && nv2 == -1)) { CHECK(nv2 == 1 && v2[0].iov_base == v[0].iov_base, K("reserve-not-stable"), "second reserve_space(%zu) gave a different extent", size); v[0] = v2[0]; tot = v[0].iov_len; }
    }
    std::string fill = bytebuf::payload(o.seed, tot); size_t off = 0;
    for (int i = 0; i < nv; i++) { for (int j = 0; j < i; j++) { char *a = (char *)v[i].iov_base, *c = (char *)v[j].iov_base;
        CHECK(a + v[i].iov_len <= c || c + v[j].iov_len <= a, K("reserve-overlap"), "reserved extents %d and %d overlap", i, j); }
      memcpy(v[i].iov_base, fill.data() + off, v[i].iov_len); off += v[i].iov_len; }
    geo[o.b] = validate(w.prop, o.b, "reserve_space (after writing into the reserved extents)");   // reserved space is disjoint from content
    size_t k[3] = {0, 0, 0}; int ncommit = nv;
    switch (o.a2 % 6) {
      case 0: { size_t left = size; for (int i = 0; i < nv; i++) { k[i] = left < v[i].iov_len ? left : v[i].iov_len; left -= k[i]; } break; }
      case 1: for (int i = 0; i < nv; i++) k[i] = v[i].iov_len; break;
      case 2: { size_t a = resolve(o.n2, geo[o.b], b.m.len()), c = resolve(o.n3, geo[o.b], b.m.len());
        if (nv > 0) k[0] = a < v[0].iov_len ? a : v[0].iov_len; if (nv > 1) k[1] = c < v[1].iov_len ? c : v[1].iov_len; if (nv > 2) k[2] = v[2].iov_len / 2; break; }
      case 3: TR("  (reservation abandoned)"); return;
      case 4: ncommit = 0; break;
      default: ncommit = nv ? 1 : 0; if (nv) { size_t a = resolve(o.n2, geo[o.b], b.m.len()); k[0] = a < v[0].iov_len ? a : v[0].iov_len; } break;
    }
    std::string added; off = 0;
    for (int i = 0; i < nv; i++) { if (i < ncommit) added += fill.substr(off, k[i]); off += v[i].iov_len; if (i < ncommit) v[i].iov_len = k[i]; }
    int rc = evbuffer_commit_space(b.eb, v, ncommit);
    TR("  commit_space(buf%d, %d vecs: %zu %zu %zu) -> %d", o.b, ncommit, k[0], k[1], k[2], rc);
    CHECK(rc == 0, K("commit-ret"), "commit_space(buf%d) directly after reserve_space returned %d", o.b, rc);
    m_append(o.b, added);
  }
  void op_add_iovec(const Op &o) {
    BufW &b = w.B[o.b]; int cnt = 1 + o.a1 % 4; struct evbuffer_iovec v[4]; std::string parts[4]; std::string all;
    const SizeSpec *zs[4] = {&o.n, &o.n2, &o.n3, &o.n};
    for (int i = 0; i < cnt; i++) { size_t n = grow(b, resolve(*zs[i], geo[o.b], b.m.len())); if (i == 3) n = n / 2 + 1; parts[i] = bytebuf::payload(o.seed + i, n); v[i].iov_base = (void *)parts[i].data(); v[i].iov_len = n; all += parts[i]; }
    uint64_t f0 = sim_mem_failed; w.op_multi_step = true; size_t r = evbuffer_add_iovec(b.eb, v, cnt); w.op_multi_step = false;
    TR("  add_iovec(buf%d, %d vecs, %zu bytes) -> %zu", o.b, cnt, all.size(), r);
    if (faulted(f0)) { size_t ps = 0; bool ok = r == 0; for (int i = 0; i < cnt; i++) { ps += parts[i].size(); if (r == ps) ok = true; }
      CHECK(ok, K("add-iovec-ret"), "add_iovec under allocation failure returned %zu, not a whole number of vectors", r); }
    else CHECK(r == (b.m.fz_end ? 0 : all.size()), K("add-iovec-ret"), "add_iovec(buf%d, %zu bytes) returned %zu, end frozen=%d", o.b, all.size(), r, b.m.fz_end);
    m_append(o.b, all.substr(0, r));
  }
  PtrSlot *usable_ptr(int slot, int buf) { PtrSlot &p = w.P[slot % NPTR]; return (p.valid && p.buf == buf) ? &p : nullptr; }
  void op_ptr_set(const Op &o) {
    BufW &b = w.B[o.b]; size_t L = b.m.len(); PtrSlot &p = w.P[o.a1 % NPTR]; size_t n = resolve(o.n, geo[o.b], L);
    if ((o.a2 & 1) && p.valid && p.buf == o.b) {
      if (n > 70000) n = 70000;
      int rc = evbuffer_ptr_set(b.eb, &p.p, n, EVBUFFER_PTR_ADD);
      TR("  ptr_set(buf%d, slot %d at %zu, ADD %zu) -> %d", o.b, o.a1 % NPTR, p.pos, n, rc);
      bool ok = p.pos + n <= L;
      CHECK(rc == (ok ? 0 : -1), K("ptr-set-ret"), "ptr_set(ADD %zu) from %zu in a %zu byte buffer returned %d", n, p.pos, L, rc);
      if (ok) { p.pos += n; CHECK(p.p.pos == (ev_ssize_t)p.pos, K("ptr-pos"), "ptr.pos=%zd expected %zu", p.p.pos, p.pos); } else { p.valid = false; CHECK(p.p.pos == -1, K("ptr-pos"), "failed ptr_set left pos=%zd", p.p.pos); }
    } else {
      int rc = evbuffer_ptr_set(b.eb, &p.p, n, EVBUFFER_PTR_SET);
      TR("  ptr_set(buf%d, slot %d, SET %zu [%s]) -> %d", o.b, o.a1 % NPTR, n, specs(o.n).c_str(), rc);
      bool ok = n <= L;
      CHECK(rc == (ok ? 0 : -1), K("ptr-set-ret"), "ptr_set(SET %zu) in a %zu byte buffer returned %d", n, L, rc);
      p.buf = o.b; p.valid = ok; p.pos = n;
      if (ok) CHECK(p.p.pos == (ev_ssize_t)n, K("ptr-pos"), "ptr.pos=%zd expected %zu", p.p.pos, n); else CHECK(p.p.pos == -1, K("ptr-pos"), "failed ptr_set left pos=%zd", p.p.pos);
    }
  }
  void op_copyout_from(const Op &o) {
    BufW &b = w.B[o.b]; size_t L = b.m.len(); PtrSlot *p = usable_ptr(o.a1, o.b);
    if (!p) { p = &w.P[o.a1 % NPTR]; size_t at = resolve(o.n2, geo[o.b], L); if (at > L) at = L; int rc = evbuffer_ptr_set(b.eb, &p->p, at, EVBUFFER_PTR_SET);
      CHECK(rc == 0, K("ptr-set-ret"), "ptr_set(SET %zu) in a %zu byte buffer returned %d", at, L, rc); p->buf = o.b; p->valid = true; p->pos = at; }
    size_t n = resolve(o.n, geo[o.b], L); size_t k = n < L - p->pos ? n : L - p->pos; std::string out; out.resize(n + 1);
    long rc = (long)evbuffer_copyout_from(b.eb, &p->p, &out[0], n);
    TR("  copyout_from(buf%d [%zu], at %zu, %zu) -> %ld", o.b, L, p->pos, n, rc);
    long exp = k == 0 ? 0 : b.m.fz_start ? -1 : (long)k;
    CHECK(rc == exp, K("copyout-from-ret"), "copyout_from(buf%d, at %zu, %zu) returned %ld, expected %ld", o.b, p->pos, n, rc, exp);
    if (rc > 0) { CHECK(memcmp(out.data(), b.m.d.data() + p->pos, k) == 0, K("copyout-from-bytes"), "copyout_from(buf%d, at %zu, %zu) bytes differ from the model", o.b, p->pos, n);
      if (crosses(geo[o.b], p->pos, p->pos + k)) w.saw_cross = true; }
  }
  void check_found_ptr(const char *what, BufW &b, int bi, const struct evbuffer_ptr &r, long exp) {
    CHECK(r.pos == exp, K("search-pos"), "%s on buf%d returned pos %zd, model says %ld", what, bi, r.pos, exp);
    if (exp >= 0 && !b.m.fz_start && (size_t)exp < b.m.len()) {   // the returned position must be usable as a pointer
      char c = 0; ev_ssize_t rr = evbuffer_copyout_from(b.eb, &r, &c, 1);
      CHECK(rr == 1 && c == b.m.d[(size_t)exp], K("search-ptr-internal"), "%s: byte behind the returned evbuffer_ptr (pos %ld) is %02x, model %02x", what, exp, (unsigned char)c, (unsigned char)b.m.d[(size_t)exp]);
    }
  }
  void op_search(const Op &o, bool range) {
    BufW &b = w.B[o.b]; size_t L = b.m.len(); int ni = o.a1 % bytebuf::N_NEEDLES; std::string nd(bytebuf::NEEDLES[ni], bytebuf::NEEDLE_LENS[ni]);
    struct evbuffer_ptr r; long exp; size_t st = 0, en = L;
    if (range) {
      struct evbuffer_ptr ps, pe; st = resolve(o.n, geo[o.b], L); en = resolve(o.n2, geo[o.b], L); if (st > L) st = L; if (en > L) en = L;
      CHECK(evbuffer_ptr_set(b.eb, &ps, st, EVBUFFER_PTR_SET) == 0 && evbuffer_ptr_set(b.eb, &pe, en, EVBUFFER_PTR_SET) == 0, K("ptr-set-ret"), "ptr_set within the buffer failed");
      r = evbuffer_search_range(b.eb, nd.data(), nd.size(), &ps, (o.a2 & 7) == 0 ? nullptr : &pe);
      if ((o.a2 & 7) == 0) en = L;
      exp = bytebuf::search(b.m.d, nd, st, en);
      TR("  search_range(buf%d [%zu], \"%s\", %zu..%zu) -> %zd (model %ld)", o.b, L, esc(nd).c_str(), st, en, r.pos, exp);
    } else {
      PtrSlot *p = (o.a2 & 1) ? usable_ptr(o.a2 >> 1, o.b) : nullptr; st = p ? p->pos : 0;
      r = evbuffer_search(b.eb, nd.data(), nd.size(), p ? &p->p : nullptr);
      exp = bytebuf::search(b.m.d, nd, st, L);
      TR("  search(buf%d [%zu], \"%s\", from %zu) -> %zd (model %ld)", o.b, L, esc(nd).c_str(), st, r.pos, exp);
    }
    check_found_ptr(range ? "search_range" : "search", b, o.b, r, exp);
    if (exp >= 0) { if (crosses(geo[o.b], (size_t)exp, (size_t)exp + nd.size()) || crosses(geo[o.b], st, (size_t)exp + 1)) w.saw_cross = true;
      PtrSlot &q = w.P[o.a3 % NPTR]; q.p = r; q.buf = o.b; q.valid = true; q.pos = (size_t)exp; }
  }
  void op_search_eol(const Op &o) {
    BufW &b = w.B[o.b]; size_t L = b.m.len(); int style = o.a1 % 5; PtrSlot *p = (o.a2 & 1) ? usable_ptr(o.a2 >> 1, o.b) : nullptr; size_t st = p ? p->pos : 0;
    size_t el = 777, mel = 0; struct evbuffer_ptr r = evbuffer_search_eol(b.eb, p ? &p->p : nullptr, &el, (enum evbuffer_eol_style)style);
    long exp = bytebuf::search_eol(b.m.d, st, style, &mel);
    TR("  search_eol(buf%d [%zu], style %d, from %zu) -> %zd len %zu (model %ld len %zu)", o.b, L, style, st, r.pos, el, exp, mel);
    check_found_ptr("search_eol", b, o.b, r, exp);
    CHECK(el == mel, K("eol-len"), "search_eol(style %d) reported EOL length %zu, model %zu (pos %ld)", style, el, mel, exp);
    if (exp >= 0) { if (crosses(geo[o.b], st, (size_t)exp + mel)) w.saw_cross = true; PtrSlot &q = w.P[o.a3 % NPTR]; q.p = r; q.buf = o.b; q.valid = true; q.pos = (size_t)exp; }
  }
  void op_readln(const Op &o) {
    BufW &b = w.B[o.b]; size_t L = b.m.len(); int style = o.a1 % 5; size_t mel = 0, nread = 777;
    long exp = b.m.fz_start ? -1 : bytebuf::search_eol(b.m.d, 0, style, &mel);
    uint64_t f0 = sim_mem_failed; w.op_multi_step = true;
    char *line = evbuffer_readln(b.eb, (o.a2 & 3) ? &nread : nullptr, (enum evbuffer_eol_style)style); w.op_multi_step = false;
    TR("  readln(buf%d [%zu], style %d) -> %s (model line length %ld, eol %zu)", o.b, L, style, line ? "line" : "NULL", exp, mel);
    if (faulted(f0) && !line) return;
    CHECK((line != nullptr) == (exp >= 0), K("readln-ret"), "readln(buf%d, style %d) returned %s, model line length %ld (front frozen=%d)", o.b, style, line ? "a line" : "NULL", exp, b.m.fz_start);
    if (o.a2 & 3) CHECK(nread == (line ? (size_t)exp : 0), K("readln-len"), "readln n_read_out=%zu, model %ld", nread, exp);
    if (line) {
      CHECK(memcmp(line, b.m.d.data(), (size_t)exp) == 0 && line[exp] == 0, K("readln-bytes"), "readln(buf%d, style %d) line differs from the model", o.b, style);
      sim_mem_free(line);
      if (crosses(geo[o.b], 0, (size_t)exp + mel)) w.saw_cross = true;
      m_take(o.b, (size_t)exp + mel);
    }
  }
  void op_peek(const Op &o) {
    BufW &b = w.B[o.b]; size_t L = b.m.len(); int nvec = o.a1 % 5; PtrSlot *p = (o.a3 & 1) ? usable_ptr(o.a3 >> 1, o.b) : nullptr; size_t st = p ? p->pos : 0;
    long len = (o.a2 & 3) == 0 ? -1 : (long)resolve(o.n, geo[o.b], L); size_t rem = L - st;
    struct evbuffer_iovec v[4]; int r = evbuffer_peek(b.eb, len, p ? &p->p : nullptr, nvec ? v : nullptr, nvec);
    TR("  peek(buf%d [%zu], len %ld, from %zu, %d vecs) -> %d", o.b, L, len, st, nvec, r);
    CHECK(r >= 0, K("peek-ret"), "peek returned %d", r);
    int filled = r < nvec ? r : nvec; size_t tot = 0;
    for (int i = 0; i < filled; i++) { CHECK(tot + v[i].iov_len <= rem, K("peek-bytes"), "peek extents cover more than the %zu remaining bytes", rem);
      CHECK(memcmp(v[i].iov_base, b.m.d.data() + st + tot, v[i].iov_len) == 0, K("peek-bytes"), "peek extent %d (offset %zu, %zu bytes) differs from the model", i, st + tot, v[i].iov_len); tot += v[i].iov_len; }
    if (r <= nvec && nvec > 0) { size_t want = len < 0 ? rem : ((size_t)len < rem ? (size_t)len : rem);
      if (len >= 0 || r < nvec) CHECK(tot >= want, K("peek-short"), "peek(len %ld) needed %d <= %d extents but they hold %zu of %zu wanted bytes", len, r, nvec, tot, want); }
    if (nvec == 0 && len < 0 && r <= 4 && r > 0) { struct evbuffer_iovec v2[4]; int r2 = evbuffer_peek(b.eb, -1, p ? &p->p : nullptr, v2, r); size_t t2 = 0; for (int i = 0; i < r2 && i < r; i++) t2 += v2[i].iov_len;
      CHECK(r2 == r && t2 == rem, K("peek-count"), "peek said %d extents hold everything; with %d extents got %d holding %zu of %zu", r, r, r2, t2, rem); }
    if (filled >= 2) w.saw_cross = true;
  }
  void op_freeze(const Op &o, bool fr) {
    BufW &b = w.B[o.b]; int start = o.a1 & 1; int rc = fr ? evbuffer_freeze(b.eb, start) : evbuffer_unfreeze(b.eb, start);
    TR("  %s(buf%d, %s) -> %d", fr ? "freeze" : "unfreeze", o.b, start ? "front" : "back", rc);
    CHECK(rc == 0, K("freeze-ret"), "freeze/unfreeze returned %d", rc);
    if (start) b.m.fz_start = fr; else b.m.fz_end = fr;
  }
  void op_add_ref(const Op &o) {
    BufW &b = w.B[o.b]; size_t n = grow(b, resolve(o.n, geo[o.b], b.m.len())); size_t off = (size_t)o.seed * 13 + (o.a1 & 1 ? 4096 - 3 : 0); if (off + n > REF_REGION) n = REF_REGION - off;
    uint64_t f0 = sim_mem_failed; int rc = evbuffer_add_reference(b.eb, g_ref_region + off, n, ref_cleanup, nullptr);
    TR("  add_reference(buf%d, %zu [%s]) -> %d", o.b, n, specs(o.n).c_str(), rc);
    if (faulted(f0) && rc == -1) return;
    CHECK(rc == (b.m.fz_end ? -1 : 0), K("add-ref-ret"), "add_reference(buf%d,%zu) returned %d, end frozen=%d", o.b, n, rc, b.m.fz_end);
    if (rc == 0) { w.refs_added++; m_append(o.b, std::string((const char *)g_ref_region + off, n)); }
  }
  void op_contig(const Op &o) {
    BufW &b = w.B[o.b]; size_t cs = evbuffer_get_contiguous_space(b.eb);
    TR("  contiguous_space(buf%d) -> %zu", o.b, cs);
    CHECK(cs <= b.m.len(), K("contig"), "contiguous space %zu exceeds length %zu", cs, b.m.len());
    if (cs) { unsigned char *p = evbuffer_pullup(b.eb, (ev_ssize_t)cs); CHECK(p && memcmp(p, b.m.d.data(), cs) == 0, K("contig"), "pullup(contiguous space) failed"); }
  }
  void op_bufref(const Op &o) {
    int d = o.b, s = o.b2; BufW &D = w.B[d], &S = w.B[s]; size_t sl = S.m.len();
    if (D.m.len() > 40000 || S.fd_only || D.fd_only) return;
    if (d != s && reaches(s, d)) { TR("  (add_buffer_reference buf%d<-buf%d skipped: would build a buffer-reference cycle)", d, s); w.n_cycle_skips++; return; }
    bool unref = has_unreferenceable(s);
    uint64_t f0 = sim_mem_failed; int rc = evbuffer_add_buffer_reference(D.eb, S.eb);
    TR("  add_buffer_reference(dst buf%d, src buf%d [%zu bytes]) -> %d", d, s, sl, rc);
    if (faulted(f0)) { w.abandon = true; return; }
    int exp = sl == 0 ? 0 : (D.m.fz_end || d == s || unref) ? -1 : 0;
    CHECK(rc == exp, K("bufref-ret"), "add_buffer_reference(buf%d<-buf%d [%zu bytes]) returned %d, expected %d (end frozen %d, source holds reference/file chains %d)", d, s, sl, rc, exp, D.m.fz_end, unref);
    if (rc == 0 && sl && d != s) { m_append(d, S.m.d); w.sharing = true; w.n_bufref++; }
  }
  void op_recreate(const Op &o) {
    if (w.use_cbs || w.B[o.b].fd_only) return;
    for (int k = 0; k < NB; k++) if (k != o.b && (edges(k) & (1u << o.b))) return;   // still referenced as a source: keep it
    BufW &b = w.B[o.b]; TR("  free(buf%d [%zu bytes]); buf%d = new", o.b, b.m.len(), o.b);
    evbuffer_free(b.eb); b.eb = evbuffer_new(); if (!b.eb) abort();
    b.m = Model(); w.n_recreate++;
  }
  // --- callback management (C13) ------------------------------------------------------------------
  void op_cb_add(const Op &o) {
    if (!w.use_cbs || w.ncb >= MAXCB) return; int n = 0; for (int i = 0; i < w.ncb; i++) if (w.C[i].registered && w.C[i].buf == o.b) n++; if (n >= 3) return;
    CbRec &c = w.C[w.ncb]; c = CbRec(); c.buf = o.b; c.id = w.ncb; c.behavior = o.a1 % 8 > 5 ? 0 : o.a1 % 8; c.budget = 1 + o.a2 % 3; c.seed = o.seed;
    uint64_t f0 = sim_mem_failed; c.ent = evbuffer_add_cb(w.B[o.b].eb, cb_fn, &c);
    TR("  add_cb(buf%d) -> cb%d behaviour %d budget %d", o.b, c.id, c.behavior, c.budget);
    if (faulted(f0) && !c.ent) return;
    CHECK(c.ent != nullptr, K("add-cb-ret"), "evbuffer_add_cb returned NULL");
    c.registered = c.enabled = true; w.ncb++; w.n_toggles++;
  }
  CbRec *pick_cb(int b, int sel) { int idx[MAXCB], n = 0; for (int i = 0; i < w.ncb; i++) if (w.C[i].registered && w.C[i].buf == b) idx[n++] = i; return n ? &w.C[idx[sel % n]] : nullptr; }
  void op_cb_remove(const Op &o) {
    CbRec *c = pick_cb(o.b, o.a1); if (!c) return; BufW &b = w.B[o.b];
    int rc = (o.a2 & 1) ? evbuffer_remove_cb(b.eb, cb_fn, c) : evbuffer_remove_cb_entry(b.eb, c->ent);
    TR("  remove_cb%s(buf%d, cb%d) -> %d", (o.a2 & 1) ? "" : "_entry", o.b, c->id, rc);
    CHECK(rc == 0, K("remove-cb-ret"), "remove_cb returned %d", rc);
    c->registered = false; c->ent = nullptr; w.n_toggles++;
    if (!pick_cb(o.b, 0) && b.deferred) b.taint = true;
  }
  void op_cb_flags(const Op &o) {
    CbRec *c = pick_cb(o.b, o.a1); if (!c) return; BufW &b = w.B[o.b];
    uint32_t fl = (o.a2 & 3) == 3 ? EVBUFFER_CB_NODEFER : EVBUFFER_CB_ENABLED; bool set = (o.a3 & 1);
    if (fl == EVBUFFER_CB_NODEFER && b.deferred && set && verif_known("C13/nodefer-cumulative") && (o.a3 & 2)) { verif_known_skipped("C13/nodefer-cumulative"); return; }
    int rc = set ? evbuffer_cb_set_flags(b.eb, c->ent, fl) : evbuffer_cb_clear_flags(b.eb, c->ent, fl);
    TR("  cb_%s_flags(buf%d, cb%d, %s) -> %d", set ? "set" : "clear", o.b, c->id, fl == EVBUFFER_CB_ENABLED ? "ENABLED" : "NODEFER", rc);
    CHECK(rc == 0, K("cb-flags-ret"), "cb_set/clear_flags returned %d", rc);
    if (fl == EVBUFFER_CB_ENABLED) c->enabled = set; else { if (c->nodefer != set && b.deferred) { c->expA = c->gotA; c->expD = c->gotD; } c->nodefer = set; }
    w.n_toggles++;
  }

  void run(const Op &o) {
    w.opno++; w.oom_hit_in_op = false;
    {   // EVBUFFER_FLAG_DRAINS_TO_FD buffers: only appends, prepends, drains, freezes (nothing that reads or moves their bytes)
      bool two = o.kind == K_ADD_BUFFER || o.kind == K_PREPEND_BUFFER || o.kind == K_REMOVE_BUFFER || o.kind == K_BUFREF;
      if (w.B[o.b].fd_only || (two && w.B[o.b2].fd_only)) switch (o.kind) {
        case K_ADD: case K_PREPEND: case K_PRINTF: case K_ADD_IOVEC: case K_ADD_REF: case K_RESERVE_COMMIT: case K_EXPAND: case K_DRAIN: case K_FREEZE: case K_UNFREEZE: break;
        default: return; }
    }
    snapshot_cbs();
    switch (o.kind) {   // everything that modifies or re-packs invalidates pointers into the buffers it touches
      case K_COPYOUT: case K_SEARCH: case K_SEARCH_EOL: case K_PEEK: case K_PTR_SET: case K_COPYOUT_FROM: case K_FREEZE: case K_UNFREEZE: case K_SEARCH_RANGE:
      case K_CB_ADD: case K_CB_REMOVE: case K_CB_FLAGS: break;
      case K_ADD_BUFFER: case K_PREPEND_BUFFER: case K_REMOVE_BUFFER: invalidate(o.b); invalidate(o.b2); break;
      case K_TURN: for (int i = 0; i < NB; i++) invalidate(i); break;
      default: invalidate(o.b); if (w.use_cbs) for (int i = 0; i < NB; i++) invalidate(i); break;
    }
    if (w.use_cbs) for (int i = 0; i < NB; i++) if (o.kind != K_CB_ADD && o.kind != K_CB_REMOVE && o.kind != K_CB_FLAGS) invalidate(i);
    switch (o.kind) {
      case K_ADD: op_add(o); break; case K_DRAIN: op_drain(o); break; case K_REMOVE: op_remove(o, false); break; case K_COPYOUT: op_remove(o, true); break;
      case K_PREPEND: op_prepend(o); break; case K_ADD_BUFFER: op_add_buffer(o, false); break; case K_PREPEND_BUFFER: op_add_buffer(o, true); break;
      case K_REMOVE_BUFFER: op_remove_buffer(o); break; case K_PULLUP: op_pullup(o); break; case K_SEARCH: op_search(o, false); break;
      case K_SEARCH_RANGE: op_search(o, true); break; case K_SEARCH_EOL: op_search_eol(o); break; case K_READLN: op_readln(o); break;
      case K_RESERVE_COMMIT: op_reserve_commit(o); break; case K_EXPAND: op_expand(o); break; case K_ADD_IOVEC: op_add_iovec(o); break;
      case K_PEEK: op_peek(o); break; case K_PTR_SET: op_ptr_set(o); break; case K_COPYOUT_FROM: op_copyout_from(o); break; case K_PRINTF: op_printf(o); break;
      case K_FREEZE: op_freeze(o, true); break; case K_UNFREEZE: op_freeze(o, false); break; case K_ADD_REF: op_add_ref(o); break; case K_CONTIG: op_contig(o); break;
      case K_CB_ADD: op_cb_add(o); break; case K_CB_REMOVE: op_cb_remove(o); break; case K_CB_FLAGS: op_cb_flags(o); break;
      case K_TURN: TR("  turn"); do_turn(); break;
      case K_BUFREF: op_bufref(o); break; case K_RECREATE: op_recreate(o); break;
      default: break;
    }
    apply_effs();
    if (w.oom_hit_in_op) w.oom_consumed++;
    post(KNAME[o.kind], o.kind == K_TURN ? 7u : (1u << o.b) | ((o.kind == K_ADD_BUFFER || o.kind == K_PREPEND_BUFFER || o.kind == K_REMOVE_BUFFER) ? (1u << o.b2) : 0u));
  }
};

}  // namespace evb
