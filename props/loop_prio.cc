// C03 — callbacks run in priority order; loopbreak / loopexit / loopcontinue, EVLOOP_ONCE / NONBLOCK / NO_EXIT_ON_EMPTY,
// max_dispatch_interval (callback cap, time cap, min_priority), event_active_later_ and the deferred-callback quota.
// One base (virtual clock owned by the harness), 1..6 priorities, <= 8 "event tasks" (struct event, fd -1, activated by hand),
// 44 deferred callbacks (struct event_callback, event_deferred_cb_schedule_), loopexit requests (NULL / zero / finite timeout).
// Every callback draws up to two actions (activate, activate-later, schedule deferred, burst of 30..44 deferreds, break,
// exit, continue, advance the clock, del / cancel, change priority, re-activate itself, event_add).
// Event tasks come in four KINDS, i.e. one per dispatch path ("closure") of event_process_active_single_queue: plain one-shot
// (events 0), EV_PERSIST, signal event (EV_SIGNAL|EV_PERSIST, as made by evsignal_new) and one-shot EV_SIGNAL.  A signal
// task may be made pending with event_add (never-raised SIGURG / SIGWINCH) and every event_active carries ncalls 1..4: a
// signal event is then dispatched as a BATCH of ncalls invocations of its callback, each invocation an observation point
// that draws its own actions (so break / exit / continue / del / activations happen in call k of n).
//
// Oracle: a reference scheduler (struct Model) is advanced in lock-step with the three observation points — user callbacks,
// the intercepted backend wait, the return of event_base_loop.  At each observation the model says what must come next
// (callback id / a wait / return value r); anything else is a violation.  The reference rules, from event.h:
//   ascending priority, FIFO inside a priority; per iteration only the highest non-empty priority is served; below
//   min_priority no cap, otherwise at most max_callbacks callbacks / max_interval of (virtual) time per iteration;
//   loopbreak: stop after the running callback; loopexit: flag raised by a one-shot event (default priority npri/2) that is
//   active at once (NULL / zero tv) or when its timeout expires, loop exits before the next iteration; loopcontinue (and the
//   activation of an event of higher priority than the running one): leave the queue after the running callback and start
//   the next iteration; ONCE: return when a pass ran callbacks and nothing is active; NONBLOCK: zero-timeout waits, return
//   when nothing is active after a wait; no events at all and no NO_EXIT_ON_EMPTY: return 1; "later" and over-quota deferred
//   callbacks become runnable only at the top of the next iteration; every activation runs exactly once (unless cancelled).
//   A batch of n signal invocations is ONE callback for the callback cap / time cap / continue / preemption (all looked at
//   when the batch is over) but loopbreak "stops after the running callback", i.e. after the running INVOCATION; event_del of
//   the running signal event ends its batch too; nothing else does (not loopexit's flag, not loopcontinue).  A pending
//   (added) event keeps a loop without NO_EXIT_ON_EMPTY from returning 1.
// Preconditions respected: priority_init before anything is active; events freed / deferreds cancelled before base free;
// the clock moves inside callbacks only with EVENT_BASE_FLAG_NO_CACHE_TIME (so "now" is unambiguous for the model).
#include "verif.h"
#include "sim.h"
#include <event2/event.h>
#include <event2/event_struct.h>
#include <deque>
#include <algorithm>
#include <limits.h>
#include <signal.h>
extern "C" {
#include "event-internal.h"
#include "defer-internal.h"
}

namespace {
const int MAXT = 8, MAXD = 44, EXIT0 = MAXT + MAXD, MAXID = 160;
const int QUOTA = 32;   // MAX_DEFERREDS_QUEUED: the (QUOTA+2)-th deferred callback queued in one iteration goes to "later"
enum { IDLE = 0, ACTIVE = 1, LATER = 2 };
enum { K_PLAIN = 0, K_PERSIST = 1, K_SIG = 2, K_SIG1 = 3 };   // events: 0 | EV_PERSIST | EV_SIGNAL|EV_PERSIST | EV_SIGNAL
enum Pc { P_OUT, P_TOP, P_AFTER_WAIT, P_POP, P_IN_CB, P_AFTER_CB };
enum Xk { X_CB, X_WAIT, X_RET };
struct Exp { Xk k; int v; };

struct Model {
  int npri = 1, maxcb = INT_MAX, limit_after = INT_MAX; bool has_time = false; int64_t max_us = 0;
  std::deque<int> q[6], later;
  int st[MAXID]; int pri[MAXID]; int next_exit = EXIT0;
  int kind[MAXT] = {0}; bool added[MAXT] = {false}; int nadded = 0; int ncalls[MAXT] = {0};   // event kind, pending?, calls owed by the current activation
  int batch_id = -1, batch_left = 0;   // signal task whose batch is running and the invocations still to come after the running one
  bool brk = false, term = false, cont = false; int ndef = 0;
  std::vector<std::pair<int64_t, int>> timers;   // pending loopexit timers (deadline, exit task id)
  Pc pc = P_OUT; int flags = 0, run_pri = -1, count = 0, cur_max = INT_MAX; bool cur_timed = false; int64_t endtime = 0; int n = 0;
  // statistics
  int multi_pri_iters = 0, limit_count_hits = 0, limit_time_hits = 0, cont_hits = 0, brk_hits = 0, exit_runs = 0, exit_timer_fired = 0, later_promoted = 0, quota_overflow = 0, ret1 = 0, once_done = 0, nonblock_done = 0, cbs = 0, multi_batches = 0, batch_cut_brk = 0, batch_cut_del = 0, batch_ctl = 0, pending_kept_loop = 0, kinds_run = 0;

  bool is_def(int id) const { return id >= MAXT && id < EXIT0; }
  bool is_sig(int id) const { return id < MAXT && kind[id] >= K_SIG; }
  bool mid_batch(int id) const { return id == batch_id && batch_left > 0; }
  int nactive() const { int k = (int)later.size(); for (int i = 0; i < npri; i++) k += (int)q[i].size(); return k; }
  void unqueue(int id) {
    if (st[id] == ACTIVE) { auto &d = q[pri[id]]; d.erase(std::find(d.begin(), d.end(), id)); }
    else if (st[id] == LATER) later.erase(std::find(later.begin(), later.end(), id));
    st[id] = IDLE;
  }
  // event_active(): joins the tail of its priority queue unless already there; a "later" activation is pulled forward
  // ncalls counts only for a signal event, and only for the activation that queues it ("an obsolete argument" otherwise)
  void activate(int id, int n = 1) {
    if (st[id] == ACTIVE) return;
    if (st[id] == LATER) unqueue(id);
    if (run_pri >= 0 && pri[id] < run_pri) cont = true;   // a more urgent event preempts the rest of the running queue
    if (is_sig(id)) ncalls[id] = n;
    st[id] = ACTIVE; q[pri[id]].push_back(id);
  }
  // event_del(): no longer active / later / pending; the running batch of that very event ends with the running invocation
  void del(int id) {
    unqueue(id);
    if (id == batch_id) { if (batch_left > 0) batch_cut_del++; batch_left = 0; }
    if (added[id]) { added[id] = false; nadded--; }
  }
  void add(int id) { if (!added[id]) { added[id] = true; nadded++; } }
  void activate_later(int id) { if (st[id] != IDLE) return; st[id] = LATER; later.push_back(id); }
  // event_deferred_cb_schedule_(): returns whether it was idle
  int schedule(int id) {
    int was_idle = st[id] == IDLE;
    if (ndef > QUOTA) { if (was_idle) { st[id] = LATER; later.push_back(id); quota_overflow++; } return was_idle; }
    if (st[id] == ACTIVE) return 0;
    if (st[id] == LATER) { unqueue(id); st[id] = ACTIVE; q[pri[id]].push_back(id); return 0; }
    st[id] = ACTIVE; q[pri[id]].push_back(id); ndef++; return 1;
  }
  int new_exit_task() { int id = next_exit++; st[id] = IDLE; pri[id] = npri / 2; return id; }
  void loopexit(int64_t tv_us) {
    if (next_exit >= MAXID) return;
    int id = new_exit_task();
    if (tv_us <= 0) activate(id); else timers.push_back({sim_now_us() + tv_us, id});
  }
  void enter_loop(int f) { flags = f; brk = term = false; pc = P_TOP; run_pri = -1; }

  // what must be observed next
  Exp next() {
    for (;;) switch (pc) {
      case P_TOP:
        cont = false; ndef = 0;
        if (term || brk) return {X_RET, 0};
        if (!(flags & EVLOOP_NO_EXIT_ON_EMPTY) && timers.empty() && nactive() == 0) { if (nadded == 0) { ret1++; return {X_RET, 1}; } pending_kept_loop++; }
        while (!later.empty()) { int id = later.front(); later.pop_front(); st[id] = ACTIVE; q[pri[id]].push_back(id); if (is_def(id)) ndef++; later_promoted++; }
        return {X_WAIT, 0};
      case P_AFTER_WAIT: {
        int64_t now = sim_now_us();
        std::stable_sort(timers.begin(), timers.end());
        while (!timers.empty() && timers.front().first <= now) { activate(timers.front().second); timers.erase(timers.begin()); exit_timer_fired++; }
        if (nactive() == 0) { if (flags & EVLOOP_NONBLOCK) { nonblock_done++; return {X_RET, 0}; } pc = P_TOP; break; }
        int first = -1, nonempty = 0; for (int i = 0; i < npri; i++) if (!q[i].empty()) { if (first < 0) first = i; nonempty++; }
        if (first < 0) { /* only "later" work: nothing runs in this iteration */ pc = P_TOP; break; }
        if (nonempty >= 2) multi_pri_iters++;
        run_pri = first; count = 0; n = 0;
        bool limited = first >= limit_after;
        cur_max = limited ? maxcb : INT_MAX; cur_timed = limited && has_time; endtime = now + max_us;
        pc = P_POP; break; }
      case P_POP: {
        int id = q[run_pri].front(); q[run_pri].pop_front(); st[id] = IDLE;
        if (id >= EXIT0) { term = true; exit_runs++; pc = P_AFTER_CB; break; }   // the loopexit event's own callback (not observable)
        if (id < MAXT) {
          kinds_run |= 1 << kind[id];
          if (kind[id] != K_PERSIST && kind[id] != K_SIG && added[id]) { added[id] = false; nadded--; }   // a non-persistent event is deleted when it is dispatched
          if (is_sig(id)) { batch_id = id; batch_left = ncalls[id] - 1; ncalls[id] = 0; if (batch_left > 0) multi_batches++; }
        }
        pc = P_IN_CB; return {X_CB, id}; }
      case P_AFTER_CB: {
        if (batch_id >= 0) {   // one invocation of a signal batch is over: only break (or del, see del()) stops the rest
          if (brk) { if (batch_left > 0) batch_cut_brk++; batch_left = 0; batch_id = -1; }
          else if (batch_left > 0) { batch_left--; pc = P_IN_CB; return {X_CB, batch_id}; }
          else batch_id = -1;
        }
        count++; bool end = false;
        if (brk) { n = -1; end = true; brk_hits++; }
        else if (count >= cur_max) { end = true; if (!q[run_pri].empty()) limit_count_hits++; }
        else if (cur_timed && sim_now_us() >= endtime) { end = true; if (!q[run_pri].empty()) limit_time_hits++; }
        else if (cont) { end = true; if (!q[run_pri].empty()) cont_hits++; }
        else if (q[run_pri].empty()) end = true;
        if (!end) { pc = P_POP; break; }
        if (n == 0) n = count;
        run_pri = -1;
        if ((flags & EVLOOP_ONCE) && nactive() == 0 && n != 0) { once_done++; return {X_RET, 0}; }
        pc = P_TOP; break; }
      case P_IN_CB: case P_OUT: default:
        return {X_RET, -99};   // not a point at which anything may be observed
    }
  }
};

struct World {
  Src *s; struct event_base *base; Model m;
  struct event *ev[MAXT]; int nev = 0; struct event_callback dcb[MAXD]; bool no_cache = false;
  int budget = 90, waits_this_turn = 0; bool in_loop = false; int salt = 0;
  bool ctl_in_loop = false;
  void ctl() { if (in_loop) { ctl_in_loop = true; if (m.batch_id >= 0 && m.batch_left > 0) m.batch_ctl++; } }
};
World *W;

const char *xname(Xk k) { return k == X_CB ? "callback" : k == X_WAIT ? "wait" : "return"; }
void expect(Xk k, int v, const char *what) {
  Exp e = W->m.next();
  if (e.k == k && e.v == v) return;
  const char *key = "C03/order";
  if (k == X_RET && e.k == X_RET) key = "C03/return-value";
  else if (k == X_RET) key = "C03/returned-too-early";
  else if (e.k == X_RET) key = "C03/did-not-return";
  else if (k == X_WAIT) key = "C03/wait-with-runnable-callback";
  else if (e.k == X_WAIT) key = "C03/ran-before-next-iteration";
  VERIF_FAIL(key, "%s: observed %s %d but the reference scheduler expects %s %d (running priority %d, count %d, brk=%d term=%d cont=%d ndef=%d active=%d later=%zu)",
             what, xname(k), v, xname(e.k), e.v, W->m.run_pri, W->m.count, W->m.brk, W->m.term, W->m.cont, W->m.ndef, W->m.nactive(), W->m.later.size());
}
void check_counts(const char *when) {
  int a = event_base_get_num_events(W->base, EVENT_BASE_COUNT_ACTIVE);
  CHECK(a == W->m.nactive(), "C03/active-count", "%s: event_base_get_num_events(ACTIVE)=%d, reference has %d active or later callbacks", when, a, W->m.nactive());
}
void check_flags(const char *when) {
  CHECK(!!event_base_got_break(W->base) == W->m.brk, "C03/got-break", "%s: event_base_got_break=%d reference=%d", when, event_base_got_break(W->base), W->m.brk);
  CHECK(!!event_base_got_exit(W->base) == W->m.term, "C03/got-exit", "%s: event_base_got_exit=%d reference=%d", when, event_base_got_exit(W->base), W->m.term);
}

const int64_t EXIT_TV[] = {0, 1, 1000, 2500, 1000000};
void burst(const char *ctx) {
  Src &s = *W->s; int k = 30 + s.below(15); int from = s.below(MAXD);
  TR("%sburst: schedule %d deferred callbacks starting at d%d", ctx, k, from);
  for (int i = 0; i < k; i++) { int d = (from + i) % MAXD; int exp = W->m.schedule(MAXT + d); int r = event_deferred_cb_schedule_(W->base, &W->dcb[d]);
    CHECK(!!r == !!exp, "C03/schedule-return", "event_deferred_cb_schedule_(d%d)=%d, reference says %d", d, r, exp); }
}
// one generated API action; self = id of the running callback or -1
void action(int which, int self, const char *ctx) {
  Src &s = *W->s; Model &m = W->m;
  switch (which) {
    case 1: { int j = s.below(W->nev); int n = 1 + s.below(4);
      if (m.mid_batch(j)) { TR("%s(skip: active t%d inside its own unfinished batch)", ctx, j); break; }   // see props/C03.json assumptions
      TR("%sactive t%d (pri %d, kind %d) ncalls=%d", ctx, j, m.pri[j], m.kind[j], n); m.activate(j, n); event_active(W->ev[j], m.is_sig(j) ? EV_SIGNAL : EV_READ, (short)n); break; }
    case 2: { int j = s.below(W->nev); if (m.is_sig(j)) { TR("%s(skip: active_later on signal event t%d)", ctx, j); break; }   // internal API, never used on signal events (ev_ncalls is not set by it)
      TR("%sactive_later t%d (pri %d)", ctx, j, m.pri[j]); m.activate_later(j); event_active_later_(W->ev[j], EV_WRITE); break; }
    case 3: { int d = s.below(MAXD); int exp = m.schedule(MAXT + d); int r = event_deferred_cb_schedule_(W->base, &W->dcb[d]); TR("%sschedule d%d (pri %d) -> %d", ctx, d, m.pri[MAXT + d], r);
      CHECK(!!r == !!exp, "C03/schedule-return", "event_deferred_cb_schedule_(d%d)=%d, reference says %d", d, r, exp); break; }
    case 4: burst(ctx); break;
    case 5: { TR("%sloopbreak", ctx); m.brk = true; int r = event_base_loopbreak(W->base); CHECK(r == 0, "C03/loopbreak-failed", "r=%d", r); W->ctl(); break; }
    case 6: case 7: { int64_t tv_us = which == 6 ? -1 : EXIT_TV[s.below(sizeof EXIT_TV / sizeof EXIT_TV[0])];
      if (m.next_exit >= MAXID) break;
      struct timeval tv; tv.tv_sec = tv_us / 1000000; tv.tv_usec = tv_us % 1000000;
      TR("%sloopexit(%lld us) now=%lld", ctx, (long long)tv_us, (long long)sim_now_us());
      m.loopexit(tv_us); int r = event_base_loopexit(W->base, tv_us < 0 ? nullptr : &tv); CHECK(r == 0, "C03/loopexit-failed", "r=%d", r); W->ctl(); break; }
    case 8: { TR("%sloopcontinue", ctx); m.cont = true; int r = event_base_loopcontinue(W->base); CHECK(r == 0, "C03/loopcontinue-failed", "r=%d", r); W->ctl(); break; }
    case 9: if (W->no_cache && self >= 0) { static const int64_t ADV[] = {1, 400, 1000, 5000}; int64_t a = ADV[s.below(4)]; TR("%sclock += %lld", ctx, (long long)a); sim_advance_us(a); } break;
    case 10: { int j = s.below(W->nev); TR("%sdel t%d", ctx, j); m.del(j); int r = event_del(W->ev[j]); CHECK(r == 0, "C03/del-failed", "r=%d", r); break; }
    case 11: { int d = s.below(MAXD); TR("%scancel d%d", ctx, d); m.unqueue(MAXT + d); event_deferred_cb_cancel_(W->base, &W->dcb[d]); break; }
    case 12: { int j = s.below(W->nev); int p = s.below(m.npri); int exp = m.st[j] == ACTIVE ? -1 : 0; int r = event_priority_set(W->ev[j], p); TR("%spriority_set t%d %d -> %d", ctx, j, p, r);
      CHECK(r == exp, "C03/priority-set", "event_priority_set on %s event returned %d", m.st[j] == ACTIVE ? "an active" : "a non-active", r); if (r == 0) m.pri[j] = p; break; }
    case 13: if (self >= 0 && self < MAXT) { int n = 1 + s.below(4);
      if (m.mid_batch(self)) { TR("%s(skip: re-activate self t%d inside its own unfinished batch)", ctx, self); break; }
      TR("%sre-activate self t%d ncalls=%d", ctx, self, n); m.activate(self, n); event_active(W->ev[self], m.is_sig(self) ? EV_SIGNAL : EV_READ, (short)n); } break;
    case 14: { int j = s.below(W->nev);   // make a signal event pending (the signal itself is never raised); only while it is not active: event_add on an active event is a separate question
      if (!m.is_sig(j) || m.st[j] != IDLE) break;
      TR("%sadd t%d", ctx, j); m.add(j); int r = event_add(W->ev[j], nullptr); CHECK(r == 0, "C03/add-failed", "event_add(signal event)=%d", r); break; }
    default: break;
  }
}

void on_callback(int id, const char *kind) {
  Model &m = W->m; Src &s = *W->s;
  CHECK(W->in_loop, "C03/callback-outside-loop", "%s %d ran outside event_base_loop", kind, id);
  expect(X_CB, id, "callback");
  TR("  run %s%d pri=%d now=%lld%s", kind, id < MAXT ? id : id - MAXT, m.pri[id], (long long)sim_now_us(), id == m.batch_id ? (m.batch_left ? " (signal batch, more to come)" : " (signal batch, last call)") : "");
  m.cbs++;
  if (W->budget > 0) { int nact = s.below(3); for (int k = 0; k < nact && W->budget > 0; k++) { W->budget--; action(s.below(15), id, "    in-cb "); } }
  m.pc = P_AFTER_CB;
}
void ev_cb(evutil_socket_t, short, void *arg) { on_callback((int)(intptr_t)arg, "t"); }
void def_cb(struct event_callback *, void *arg) { on_callback((int)(intptr_t)arg, "d"); }

int64_t wait_hook(const struct sim_wait_info *wi, void *) {
  Model &m = W->m; Src &s = *W->s;
  CHECK(W->in_loop, "C03/wait-outside-loop", "backend wait outside event_base_loop");
  expect(X_WAIT, 0, "backend wait");
  int64_t req = wi->timeout_us;
  if (m.nactive() > 0 || (m.flags & EVLOOP_NONBLOCK)) CHECK(req == 0, "C03/blocking-wait", "loop asks to wait %lld us although %s", (long long)req, m.nactive() ? "callbacks are runnable" : "EVLOOP_NONBLOCK is set");
  else if (m.timers.empty()) CHECK(req < 0, "C03/finite-wait", "nothing pending but the loop asks for a %lld us wait", (long long)req);
  W->waits_this_turn++;
  if (req < 0 || W->waits_this_turn > 24) {   // nothing can ever happen (or the turn is long enough): leave through the documented door
    TR("  wait#%llu req=%lld -> loopbreak", (unsigned long long)wi->ordinal, (long long)req);
    m.brk = true; event_base_loopbreak(W->base); m.pc = P_AFTER_WAIT; return 0;
  }
  int64_t adv = req;
  switch (s.below(4)) { case 1: adv = req / 2; break; case 2: adv = req + 1; break; case 3: adv = req + 1000000; break; default: break; }
  TR("  wait#%llu req=%lld adv=%lld", (unsigned long long)wi->ordinal, (long long)req, (long long)adv);
  sim_advance_us(adv);
  m.pc = P_AFTER_WAIT;
  return 0;
}
}  // namespace

extern "C" int LLVMFuzzerInitialize(int *, char ***) { sim_mem_install(); return 0; }

extern "C" int LLVMFuzzerTestOneInput(const uint8_t *data, size_t size) {
  sim_reset();
  verif_case_begin("C03");
  Src s(data, size);
  World w; W = &w; w.s = &s; Model &m = w.m; memset(m.st, 0, sizeof m.st); memset(m.pri, 0, sizeof m.pri);
  int64_t live0 = sim_mem_live_blocks;
  sim_clock_enable(SIM_START_US + s.below(1000000));
  sim_set_wait_hook(wait_hook, nullptr);
  sim_set_wait_limit(4000);
  struct event_config *cfg = event_config_new();
  int backend = s.below(4);
  static const char *AVOID[][3] = {{nullptr}, {nullptr}, {"epoll", nullptr}, {"epoll", "poll", nullptr}};
  for (int k = 0; AVOID[backend][k]; k++) event_config_avoid_method(cfg, AVOID[backend][k]);
  int bflags = 0;
  if (backend == 1) bflags |= EVENT_BASE_FLAG_EPOLL_USE_CHANGELIST;
  w.no_cache = s.flag(); if (w.no_cache) bflags |= EVENT_BASE_FLAG_NO_CACHE_TIME;
  event_config_set_flag(cfg, bflags);
  m.npri = 1 + s.below(6);
  int limit_mode = s.below(4);   // 0: no limits configured
  if (limit_mode) {
    int mc = (limit_mode & 1) ? (int)s.below(6) : -1;                   // callback cap 0..5 or none
    static const int64_t IV[] = {0, 1, 400, 1000, 3000};
    int64_t iv = (limit_mode & 2) ? IV[s.below(5)] : -1;               // time cap or none
    int minp = s.below(m.npri + 2);
    struct timeval tv; tv.tv_sec = 0; tv.tv_usec = iv < 0 ? 0 : iv;
    int r = event_config_set_max_dispatch_interval(cfg, iv < 0 ? nullptr : &tv, mc, minp);
    CHECK(r == 0, "C03/config-failed", "event_config_set_max_dispatch_interval=%d", r);
    m.maxcb = mc < 0 ? INT_MAX : mc; m.has_time = iv >= 0; m.max_us = iv < 0 ? 0 : iv; m.limit_after = minp;
    if (m.maxcb == INT_MAX && !m.has_time) m.limit_after = INT_MAX;
    TR("limits: max_callbacks=%d max_interval=%lld us min_priority=%d", mc, (long long)iv, minp);
  }
  w.base = event_base_new_with_config(cfg); event_config_free(cfg);
  if (!w.base) { verif_case_end(0, s.h); W = nullptr; return 0; }
  int pr = event_base_priority_init(w.base, m.npri);
  CHECK(pr == 0 && event_base_get_npriorities(w.base) == m.npri, "C03/priority-init", "event_base_priority_init(%d)=%d npriorities=%d", m.npri, pr, event_base_get_npriorities(w.base));
  w.nev = 2 + s.below(MAXT - 1); w.salt = s.below(7);
  TR("base backend=%s npri=%d no_cache=%d tasks=%d", event_base_get_method(w.base), m.npri, w.no_cache, w.nev);
  static const short KIND_EVENTS[] = {0, EV_PERSIST, EV_SIGNAL | EV_PERSIST, EV_SIGNAL};
  for (int i = 0; i < w.nev; i++) {
    m.pri[i] = s.below(m.npri); m.kind[i] = s.below(4);
    w.ev[i] = event_new(w.base, m.is_sig(i) ? ((i & 1) ? SIGWINCH : SIGURG) : -1, KIND_EVENTS[m.kind[i]], ev_cb, (void *)(intptr_t)i);
    CHECK(w.ev[i] != nullptr, "C03/event-new-failed", "event_new(kind %d) failed", m.kind[i]);
    int r = event_priority_set(w.ev[i], m.pri[i]); CHECK(r == 0, "C03/priority-set", "initial event_priority_set=%d", r);
    TR("task t%d: kind %d (%s) pri %d", i, m.kind[i], m.kind[i] == K_PLAIN ? "plain" : m.kind[i] == K_PERSIST ? "EV_PERSIST" : m.kind[i] == K_SIG ? "EV_SIGNAL|EV_PERSIST" : "EV_SIGNAL", m.pri[i]);
  }
  for (int d = 0; d < MAXD; d++) { m.pri[MAXT + d] = (d * 5 + w.salt) % m.npri; event_deferred_cb_init_(&w.dcb[d], (ev_uint8_t)m.pri[MAXT + d], def_cb, (void *)(intptr_t)(MAXT + d)); }

  static const int LOOPFLAGS[] = {EVLOOP_ONCE, 0, EVLOOP_NONBLOCK, EVLOOP_NO_EXIT_ON_EMPTY, EVLOOP_ONCE | EVLOOP_NONBLOCK, EVLOOP_ONCE | EVLOOP_NO_EXIT_ON_EMPTY, EVLOOP_NONBLOCK | EVLOOP_NO_EXIT_ON_EMPTY, EVLOOP_ONCE | EVLOOP_NONBLOCK | EVLOOP_NO_EXIT_ON_EMPTY};
  auto turn = [&](int lf) {
    w.waits_this_turn = 0;
    TR("turn flags=%d now=%lld active=%d later=%zu timers=%zu", lf, (long long)sim_now_us(), m.nactive(), m.later.size(), m.timers.size());
    m.enter_loop(lf);
    w.in_loop = true; int r = event_base_loop(w.base, lf); w.in_loop = false;
    TR("turn -> %d", r);
    CHECK(r >= 0, "C03/loop-error", "event_base_loop=%d", r);
    expect(X_RET, r, "event_base_loop return");
    m.pc = P_OUT; m.run_pri = -1;
    check_flags("after loop"); check_counts("after loop");
  };
  for (int step = 0; step < 40; step++) {
    int op = s.below(17);
    if (op == 0) break;
    if (op >= 15) turn(LOOPFLAGS[s.below(8)]);
    else { action(op, -1, ""); check_counts("after op"); check_flags("after op"); }
    event_base_assert_ok_(w.base);
  }
  // nothing may be lost: keep turning until the reference has nothing runnable left (bounded: actions are budgeted)
  w.budget = 0;
  for (int k = 0; k < 400 && m.nactive() > 0; k++) turn(EVLOOP_NONBLOCK);
  CHECK(m.nactive() == 0, "C03/harness-drain", "drain did not finish (harness bound too small)");
  check_counts("after drain");
  for (int i = 0; i < w.nev; i++) event_free(w.ev[i]);
  for (int d = 0; d < MAXD; d++) event_deferred_cb_cancel_(w.base, &w.dcb[d]);
  event_base_free(w.base);
  CHECK(sim_mem_live_blocks == live0, "C03/leak", "library allocations outstanding after base free: %lld", (long long)(sim_mem_live_blocks - live0));
  bool ctl = w.ctl_in_loop || m.limit_count_hits || m.limit_time_hits || m.later_promoted || m.quota_overflow || m.multi_batches;
  int nontrivial = m.multi_pri_iters >= 1 && ctl;
  if (m.multi_pri_iters) verif_class("two_priorities_in_one_iteration"); if (m.limit_count_hits) verif_class("callback_cap_hit"); if (m.limit_time_hits) verif_class("time_cap_hit");
  if (m.cont_hits) verif_class("continue_or_preempt_cut_queue"); if (m.brk_hits) verif_class("break_stopped_loop"); if (m.exit_runs) verif_class("loopexit_ran"); if (m.exit_timer_fired) verif_class("loopexit_timer_fired");
  if (m.later_promoted) verif_class("later_promoted"); if (m.quota_overflow) verif_class("deferred_quota_overflow"); if (m.ret1) verif_class("returned_1_empty"); if (m.once_done) verif_class("once_done"); if (m.nonblock_done) verif_class("nonblock_done");
  if (w.ctl_in_loop) verif_class("control_call_in_callback"); if (m.cbs) verif_class("callbacks_ran");
  if (m.multi_batches) verif_class("signal_batch_of_2_or_more"); if (m.batch_ctl) verif_class("control_call_inside_unfinished_batch"); if (m.batch_cut_brk) verif_class("batch_cut_by_break"); if (m.batch_cut_del) verif_class("batch_cut_by_del");
  if (m.pending_kept_loop) verif_class("pending_event_kept_loop_running"); if (m.kinds_run & 2) verif_class("persist_event_ran"); if (m.kinds_run & 8) verif_class("oneshot_signal_event_ran");
  verif_case_end(nontrivial, s.h);
  W = nullptr;
  return 0;
}
