// C28 — evhttp_uri_parse_with_flags / evhttp_uri_join round trip, parsed components == RFC 3986 components
// (Appendix B split + section 3.2 authority split, refs/uri3986.hh), setter-built URIs.
// Preconditions: inputs are C strings (no embedded NUL); flags are combinations of the three public
// EVHTTP_URI_* flags (the internal _EVHTTP_URI_HOST_HAS_BRACKETS bit 0x02 is never passed in).
#include "verif.h"
#include "sim.h"
#include "uri3986.hh"
#include <event2/http.h>
#include <limits.h>

using namespace uri3986;

#define F_NCF EVHTTP_URI_NONCONFORMANT
#define F_STRIP EVHTTP_URI_HOST_STRIP_BRACKETS
#define F_UNIX EVHTTP_URI_UNIX_SOCKET

static const char K_UNIX[] = "C28/unix-socket-path";        // known-finding candidates (excluded by construction when listed)
static const char K_FUT[] = "C28/ipvfuture-empty-tail";
static const char K_PORT[] = "C28/port-range";
static const char K_IP6[] = "C28/ip-literal-chars";

// ---------------------------------------------------------------- observed components
struct Comp {
  Opt scheme, userinfo, host, sock, path, query, fragment; int port = -1;
  bool same(const Comp &o) const {
    return scheme == o.scheme && userinfo == o.userinfo && host == o.host && sock == o.sock && port == o.port &&
           path == o.path && query == o.query && fragment == o.fragment; }
};
static Opt opt(const char *p) { Opt r; if (p) { r.has = true; r.v = p; } return r; }
static Comp observe(const struct evhttp_uri *u) {
  Comp c; c.scheme = opt(evhttp_uri_get_scheme(u)); c.userinfo = opt(evhttp_uri_get_userinfo(u)); c.host = opt(evhttp_uri_get_host(u));
  c.sock = opt(evhttp_uri_get_unixsocket(u)); c.port = evhttp_uri_get_port(u); c.path = opt(evhttp_uri_get_path(u));
  c.query = opt(evhttp_uri_get_query(u)); c.fragment = opt(evhttp_uri_get_fragment(u)); return c;
}
static std::string so(const Opt &o) { return o.has ? "\"" + esc(o.v, 60) + "\"" : std::string("-"); }
static std::string show(const Comp &c) {
  return "scheme=" + so(c.scheme) + " userinfo=" + so(c.userinfo) + " host=" + so(c.host) + " unixsocket=" + so(c.sock) + " port=" + std::to_string(c.port) +
         " path=" + so(c.path) + " query=" + so(c.query) + " fragment=" + so(c.fragment);
}
static bool has_any(const std::string &s, const char *set) { return s.find_first_of(set) != std::string::npos; }

// ---------------------------------------------------------------- generators
static const char UNRES[] = {'a', 'b', 'h', 'z', 'A', 'Z', '0', '9', '-', '.', '_', '~', 'v', 'x', 'u', 'n'};
static const char SUBD[] = {'!', '$', '&', '\'', '(', ')', '*', '+', ',', ';', '='};
static const char ODD[] = {' ', '"', '<', '>', '\\', '^', '`', '{', '|', '}', '[', ']', '\x80', '\xff', '\x01', '\x7f', '\t', '\n'};
static const char DELIM[] = {':', '/', '?', '#', '[', ']', '@', '%'};
static const char *PCT_OK[] = {"%41", "%7e", "%fF", "%00", "%2F", "%3a"};
static const char *PCT_BAD[] = {"%", "%4", "%zz", "%4g", "%g4", "%%"};

// text over unreserved / sub-delims / `extra` / pct-encoded, with a small rate of malformed escapes, odd bytes and delimiters
static std::string gen_text(Src &s, const char *extra, size_t maxatoms) {
  std::string r; size_t n = s.below((uint32_t)maxatoms + 1); size_t nx = strlen(extra);
  for (size_t i = 0; i < n; i++) {
    uint32_t k = s.below(64);
    if (k < 30) r.push_back(UNRES[s.below(sizeof UNRES)]);
    else if (k < 38) r.push_back(SUBD[s.below(sizeof SUBD)]);
    else if (k < 48) { if (nx) r.push_back(extra[s.below((uint32_t)nx)]); else r.push_back('a'); }
    else if (k < 60) r += PCT_OK[s.below(6)];
    else if (k == 60) r += PCT_BAD[s.below(6)];
    else if (k == 61) r.push_back(ODD[s.below(sizeof ODD)]);
    else if (k == 62) r.push_back(DELIM[s.below(sizeof DELIM)]);
    else r.push_back((char)(1 + s.below(255)));
  }
  return r;
}
static std::string gen_scheme(Src &s) {
  static const char *L[] = {"http", "a", "A+b-c.d1", "https", "unix", "z9", "h_t", "1a", "", "a b", "-a", "a%41"};
  uint32_t k = s.below(16); return L[k < 8 ? k % 6 : k - 4 < 12 ? k - 4 : 0];
}
static std::string gen_userinfo(Src &s) {
  switch (s.below(6)) { case 0: return "u"; case 1: return "u:p"; case 2: return ""; case 3: return "%41:%7e"; case 4: return "a:b:c"; default: return gen_text(s, ":", 4); }
}
static std::string gen_reghost(Src &s) {
  switch (s.below(10)) { case 0: return "h"; case 1: return "www.example.com"; case 2: return ""; case 3: return "1.2.3.4"; case 4: return "unix";
    case 5: return "%41h%7E"; case 6: return "a!$&'()*+,;=b"; case 7: return "999.1.1.1"; default: return gen_text(s, "", 5); }
}
static std::string gen_iplit(Src &s) {
  static const char *L[] = {"[::1]", "[1:2:3:4:5:6:7:8]", "[::ffff:1.2.3.4]", "[v1.x]", "[vF.a:b!$]", "[::]", "[vab.~]", "[fe80::1]",
                            "[v1.]", "[]", "[::1", "::1]", "[v.x]", "[vx.y]", "[V1.x]", "[::1]]", "[[::1]", "[v1.%41]", "[1::2::3]", "[g::1]", "[v1x]", "[v1./]", "[:]", "[1.2.3.4]"};
  uint32_t k = s.below(32); return L[k < 24 ? k : k % 8];
}
static std::string gen_port(Src &s) {
  static const char *L[] = {"80", "0", "", "65535", "65536", "080", "8080", "1", "99999", "4294967296", "99999999999999999999", "0000000000000000000000080", "8x", "-1", "+80", " 80", "65534", "00"};
  uint32_t k = s.below(24); return L[k < 18 ? k : k % 6];
}
static std::string gen_sock(Src &s) {
  switch (s.below(10)) { case 0: return "s"; case 1: return "a.sock"; case 2: return ""; case 3: return "/s"; case 4: return "/run/x.sock"; case 5: return "/a?b"; case 6: return "/a#b";
    case 7: return "d/s"; case 8: return "a@b"; default: return gen_text(s, "/", 4); }
}
// the five path forms of RFC 3986 section 3.3
static std::string gen_segs(Src &s, bool first_colon_ok) {
  std::string r; size_t n = 1 + s.below(3);
  for (size_t i = 0; i < n; i++) { if (i) r.push_back('/');
    std::string seg = s.chance(1, 6) ? std::string() : gen_text(s, i == 0 && !first_colon_ok ? "@" : ":@", 3);
    if (i == 0 && !first_colon_ok && !s.chance(1, 16)) { std::string t; for (char c : seg) if (c != ':') t.push_back(c); seg = t; }
    r += seg; }
  return r;
}
static std::string gen_path(Src &s, bool auth, bool scheme) {
  switch (s.below(8)) {
    case 0: return "/" + gen_segs(s, true);                    // path-abempty / path-absolute
    case 1: return "";                                         // path-empty
    case 2: return "/";
    case 3: return gen_segs(s, true);                          // path-rootless (first segment may hold ':')
    case 4: return gen_segs(s, false);                         // path-noscheme
    case 5: return "//" + gen_segs(s, true);                   // empty first segment
    case 6: return "/a/b";
    default: return auth ? "/" + gen_segs(s, true) : scheme ? gen_segs(s, true) : gen_segs(s, false);
  }
}
static std::string gen_query(Src &s) {
  switch (s.below(6)) { case 0: return "a=b&c=d"; case 1: return ""; case 2: return "?"; case 3: return "/x?y:@"; case 4: return "%41q%7e"; default: return gen_text(s, ":@/?", 5); }
}

struct GenInfo { bool unix_form = false, iplit = false; };
static std::string gen_uri(Src &s, GenInfo *gi) {
  std::string r; bool scheme = false, auth = false;
  if (s.below(4) != 1) { r += gen_scheme(s); r += ":"; scheme = true; }
  uint32_t a = s.below(8);                                      // 0-2 reg-name host, 3-4 IP-literal, 5 unix: form, 6-7 no authority
  if (a <= 5) {
    auth = true; r += "//";
    if (s.below(3) == 1) { r += gen_userinfo(s); r += "@"; }
    if (a == 5) {
      gi->unix_form = true;
      r += "unix:"; r += gen_sock(s); if (!s.chance(1, 16)) r += ":";
      if (s.chance(1, 8)) r += s.flag() ? "80" : "x";
    } else {
      if (a >= 3) { r += gen_iplit(s); gi->iplit = true; } else r += gen_reghost(s);
      if (s.below(2) == 1) { r += ":"; r += gen_port(s); }
    }
  }
  r += gen_path(s, auth, scheme);
  if (s.below(2) == 1) { r += "?"; r += gen_query(s); }
  if (s.below(2) == 1) { r += "#"; r += s.chance(1, 8) ? "a#b" : gen_query(s); }
  return r;
}
static void mutate(Src &s, std::string &u) {
  size_t n = 1 + s.below(3);
  for (size_t i = 0; i < n; i++) {
    size_t pos = u.empty() ? 0 : s.below((uint32_t)u.size() + 1);
    char c = s.chance(3, 4) ? DELIM[s.below(sizeof DELIM)] : s.flag() ? UNRES[s.below(sizeof UNRES)] : (char)(1 + s.below(255));
    switch (s.below(5)) {
      case 0: if (pos < u.size()) u.erase(pos, 1); break;
      case 1: u.insert(pos, 1, c); break;
      case 2: if (pos < u.size()) u[pos] = c; break;
      case 3: u.resize(pos); break;
      default: { size_t len = s.below(6); std::string sl = u.substr(pos < u.size() ? pos : 0, len); u.insert(s.below((uint32_t)u.size() + 1), sl); break; }
    }
  }
}
static std::string gen_raw(Src &s) {
  static const char A[] = {':', '/', '?', '#', '[', ']', '@', '%', '.', 'a', '1', 'v', 'u', 'n', 'i', 'x', 'h', '4', 'F', ' '};
  std::string r; size_t n = s.below(28);
  if (s.below(3) == 0) { for (size_t i = 0; i < n; i++) { char c = (char)s.byte(); if (c) r.push_back(c); } }
  else for (size_t i = 0; i < n; i++) r.push_back(A[s.below(sizeof A)]);
  if (s.chance(1, 4)) r.insert(0, s.flag() ? "http://" : "//unix:");
  return r;
}

// ---------------------------------------------------------------- join helpers
static bool join_checked(const struct evhttp_uri *u, size_t hint, std::string *out, bool limits = true) {
  size_t cap = 3 * hint + 96;
  std::vector<char> big(cap + 2, (char)0x5a);
  char *r = evhttp_uri_join(u, big.data() + 1, cap);
  CHECK(big[0] == 0x5a && big[cap + 1] == 0x5a, "C28/join-limit", "join wrote outside buf[0..limit)");
  if (!r) return false;
  CHECK(r == big.data() + 1, "C28/join-limit", "join returned a pointer that is not buf");
  size_t L = strnlen(r, cap);
  CHECK(L < cap, "C28/join-limit", "joined string not NUL-terminated within limit");
  out->assign(r, L);
  if (!limits) return true;
  // exact fit succeeds, one byte less is refused; heap blocks of exactly `limit` bytes so ASan sees any overrun
  char *exact = (char *)malloc(L + 1);
  char *r2 = evhttp_uri_join(u, exact, L + 1);
  CHECK(r2 == exact && !memcmp(exact, out->c_str(), L + 1), "C28/join-limit", "join into an exactly fitting buffer (limit=%zu) failed or differs", L + 1);
  free(exact);
  if (L > 0) { char *small = (char *)malloc(L); memset(small, 0x5a, L);
    char *r3 = evhttp_uri_join(u, small, L);
    CHECK(r3 == NULL, "C28/join-limit", "join succeeded with limit=%zu for a %zu-byte result (+NUL)", L, L);
    free(small); }
  return true;
}

// ---------------------------------------------------------------- parse half
struct Expect { bool defined = true, valid = true, unix_form = false, unix_affected = false, future_empty = false, ip6_chars = false, bracketed = false, ncf_needed = false; Comp c; std::string join; std::string why; };

static Expect reference(const std::string &in, unsigned fl) {
  Expect e; Parts p = split_b(in);
  e.c.scheme = p.scheme; e.c.path = some(p.path); e.c.query = p.query; e.c.fragment = p.fragment;
  auto bad = [&](const char *w) { if (e.valid) { e.valid = false; e.why = w; } };
  if (p.scheme.has && !valid_scheme(p.scheme.v)) bad("scheme");
  Opt authtext;
  if (p.authority.has) {
    const std::string &A = p.authority.v;
    size_t auth_off = (p.scheme.has ? p.scheme.v.size() + 1 : 0) + 2;
    size_t at = A.find('@');
    size_t r_off = auth_off + (at == std::string::npos ? 0 : at + 1);
    std::string rest = in.substr(r_off);                        // from the host position to the end of the input
    if ((fl & F_UNIX) && rest.compare(0, 5, "unix:") == 0) {
      // documented form  scheme://[userinfo@]unix:<socket>:<path>[?query][#fragment]
      e.unix_form = true;
      if (at != std::string::npos) { e.c.userinfo = some(A.substr(0, at)); if (!valid_userinfo(e.c.userinfo.v)) bad("userinfo"); }
      size_t c = rest.find(':', 5);
      if (c == std::string::npos) { bad("unix: form without closing colon"); e.defined = false; return e; }
      std::string sock = rest.substr(5, c - 5), tail = rest.substr(c + 1);
      bool tail_ok = tail.empty() || tail[0] == '/' || tail[0] == '?' || tail[0] == '#';
      e.unix_affected = has_any(sock, "/?#") || !tail_ok;
      if (has_any(sock, "?#")) e.defined = false;               // where such a socket name ends is not documented
      if (!tail_ok) bad("text between the socket's closing colon and the path");
      e.c.sock = some(sock); e.c.port = -1;
      std::string path; split_pqf(tail, 0, &path, &e.c.query, &e.c.fragment); e.c.path = some(path);
      authtext = some((e.c.userinfo.has ? e.c.userinfo.v + "@" : std::string()) + "unix:" + sock + ":");
    } else {
      Auth a = split_authority(A);
      if (!a.ok) { bad("authority has no [userinfo@]host[:port] split"); e.defined = false; }
      else {
        e.c.userinfo = a.userinfo; if (a.userinfo.has && !valid_userinfo(a.userinfo.v)) bad("userinfo");
        std::string host = a.host;
        if (a.bracketed) { IpLit l = ip_literal(a.host); e.bracketed = true;
          if (l.future_empty_tail) e.future_empty = true; else if (!l.ok && l.kind == 1) e.ip6_chars = true; else if (!l.ok) bad("IP-literal");
          if (fl & F_STRIP) host = a.host.substr(1, a.host.size() - 2); }
        else if (!valid_regname(a.host)) bad("reg-name");
        e.c.host = some(host);
        std::string portcanon;
        if (a.port.has) { if (!valid_port(a.port.v)) { bad("port"); e.defined = false; }
          else if (!a.port.v.empty()) { size_t i = 0; while (i + 1 < a.port.v.size() && a.port.v[i] == '0') i++;
            std::string d = a.port.v.substr(i);
            if (d.size() > 5 || atol(d.c_str()) > 65535) { e.c.port = INT_MAX; /* accepted value must equal the digits: cannot for > 65535 */ }
            else e.c.port = atoi(d.c_str());
            portcanon = ":" + d; } }
        authtext = some((a.userinfo.has ? a.userinfo.v + "@" : std::string()) + a.host + portcanon);
      }
    }
  }
  const std::string &path = e.c.path.v;
  if (!p.scheme.has) { size_t sl = path.find('/'), co = path.find(':'); if (co != std::string::npos && (sl == std::string::npos || co < sl)) bad("relative-ref whose first path segment contains ':'"); }
  if (e.c.host.has || e.c.sock.has) { if (!path.empty() && path[0] != '/') bad("authority followed by a rootless path"); }
  bool pq = valid_path_chars(path) && (!e.c.query.has || valid_query_chars(e.c.query.v)) && (!e.c.fragment.has || valid_query_chars(e.c.fragment.v));
  if (!pq) { if (fl & F_NCF) e.ncf_needed = true; else bad("path/query/fragment characters"); }
  e.join = recompose(e.c.scheme, authtext, path, e.c.query, e.c.fragment);
  return e;
}

static int parse_case(const std::string &in, unsigned fl, const GenInfo &gi) {
  struct evhttp_uri *u = evhttp_uri_parse_with_flags(in.c_str(), fl);
  TR("parse(\"%s\", flags=%s%s%s) -> %s", esc(in).c_str(), fl & F_NCF ? "NONCONFORMANT|" : "", fl & F_STRIP ? "STRIP_BRACKETS|" : "", fl & F_UNIX ? "UNIX_SOCKET" : "", u ? "accepted" : "NULL");
  if (!u) { verif_class("rejected"); return 0; }
  verif_class("accepted");
  Comp c1 = observe(u);
  TR("  components: %s", show(c1).c_str());
  CHECK(c1.path.has, "C28/component-split", "accepted URI has a NULL path");
  std::string j1;
  bool jok = join_checked(u, in.size(), &j1);
  CHECK(jok, "C28/join-null", "join refused a URI the parser accepted: %s", show(c1).c_str());
  TR("  join -> \"%s\"", esc(j1).c_str());
  // round trip
  struct evhttp_uri *u2 = evhttp_uri_parse_with_flags(j1.c_str(), fl);
  CHECK(u2 != NULL, "C28/roundtrip-reparse", "join output \"%s\" does not parse with the same flags", esc(j1).c_str());
  Comp c2 = observe(u2);
  std::string j2; bool jok2 = join_checked(u2, j1.size(), &j2, false);
  evhttp_uri_free(u2);
  CHECK(c1.same(c2), "C28/roundtrip-component", "components changed across join+parse:\n  first : %s\n  second: %s", show(c1).c_str(), show(c2).c_str());
  CHECK(jok2 && j2 == j1, "C28/roundtrip-component", "second join differs: \"%s\" vs \"%s\"", esc(j1).c_str(), esc(j2).c_str());
  evhttp_uri_free(u);

  // RFC 3986 components
  Expect e = reference(in, fl);
  if (e.unix_form) verif_class("unix_form_accepted");
  if (e.bracketed) verif_class(fl & F_STRIP ? "ip_literal_stripped" : "ip_literal_kept");
  if (e.ncf_needed) verif_class("accepted_only_because_nonconformant");
  bool skip = false;
  if (e.unix_form && e.unix_affected) {
    if (verif_known(K_UNIX)) { verif_known_skipped(K_UNIX); skip = true; }
    else if (e.defined || !e.valid) {
      CHECK(e.valid && c1.same(e.c), K_UNIX, "unix: form: parsed %s\n  but the input's components are %s%s%s", show(c1).c_str(), show(e.c).c_str(), e.valid ? "" : "  / input is not a valid unix-socket URI: ", e.why.c_str());
    } else skip = true;
  }
  if (!skip && e.future_empty) {
    if (verif_known(K_FUT)) verif_known_skipped(K_FUT);
    else VERIF_FAIL(K_FUT, "accepted an IPvFuture literal with nothing after the dot (RFC 3986: \"v\" 1*HEXDIG \".\" 1*( unreserved / sub-delims / \":\" )): \"%s\"", esc(in).c_str());
  }
  if (!skip && e.ip6_chars) {
    if (verif_known(K_IP6)) verif_known_skipped(K_IP6);
    else VERIF_FAIL(K_IP6, "accepted an IP-literal containing bytes other than HEXDIG, ':' and '.': \"%s\"", esc(in).c_str());
  }
  if (!skip) {
    CHECK(e.valid, "C28/accepts-non-rfc3986", "accepted \"%s\" (flags %#x) although its %s is not RFC 3986", esc(in).c_str(), fl, e.why.c_str());
    if (e.defined) {
      CHECK(c1.same(e.c), "C28/component-split", "parsed %s\n  RFC 3986 components are %s", show(c1).c_str(), show(e.c).c_str());
      CHECK(j1 == e.join, "C28/join-text", "join gave \"%s\", recomposition (RFC 3986 5.3) of the components is \"%s\"", esc(j1).c_str(), esc(e.join).c_str());
      if (c1.query.has && c1.query.v.empty()) verif_class("empty_but_present_query");
      if (c1.fragment.has && c1.fragment.v.empty()) verif_class("empty_but_present_fragment");
      if (c1.host.has && c1.host.v.empty()) verif_class("empty_host");
      if (c1.port == 0 || c1.port == 65535) verif_class("port_boundary");
    }
  }
  int present = c1.scheme.has + c1.userinfo.has + (c1.host.has && !c1.host.v.empty()) + (c1.port >= 0) + (!c1.path.v.empty()) + c1.query.has + c1.fragment.has + c1.sock.has;
  return !skip && (present >= 3 || e.bracketed || e.unix_form);
}

// ---------------------------------------------------------------- setter half
struct SetModel { Comp c; };
static bool ncf_ok(const std::string &v, const char *stop) { return !has_any(v, stop); }

static int setter_case(Src &s, unsigned fl) {
  struct evhttp_uri *u = NULL; bool from_parse = false;
  if (s.below(3) == 1) { GenInfo gi; std::string base = gen_uri(s, &gi); u = evhttp_uri_parse_with_flags(base.c_str(), fl); if (u) { from_parse = true; TR("start from parse(\"%s\", %#x)", esc(base).c_str(), fl); } }
  if (!u) { u = evhttp_uri_new(); CHECK(u, "C28/setter-get", "evhttp_uri_new failed"); evhttp_uri_set_flags(u, fl);
    Comp z = observe(u); Comp empty; CHECK(z.same(empty), "C28/setter-get", "a new URI is not empty: %s", show(z).c_str()); TR("start from new, flags %#x", fl); }
  verif_class(from_parse ? "setter_from_parsed" : "setter_from_new");
  Comp m = observe(u);
  // when started from a parsed URI with stripped brackets the model host is the stripped text, as returned
  size_t nops = 1 + s.below(8); int accepted = 0, rejected = 0;
  for (size_t i = 0; i < nops; i++) {
    uint32_t which = s.below(8); bool null = s.chance(1, 8); std::string v; int rc = 0, want = 0; const char *name = "";
    const char *arg = NULL;
    switch (which) {
      case 0: name = "path"; v = gen_path(s, s.flag(), s.flag()); arg = null ? NULL : v.c_str();
        want = null || ((fl & F_NCF) ? ncf_ok(v, "?#") : valid_path_chars(v)); rc = evhttp_uri_set_path(u, arg); if (rc == 0) m.path = opt(arg); break;
      case 1: name = "scheme"; v = gen_scheme(s); arg = null ? NULL : v.c_str();
        want = null || valid_scheme(v); rc = evhttp_uri_set_scheme(u, arg); if (rc == 0) m.scheme = opt(arg); break;
      case 2: name = "host"; v = s.below(3) == 1 ? gen_iplit(s) : gen_reghost(s); arg = null ? NULL : v.c_str();
        if (null) want = 1;
        else if (!v.empty() && v[0] == '[') { IpLit l = ip_literal(v);
          if (l.kind == 0) want = 0;                                  // "[" without a closing "]" at the end
          else if (l.future_empty_tail) { want = -1; if (verif_known(K_FUT)) verif_known_skipped(K_FUT); }   // same root cause as the parse half
          else if (l.kind == 2) want = (v[1] == 'V') ? -1 : l.ok;      // upper-case "V": not asserted either way
          else want = l.ok ? -1 : verif_known(K_IP6) ? -1 : 0; }       // IPv6 structure is not judged here, only its alphabet
        else want = valid_regname(v);
        rc = evhttp_uri_set_host(u, arg);
        if (rc == 0) { m.host = opt(arg); if (arg && v[0] == '[' && (fl & F_STRIP)) m.host = some(v.substr(1, v.size() - 2)); }
        if (want == -1) want = (rc == 0);
        break;
      case 3: name = "port"; { static const int P[] = {80, 0, -1, 65535, 65536, 1, 8080, -2, INT_MAX, INT_MIN, 99999, 443}; int p = P[s.below(12)]; v = std::to_string(p);
        want = p > 65535 ? -1 : p >= -1;                            // above 65535: refusing is fine, accepting obliges the round trip (K_PORT)
        null = false; rc = evhttp_uri_set_port(u, p); if (rc == 0) m.port = p; if (want == -1) want = (rc == 0); } break;
      case 4: name = "query"; v = gen_query(s); arg = null ? NULL : v.c_str();
        want = null || ((fl & F_NCF) ? ncf_ok(v, "#") : valid_query_chars(v)); rc = evhttp_uri_set_query(u, arg); if (rc == 0) m.query = opt(arg); break;
      case 5: name = "fragment"; v = s.chance(1, 6) ? "a#b" : gen_query(s); arg = null ? NULL : v.c_str();
        want = null || ((fl & F_NCF) ? 1 : valid_query_chars(v)); rc = evhttp_uri_set_fragment(u, arg); if (rc == 0) m.fragment = opt(arg); break;
      case 6: name = "userinfo"; v = gen_userinfo(s); arg = null ? NULL : v.c_str();
        want = null || valid_userinfo(v); rc = evhttp_uri_set_userinfo(u, arg); if (rc == 0) m.userinfo = opt(arg); break;
      default: name = "unixsocket"; v = gen_sock(s); arg = null ? NULL : v.c_str();
        want = 1; rc = evhttp_uri_set_unixsocket(u, arg); if (rc == 0) m.sock = opt(arg); break;
    }
    TR("set_%s(%s%s%s) -> %d (reference: %s)", name, null ? "NULL" : "\"", null ? "" : esc(v).c_str(), null ? "" : "\"", rc, want ? "well-formed" : "not well-formed");
    CHECK(rc == 0 || rc == -1, "C28/setter-validation", "set_%s returned %d", name, rc);
    CHECK((rc == 0) == (want != 0), "C28/setter-validation", "set_%s(\"%s\") returned %d but the value is %s (flags %#x)", name, esc(v).c_str(), rc, want ? "well-formed" : "not well-formed", fl);
    if (rc == 0) accepted++; else rejected++;
    Comp now = observe(u);
    CHECK(now.same(m), "C28/setter-get", "after set_%s(%s) -> %d the getters show %s\n  expected %s", name, null ? "NULL" : esc(v).c_str(), rc, show(now).c_str(), show(m).c_str());
  }
  if (rejected) verif_class("setter_rejected_some");
  // joint consistency of the components (what RFC 3986 recomposition can represent unambiguously)
  bool auth = m.host.has || m.sock.has;
  std::string path = m.path.has ? m.path.v : std::string();
  const char *out = NULL;                                       // reason the combination is outside the round-trip domain
  const char *key = "C28/setter-roundtrip";
  if (m.sock.has && m.host.has) out = "both host and unixsocket";
  else if (m.sock.has && !(fl & F_UNIX)) out = "unixsocket without EVHTTP_URI_UNIX_SOCKET";
  else if (m.sock.has && has_any(m.sock.v, ":@")) out = "unixsocket containing ':' or '@' (not representable in the unix: authority form)";
  else if (m.userinfo.has && !auth) out = "userinfo without host";
  else if (m.port >= 0 && !m.host.has) out = "port without host";
  else if (auth && !path.empty() && path[0] != '/') out = "authority with rootless path";
  else if (!auth && path.compare(0, 2, "//") == 0) out = "no authority but path begins with //";
  else if ((fl & F_UNIX) && m.host.has && m.host.v == "unix" && m.port >= 0) out = "host literally \"unix\" with a port under UNIX_SOCKET";
  else if (!m.scheme.has && !auth) { size_t sl = path.find('/'), co = path.find(':'); if (co != std::string::npos && (sl == std::string::npos || co < sl)) out = "no scheme and ':' in first path segment"; }
  std::string j; bool jok = join_checked(u, 64 + path.size() + (m.query.has ? m.query.v.size() : 0) + (m.fragment.has ? m.fragment.v.size() : 0) + (m.host.has ? m.host.v.size() : 0) + (m.sock.has ? m.sock.v.size() : 0) + (m.userinfo.has ? m.userinfo.v.size() : 0) + (m.scheme.has ? m.scheme.v.size() : 0), &j);
  TR("final %s\n  join -> %s%s%s", show(m).c_str(), jok ? "\"" : "NULL", jok ? esc(j).c_str() : "", jok ? "\"" : "");
  int nontrivial = 0;
  if (m.host.has && !m.sock.has && !path.empty() && path[0] != '/') {
    CHECK(!jok, "C28/join-refuse", "host set and path \"%s\" does not begin with '/', but join produced \"%s\"", esc(path).c_str(), esc(j).c_str());
    verif_class("setter_join_refused");
  }
  if (out) { verif_class("setter_outside_domain"); TR("  outside the round-trip domain: %s", out); }
  else {
    bool skip = false;
    if (m.sock.has && has_any(m.sock.v, "/?#")) { if (verif_known(K_UNIX)) { verif_known_skipped(K_UNIX); skip = true; } else key = K_UNIX; }
    else if (m.port > 65535) { if (verif_known(K_PORT)) { verif_known_skipped(K_PORT); skip = true; } else key = K_PORT; }
    if (!skip) {
      CHECK(jok, key == K_UNIX || key == K_PORT ? key : "C28/setter-join-null", "join refused setter-accepted, jointly consistent components: %s", show(m).c_str());
      struct evhttp_uri *u2 = evhttp_uri_parse_with_flags(j.c_str(), fl);
      CHECK(u2 != NULL, key, "setter-built URI joins into \"%s\", which does not parse with the same flags (%#x); components: %s", esc(j).c_str(), fl, show(m).c_str());
      Comp c2 = observe(u2); evhttp_uri_free(u2);
      Comp want = m; if (!want.path.has) want.path = some("");      // a parsed URI always has a path; NULL and "" join identically
      CHECK(c2.same(want), key, "setter-built URI \"%s\" re-parses into different components:\n  set   : %s\n  parsed: %s", esc(j).c_str(), show(want).c_str(), show(c2).c_str());
      verif_class("setter_roundtrip_checked");
      int present = m.scheme.has + m.userinfo.has + m.host.has + (m.port >= 0) + (!path.empty()) + m.query.has + m.fragment.has + m.sock.has;
      nontrivial = accepted >= 2 && present >= 3;
    }
  }
  evhttp_uri_free(u);
  return nontrivial;
}

extern "C" int LLVMFuzzerTestOneInput(const uint8_t *data, size_t size) {
  sim_reset();
  verif_case_begin("C28");
  Src s(data, size);
  unsigned b = s.below(8);
  unsigned fl = (b & 1 ? F_NCF : 0) | (b & 2 ? F_STRIP : 0) | (b & 4 ? F_UNIX : 0);
  int nontrivial = 0;
  uint32_t mode = s.below(8);
  if (mode == 3 || mode == 6) { verif_class("mode_setters"); nontrivial = setter_case(s, fl); }
  else {
    GenInfo gi; std::string in;
    if (mode == 7) { verif_class("mode_raw"); in = gen_raw(s); }
    else { in = gen_uri(s, &gi); if (mode == 5 || mode == 2) { verif_class("mode_grammar_mutated"); mutate(s, in); } else verif_class("mode_grammar"); }
    std::string t; for (char c : in) if (c) t.push_back(c);
    nontrivial = parse_case(t, fl, gi);
  }
  if (nontrivial) { static const char *FN[] = {"nt_flags_0", "nt_flags_ncf", "nt_flags_strip", "nt_flags_ncf_strip", "nt_flags_unix", "nt_flags_ncf_unix", "nt_flags_strip_unix", "nt_flags_all"}; verif_class(FN[b]); }
  verif_case_end(nontrivial, s.h);
  return 0;
}
