// Shared HTTP server world for C23 / C25 / C30 (header only; .hh files are not targets).
//
// One world per case: an event_base under the harness virtual clock, an evhttp bound with
// evhttp_bind_listener() to an evconnlistener on an AF_UNIX abstract-namespace address (no filesystem),
// a harness-side client socket per connection.  The harness writes generated segments into the client socket,
// runs event_base_loop(EVLOOP_NONBLOCK) until the loop is quiescent after every segment, reads back whatever the
// server wrote, and records every request handed to a user callback.  Everything is torn down per case; the
// library allocation ledger and the fd table are compared before/after.
//
// Preconditions respected: only public evhttp API is used to drive the server (bind_listener, set_cb, set_gencb,
// set_allowed_methods, set_ext_method_cmp, set_max_*_size, set_flags, vhosts/aliases); every request handed to a
// callback is answered immediately with evhttp_send_reply(); evhttp_free() is only called after the client side of
// every connection was closed and the loop ran until the server released it.
#pragma once
#include <sys/queue.h>
#include "verif.h"
#include "sim.h"
#include <event2/event.h>
#include <event2/http.h>
#include <event2/http_struct.h>
#include <event2/buffer.h>
#include <event2/bufferevent.h>
#include <event2/listener.h>
#include <event2/keyvalq_struct.h>
#include <sys/socket.h>
#include <sys/un.h>
#include <unistd.h>
#include <errno.h>
#include <fcntl.h>
#include <string>
#include <vector>
#include <utility>

namespace hw {

// extension methods recognised through evhttp_set_ext_method_cmp
static const uint32_t EXT_PURGE   = (uint32_t)EVHTTP_REQ_MAX << 1;   // carries a body
static const uint32_t EXT_MSEARCH = (uint32_t)EVHTTP_REQ_MAX << 2;   // no body
static const uint32_t ALL_METHODS = 0xffffu | EXT_PURGE | EXT_MSEARCH;

static inline const char *method_name(uint32_t t) {
  switch (t) {
    case EVHTTP_REQ_GET: return "GET"; case EVHTTP_REQ_POST: return "POST"; case EVHTTP_REQ_HEAD: return "HEAD";
    case EVHTTP_REQ_PUT: return "PUT"; case EVHTTP_REQ_DELETE: return "DELETE"; case EVHTTP_REQ_OPTIONS: return "OPTIONS";
    case EVHTTP_REQ_TRACE: return "TRACE"; case EVHTTP_REQ_CONNECT: return "CONNECT"; case EVHTTP_REQ_PATCH: return "PATCH";
    case EVHTTP_REQ_PROPFIND: return "PROPFIND"; case EVHTTP_REQ_PROPPATCH: return "PROPPATCH"; case EVHTTP_REQ_MKCOL: return "MKCOL";
    case EVHTTP_REQ_LOCK: return "LOCK"; case EVHTTP_REQ_UNLOCK: return "UNLOCK"; case EVHTTP_REQ_COPY: return "COPY";
    case EVHTTP_REQ_MOVE: return "MOVE";
    default: break;
  }
  if (t == EXT_PURGE) return "PURGE";
  if (t == EXT_MSEARCH) return "M-SEARCH";
  return "?";
}
static inline uint32_t method_type(const std::string &m) {
  static const uint32_t T[] = {EVHTTP_REQ_GET, EVHTTP_REQ_POST, EVHTTP_REQ_HEAD, EVHTTP_REQ_PUT, EVHTTP_REQ_DELETE, EVHTTP_REQ_OPTIONS,
    EVHTTP_REQ_TRACE, EVHTTP_REQ_CONNECT, EVHTTP_REQ_PATCH, EVHTTP_REQ_PROPFIND, EVHTTP_REQ_PROPPATCH, EVHTTP_REQ_MKCOL, EVHTTP_REQ_LOCK,
    EVHTTP_REQ_UNLOCK, EVHTTP_REQ_COPY, EVHTTP_REQ_MOVE, EXT_PURGE, EXT_MSEARCH};
  for (uint32_t t : T) if (m == method_name(t)) return t;
  return 0;
}
// The callback follows both the header documentation (method==NULL: fill method from type; else fill type from method)
// and what the parser enforces (flags must stay 0 in the method->type direction); the HAS_BODY flag is reported in the
// type->method direction, which is where http.c reads it.
static int ext_method_cb(struct evhttp_ext_method *m) {
  if (!m) return -1;
  if (m->method == NULL) {
    if (m->type == EXT_PURGE) { m->method = "PURGE"; m->flags = EVHTTP_METHOD_HAS_BODY; return 0; }
    if (m->type == EXT_MSEARCH) { m->method = "M-SEARCH"; return 0; }
    return -1;
  }
  if (!strcmp(m->method, "PURGE")) { m->type = EXT_PURGE; return 0; }
  if (!strcmp(m->method, "M-SEARCH")) { m->type = EXT_MSEARCH; return 0; }
  return -1;
}

struct Delivered {
  int cb_id = 0;                 // which registered callback got it (0 = generic callback)
  uint32_t cmd = 0;
  std::string uri; int major = 0, minor = 0;
  std::vector<std::pair<std::string, std::string>> headers;
  std::string body;
  size_t conn_input_left = 0;    // bytes still buffered on the connection when the callback ran
};

struct Response { int code = 0; int major = 0, minor = 0; std::string body; bool complete = false; };

struct World;
static World *g_world;

struct CbArg { World *w; int id; };

struct World {
  struct event_base *base = nullptr;
  struct evhttp *http = nullptr;
  struct evconnlistener *lis = nullptr;
  struct sockaddr_un addr; socklen_t alen = 0;
  int cfd = -1;
  std::vector<Delivered> delivered;
  std::string resp;               // raw bytes read back on the current connection
  bool peer_closed = false;       // server closed (EOF / ECONNRESET seen while reading)
  bool write_failed = false;      // a client write hit EPIPE/ECONNRESET
  int last_nready = 0;
  int reply_code = 200;
  int backend = 0;                // 0 poll, 1 epoll, 2 select (set before open())
  size_t input_high_water = 0;    // max bytes seen buffered on a server connection (sampled every pass)
  std::vector<CbArg *> cbargs;
  int64_t live0 = 0; int fd_lo = 0; uint64_t fd_mask0 = 0;   // cheap fd ledger: the 24 descriptors from the lowest free one at case start
  uint64_t passes = 0;

  static int64_t wait_hook(const struct sim_wait_info *wi, void *arg) {
    World *w = (World *)arg;
    w->last_nready = wi->nready;
    if (wi->timeout_us < 0 && wi->nready == 0) event_base_loopbreak(w->base);
    return 0;
  }

  static void record(struct evhttp_request *req, int id) {
    World *w = g_world; Delivered d; d.cb_id = id;
    d.cmd = (uint32_t)evhttp_request_get_command(req);
    const char *u = evhttp_request_get_uri(req); d.uri = u ? u : "(null)";
    d.major = req->major; d.minor = req->minor;
    struct evkeyvalq *h = evhttp_request_get_input_headers(req); struct evkeyval *kv;
    TAILQ_FOREACH(kv, h, next) d.headers.push_back({kv->key, kv->value});
    struct evbuffer *b = evhttp_request_get_input_buffer(req); size_t n = evbuffer_get_length(b);
    d.body.resize(n); if (n) evbuffer_copyout(b, &d.body[0], n);
    struct evhttp_connection *c = evhttp_request_get_connection(req);
    if (c) d.conn_input_left = evbuffer_get_length(bufferevent_get_input(evhttp_connection_get_bufferevent(c)));
    TR("    -> callback#%d %s %s HTTP/%d.%d headers=%zu body=%zu '%s'", id, method_name(d.cmd), esc(d.uri).c_str(), d.major, d.minor, d.headers.size(), n, esc(d.body, 60).c_str());
    w->delivered.push_back(std::move(d));
  }
  static void user_cb(struct evhttp_request *req, void *arg) {
    CbArg *a = (CbArg *)arg; record(req, a->id);
    evhttp_send_reply(req, a->w->reply_code, "OK", NULL);
  }

  uint64_t fd_mask() const { uint64_t m = 0; for (int i = 0; i < 24; i++) if (fcntl(fd_lo + i, F_GETFD) != -1) m |= 1ull << i; return m; }
  CbArg *cbarg(int id) { CbArg *a = new CbArg{this, id}; cbargs.push_back(a); return a; }

  // ---- lifecycle
  bool open() {
    g_world = this;
    live0 = sim_mem_live_blocks;
    { int p = dup(0); fd_lo = p; if (p >= 0) close(p); fd_mask0 = fd_mask(); }
    sim_clock_enable(SIM_START_US);
    sim_set_wait_hook(wait_hook, this);
    {   // backend: poll unless asked otherwise (no epoll_create / epoll_ctl system calls per case)
      struct event_config *cfg = event_config_new();
      if (backend == 0) { event_config_avoid_method(cfg, "epoll"); }
      else if (backend == 2) { event_config_avoid_method(cfg, "epoll"); event_config_avoid_method(cfg, "poll"); }
      base = event_base_new_with_config(cfg); event_config_free(cfg);
    }
    if (!base) return false;
    http = evhttp_new(base);
    memset(&addr, 0, sizeof addr); addr.sun_family = AF_UNIX;
    static unsigned long serial = 0;   // the name only has to be unique among live sockets; it never influences behaviour
    int n = snprintf(addr.sun_path + 1, sizeof addr.sun_path - 1, "verif-http-%d-%lu", (int)getpid(), serial++ & 7);
    alen = (socklen_t)(offsetof(struct sockaddr_un, sun_path) + 1 + n);
    lis = evconnlistener_new_bind(base, NULL, NULL, LEV_OPT_CLOSE_ON_FREE | LEV_OPT_CLOSE_ON_EXEC, 16, (struct sockaddr *)&addr, (int)alen);
    CHECK(lis != nullptr, "harness/listener", "evconnlistener_new_bind failed: %s", strerror(errno));
    struct evhttp_bound_socket *bs = evhttp_bind_listener(http, lis);
    CHECK(bs != nullptr, "harness/bind-listener", "evhttp_bind_listener failed");
    evhttp_set_ext_method_cmp(http, ext_method_cb);
    evhttp_set_allowed_methods(http, ALL_METHODS);
    return true;
  }

  void sample_inputs();

  // run the loop until nothing is ready and nothing is active
  void pump() {
    for (int i = 0; i < 200; i++) {
      last_nready = 0;
      int r = event_base_loop(base, EVLOOP_NONBLOCK);
      passes++;
      CHECK(r >= 0, "harness/loop-error", "event_base_loop=%d", r);
      sample_inputs();
      if (last_nready == 0 && event_base_get_num_events(base, EVENT_BASE_COUNT_ACTIVE) == 0) { drain(); return; }
    }
    VERIF_FAIL("harness/pump-spin", "loop not quiescent after 200 passes");
  }

  void connect_client() {
    delivered.clear(); resp.clear(); peer_closed = false; write_failed = false;
    cfd = socket(AF_UNIX, SOCK_STREAM | SOCK_NONBLOCK | SOCK_CLOEXEC, 0);
    CHECK(cfd >= 0, "harness/socket", "socket: %s", strerror(errno));
    int r = connect(cfd, (struct sockaddr *)&addr, alen);
    CHECK(r == 0, "harness/connect", "connect: %s", strerror(errno));
    pump();
  }
  // read whatever the server wrote
  void drain() {
    if (cfd < 0 || peer_closed) return;
    char buf[4096];
    for (;;) {
      ssize_t n = recv(cfd, buf, sizeof buf, MSG_DONTWAIT);
      if (n > 0) { resp.append(buf, (size_t)n); continue; }
      if (n == 0) { peer_closed = true; break; }
      if (errno == EAGAIN || errno == EWOULDBLOCK) break;
      if (errno == EINTR) continue;
      peer_closed = true; break;   // ECONNRESET etc.
    }
  }
  void send_segment(const char *p, size_t n) {
    while (n && !write_failed) {
      ssize_t w = send(cfd, p, n, MSG_NOSIGNAL | MSG_DONTWAIT);
      if (w > 0) { p += w; n -= (size_t)w; continue; }
      if (w < 0 && errno == EINTR) continue;
      if (w < 0 && (errno == EAGAIN || errno == EWOULDBLOCK)) { pump(); if (peer_closed) { write_failed = true; } continue; }
      write_failed = true;
    }
    pump();
  }
  void half_close() { if (cfd >= 0) { shutdown(cfd, SHUT_WR); pump(); } }
  void close_client() { if (cfd >= 0) { close(cfd); cfd = -1; pump(); } }

  void close_world() {
    close_client();
    if (http) { evhttp_free(http); http = nullptr; lis = nullptr; }
    if (base) { event_base_free(base); base = nullptr; }
    for (CbArg *a : cbargs) delete a; cbargs.clear();
    g_world = nullptr;
  }
  void check_no_leak(const char *prop_key_leak, const char *prop_key_fd) {
    CHECK(sim_mem_live_blocks == live0, prop_key_leak, "library allocations outstanding after teardown: %lld", (long long)(sim_mem_live_blocks - live0));
    uint64_t now = fd_mask();
    CHECK(now == fd_mask0, prop_key_fd, "descriptor table differs before/after the case (from fd %d: before %llx after %llx)", fd_lo, (unsigned long long)fd_mask0, (unsigned long long)now);
  }
};

}  // namespace hw

// evhttp internals are only *read* (input-buffer level for C25); nothing is modified through them
extern "C" {
#include "http-internal.h"
}
namespace hw {
inline void World::sample_inputs() {
  if (!http) return;
  struct evhttp_connection *c;
  TAILQ_FOREACH(c, &http->connections, next) {
    if (!c->bufev) continue;
    size_t n = evbuffer_get_length(bufferevent_get_input(c->bufev));
    if (n > input_high_water) input_high_water = n;
  }
}

// ---- parse the bytes the server wrote back into a list of responses (we know what our callbacks send: no chunked replies)
static inline std::vector<Response> parse_responses(const std::string &s, bool closed) {
  std::vector<Response> out; size_t p = 0;
  while (p < s.size()) {
    Response r; size_t he = s.find("\r\n\r\n", p);
    if (he == std::string::npos) { out.push_back(r); break; }
    std::string head = s.substr(p, he - p);
    int mj = 0, mn = 0, code = 0;
    if (sscanf(head.c_str(), "HTTP/%d.%d %d", &mj, &mn, &code) != 3) { out.push_back(r); break; }
    r.major = mj; r.minor = mn; r.code = code;
    p = he + 4;
    long cl = -1; size_t lp = 0;
    while ((lp = head.find("\r\n", lp)) != std::string::npos) { lp += 2;
      if (!strncasecmp(head.c_str() + lp, "Content-Length:", 15)) cl = strtol(head.c_str() + lp + 15, nullptr, 10); }
    if (code >= 100 && code < 200) { r.complete = true; out.push_back(r); continue; }
    if (code == 204 || code == 304) cl = 0;
    if (cl >= 0) { if (s.size() - p >= (size_t)cl) { r.body = s.substr(p, (size_t)cl); r.complete = true; p += (size_t)cl; } else { r.body = s.substr(p); p = s.size(); } }
    else if (s.compare(p, 7, "HTTP/1.") == 0) { r.complete = true; }   // bodiless reply (HEAD) followed by the next response
    else { r.body = s.substr(p); p = s.size(); r.complete = closed; }
    out.push_back(r);
  }
  return out;
}
}  // namespace hw
