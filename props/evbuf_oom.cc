// C14 — failed evbuffer operations leave the buffer unchanged (fault enumeration over allocation indices).
// The decoded op sequence (<= 30 ops, C12's interpreter) is first run fault-free to count the library's allocation
// calls N; it is then re-executed from scratch once per allocation index n = 1..N (all of them up to 96, evenly
// sampled beyond) with the n-th mm_malloc/mm_realloc/mm_calloc failing (one-shot or sticky, per case).
// Oracle: the op during which the fault fired either reports failure and every buffer equals the model's pre-state,
// or reports success / a count and the model advanced by exactly that; validator + full content compare after
// every op; later ops behave per model; nothing leaks.  One plain immediate callback per buffer checks that the
// change accounting stays exact as well.
#include "evbuf_ops.hh"
using namespace evb;

extern "C" int LLVMFuzzerInitialize(int *, char ***) { sim_mem_install(); ref_region_init(); return 0; }

struct RunResult { uint64_t allocs; int consumed; bool abandoned; bool multi; };

static RunResult run_once(const std::vector<Op> &ops, uint64_t fail_at, int sticky, bool with_cbs) {
  RunResult rr{0, 0, false, false};
  int64_t live0 = sim_mem_live_blocks;
  {
    World w; world_init(w, "C14"); w.oom_mode = fail_at != 0; w.use_cbs = with_cbs;
    if (with_cbs) for (int i = 0; i < NB; i++) { CbRec &c = w.C[w.ncb]; c = CbRec(); c.buf = i; c.id = w.ncb; c.ent = evbuffer_add_cb(w.B[i].eb, cb_fn, &c); if (!c.ent) abort(); c.registered = c.enabled = true; w.ncb++; }
    Exec ex(w); ex.init();
    uint64_t c0 = sim_mem_calls;
    if (fail_at) { TR(" --- re-run with allocation #%llu failing (%s)", (unsigned long long)fail_at, sticky ? "sticky" : "one-shot"); sim_mem_fail_at(fail_at, sticky); }
    for (const Op &o : ops) { ex.run(o); if (w.abandon) break; }
    sim_mem_fail_at(0, 0);
    rr.allocs = sim_mem_calls - c0; rr.consumed = w.oom_consumed; rr.abandoned = w.abandon; rr.multi = w.saw_multi_chain;
    ex.post("end");
    world_free(w);
    CHECK(w.refs_cleaned == w.refs_added, "C14/ref-cleanup-count", "%d references added, %d cleanup calls", w.refs_added, w.refs_cleaned);
  }
  CHECK(sim_mem_live_blocks == live0, "C14/leak", "library allocations outstanding after freeing all buffers (fault at allocation %llu): %lld",
        (unsigned long long)fail_at, (long long)(sim_mem_live_blocks - live0));
  return rr;
}

extern "C" int LLVMFuzzerTestOneInput(const uint8_t *data, size_t size) {
  sim_reset();
  verif_case_begin("C14");
  Src s(data, size);
  int sticky = s.below(3) == 2; bool with_cbs = s.below(4) != 0;
  std::vector<Op> ops = decode_ops(s, 30, MIX_OOM, sizeof MIX_OOM);
  RunResult base = run_once(ops, 0, 0, with_cbs);
  uint64_t N = base.allocs; int consumed = 0, runs = 0, abandoned = 0;
  uint64_t step = N <= 96 ? 1 : (N + 95) / 96;
  for (uint64_t n = 1; n <= N; n += step) {
    RunResult r = run_once(ops, n, sticky, with_cbs);
    runs++; if (r.consumed) consumed++; if (r.abandoned) abandoned++;
  }
  verif_class_n("faulted_runs", (uint64_t)runs); verif_class_n("fault_consumed_in_op", (uint64_t)consumed);
  if (abandoned) verif_class_n("runs_cut_short_by_known_finding", (uint64_t)abandoned);
  if (base.multi) verif_class("multi_chain"); if (sticky) verif_class("sticky");
  verif_case_end(consumed >= 1, s.h);
  return 0;
}
