// C22 — rate-limited bufferevents never exceed their configured bandwidth.
// World: 1-4 socket bufferevents, each over its own AF_UNIX socketpair whose peer end is owned by the harness
// (a large backlog is queued towards every bufferevent at start, every bufferevent starts with a large output
// buffer, and the peer ends are drained at every backend wait, so traffic is always available in both directions).
// Per-bufferevent ev_token_bucket_cfg (from a pool of 3), 1-3 rate-limit groups (each on a cfg of the pool, each with its own
// min_share and manual decrements), max_single_read/write, manual (also negative) decrements, enable/disable, and every documented
// membership change: joining a group, leaving it (bufferevent_remove_from_rate_limit_group or add_to_rate_limit_group(bev, NULL)),
// re-adding to the same group, and moving DIRECTLY from one group to another (add_to_rate_limit_group while a member of another
// group, in whatever state - exhausted/suspended or not - the old and the new group happen to be).  Harness-owned virtual clock.
// Bytes are counted per real read/readv/write/writev call on the bufferevents' fds (sim_set_io_hook) and attributed
// to the tick in which the call happened (tick index computed from the wall clock exactly as documented: ms / tick ms).
// Oracle:
//   (a) per bufferevent and direction, for every window of k consecutive ticks: bytes <= burst + k*rate (+ credits given
//       by negative manual decrements in the window or the tick before it);
//   (b) same, per group, for the sum over the bufferevents that were members of that group when the call happened, + one min_share
//       quantum (documented deficit spending);
//   (c) every single read/write call moves <= max_single_read/write (default 16384);
//   (d) progress: a direction that is enabled, has data available, whose bucket (recomputed for the current tick with
//       ev_token_bucket_update_ on a copy) is > 0 and whose group bucket is >= min_share, moves bytes within one tick
//       (+25% +1ms) unless the harness touched the configuration in between; for group members any bytes of a member of the same
//       group count (the shared budget is handed out in random order, an individual member may lose the draw);
//   (e) "a bufferevent may belong to no more than one rate-limit group at a time": after every membership op each group's member
//       count equals the model's.
// Preconditions respected: a bufferevent leaves its group before it is freed; cfgs and the groups outlive their users;
// decrement_*_limit only on bufferevents with a per-bufferevent cfg (asserted by the library).
#include "verif.h"
#include "sim.h"
#include <event2/event.h>
#include <event2/buffer.h>
#include <event2/bufferevent.h>
#include <sys/socket.h>
#include <unistd.h>
#include <errno.h>
#include <map>
extern "C" {
#include "bufferevent-internal.h"
#include "ratelim-internal.h"
#include "util-internal.h"
}

namespace {
const int MAXB = 4, NCFG = 3, MAXG = 3;
const char *K_NULLGRP = "ubsan:member-access-within-null-pointer-of-typ@bufferevent_ratelim.c";   // add_to_rate_limit_group(member, NULL) dereferences NULL
const char *DN[] = {"read", "write"};
struct CfgM { struct ev_token_bucket_cfg *cfg = nullptr; int64_t rate[2], burst[2]; };
struct Acct {                       // one accounting epoch of one bucket and direction
  bool on = false; int64_t rate = 0, burst = 0, slack = 0;
  std::map<int64_t, int64_t> bytes, credit;   // tick -> bytes moved / credit granted
  int exhausted = 0; int64_t last_tick_bytes = -1;
};
struct MBev {
  struct bufferevent *bev = nullptr; int fd[2] = {-1, -1}; int idx = 0;
  int cfg = -1; int grp = -1; short enabled = 0;    // grp: index of the group it is a member of, -1 none
  int64_t max_single[2] = {16384, 16384};
  int64_t backlog = 0;              // bytes queued towards the bufferevent and not yet read by it
  Acct a[2];
  int64_t elig_since[2] = {-1, -1};
  int64_t moved[2] = {0, 0};
};
struct MGrp { struct bufferevent_rate_limit_group *grp = nullptr; int idx = 0, cfg = 0; Acct ga[2]; int64_t min_share = 64; };
struct World {
  Src *s; struct event_base *base = nullptr; int nb = 0; MBev b[MAXB]; CfgM c[NCFG];
  int ng = 0; MGrp g[MAXG];
  int64_t tick_us = 0; int64_t run_end = 0; int run_waits = 0; bool aborted = false, teardown = false;
  int refills = 0; bool ex_single_r = false, ex_single_w = false, ex_stall = false, ex_nullgrp = false;
};
World *W;
static char BLOB[65536];

int64_t cur_tick() { return ((sim_now_us() + SIM_WALL_OFFSET_US) / 1000) / (W->tick_us / 1000); }

void acct_start(Acct &a, int64_t rate, int64_t burst, int64_t slack) { a = Acct(); a.on = true; a.rate = rate; a.burst = burst; a.slack = slack; }
// all windows of consecutive ticks
void acct_check(Acct &a, const char *who, int idx, int dir) {
  if (!a.on || a.bytes.empty()) return;
  std::vector<std::pair<int64_t, int64_t>> v(a.bytes.begin(), a.bytes.end());
  for (size_t i = 0; i < v.size(); i++) {
    int64_t sum = 0;
    for (size_t j = i; j < v.size(); j++) {
      sum += v[j].second;
      int64_t k = v[j].first - v[i].first + 1, cred = 0;
      for (auto &c : a.credit) if (c.first >= v[i].first - 1 && c.first <= v[j].first) cred += c.second;
      int64_t bound = a.burst + k * a.rate + a.slack + cred;
      if (sum > bound) {
        char key[64]; snprintf(key, sizeof key, "C22/%s-%s-over-bandwidth", who, DN[dir]);
        verif_fail(key, "%s%d %s: %lld bytes in the %lld ticks %lld..%lld, bound burst %lld + k*rate %lld + slack %lld + credits %lld = %lld", who, idx, DN[dir],
                   (long long)sum, (long long)k, (long long)v[i].first, (long long)v[j].first, (long long)a.burst, (long long)a.rate, (long long)a.slack, (long long)cred, (long long)bound);
      }
    }
  }
}
void bev_epoch(MBev &m) {     // (re)start per-bufferevent accounting after a cfg change
  for (int d = 0; d < 2; d++) { acct_check(m.a[d], "bev", m.idx, d); if (m.cfg >= 0) acct_start(m.a[d], W->c[m.cfg].rate[d], W->c[m.cfg].burst[d], 0); else m.a[d] = Acct(); }
}
void grp_epoch(MGrp &G) {
  for (int d = 0; d < 2; d++) { acct_check(G.ga[d], "group", G.idx, d); acct_start(G.ga[d], W->c[G.cfg].rate[d], W->c[G.cfg].burst[d], G.min_share); }
}
void check_membership(const char *after) {   // (e)
  for (int k = 0; k < W->ng; k++) { int n = 0; for (int i = 0; i < W->nb; i++) if (W->b[i].bev && W->b[i].grp == k) n++;
    CHECK(W->g[k].grp->n_members == n, "C22/group-membership-count", "after %s: group%d has %d members, the history says %d", after, k, W->g[k].grp->n_members, n); }
}
void touch_all() { for (int i = 0; i < W->nb; i++) W->b[i].elig_since[0] = W->b[i].elig_since[1] = -1; }

void io_hook(const struct sim_io_rec *r, void *) {
  if (!W || W->teardown || r->result <= 0) return;
  int dir;
  if (r->kind == SYS_READ || r->kind == SYS_READV) dir = 0; else if (r->kind == SYS_WRITE || r->kind == SYS_WRITEV) dir = 1; else return;
  for (int i = 0; i < W->nb; i++) { MBev &m = W->b[i];
    if (!m.bev || r->fd != m.fd[0]) continue;
    int64_t n = r->result, t = cur_tick();
    TR("      io: bev%d %s %lld bytes (asked %ld) tick %lld now=%lld", i, DN[dir], (long long)n, r->requested, (long long)t, (long long)sim_now_us());
    if (dir == 0) m.backlog -= n;
    m.moved[dir] += n; m.elig_since[dir] = -1;
    // the group budget is shared and handed out in random order: bytes moved by any member count as the group's progress
    if (m.grp >= 0) for (int j = 0; j < W->nb; j++) if (W->b[j].grp == m.grp) W->b[j].elig_since[dir] = -1;
    bool skip = m.cfg >= 0 && (dir == 0 ? W->ex_single_r : W->ex_single_w); if (skip && n > m.max_single[dir]) verif_known_skipped(dir == 0 ? "C22/max-single-read-exceeded" : "C22/max-single-write-exceeded");
    if (!skip)
      CHECK(n <= m.max_single[dir], dir == 0 ? "C22/max-single-read-exceeded" : "C22/max-single-write-exceeded", "bev%d: one %s call moved %lld bytes, max_single_%s is %lld (cfg=%d group=%d)", i, DN[dir], (long long)n, DN[dir], (long long)m.max_single[dir], m.cfg, m.grp);
    if (m.a[dir].on) m.a[dir].bytes[t] += n;
    if (m.grp >= 0 && W->g[m.grp].ga[dir].on) W->g[m.grp].ga[dir].bytes[t] += n;
  }
}

// recomputed bucket levels (no mutation of library state)
bool budget_ok(MBev &m, int dir) {
  struct bufferevent_private *p = BEV_UPCAST(m.bev);
  if (!p->rate_limiting) return true;
  struct timeval now; evutil_gettimeofday(&now, nullptr);
  if (p->rate_limiting->cfg) {
    struct ev_token_bucket copy = p->rate_limiting->limit;
    ev_token_bucket_update_(&copy, p->rate_limiting->cfg, ev_token_bucket_get_tick_(&now, p->rate_limiting->cfg));
    if ((dir == 0 ? copy.read_limit : copy.write_limit) <= 0) return false;
  }
  if (p->rate_limiting->group) {
    struct bufferevent_rate_limit_group *g = p->rate_limiting->group;
    struct ev_token_bucket copy = g->rate_limit;
    ev_token_bucket_update_(&copy, &g->rate_limit_cfg, ev_token_bucket_get_tick_(&now, &g->rate_limit_cfg));
    ev_ssize_t lv = dir == 0 ? copy.read_limit : copy.write_limit;
    if (lv <= 0 || lv < g->min_share) return false;
  }
  return true;
}
void sample_progress() {
  if (W->aborted) return;
  int64_t now = sim_now_us();
  for (int i = 0; i < W->nb; i++) { MBev &m = W->b[i]; if (!m.bev) continue;
    for (int dir = 0; dir < 2; dir++) {
      bool data = dir == 0 ? m.backlog > 0 : evbuffer_get_length(bufferevent_get_output(m.bev)) > 0;
      bool e = (m.enabled & (dir == 0 ? EV_READ : EV_WRITE)) && data && budget_ok(m, dir);
      if (!e) { m.elig_since[dir] = -1; continue; }
      if (m.elig_since[dir] < 0) { m.elig_since[dir] = now; continue; }
      int64_t lim = W->tick_us + W->tick_us / 4 + 1000, idle = now - m.elig_since[dir];
      if (idle <= lim) continue;
      struct bufferevent_private *p = BEV_UPCAST(m.bev);
      // root-cause split: a bufferevent with its own cfg may still be waiting for its refill timer, which both directions share
      // and which is pushed back a whole tick whenever the other direction runs dry (up to one extra tick)  vs.  anything else
      bool own_timer = m.cfg >= 0;
      if (own_timer && idle <= lim + W->tick_us) {
        if (W->ex_stall) { verif_known_skipped(dir == 0 ? "C22/read-refill-delayed" : "C22/write-refill-delayed"); continue; }
        char key[64]; snprintf(key, sizeof key, "C22/%s-refill-delayed", DN[dir]);
        verif_fail(key, "bev%d %s: enabled, data available, bucket positive (group bucket >= min_share) since %lld (now %lld, tick %lld us) but nothing moved for more than 1.25 ticks (own refill timer pushed back?); flags read=0x%x write=0x%x cfg=%d group=%d",
                   i, DN[dir], (long long)m.elig_since[dir], (long long)now, (long long)W->tick_us, p->read_suspended, p->write_suspended, m.cfg, m.grp);
      }
      char key[64]; snprintf(key, sizeof key, "C22/%s-stalled", DN[dir]);
      verif_fail(key, "bev%d %s: enabled, data available, bucket positive and group bucket >= min_share since %lld (now %lld, tick %lld us) but no bytes moved; suspended flags read=0x%x write=0x%x cfg=%d group=%d",
                 i, DN[dir], (long long)m.elig_since[dir], (long long)now, (long long)W->tick_us, p->read_suspended, p->write_suspended, m.cfg, m.grp);
    }
  }
}
void drain_peers() {
  static char sink[65536];
  for (int i = 0; i < W->nb; i++) { MBev &m = W->b[i]; if (m.fd[1] < 0) continue;
    for (int k = 0; k < 64; k++) { ssize_t r = read(m.fd[1], sink, sizeof sink); if (r <= 0) break; } }
}

int64_t wait_hook(const struct sim_wait_info *wi, void *) {
  if (W->teardown) return 0;
  Src &s = *W->s;
  drain_peers();
  sample_progress();
  int64_t now = sim_now_us();
  if (++W->run_waits > 1200) { W->aborted = true; event_base_loopbreak(W->base); return 0; }
  if (wi->nready > 0) return 20;
  int64_t req = wi->timeout_us;
  if (req == 0) return 0;
  int64_t remaining = W->run_end - now;
  if (remaining <= 0) { event_base_loopbreak(W->base); return 0; }
  int64_t target = (req < 0 || req > remaining) ? remaining : req;
  bool at_timer = req >= 0 && req <= remaining;
  if (target > W->tick_us / 2) { target = W->tick_us / 2; at_timer = false; }   // keep sampling even if the library sleeps long
  if (at_timer) { static const int OV[] = {0, 0, 1, 40, 150}; target += OV[s.below(5)]; }
  TR("    wait#%llu req=%lld adv=%lld -> %lld (tick %lld)", (unsigned long long)wi->ordinal, (long long)req, (long long)target, (long long)(now + target), (long long)cur_tick());
  sim_advance_us(target);
  return 0;
}

void read_cb(struct bufferevent *bev, void *) { struct evbuffer *in = bufferevent_get_input(bev); evbuffer_drain(in, evbuffer_get_length(in)); }
void write_cb(struct bufferevent *bev, void *) { if (W && !W->teardown && evbuffer_get_length(bufferevent_get_output(bev)) < 20000) bufferevent_write(bev, BLOB, 40000); }
void event_cb(struct bufferevent *, short what, void *arg) { TR("    eventcb what=0x%x", what); if (!W || W->teardown) return;
  // the peers never close and never fail: any EOF/ERROR event is invented by the library (e.g. a zero-byte read taken for EOF)
  verif_fail("C22/spurious-eof-or-error", "bev%d got event 0x%x although its peer neither closed nor failed", ((MBev *)arg)->idx, what); }

const int64_t RATES[] = {1, 7, 64, 100, 500, 1000, 2000};
const int64_t TICKS[] = {5000, 10000, 100000, 1000000};
const int64_t SINGLES[] = {0, 16, 50, 100, 1000, 5000, 20000};
const int64_t DECRS[] = {1, 10, 100, 1000, 5000, -1, -10, -100, -1000, -5000};
}  // namespace

extern "C" int LLVMFuzzerInitialize(int *, char ***) { sim_mem_install(); memset(BLOB, 'r', sizeof BLOB); return 0; }

extern "C" int LLVMFuzzerTestOneInput(const uint8_t *data, size_t size) {
  sim_reset();
  verif_case_begin("C22");
  Src s(data, size);
  World w; W = &w; w.s = &s;
  w.ex_single_w = verif_known("C22/max-single-write-exceeded"); w.ex_single_r = verif_known("C22/max-single-read-exceeded"); w.ex_stall = verif_known("C22/read-refill-delayed") || verif_known("C22/write-refill-delayed"); w.ex_nullgrp = verif_known(K_NULLGRP);
  int64_t live0 = sim_mem_live_blocks;
  w.tick_us = TICKS[s.below(4)];
  sim_clock_enable(SIM_START_US + s.below(1000) * 997);
  sim_set_wait_hook(wait_hook, nullptr);
  w.base = event_base_new();
  if (!w.base) { verif_case_end(0, s.h); W = nullptr; return 0; }
  struct timeval tl = {(time_t)(w.tick_us / 1000000), (suseconds_t)(w.tick_us % 1000000)};
  for (int k = 0; k < NCFG; k++) { CfgM &c = w.c[k];
    for (int d = 0; d < 2; d++) { c.rate[d] = RATES[s.below(7)]; int bm = s.below(4); c.burst[d] = bm == 0 ? c.rate[d] : bm == 1 ? c.rate[d] + 1 : bm == 2 ? c.rate[d] * 3 : c.rate[d] * 10 + 5; }
    c.cfg = ev_token_bucket_cfg_new(c.rate[0], c.burst[0], c.rate[1], c.burst[1], &tl);
    CHECK(c.cfg != nullptr, "C22/cfg-new-failed", "rate %lld burst %lld", (long long)c.rate[0], (long long)c.burst[0]);
    TR("cfg%d read %lld/%lld write %lld/%lld tick %lld us", k, (long long)c.rate[0], (long long)c.burst[0], (long long)c.rate[1], (long long)c.burst[1], (long long)w.tick_us);
  }
  w.ng = 1 + s.below(MAXG);
  for (int k = 0; k < w.ng; k++) { MGrp &G = w.g[k]; G.idx = k; G.cfg = s.below(NCFG);
    G.grp = bufferevent_rate_limit_group_new(w.base, w.c[G.cfg].cfg);
    CHECK(G.grp != nullptr, "C22/group-new-failed", "NULL");
    // the library seeds the group's member-order RNG with the group's address: reseed for a reproducible case
    evutil_weakrand_seed_(&G.grp->weakrand_seed, 20220922u + k);
    G.min_share = G.grp->min_share; grp_epoch(G);
    TR("group%d cfg%d min_share=%lld start=%lld tick=%lld", k, G.cfg, (long long)G.min_share, (long long)sim_now_us(), (long long)cur_tick());
  }
  w.nb = 1 + s.below(MAXB);
  sim_set_io_hook(io_hook, nullptr);
  for (int i = 0; i < w.nb; i++) { MBev &m = w.b[i]; m.idx = i;
    if (socketpair(AF_UNIX, SOCK_STREAM | SOCK_NONBLOCK, 0, m.fd) != 0) { m.fd[0] = m.fd[1] = -1; w.nb = i; break; }
    for (int k = 0; k < 3; k++) { ssize_t r = write(m.fd[1], BLOB, 50000); if (r > 0) m.backlog += r; }
    m.bev = bufferevent_socket_new(w.base, m.fd[0], 0);
    bufferevent_setcb(m.bev, read_cb, write_cb, event_cb, &m);
    bufferevent_disable(m.bev, EV_READ | EV_WRITE); m.enabled = 0;
    bufferevent_write(m.bev, BLOB, 60000);
    // every bufferevent is limited from the start (an unlimited one would swallow the whole backlog at once)
    int mode = 1 + s.below(3);   // 1 cfg, 2 group, 3 both
    if (mode & 1) { m.cfg = s.below(NCFG); int r = bufferevent_set_rate_limit(m.bev, w.c[m.cfg].cfg); CHECK(r == 0, "C22/set-rate-limit-failed", "r=%d", r); }
    if (mode & 2) { int k = s.below(w.ng); int r = bufferevent_add_to_rate_limit_group(m.bev, w.g[k].grp); CHECK(r == 0, "C22/add-to-group-failed", "r=%d", r); m.grp = k; }
    bev_epoch(m);
    TR("bev%d cfg=%d group=%d backlog=%lld", i, m.cfg, m.grp, (long long)m.backlog);
  }

  for (int step = 0; step < 40 && !w.aborted && w.nb > 0; step++) {
    int op = s.below(10);
    if (op == 0) break;
    MBev &m = w.b[s.below(w.nb)];
    if (op != 9) touch_all();
    switch (op) {
      case 1: { short ev = (short[]){EV_READ, EV_WRITE, EV_READ | EV_WRITE}[s.below(3)]; bufferevent_enable(m.bev, ev); m.enabled |= ev; TR("enable bev%d 0x%x", m.idx, ev); break; }
      case 2: { short ev = (short[]){EV_READ, EV_WRITE, EV_READ | EV_WRITE}[s.below(3)]; bufferevent_disable(m.bev, ev); m.enabled &= ~ev; TR("disable bev%d 0x%x", m.idx, ev); break; }
      case 3: { int k = (int)s.below(NCFG + 1) - 1;
        if (k < 0 && m.grp < 0) break;       // keep every bufferevent limited
        int r = bufferevent_set_rate_limit(m.bev, k < 0 ? nullptr : w.c[k].cfg); TR("set_rate_limit bev%d cfg%d -> %d", m.idx, k, r);
        CHECK(r == 0, "C22/set-rate-limit-failed", "r=%d", r);
        if (k != m.cfg) { m.cfg = k; bev_epoch(m); }
        break; }
      case 4: {   // membership: 0 = remove_from_rate_limit_group, 1 = add_to_rate_limit_group(bev, NULL) (documented as "remove from its current group"),
                  // 2+k = add_to_rate_limit_group(bev, group k): first join, no-op re-add, or a direct move out of another group
        int t = s.below(w.ng + 2);
        if (t < 2) {
          if (m.grp >= 0 && m.cfg < 0) break;  // keep every bufferevent limited
          if (t == 1 && m.grp >= 0 && w.ex_nullgrp) { verif_known_skipped(K_NULLGRP); t = 0; }
          int r = t == 0 ? bufferevent_remove_from_rate_limit_group(m.bev) : bufferevent_add_to_rate_limit_group(m.bev, nullptr);
          TR("leave group%d bev%d (%s) -> %d", m.grp, m.idx, t == 0 ? "remove_from" : "add_to NULL", r); CHECK(r == 0, "C22/remove-from-group-failed", "r=%d", r);
          if (m.grp >= 0) verif_class("left_group");
          m.grp = -1;
        } else {
          int k = t - 2;
          if (m.grp >= 0 && m.grp != k) { struct bufferevent_rate_limit_group *o = w.g[m.grp].grp, *n = w.g[k].grp;
            verif_class("direct_group_move");
            if ((o->read_suspended && !n->read_suspended) || (o->write_suspended && !n->write_suspended)) verif_class("moved_from_suspended_to_unsuspended_group");
            if ((!o->read_suspended && n->read_suspended) || (!o->write_suspended && n->write_suspended)) verif_class("moved_from_unsuspended_to_suspended_group"); }
          int r = bufferevent_add_to_rate_limit_group(m.bev, w.g[k].grp); TR("add bev%d to group%d (was in %d) -> %d", m.idx, k, m.grp, r); CHECK(r == 0, "C22/add-to-group-failed", "r=%d", r);
          m.grp = k;
        }
        check_membership("a membership op");
        break; }
      case 5: { int dir = s.below(2); int64_t v = SINGLES[s.below(7)];
        int r = dir == 0 ? bufferevent_set_max_single_read(m.bev, v) : bufferevent_set_max_single_write(m.bev, v); TR("set_max_single_%s bev%d %lld -> %d", DN[dir], m.idx, (long long)v, r);
        CHECK(r == 0, "C22/set-max-single-failed", "r=%d", r);
        m.max_single[dir] = v == 0 ? 16384 : v;
        int64_t got = dir == 0 ? bufferevent_get_max_single_read(m.bev) : bufferevent_get_max_single_write(m.bev);
        CHECK(got == m.max_single[dir], "C22/max-single-getter", "set %lld, getter says %lld", (long long)v, (long long)got);
        break; }
      case 6: { int dir = s.below(2); int64_t d = DECRS[s.below(10)]; if (m.cfg < 0) break;
        int r = dir == 0 ? bufferevent_decrement_read_limit(m.bev, d) : bufferevent_decrement_write_limit(m.bev, d); TR("decrement_%s_limit bev%d %lld -> %d", DN[dir], m.idx, (long long)d, r);
        CHECK(r == 0, "C22/decrement-failed", "r=%d", r);
        if (d < 0) m.a[dir].credit[cur_tick()] += -d;
        break; }
      case 7: { MGrp &G = w.g[s.below(w.ng)]; int dir = s.below(2); int64_t d = DECRS[s.below(10)];
        int r = dir == 0 ? bufferevent_rate_limit_group_decrement_read(G.grp, d) : bufferevent_rate_limit_group_decrement_write(G.grp, d); TR("group%d decrement_%s %lld -> %d", G.idx, DN[dir], (long long)d, r);
        CHECK(r == 0, "C22/group-decrement-failed", "r=%d", r);
        if (d < 0) G.ga[dir].credit[cur_tick()] += -d;
        break; }
      case 8: { MGrp &G = w.g[s.below(w.ng)]; int64_t v = (int64_t[]){1, 2, 16, 64, 300, 5000}[s.below(6)];   // 0 is not generated: a zero quantum lets the per-member share round down to 0 bytes (see props/C22.json)
        int r = bufferevent_rate_limit_group_set_min_share(G.grp, v); TR("group%d set_min_share %lld -> %d (effective %lld)", G.idx, (long long)v, r, (long long)G.grp->min_share);
        CHECK(r == 0, "C22/set-min-share-failed", "r=%d", r);
        int64_t eff = v; for (int d = 0; d < 2; d++) if (eff > w.c[G.cfg].rate[d]) eff = w.c[G.cfg].rate[d];
        CHECK(G.grp->min_share == eff, "C22/min-share-not-clipped", "min_share %lld, expected min(%lld, group rates) = %lld", (long long)G.grp->min_share, (long long)v, (long long)eff);
        G.min_share = eff; for (int d = 0; d < 2; d++) if (G.ga[d].slack < eff) G.ga[d].slack = eff;
        break; }
      case 9: {
        int64_t d = w.tick_us * (int64_t[]){1, 1, 2, 3, 5, 8}[s.below(6)] / (s.flag() ? 2 : 1);
        w.run_end = sim_now_us() + d; w.run_waits = 0;
        TR("run %lld us (now=%lld tick %lld)", (long long)d, (long long)sim_now_us(), (long long)cur_tick());
        int r = event_base_loop(w.base, 0);
        CHECK(r >= 0, "C22/loop-error", "event_base_loop=%d", r);
        if (sim_now_us() < w.run_end) sim_advance_us(w.run_end - sim_now_us());
        drain_peers();
        break; }
    }
  }
  // final accounting
  int nontrivial = 0;
  for (int i = 0; i < w.nb; i++) for (int d = 0; d < 2; d++) { acct_check(w.b[i].a[d], "bev", i, d);
    Acct &a = w.b[i].a[d]; if (a.on) { int full = 0; for (auto &kv : a.bytes) if (kv.second >= a.rate) full++; if (full >= 3) nontrivial = 1; } }
  for (int k = 0; k < w.ng; k++) for (int d = 0; d < 2; d++) { acct_check(w.g[k].ga[d], "group", k, d);
    Acct &a = w.g[k].ga[d]; int full = 0; for (auto &kv : a.bytes) if (kv.second >= a.rate) full++; if (full >= 3) { nontrivial = 1; verif_class("group_bucket_cycled"); } }
  if (nontrivial) verif_class("bucket_exhausted_and_refilled_2x");
  if (w.aborted) verif_class("aborted");
  int64_t tot = 0; for (int i = 0; i < w.nb; i++) tot += w.b[i].moved[0] + w.b[i].moved[1]; if (tot) verif_class("bytes_moved");
  w.teardown = true;
  for (int i = 0; i < w.nb; i++) { MBev &m = w.b[i]; if (!m.bev) continue;
    bufferevent_setcb(m.bev, nullptr, nullptr, nullptr, nullptr); bufferevent_disable(m.bev, EV_READ | EV_WRITE);
    if (m.grp >= 0) bufferevent_remove_from_rate_limit_group(m.bev);
    bufferevent_free(m.bev); m.bev = nullptr; }
  event_base_loop(w.base, EVLOOP_NONBLOCK);
  for (int k = 0; k < w.ng; k++) bufferevent_rate_limit_group_free(w.g[k].grp);
  event_base_free(w.base);
  for (int k = 0; k < NCFG; k++) ev_token_bucket_cfg_free(w.c[k].cfg);
  for (int i = 0; i < MAXB; i++) { if (w.b[i].fd[0] >= 0) close(w.b[i].fd[0]); if (w.b[i].fd[1] >= 0) close(w.b[i].fd[1]); }
  CHECK(sim_mem_live_blocks == live0, "C22/leak", "library allocations outstanding after teardown: %lld", (long long)(sim_mem_live_blocks - live0));
  verif_case_end(nontrivial && !w.aborted, s.h);
  W = nullptr;
  return 0;
}
