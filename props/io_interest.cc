// C05 — the OS interest set equals the union of added I/O events at every wait.
// History of add / del / free / close / reopen ops over <= 5 harness-owned fds (fixed fd numbers, forced with
// dup2) and <= 10 events, on one base whose backend is drawn (epoll, epoll+changelist, poll, select; signalfd or
// self-pipe signals).  Every backend wait is intercepted: the kernel-facing set (epoll interest list from
// /proc/self/fdinfo/<epfd>, the pollfd array, the select input fd_sets) is compared, both ways, with the union of
// conditions of the events the model says are added.
// Preconditions respected (DESIGN.md §2.7): every event on an fd is deleted before the fd is closed; ET and non-ET
// events are never added on one fd at the same time; EV_ET / EV_CLOSED only when the backend advertises the feature;
// no fd registered with libevent ever has a live dup (the temporary fd used for renumbering is closed before libevent
// hears about the new file); events are freed before the base.
#include "verif.h"
#include "sim.h"
#include <errno.h>
#include <fcntl.h>
#include <signal.h>
#include <unistd.h>
#include <sys/epoll.h>
#include <sys/socket.h>
#include <event2/event.h>
#include <event2/event_struct.h>
extern "C" {
#include "event-internal.h"
#include "util-internal.h"
ssize_t __real_read(int, void *, size_t);
ssize_t __real_write(int, const void *, size_t);
}

namespace {
const int NSLOT = 5, NEV = 10;
inline int WFD(int k) { return 60 + 4 * k; }   // watched fd of slot k
inline int PFD(int k) { return 61 + 4 * k; }   // harness-side peer
enum { K_PIPE_R = 0, K_PIPE_W = 1, K_SOCK = 2 };

struct MSlot { bool open = false; int kind = 0; int n[3] = {0, 0, 0}; /* model refcounts R,W,C */ int flips[3] = {0, 0, 0}; bool reopened_in_window = false; bool peer_open = false; bool et_del_in_window = false; };
struct MEv { struct event *ev = nullptr; int slot = 0; short what = 0; bool persist = false, et = false; bool added = false; int cb_action = 0, cb_target = 0; };
struct World {
  Src *s; struct event_base *base; MSlot sl[NSLOT]; MEv e[NEV];
  int backend = 0; int features = 0; struct event *sigev = nullptr;
  uint64_t waits = 0; bool nontrivial = false; int callbacks = 0;
  bool saw_cancel = false, saw_reopen = false, saw_et = false, saw_closed = false, saw_cb_change = false, saw_multi = false;
  bool in_loop = false;
};
World *W;

const short CONDS[3] = {EV_READ, EV_WRITE, EV_CLOSED};
const char *cond_name(int c) { return c == 0 ? "READ" : c == 1 ? "WRITE" : "CLOSED"; }

short slot_union(const MSlot &m) { short u = 0; for (int c = 0; c < 3; c++) if (m.n[c] > 0) u |= CONDS[c]; return u; }
bool slot_et(int k) { for (auto &e : W->e) if (e.ev && e.added && e.slot == k) return e.et; return false; }
bool slot_has_added(int k) { for (auto &e : W->e) if (e.ev && e.added && e.slot == k) return true; return false; }

void model_add(MEv &m) {
  if (m.added) return;
  m.added = true; MSlot &sl = W->sl[m.slot];
  for (int c = 0; c < 3; c++) if (m.what & CONDS[c]) { if (sl.n[c]++ == 0) sl.flips[c]++; }
}
void model_del(MEv &m) {
  if (!m.added) return;
  m.added = false; MSlot &sl = W->sl[m.slot]; if (m.et) sl.et_del_in_window = true;
  for (int c = 0; c < 3; c++) if (m.what & CONDS[c]) { if (--sl.n[c] == 0) sl.flips[c]++; }
}

int owned_slot(int fd, bool *is_peer) {
  for (int k = 0; k < NSLOT; k++) { if (fd == WFD(k)) { *is_peer = false; return k; } if (fd == PFD(k)) { *is_peer = true; return k; } }
  return -1;
}

void open_slot(int k, int kind) {
  int a[2];
  if (kind == K_SOCK) { if (socketpair(AF_UNIX, SOCK_STREAM | SOCK_NONBLOCK, 0, a) != 0) VERIF_FAIL("harness/socketpair", "errno=%d", errno); }
  else { if (pipe2(a, O_NONBLOCK) != 0) VERIF_FAIL("harness/pipe", "errno=%d", errno); if (kind == K_PIPE_W) { int t = a[0]; a[0] = a[1]; a[1] = t; } }
  if (a[0] >= 60 || a[1] >= 60) VERIF_FAIL("harness/fd-range", "kernel handed out fd %d/%d", a[0], a[1]);
  if (dup2(a[0], WFD(k)) < 0 || dup2(a[1], PFD(k)) < 0) VERIF_FAIL("harness/dup2", "errno=%d", errno);
  close(a[0]); close(a[1]);   // the temporary numbers never reach libevent
  W->sl[k].open = true; W->sl[k].peer_open = true; W->sl[k].kind = kind;
}
void close_slot(int k) {
  MSlot &m = W->sl[k]; if (!m.open) return;
  close(WFD(k)); if (m.peer_open) close(PFD(k)); m.open = false; m.peer_open = false;
}

// ------------------------------------------------------------------ oracle at every wait
struct Seen { bool present = false; int count = 0; unsigned mask = 0; };

void read_epoll_set(int epfd, Seen seen[NSLOT], Seen peer[NSLOT]) {
  char path[64], buf[8192]; snprintf(path, sizeof path, "/proc/self/fdinfo/%d", epfd);
  int f = open(path, O_RDONLY | O_CLOEXEC); if (f < 0) VERIF_FAIL("harness/fdinfo-open", "%s errno=%d", path, errno);
  size_t n = 0; for (;;) { ssize_t r = __real_read(f, buf + n, sizeof buf - 1 - n); if (r <= 0) break; n += (size_t)r; if (n >= sizeof buf - 1) break; }
  close(f); buf[n] = 0;
  for (char *p = buf; (p = strstr(p, "tfd:")) != nullptr; p += 4) {
    int tfd = -1; unsigned ev = 0;
    if (sscanf(p, "tfd: %d events: %x", &tfd, &ev) != 2) VERIF_FAIL("harness/fdinfo-parse", "cannot parse '%.60s'", p);
    bool is_peer; int k = owned_slot(tfd, &is_peer); if (k < 0) continue;
    Seen &s = is_peer ? peer[k] : seen[k]; s.present = true; s.count++; s.mask = ev;
  }
}

void check_interest(const struct sim_wait_info *wi) {
  World &w = *W;
  Seen seen[NSLOT], peer[NSLOT];
  // normalise what the kernel was told into {EV_READ, EV_WRITE, EV_CLOSED, EV_ET} per owned fd
  short got[NSLOT]; unsigned other[NSLOT]; for (int k = 0; k < NSLOT; k++) { got[k] = 0; other[k] = 0; }
  const char *bk = "?";
  if (wi->kind == SIM_WAIT_EPOLL) {
    bk = "epoll"; read_epoll_set(wi->epfd, seen, peer);
    for (int k = 0; k < NSLOT; k++) if (seen[k].present) { unsigned m = seen[k].mask;
      if (m & EPOLLIN) got[k] |= EV_READ; if (m & EPOLLOUT) got[k] |= EV_WRITE; if (m & EPOLLRDHUP) got[k] |= EV_CLOSED; if (m & EPOLLET) got[k] |= EV_ET;
      other[k] = m & ~(unsigned)(EPOLLIN | EPOLLOUT | EPOLLRDHUP | EPOLLET | EPOLLERR | EPOLLHUP); }   // the kernel adds ERR|HUP itself
  } else if (wi->kind == SIM_WAIT_POLL) {
    bk = "poll";
    for (int i = 0; i < wi->npfds; i++) { bool is_peer; int k = owned_slot(wi->pfds[i].fd, &is_peer); if (k < 0) continue;
      Seen &s = is_peer ? peer[k] : seen[k]; s.present = true; s.count++; short m = wi->pfds[i].events; s.mask |= (unsigned short)m;
      if (!is_peer) { if (m & POLLIN) got[k] |= EV_READ; if (m & POLLOUT) got[k] |= EV_WRITE; if (m & POLLRDHUP) got[k] |= EV_CLOSED;
        other[k] |= (unsigned short)m & ~(unsigned)(POLLIN | POLLOUT | POLLRDHUP); } }
  } else {
    bk = "select";
    for (int k = 0; k < NSLOT; k++) {
      int fds[2] = {WFD(k), PFD(k)};
      for (int j = 0; j < 2; j++) { int fd = fds[j]; if (fd >= wi->nfds) continue;
        bool r = FD_ISSET(fd, wi->rset), wr = FD_ISSET(fd, wi->wset); if (!r && !wr) continue;
        Seen &s = j ? peer[k] : seen[k]; s.present = true; s.count = 1;
        if (!j) { if (r) got[k] |= EV_READ; if (wr) got[k] |= EV_WRITE; } }
    }
  }
  for (int k = 0; k < NSLOT; k++) {
    MSlot &m = w.sl[k];
    short want = slot_union(m); bool want_et = want && slot_et(k);
    CHECK(!peer[k].present, "C05/stale", "wait#%llu %s: fd %d (never added to the base) is in the kernel interest set", (unsigned long long)wi->ordinal, bk, PFD(k));
    CHECK(seen[k].count <= 1, "C05/duplicate", "wait#%llu %s: fd %d appears %d times in the set handed to the kernel", (unsigned long long)wi->ordinal, bk, WFD(k), seen[k].count);
    if (!want) {
      CHECK(!seen[k].present, "C05/stale", "wait#%llu %s: fd %d (%s) has no added event but is registered with mask 0x%x", (unsigned long long)wi->ordinal, bk, WFD(k), m.open ? "open" : "closed", seen[k].mask);
      continue;
    }
    CHECK(seen[k].present, "C05/missing", "wait#%llu %s: fd %d has added events wanting 0x%x but is not registered at all", (unsigned long long)wi->ordinal, bk, WFD(k), want);
    for (int c = 0; c < 3; c++) {
      bool wn = (want & CONDS[c]) != 0, gt = (got[k] & CONDS[c]) != 0;
      CHECK(!(wn && !gt), "C05/missing", "wait#%llu %s: fd %d: %s wanted by an added event but not registered (want 0x%x, kernel mask 0x%x)", (unsigned long long)wi->ordinal, bk, WFD(k), cond_name(c), want, seen[k].mask);
      CHECK(!(!wn && gt), "C05/stale", "wait#%llu %s: fd %d: %s registered but no added event wants it (want 0x%x, kernel mask 0x%x)", (unsigned long long)wi->ordinal, bk, WFD(k), cond_name(c), want, seen[k].mask);
    }
    CHECK(other[k] == 0, "C05/stale", "wait#%llu %s: fd %d registered with unexpected bits 0x%x (mask 0x%x)", (unsigned long long)wi->ordinal, bk, WFD(k), other[k], seen[k].mask);
    bool got_et = (got[k] & EV_ET) != 0;
    // known finding (see props/C05.json): with the changelist, an ET event deleted and a non-ET event added on the same fd
    // between two waits leaves EPOLLET set (the DEL change still carries EV_CHANGE_ET)
    if (got_et && !want_et && w.backend == 1 && m.et_del_in_window)
      VERIF_FAIL("C05/changelist-stale-et-after-del", "wait#%llu %s: fd %d registered edge-triggered (kernel mask 0x%x) but its added events (want 0x%x) are level-triggered; an ET event on this fd was deleted since the previous wait", (unsigned long long)wi->ordinal, bk, WFD(k), seen[k].mask, want);
    CHECK(got_et == want_et, "C05/et-mismatch", "wait#%llu %s: fd %d edge-triggered in kernel=%d, requested by its added events=%d (want 0x%x, kernel mask 0x%x)", (unsigned long long)wi->ordinal, bk, WFD(k), got_et, want_et, want, seen[k].mask);
  }
}

int64_t wait_hook(const struct sim_wait_info *wi, void *) {
  World &w = *W;
  w.waits++;
  TR("  wait#%llu kind=%d nready=%d", (unsigned long long)wi->ordinal, wi->kind, wi->nready);
  check_interest(wi);
  // non-trivial rule: a cancelling pair or close+reopen happened between the previous wait and this one
  if (w.waits >= 2) for (int k = 0; k < NSLOT; k++) { MSlot &m = w.sl[k];
    for (int c = 0; c < 3; c++) if (m.flips[c] >= 2) { w.nontrivial = true; w.saw_cancel = true; }
    if (m.reopened_in_window) { w.nontrivial = true; w.saw_reopen = true; } }
  for (int k = 0; k < NSLOT; k++) { MSlot &m = w.sl[k]; m.flips[0] = m.flips[1] = m.flips[2] = 0; m.reopened_in_window = false; m.et_del_in_window = false; }
  if (wi->timeout_us < 0) event_base_loopbreak(w.base);
  return 0;
}

bool can_add(const MEv &m) {
  if (!m.ev || !W->sl[m.slot].open) return false;
  if (m.added) return true;
  if (slot_has_added(m.slot) && slot_et(m.slot) != m.et) return false;   // never mix ET and non-ET on one fd
  if (!m.et && W->backend == 1 && W->sl[m.slot].et_del_in_window && verif_known("C05/changelist-stale-et-after-del")) { verif_known_skipped("C05/changelist-stale-et-after-del"); return false; }
  return true;
}
void do_add(int i, const char *who) {
  MEv &m = W->e[i]; if (!can_add(m)) return;
  int r = event_add(m.ev, nullptr);
  TR("%sadd ev%d (fd %d what=0x%x%s%s) -> %d", who, i, WFD(m.slot), m.what, m.persist ? " persist" : "", m.et ? " et" : "", r);
  CHECK(r == 0, "C05/add-failed", "event_add(ev%d fd %d what 0x%x) returned %d", i, WFD(m.slot), m.what, r);
  model_add(m);
}
void do_del(int i, const char *who) {
  MEv &m = W->e[i]; if (!m.ev) return;
  int r = event_del(m.ev);
  TR("%sdel ev%d (fd %d what=0x%x) -> %d", who, i, WFD(m.slot), m.what, r);
  CHECK(r == 0, "C05/del-failed", "event_del(ev%d) returned %d", i, r);
  model_del(m);
}

void io_cb(evutil_socket_t fd, short what, void *arg) {
  int i = (int)(intptr_t)arg; World &w = *W; MEv &m = w.e[i];
  TR("  cb ev%d fd=%d what=0x%x", i, (int)fd, what);
  CHECK(m.ev && m.added, "C05/callback-for-unadded-event", "callback for event %d (fd %d) which the model says is not added", i, (int)fd);
  w.callbacks++;
  if (!m.persist) model_del(m);   // non-persistent events are removed when they become active
  switch (m.cb_action) {
    case 1: do_del(i, "    in-cb "); w.saw_cb_change = true; break;
    case 2: do_add(i, "    in-cb "); w.saw_cb_change = true; break;
    case 3: do_del(m.cb_target, "    in-cb "); w.saw_cb_change = true; break;
    case 4: do_add(m.cb_target, "    in-cb "); w.saw_cb_change = true; break;
    default: break;
  }
}
void sig_cb(evutil_socket_t, short, void *) {}

void del_all_on_slot(int k) { for (int i = 0; i < NEV; i++) if (W->e[i].ev && W->e[i].slot == k && W->e[i].added) do_del(i, "  "); }
}  // namespace

extern "C" int LLVMFuzzerInitialize(int *, char ***) {
  sim_mem_install();
  for (int fd = 60; fd < 60 + 4 * NSLOT; fd++) if (fcntl(fd, F_GETFD) != -1) { fprintf(stderr, "io_interest: fd %d already open at start-up\n", fd); abort(); }
  signal(SIGPIPE, SIG_IGN);
  return 0;
}

extern "C" int LLVMFuzzerTestOneInput(const uint8_t *data, size_t size) {
  sim_reset();
  verif_case_begin("C05");
  Src s(data, size);
  World w; W = &w; w.s = &s;
  int64_t live0 = sim_mem_live_blocks;
  sim_clock_enable(SIM_START_US);
  sim_set_wait_hook(wait_hook, nullptr);
  struct event_config *cfg = event_config_new();
  w.backend = s.below(4);
  static const char *AVOID[][3] = {{nullptr}, {nullptr}, {"epoll", nullptr}, {"epoll", "poll", nullptr}};
  for (int k = 0; AVOID[w.backend][k]; k++) event_config_avoid_method(cfg, AVOID[w.backend][k]);
  int flags = EVENT_BASE_FLAG_IGNORE_ENV;
  if (w.backend == 1) flags |= EVENT_BASE_FLAG_EPOLL_USE_CHANGELIST;
  int sigmode = s.below(3);   // 0 no signal event, 1 self-pipe, 2 signalfd
  if (sigmode == 2) flags |= EVENT_BASE_FLAG_USE_SIGNALFD;
  event_config_set_flag(cfg, flags);
  w.base = event_base_new_with_config(cfg); event_config_free(cfg);
  if (!w.base) VERIF_FAIL("harness/no-base", "backend %d", w.backend);
  evutil_weakrand_seed_(&w.base->weakrand_seed, 1 + s.below(255));   // poll/select start index: a function of the input, not of the pid
  w.features = event_base_get_features(w.base);
  bool can_et = (w.features & EV_FEATURE_ET) != 0, can_closed = (w.features & EV_FEATURE_EARLY_CLOSE) != 0;
  TR("base method=%s flags=0x%x features=0x%x sigmode=%d", event_base_get_method(w.base), flags, w.features, sigmode);
  static const char *BK[] = {"bk_epoll", "bk_epoll_changelist", "bk_poll", "bk_select"};
  if (sigmode) {   // a library-internal fd (self-pipe / signalfd) joins the kernel set: the oracle must ignore it, poll must shift around it
    w.sigev = evsignal_new(w.base, SIGUSR1, sig_cb, nullptr); int r = event_add(w.sigev, nullptr);
    CHECK(r == 0, "C05/add-failed", "signal event add returned %d", r);
  }

  for (int step = 0; step < 64; step++) {
    int op = s.below(12);
    if (op == 0) break;
    switch (op) {
      case 1: {   // open a closed slot
        int k = s.below(NSLOT); int kind = s.below(3);
        if (!w.sl[k].open) { open_slot(k, kind); TR("open slot%d kind=%d fd=%d", k, kind, WFD(k)); }
        break; }
      case 2: {   // new event
        int i = s.below(NEV); int k = s.below(NSLOT); int wsel = s.below(8); bool persist = s.flag(); bool et = s.chance(1, 3); int act = s.below(8); int tgt = s.below(NEV);
        MEv &m = w.e[i]; if (m.ev) break;
        short what = 0; if (wsel & 1) what |= EV_READ; if (wsel & 2) what |= EV_WRITE; if ((wsel & 4) && can_closed) what |= EV_CLOSED; if (!what) what = EV_READ;
        if (!can_et) et = false;
        m = MEv(); m.slot = k; m.what = what; m.persist = persist; m.et = et; m.cb_action = act > 4 ? 0 : act; m.cb_target = tgt;
        if (!persist && m.cb_action == 1) m.cb_action = 0; if (persist && m.cb_action == 2) m.cb_action = 0;
        m.ev = event_new(w.base, WFD(k), what | (persist ? EV_PERSIST : 0) | (et ? EV_ET : 0), io_cb, (void *)(intptr_t)i);
        if (!m.ev) VERIF_FAIL("harness/event-new", "NULL");
        TR("new ev%d fd=%d what=0x%x persist=%d et=%d cb_action=%d/%d", i, WFD(k), what, persist, et, m.cb_action, m.cb_target);
        if (et) w.saw_et = true; if (what & EV_CLOSED) w.saw_closed = true;
        if (w.sl[k].open && s.flag()) do_add(i, "");
        break; }
      case 3: case 4: do_add(s.below(NEV), ""); break;
      case 5: do_del(s.below(NEV), ""); break;
      case 6: {   // cancelling pair on one event
        int i = s.below(NEV); MEv &m = w.e[i]; if (!m.ev) break;
        if (m.added) { do_del(i, "pair: "); do_add(i, "pair: "); } else if (can_add(m)) { do_add(i, "pair: "); do_del(i, "pair: "); }
        break; }
      case 7: {   // close (and maybe reopen with a possibly different kind of file) — always after deleting the fd's events
        int k = s.below(NSLOT); bool reopen = s.below(4) != 0; int kind = s.below(3); int readd = s.below(4);
        if (!w.sl[k].open) break;
        bool had[NEV]; for (int i = 0; i < NEV; i++) had[i] = w.e[i].ev && w.e[i].slot == k && w.e[i].added;
        del_all_on_slot(k);
        close_slot(k); TR("close slot%d fd=%d", k, WFD(k));
        if (reopen) { open_slot(k, kind); TR("reopen slot%d kind=%d fd=%d", k, kind, WFD(k)); w.sl[k].reopened_in_window = true;
          if (readd) for (int i = 0; i < NEV; i++) if (had[i] && (readd == 1 || s.flag())) do_add(i, "  re"); }
        break; }
      case 8: {   // free an event (event_free deletes it)
        int i = s.below(NEV); MEv &m = w.e[i]; if (!m.ev) break;
        TR("free ev%d", i); model_del(m); event_free(m.ev); m.ev = nullptr; break; }
      case 9: {   // make the fd ready / not ready from the peer side
        int k = s.below(NSLOT); int how = s.below(4); MSlot &m = w.sl[k]; if (!m.open) break;
        char b[64]; memset(b, 'x', sizeof b);
        if (how == 0 && m.peer_open && m.kind != K_PIPE_W) { ssize_t r = __real_write(PFD(k), b, 1); TR("peer of slot%d writes 1 -> %zd", k, r); }
        else if (how == 1 && m.kind != K_PIPE_W) { ssize_t r = __real_read(WFD(k), b, sizeof b); TR("drain slot%d -> %zd", k, r); }
        else if (how == 2 && m.peer_open && m.kind == K_SOCK) { shutdown(PFD(k), SHUT_WR); TR("peer of slot%d shutdown(WR)", k); }
        else if (how == 3 && m.peer_open) { close(PFD(k)); m.peer_open = false; TR("peer of slot%d closed", k); }
        break; }
      case 10: case 11: {
        int lf = EVLOOP_ONCE | EVLOOP_NONBLOCK;   // exactly one poll-and-dispatch pass (plain NONBLOCK keeps iterating while callbacks run)
        TR("turn");
        for (int k = 0; k < NSLOT; k++) { int na = 0; for (auto &e : w.e) if (e.ev && e.added && e.slot == k) na++; if (na >= 2) w.saw_multi = true; }
        w.in_loop = true; int r = event_base_loop(w.base, lf); w.in_loop = false;
        TR("turn -> %d", r);
        CHECK(r >= 0, "C05/loop-error", "event_base_loop returned %d", r);
        break; }
    }
    event_base_assert_ok_(w.base);
  }
  for (auto &m : w.e) if (m.ev) { event_free(m.ev); m.ev = nullptr; }
  if (w.sigev) event_free(w.sigev);
  event_base_free(w.base);
  for (int k = 0; k < NSLOT; k++) close_slot(k);
  CHECK(sim_mem_live_blocks == live0, "C05/leak", "library allocations outstanding after base free: %lld", (long long)(sim_mem_live_blocks - live0));
  int nontrivial = w.nontrivial && w.waits >= 2;
  verif_class(BK[w.backend]);
  if (w.waits >= 2) verif_class("two_waits"); if (w.saw_cancel) verif_class("cancel_pair_between_waits"); if (w.saw_reopen) verif_class("reopen_between_waits");
  if (w.saw_et) verif_class("et_event"); if (w.saw_closed) verif_class("closed_event"); if (w.saw_cb_change) verif_class("change_in_callback");
  if (w.callbacks) verif_class("callback_ran"); if (w.saw_multi) verif_class("several_events_on_one_fd"); if (sigmode) verif_class("internal_fd_present");
  if (nontrivial) verif_class(w.backend == 0 ? "nt_epoll" : w.backend == 1 ? "nt_changelist" : w.backend == 2 ? "nt_poll" : "nt_select");
  verif_case_end(nontrivial, s.h);
  W = nullptr;
  return 0;
}
