// C37 — the DNS server parses any incoming packet safely and faithfully.
// One server port per case (UDP or TCP), 1-4 messages from a grammar of valid and adversarial queries (compression pointers
// backward / forward / self / looping / into the header / out of range, reserved label types, unterminated and over-long names,
// truncated RRs, RDLENGTH lies, huge counts, opcodes 0-15, QR set, OPT records with sizes 0..65535, cuts, bit flips, trailing
// bytes).  UDP: one datagram per loop turn.  TCP: the messages are framed with 2-byte prefixes that may lie (zero, larger or
// smaller than the data), concatenated and delivered in generated pieces; the reference re-frames the byte stream by itself.
// Every reference-framed message is classified with an RFC 1035 walk of its own (this file + refs/dnscodec.hh):
//   MUST    well-formed standard query                 -> exactly one callback with exactly the decoded questions
//   MUSTNOT no header / QR set / question section not decodable / opcode != 0   -> no callback
//   MAY     question section fine but something else is off (later sections, forward pointers, no question, ...)
// The callback answers (nothing / a padding record of generated size / drop); every response must belong to a callback or be
// the NOTIMPL answer to a non-standard opcode, and must respect the size limit given by the query's OPT record.
#include "dns_server_common.hh"
using namespace dnss;

namespace {
static inline bool rare(Src &s, uint32_t num, uint32_t den) { return s.below(den) >= den - num; }   // false when the input is exhausted
static uint8_t g_pad[70000];

// ---------------------------------------------------------------------------------------- reference classification
enum { V_MUSTNOT = 0, V_MAY = 1, V_MUST = 2 };
struct NameScan { bool ok = false; Labels labels; bool reserved = false, fwd = false, into_header = false, too_long = false; size_t next = 0; };
// RFC 1035 4.1.4 walk that also says why a name is not acceptable
static NameScan scan_name(const uint8_t *p, size_t n, size_t off) {
  NameScan r; size_t j = off, after = (size_t)-1, total = 1; int hops = 0;
  for (;;) {
    if (j >= n) return r;
    uint8_t c = p[j];
    if ((c & 0xc0) == 0xc0) {
      if (j + 1 >= n) return r;
      size_t tgt = ((size_t)(c & 0x3f) << 8) | p[j + 1];
      if (after == (size_t)-1) after = j + 2;
      if (tgt >= j) r.fwd = true;
      if (tgt < 12) r.into_header = true;
      if (tgt >= n) return r;
      if (++hops > 255) return r;
      j = tgt; continue;
    }
    if (c & 0xc0) { r.reserved = true; return r; }
    j++;
    if (c == 0) break;
    if (j + c > n) return r;
    r.labels.push_back(std::string((const char *)p + j, c)); total += 1 + c; j += c;
    if (total > 255) r.too_long = true;
    if (total > 2048) return r;
  }
  r.next = after == (size_t)-1 ? j : after; r.ok = true; return r;
}
struct Knowns { bool notimpl, reserved, overlong; };
struct Ref {
  bool anyq = false;                           // (known finding open) whatever questions the callback reports are tolerated
  int verdict = V_MUSTNOT; const char *why = ""; uint16_t id = 0, flags = 0; bool hdr = false;
  std::vector<Question> q; std::vector<std::string> qstr; bool plain = true;
  bool reserved = false, overlong = false;     // why the question section was refused
  bool sections_ok = false;                    // answer / authority / additional decode completely, no trailing bytes
  int opt_state = 0; uint16_t opt_size = 0;    // 0 no OPT, 1 exactly one root-owned OPT in the additional section, 2 anything else involving type 41
  bool notimpl = false;                        // opcode != 0 on an otherwise well-formed message: NOTIMPL answer required
};
static Ref classify(const uint8_t *p, size_t n, const Knowns &k) {
  Ref r;
  if (n < 12) { r.why = "shorter than a header"; return r; }
  r.hdr = true; r.id = rd16(p); r.flags = rd16(p + 2);
  unsigned qd = rd16(p + 4), cnt[3] = {rd16(p + 6), rd16(p + 8), rd16(p + 10)};
  if (r.flags & F_QR) { r.why = "QR set"; return r; }
  size_t off = 12; bool lenient = false;
  for (unsigned i = 0; i < qd; i++) {
    NameScan nm = scan_name(p, n, off);
    if (!nm.ok || nm.next + 4 > n) { r.reserved = nm.reserved; r.why = nm.reserved ? "reserved label type in a question name" : "question section not decodable"; r.q.clear();
      if (nm.reserved && k.reserved) { r.verdict = V_MAY; r.anyq = true; r.opt_state = 2; }      // open finding: evdns follows 01/10 labels as pointers
      return r; }
    if (nm.too_long) { r.overlong = true; }
    if (nm.fwd || nm.into_header) lenient = true;
    Question qq; qq.name = nm.labels; qq.type = rd16(p + nm.next); qq.klass = rd16(p + nm.next + 2); off = nm.next + 4;
    r.q.push_back(qq); std::string js = join(nm.labels); r.qstr.push_back(std::string(js.c_str()));     // what a C string can carry: cut at the first NUL
    if (!plain_labels(nm.labels)) r.plain = false;
    for (auto &l : nm.labels) if (l.find('\0') != std::string::npos) lenient = true;   // a label with a NUL octet cannot be handed to the callback as a C string: refusing the query is as good as running it ("may")
  }
  if (r.overlong && !k.overlong) { r.why = "question name longer than 255 octets"; return r; }
  if (r.overlong) { lenient = true; verif_known_skipped("C37/overlong-question-name-accepted"); }
  // the other sections
  bool rest_ok = true; int opts = 0, opts_clean = 0;
  for (int s = 0; s < 3 && rest_ok; s++) for (unsigned i = 0; i < cnt[s]; i++) {
    NameScan nm = scan_name(p, n, off);
    if (!nm.ok || nm.next + 10 > n) { rest_ok = false; break; }
    if (nm.too_long || nm.fwd || nm.into_header) lenient = true;
    uint16_t t = rd16(p + nm.next), c = rd16(p + nm.next + 2), rdl = rd16(p + nm.next + 8);
    if (nm.next + 10 + rdl > n) { rest_ok = false; if (t == T_OPT) opts = 2; break; }
    if (t == T_OPT) { if (s == 2) { opts++; if (nm.labels.empty() && opts == 1) { opts_clean = 1; r.opt_size = c; } else opts_clean = 0; } else lenient = true; }
    off = nm.next + 10 + rdl;
  }
  if (rest_ok && off != n) { lenient = true; }                 // trailing bytes
  r.sections_ok = rest_ok && off == n;
  r.opt_state = !rest_ok ? 2 : opts == 0 ? 0 : (opts == 1 && opts_clean) ? 1 : 2;
  if ((r.flags & F_OPMASK) && !k.notimpl) { r.why = "opcode is not QUERY"; r.notimpl = rest_ok && !lenient && qd >= 1 && r.plain; return r; }
  if (r.flags & F_OPMASK) lenient = true;      // open finding: evdns treats every opcode as QUERY
  if (!rest_ok) { r.verdict = V_MAY; r.why = "a later section is not decodable"; return r; }
  if (qd == 0) { r.verdict = V_MAY; r.why = "no question"; return r; }
  if (lenient) { r.verdict = V_MAY; r.why = "forward pointer / pointer into the header / over-long RR name / OPT outside the additional section / trailing bytes"; return r; }
  r.verdict = V_MUST; r.why = "well-formed standard query"; return r;
}

// ---------------------------------------------------------------------------------------- the grammar
const char LAB[] = "abcxyzXYZ019-_";
static Labels gen_labels(Src &s) {
  Labels l; int n = 1 + s.below(3);
  for (int i = 0; i < n; i++) { int len = 1 + s.below(6); if (rare(s, 1, 10)) len = s.flag() ? 63 : 30;
    std::string x; for (int k = 0; k < len; k++) x.push_back(LAB[s.below(sizeof LAB - 1)]); l.push_back(x); }
  return l;
}
static void put_qname(Src &s, Builder &b, std::vector<size_t> &name_offs, bool adv, const Knowns &k) {
  size_t here = b.size(); int mode = adv ? s.below(16) : s.below(3);
  Labels l = gen_labels(s);
  switch (mode) {
    case 0: b.name(l); name_offs.push_back(here); break;
    case 1: if (!name_offs.empty()) { Labels h(l.begin(), l.begin() + 1); b.labels_then_ptr(h, (unsigned)name_offs[s.below((uint32_t)name_offs.size())]); } else b.name(l); name_offs.push_back(here); break;
    case 2: if (!name_offs.empty()) b.ptr((unsigned)name_offs[s.below((uint32_t)name_offs.size())]); else b.u8(0); break;      // whole-name pointer / the root
    case 3: b.ptr((unsigned)here); break;                                        // pointer to itself
    case 4: b.labels_then_ptr(l, (unsigned)here); break;                         // loop through its own labels
    case 5: b.labels_then_ptr(l, (unsigned)(b.size() + wire_len(l) + 1 + s.below(24))); break;   // forward pointer
    case 6: b.ptr(s.below(12)); break;                                           // into the header
    case 7: b.ptr(0x3fff - s.below(256)); break;                                 // out of range
    case 8: { if (s.flag()) { b.u8(3); b.raw("abc", 3); } b.u8((s.flag() ? 0x40 : 0x80) | s.below(0x40)); b.u8(s.below(256)); b.u8(0); } break;   // 01 / 10 label types
    case 9: for (auto &x : l) { b.u8((unsigned)x.size()); b.raw(x.data(), x.size()); } break;                                     // no terminator
    case 10: { // total length around the 255-octet limit: 253..258 octets, or far beyond
      int wire = 253 + (int)s.below(8); if (wire == 260) wire = 400;
      int body = wire - 1; Labels big;
      while (body > 0) { int take = body > 64 ? 63 : body - 1; if (body - 1 - take == 1) take--; if (take <= 0) break; big.push_back(std::string((size_t)take, (char)('a' + big.size() % 26))); body -= take + 1; }
      b.name(big); name_offs.push_back(here); break; }
    case 11: { std::string x = l[0]; x[s.below((uint32_t)x.size())] = s.flag() ? '.' : (s.flag() ? '\0' : (char)(0x80 + s.below(0x80))); Labels w = l; w[0] = x; b.name(w); break; }   // '.', NUL, high bytes inside a label
    case 12: b.u8(0); break;                                                     // the root
    case 13: b.u8(64 + s.below(64)); b.raw("abcdefgh", 8); b.u8(0); break;     // runaway length / reserved type
    default: b.name(l); name_offs.push_back(here); break;
  }
}
static void put_rr(Src &s, Builder &b, std::vector<size_t> &name_offs, bool adv) {
  int mode = adv ? s.below(8) : 0;
  if (s.flag() && !name_offs.empty()) b.ptr((unsigned)name_offs[0]); else b.name(gen_labels(s));
  static const uint16_t T[] = {T_A, T_NS, T_CNAME, T_TXT, T_AAAA, 255, 0};
  uint16_t t = T[s.below(7)]; size_t dl = s.below(12);
  switch (mode) {
    case 1: b.u16(t); b.u16(1); return;                                          // truncated inside the fixed part
    case 2: b.rr_fixed(t, 1, 60, 0xffff); b.raw(g_pad, dl); return;              // RDLENGTH runs far past the end
    case 3: b.rr_fixed(t, 1, 60, (uint16_t)(dl + 1 + s.below(4))); b.raw(g_pad, dl); return;   // slightly past the end (if last)
    default: b.rr_fixed(t, 1, 60, (uint16_t)dl); b.raw(g_pad, dl); return;
  }
}
struct GenMsg { std::vector<uint8_t> bytes; };
static GenMsg gen_message(Src &s, int idx, const Knowns &k) {
  GenMsg g; Builder b; bool adv = s.below(4) != 0;
  uint16_t id = (uint16_t)(0x1000 + idx * 0x0111 + s.below(16));
  uint16_t flags = s.flag() ? F_RD : 0; if (rare(s, 1, 6)) flags |= 0x0010;
  if (adv) {
    if (rare(s, 1, 5)) { flags |= (uint16_t)((1 + s.below(15)) << 11); }
    if (rare(s, 1, 12)) flags |= F_QR;
    if (rare(s, 1, 6)) flags |= (uint16_t)(s.below(0x800) & ~F_RD);     // AA TC RA Z AD CD rcode bits
  }
  int qd = 1; if (rare(s, 1, 4)) qd = s.below(5);
  static const uint16_t QT[] = {T_A, T_AAAA, T_PTR, 255, 0, 65535, T_OPT};
  b.header(id, flags, (uint16_t)qd, 0, 0, 0);
  std::vector<size_t> offs;
  for (int i = 0; i < qd; i++) { put_qname(s, b, offs, adv && rare(s, 1, 2), k); b.u16(QT[s.below(7)]); b.u16(rare(s, 1, 6) ? (uint16_t)s.boundary(16) : 1); }
  int an = 0, ns = 0, ar = 0;
  if (adv && rare(s, 1, 5)) { an = 1 + s.below(2); for (int i = 0; i < an; i++) put_rr(s, b, offs, rare(s, 1, 3)); }
  if (adv && rare(s, 1, 8)) { ns = 1; put_rr(s, b, offs, rare(s, 1, 3)); }
  if (adv && rare(s, 1, 8)) { ar++; put_rr(s, b, offs, rare(s, 1, 4)); }
  if (s.flag()) {   // OPT
    static const int SZ[] = {512, 0, 1, 100, 511, 513, 600, 1232, 4096, 16384, 65535};
    int nopt = (adv && rare(s, 1, 12)) ? 2 : 1;
    for (int i = 0; i < nopt; i++) {
      unsigned size = rare(s, 1, 4) ? (unsigned)s.below(65536) : (unsigned)SZ[s.below(11)];
      if (adv && rare(s, 1, 10)) b.name(gen_labels(s)); else b.u8(0);
      size_t dl = (adv && rare(s, 1, 6)) ? s.below(12) : 0;
      b.u16(T_OPT); b.u16(size); b.u32(adv && rare(s, 1, 6) ? (uint32_t)s.boundary(32) : 0);
      if (adv && rare(s, 1, 10)) { b.u16(0xffff); } else { b.u16((unsigned)dl); b.raw(g_pad, dl); }
      ar++;
    }
    if (adv && rare(s, 1, 8)) { ar++; put_rr(s, b, offs, false); }
  }
  b.set16(6, (unsigned)an); b.set16(8, (unsigned)ns); b.set16(10, (unsigned)ar);
  if (adv) {
    if (rare(s, 1, 8)) { static const int LIE[] = {1, -1, 65535, 2}; int which = s.below(4); int v = rd16(b.b.data() + 4 + 2 * which); int nv = which == 0 ? v + LIE[s.below(4)] : v + LIE[s.below(4)]; b.set16(4 + 2 * (size_t)which, (unsigned)(nv & 0xffff)); }
    if (rare(s, 1, 8)) { size_t cut = s.below((uint32_t)b.size() + 1); b.b.resize(cut); }
    if (rare(s, 1, 8)) { int flips = 1 + s.below(3); for (int i = 0; i < flips && !b.b.empty(); i++) { size_t at = s.below((uint32_t)b.b.size()); uint8_t bit = (uint8_t)(1u << s.below(8));
        b.b[at] ^= bit; } }
    if (rare(s, 1, 10)) { size_t extra = rare(s, 1, 6) ? 1200 + s.below(1500) : 1 + s.below(8); b.raw(g_pad, extra); }
  }
  g.bytes = b.b; return g;
}

// ---------------------------------------------------------------------------------------- the server side of the case
struct CbRec { bool has_id = false; uint16_t resp_id = 0; std::vector<std::string> names; std::vector<int> types, classes; int flags = 0; int respond_ret = -99; int mode = 0; long pad = -1; bool dropped = false; };
struct Ctx { std::vector<CbRec> cbs; std::vector<int> modes; std::vector<long> pads; };
void server_cb(struct evdns_server_request *req, void *arg) {
  Ctx *c = (Ctx *)arg; CbRec r; size_t k = c->cbs.size();
  r.flags = req->flags;
  for (int i = 0; i < req->nquestions; i++) { r.names.push_back(req->questions[i]->name); r.types.push_back(req->questions[i]->type); r.classes.push_back(req->questions[i]->dns_question_class); }
  r.mode = k < c->modes.size() ? c->modes[k] : 0; r.pad = k < c->pads.size() ? c->pads[k] : 0;
  TR("  callback #%zu: %d question(s)%s%s mode=%d pad=%ld", k, req->nquestions, req->nquestions ? " first=" : "", req->nquestions ? esc(r.names[0], 60).c_str() : "", r.mode, r.pad);
  if (r.mode == 2) { evdns_server_request_drop(req); r.dropped = true; }
  else {
    if (r.mode == 1) { int ret = evdns_server_request_add_reply(req, EVDNS_ANSWER_SECTION, ".", 16, 1, 5, (int)r.pad, 0, r.pad ? (const char *)g_pad : nullptr); CHECK(ret == 0, "C37/add-failed", "add_reply(%ld bytes) returned %d", r.pad, ret); }
    r.respond_ret = evdns_server_request_respond(req, 0);
    if (r.respond_ret < 0) { evdns_server_request_drop(req); }
  }
  c->cbs.push_back(r);
}

struct Framed { std::vector<uint8_t> bytes; size_t end_off = 0; Ref ref; };

// is there an assignment of the observed callbacks (in order) to the messages (in order) that satisfies every verdict?
static bool cb_matches(const Ref &r, const CbRec &c) {
  if (c.has_id && c.resp_id != r.id) return false;      // its response names the message it came from
  if (r.anyq) return true;
  if (c.names.size() != r.q.size()) return false;
  for (size_t i = 0; i < r.q.size(); i++) if (c.names[i] != r.qstr[i] || c.types[i] != r.q[i].type || c.classes[i] != r.q[i].klass) return false;
  return true;
}
static bool align(const std::vector<Framed> &ms, size_t i, const std::vector<CbRec> &cbs, size_t j, std::vector<int> &assign) {
  if (i == ms.size()) return j == cbs.size();
  int v = ms[i].ref.verdict;
  if (v != V_MUSTNOT && j < cbs.size() && cb_matches(ms[i].ref, cbs[j])) { assign[i] = (int)j; if (align(ms, i + 1, cbs, j + 1, assign)) return true; }
  if (v != V_MUST) { assign[i] = -1; if (align(ms, i + 1, cbs, j, assign)) return true; }
  return false;
}
// the k-th response that is not a NOTIMPL answer was produced by the k-th callback that responded: learn the message id of each callback
static void annotate(std::vector<CbRec> &cbs, size_t cb_from, const std::vector<std::vector<uint8_t>> &resp, size_t resp_from) {
  std::vector<size_t> who; for (size_t i = cb_from; i < cbs.size(); i++) if (!cbs[i].dropped && cbs[i].respond_ret == 0) who.push_back(i);
  std::vector<size_t> which; for (size_t i = resp_from; i < resp.size(); i++) if (resp[i].size() >= 12 && (rd16(resp[i].data() + 2) & F_RCODE) != 4) which.push_back(i);
  if (who.size() != which.size()) return;
  for (size_t k = 0; k < who.size(); k++) { cbs[who[k]].has_id = true; cbs[who[k]].resp_id = rd16(resp[which[k]].data()); }
}
// callbacks (in order) against the verdicts of the messages (in order); fills assign[i] = index of the callback of message i, or -1
static void check_callbacks(const std::vector<Framed> &ms, const std::vector<CbRec> &cbs, std::vector<int> &assign, bool tcp) {
  assign.assign(ms.size(), -1);
  // ---- callbacks vs verdicts
  bool ok = align(ms, 0, cbs, 0, assign);
  if (!ok) {
    // find the best explanation for the report
    for (size_t i = 0; i < ms.size(); i++) {
      const Ref &r = ms[i].ref;
      for (auto &cb : cbs) if (cb_matches(r, cb) || (r.q.empty() && !r.hdr)) { (void)cb; }
    }
    // walk greedily to name the first disagreement
    size_t j = 0;
    for (size_t i = 0; i < ms.size(); i++) {
      const Ref &r = ms[i].ref; bool m = j < cbs.size() && cb_matches(r, cbs[j]);
      bool got_cb_any = j < cbs.size();
      if (r.verdict == V_MUSTNOT) {
        // does the next callback look like it came from this message?  (same question count / first name from its bytes)
        if (got_cb_any && (r.flags & F_OPMASK) && r.hdr && !(r.flags & F_QR) && (m || true) && !r.q.empty() && cb_matches(r, cbs[j]))
          VERIF_FAIL("C37/nonzero-opcode-not-refused", "message %zu has opcode %u but the request callback ran for it (questions \"%s\"...); no NOTIMPL answer", i, (r.flags & F_OPMASK) >> 11, esc(cbs[j].names.empty() ? "" : cbs[j].names[0], 60).c_str());
        if (got_cb_any && r.overlong && cb_matches(r, cbs[j]))
          VERIF_FAIL("C37/overlong-question-name-accepted", "message %zu carries a question name of more than 255 octets (%zu labels) and the request callback ran for it", i, r.q[0].name.size());
        if (got_cb_any && r.reserved)
          VERIF_FAIL("C37/reserved-label-type-accepted", "message %zu has a label of a reserved type (01/10) in its question section (%s), yet the request callback ran with question \"%s\"", i, hexs(ms[i].bytes.data(), ms[i].bytes.size(), 48).c_str(), esc(cbs[j].names.empty() ? "" : cbs[j].names[0], 60).c_str());
        continue;
      }
      if (m) { j++; continue; }
      if (r.verdict == V_MUST) {
        if (got_cb_any && cbs[j].names.size() == r.q.size()) VERIF_FAIL("C37/callback-questions-differ", "message %zu (%s): callback question \"%s\" %d/%d, the reference decodes \"%s\" %u/%u", i, hexs(ms[i].bytes.data(), ms[i].bytes.size(), 48).c_str(), esc(cbs[j].names.empty() ? "" : cbs[j].names[0], 80).c_str(), cbs[j].types.empty() ? -1 : cbs[j].types[0], cbs[j].classes.empty() ? -1 : cbs[j].classes[0], esc(r.qstr.empty() ? "" : r.qstr[0], 80).c_str(), r.q.empty() ? 0 : r.q[0].type, r.q.empty() ? 0 : r.q[0].klass);
        VERIF_FAIL("C37/wellformed-query-no-callback", "message %zu is a well-formed standard query (%s) but no matching callback ran (%zu callback(s) in all, %s)", i, hexs(ms[i].bytes.data(), ms[i].bytes.size(), 60).c_str(), cbs.size(), tcp ? "TCP" : "UDP");
      }
    }
    VERIF_FAIL("C37/unexpected-callback", "%zu callback(s) ran for %zu message(s); callback #%zu (questions=%zu first=\"%s\") cannot be attributed to a message that allows it", cbs.size(), ms.size(), j, j < cbs.size() ? cbs[j].names.size() : 0, (j < cbs.size() && !cbs[j].names.empty()) ? esc(cbs[j].names[0], 60).c_str() : "");
  }
}
}  // namespace

extern "C" int LLVMFuzzerInitialize(int *, char ***) {
  common_init();
  for (size_t i = 0; i < sizeof g_pad; i++) g_pad[i] = (uint8_t)(0x30 + i % 75);
  return 0;
}

extern "C" int LLVMFuzzerTestOneInput(const uint8_t *data, size_t size) {
  sim_reset();
  verif_case_begin("C37");
  Src s(data, size);
  // open finding C37/overlong-question-name-accepted relaxes the verdict for question names of 256/257 octets to "may" (see classify)
  Knowns k = {false, false, verif_known("C37/overlong-question-name-accepted") != 0};
  bool tcp = s.flag();
  int nmsg = 1 + s.below(4);
  Ctx c;
  static const long PADS[] = {0, 1, 100, 400, 470, 480, 490, 500, 600, 1100, 1200, 4000, 16000, 60000};
  for (int i = 0; i < 8; i++) { int m = s.below(5); c.modes.push_back(m == 4 ? 2 : m >= 2 ? 1 : 0); c.pads.push_back(PADS[s.below(14)] + (long)s.below(16)); }
  std::vector<GenMsg> gm; for (int i = 0; i < nmsg; i++) gm.push_back(gen_message(s, i, k));

  World w; w.open(tcp, server_cb, &c);
  std::vector<Framed> ms; std::vector<std::vector<uint8_t>> responses; bool conn_killed = false; bool stream_unframed_tail = false;
  size_t n_pieces = 0; bool timing_ok = true; std::string timing_msg; std::vector<int> udp_assign;
  if (!tcp) {
    for (auto &g : gm) {
      Framed f; f.bytes = g.bytes; f.ref = classify(f.bytes.data(), f.bytes.size(), k);
      if (f.bytes.size() > 1500 && f.ref.verdict == V_MUST) { f.ref.verdict = V_MAY; f.ref.why = "datagram larger than the server's 1500-byte receive buffer"; }
      TR("datagram [%zu] id=%04x flags=%04x verdict=%d (%s) opt=%d/%u %s", f.bytes.size(), f.ref.id, f.ref.flags, f.ref.verdict, f.ref.why, f.ref.opt_state, f.ref.opt_size, hexs(f.bytes.data(), f.bytes.size(), 80).c_str());
      size_t before = c.cbs.size();
      CHECK(w.udp_send(f.bytes.data(), f.bytes.size()), "harness/setup", "sendto: %s", strerror(errno));
      w.turn();
      if (f.ref.verdict == V_MUST) w.settle([&] { return c.cbs.size() > before; });
      size_t rfrom = responses.size();
      std::vector<uint8_t> r; while (w.udp_recv(&r)) { TR("  response [%zu] %s", r.size(), hexs(r.data(), r.size(), 60).c_str()); responses.push_back(r); }
      annotate(c.cbs, before, responses, rfrom);
      { std::vector<Framed> one(1, f); std::vector<CbRec> mine(c.cbs.begin() + before, c.cbs.end()); std::vector<int> a1; check_callbacks(one, mine, a1, false); udp_assign.push_back(a1[0] < 0 ? -1 : (int)before + a1[0]); }
      ms.push_back(f);
    }
  } else {
    // the stream: frames with (possibly lying) prefixes
    std::vector<uint8_t> st;
    for (auto &g : gm) {
      size_t L = g.bytes.size(); long pl = (long)L; int lie = s.below(10);
      if (lie == 7) pl = 0; else if (lie == 8) pl = (long)L + 1 + (long)s.below(40); else if (lie == 9 && L > 1) pl = (long)L - 1 - (long)s.below((uint32_t)(L - 1));
      if (pl > 65535) pl = 65535;
      st.push_back((uint8_t)(pl >> 8)); st.push_back((uint8_t)pl); st.insert(st.end(), g.bytes.begin(), g.bytes.end());
    }
    if (rare(s, 1, 8)) st.resize(s.below((uint32_t)st.size() + 1));          // the client stops in the middle
    // reference framing of the very same bytes
    size_t pos = 0;
    while (pos + 2 <= st.size()) {
      size_t n = ((size_t)st[pos] << 8) | st[pos + 1];
      if (n == 0) { conn_killed = true; break; }        // a zero-length message: nothing defined to follow (evdns closes the connection)
      if (pos + 2 + n > st.size()) break;               // incomplete: the server has to keep waiting
      Framed f; f.bytes.assign(st.begin() + pos + 2, st.begin() + pos + 2 + n); f.end_off = pos + 2 + n; f.ref = classify(f.bytes.data(), f.bytes.size(), k);
      TR("frame [%zu] ends at %zu id=%04x flags=%04x verdict=%d (%s) opt=%d/%u %s", n, f.end_off, f.ref.id, f.ref.flags, f.ref.verdict, f.ref.why, f.ref.opt_state, f.ref.opt_size, hexs(f.bytes.data(), f.bytes.size(), 80).c_str());
      ms.push_back(f); pos += 2 + n;
    }
    size_t framed_end = ms.empty() ? 0 : ms.back().end_off;
    if (!conn_killed && framed_end < st.size()) stream_unframed_tail = true;
    size_t killed_at = conn_killed ? pos : (size_t)-1;
    w.tcp_connect(); w.turn();
    // deliver in pieces
    size_t sent = 0;
    while (sent < st.size()) {
      size_t n = st.size() - sent;
      if (n_pieces < 10) { size_t cut = 1 + s.below(s.flag() ? 3 : 200); if (cut < n) n = cut; }
      if (!w.tcp_send(st.data() + sent, n)) { TR("  send failed after %zu bytes (connection closed by the server)", sent); break; }
      sent += n; n_pieces++;
      w.turn(); w.turn(); w.tcp_read();
      // no callback before its message is complete, none withheld once it is
      size_t done_any = 0, done_must = 0; for (auto &f : ms) if (f.end_off <= sent) { if (f.ref.verdict != V_MUSTNOT) done_any++; if (f.ref.verdict == V_MUST) done_must++; }
      if (c.cbs.size() < done_must && !w.tcp_eof) w.settle([&] { return c.cbs.size() >= done_must || w.tcp_eof; });
      if (c.cbs.size() > done_any && timing_ok && sent <= killed_at) { timing_ok = false; timing_msg = "callback #" + std::to_string(c.cbs.size() - 1) + " ran after " + std::to_string(sent) + " stream bytes, before a message that could cause it was complete"; }
      if (c.cbs.size() < done_must && timing_ok) { timing_ok = false; timing_msg = "after " + std::to_string(sent) + " stream bytes " + std::to_string(done_must) + " well-formed queries are complete but only " + std::to_string(c.cbs.size()) + " callback(s) ran"; }
    }
    if (rare(s, 1, 16)) { shutdown(w.cli_tcp, SHUT_WR); TR("  client half-closes"); }      // rare: each one leaves a TIME_WAIT socket behind for 60 s
    w.tcp_pump();
    std::vector<uint8_t> r; while (w.tcp_pop(&r)) { TR("  response [%zu] %s", r.size(), hexs(r.data(), r.size(), 60).c_str()); responses.push_back(r); }
    if (w.tcp_eof) conn_killed = true;
  }

  // ---- callbacks vs verdicts (UDP: datagram by datagram, done above)
  std::vector<int> assign;
  if (tcp) { annotate(c.cbs, 0, responses, 0); check_callbacks(ms, c.cbs, assign, true); CHECK(timing_ok || conn_killed, "C37/callback-timing", "%s", timing_msg.c_str()); }
  else assign = udp_assign;
  // ---- responses: each belongs, in order, to a callback that responded or is the NOTIMPL answer to a non-standard opcode
  size_t ri = 0; int checked_strict = 0, notimpl_seen = 0, limited = 0; bool lost_ok = tcp && (conn_killed || stream_unframed_tail);
  for (size_t i = 0; i < ms.size(); i++) {
    const Ref &r = ms[i].ref;
    if (assign[i] >= 0) {
      const CbRec &cb = c.cbs[(size_t)assign[i]];
      if (cb.dropped) continue;
      // expectation for this response
      bool strict = r.plain && r.sections_ok && r.opt_state != 2 && r.verdict == V_MUST;
      if (cb.respond_ret < 0) { CHECK(!strict, "C37/respond-failed", "evdns_server_request_respond returned %d for a well-formed query with plain names", cb.respond_ret); continue; }
      if (ri >= responses.size()) { CHECK(lost_ok, "C37/response-missing", "callback for message %zu responded (respond()=%d) but no response arrived (%zu response(s) in all)", i, cb.respond_ret, responses.size()); continue; }
      const std::vector<uint8_t> &resp = responses[ri];
      if (resp.size() >= 2 && rd16(resp.data()) != r.id && lost_ok) continue;     // an earlier response was lost with the connection
      ri++;
      if (strict) {
        Expect e; e.body_when_truncated = false; e.id = r.id; e.rcode = 0; e.q = r.q; e.tcp = tcp; e.limit = tcp ? 65535 : (r.opt_state == 1 ? (r.opt_size > 512 ? r.opt_size : 512) : 512);
        if (cb.mode == 1) { XRec x; x.type = 16; x.klass = 1; x.ttl = 5; x.data = g_pad; x.datalen = (size_t)cb.pad; e.sec[0].push_back(x); }
        if (r.opt_state == 1) e.sec[2].push_back(opt_xrec());
        e.upper_bound = uncompressed_size(e); RespInfo info;
        // with plain names and one record the complete size is known up to name compression in the questions: use the bound
        check_response(resp, e, "C37", &info); checked_strict++;
        if (!tcp && e.upper_bound > 400) limited++;
        if (info.tc) verif_class("truncated_reply");
      } else {
        CHECK(resp.size() >= 12 && rd16(resp.data()) == r.id && (rd16(resp.data() + 2) & F_QR), "C37/response-id", "response %zu does not answer message %zu (id %04x)", ri - 1, i, r.id);
        size_t loose = tcp ? 65535 : (r.opt_state == 0 ? 512 : r.opt_state == 1 ? (r.opt_size > 512 ? r.opt_size : 512) : 65535);
        CHECK(resp.size() <= loose, "C37/response-exceeds-limit", "response of %zu bytes, limit %zu", resp.size(), loose);
      }
    } else if (r.notimpl || (r.hdr && !(r.flags & F_QR) && (r.flags & F_OPMASK))) {
      // non-standard opcode: a NOTIMPL answer is required when the message is otherwise well-formed, optional when it is not
      bool have = ri < responses.size() && responses[ri].size() >= 12 && rd16(responses[ri].data()) == r.id && (rd16(responses[ri].data() + 2) & F_QR) && (rd16(responses[ri].data() + 2) & F_RCODE) == 4;
      if (have) { size_t lim = tcp ? 65535 : (r.opt_state == 1 ? (r.opt_size > 512 ? r.opt_size : 512) : r.opt_state == 0 ? 512 : 65535); CHECK(responses[ri].size() <= lim, "C37/response-exceeds-limit", "NOTIMPL response of %zu bytes, limit %zu", responses[ri].size(), lim); ri++; notimpl_seen++; }
      else if (r.notimpl && !lost_ok) VERIF_FAIL("C37/nonzero-opcode-not-refused", "message %zu has opcode %u and is otherwise well-formed: no NOTIMPL response was sent (%zu response(s) in all)", i, (r.flags & F_OPMASK) >> 11, responses.size());
    }
  }
  CHECK(ri == responses.size(), "C37/unsolicited-response", "%zu response(s) arrived, only %zu can be attributed to a callback or a NOTIMPL answer (first extra: %s)", responses.size(), ri, hexs(responses[ri < responses.size() ? ri : 0].data(), responses[ri < responses.size() ? ri : 0].size(), 40).c_str());
  w.finish("C37/leak");

  int n_must = 0, n_may = 0, n_mustnot = 0; for (auto &f : ms) { if (f.ref.verdict == V_MUST) n_must++; else if (f.ref.verdict == V_MAY) n_may++; else n_mustnot++; }
  if (tcp) verif_class("tcp"); else verif_class("udp");
  if (n_must) verif_class("must"); if (n_may) verif_class("may"); if (n_mustnot) verif_class("mustnot");
  if (checked_strict) verif_class("reply_checked_strict"); if (limited) verif_class("reply_near_or_over_limit"); if (notimpl_seen) verif_class("notimpl_answer");
  if (conn_killed) verif_class("tcp_connection_ended"); if (n_pieces >= 3) verif_class("tcp_split_ge_3");
  if (!c.cbs.empty()) verif_class("callback_ran");
  int nontrivial = !ms.empty() && (n_mustnot + n_may >= 1 || n_pieces >= 3 || limited) && (c.cbs.size() >= 1 || n_mustnot >= 1);
  verif_case_end(nontrivial, s.h);
  return 0;
}
