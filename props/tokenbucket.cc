// C21 — token-bucket refill arithmetic: ev_token_bucket_cfg_new / ev_token_bucket_update_ / ev_token_bucket_get_tick_
// against refs/tokenbucket_ref.hh (128-bit integers).
// Preconditions honoured by the generator: refills only with configurations that ev_token_bucket_cfg_new accepted;
// struct timeval arguments are normalized (0 <= tv_usec <= 999999); times passed to get_tick are non-negative and
// below 2^54 s (far beyond any clock value; keeps the documented "(ev_uint64_t)tv_sec * 1000" free of wrap-around);
// manual decrements never overflow the signed level themselves.
#include "verif.h"
#include "sim.h"
#include "tokenbucket_ref.hh"
#include <event2/util.h>
#include <event2/bufferevent.h>
#include <sys/time.h>
#include <limits.h>
extern "C" {
#include "ratelim-internal.h"
}

static_assert(sizeof(ev_ssize_t) == 8 && sizeof(size_t) == 8, "LP64 expected");
static_assert((uint64_t)EV_RATE_LIMIT_MAX == (uint64_t)INT64_MAX, "EV_RATE_LIMIT_MAX");

static const uint64_t MAXL = TB_RATE_MAX;
static const char *K_ABOVE = "C21/refill-above-burst";

static std::string i128s(tb_i128 v) {
  bool neg = v < 0; tb_u128 u = neg ? (tb_u128)0 - (tb_u128)v : (tb_u128)v; char b[48]; int i = 47; b[i] = 0;
  do { b[--i] = (char)('0' + (int)(u % 10)); u /= 10; } while (u);
  if (neg) b[--i] = '-';
  return std::string(b + i);
}
static int64_t clamp64(tb_i128 v) { return v > (tb_i128)INT64_MAX ? INT64_MAX : v < (tb_i128)INT64_MIN ? INT64_MIN : (int64_t)v; }

// (rate, burst): valid_only => 1 <= rate <= burst <= MAX guaranteed
static void gen_pair(Src &s, uint64_t &rate, uint64_t &burst, bool valid_only) {
  switch (s.below(10)) {
    case 0: burst = 1 + s.below(65536); break;
    case 1: burst = MAXL; break;
    case 2: burst = MAXL - 1; break;
    case 3: burst = 1; break;
    case 4: burst = 1ull << s.below(63); break;
    case 5: burst = (1ull << (1 + s.below(62))) - 1; break;
    case 6: burst = valid_only ? MAXL : MAXL + 1; break;
    case 7: burst = valid_only ? 2 : 0; break;
    case 8: burst = valid_only ? (MAXL >> 1) + 1 : UINT64_MAX; break;
    default: burst = s.boundary(63); if (burst == 0) burst = 1; break;
  }
  switch (s.below(10)) {
    case 0: rate = burst; break;
    case 1: rate = 1; break;
    case 2: rate = burst > 1 ? burst - 1 : 1; break;
    case 3: rate = burst / 2 ? burst / 2 : 1; break;
    case 4: rate = valid_only ? 1 : burst + 1; break;
    case 5: rate = valid_only ? burst : 0; break;
    case 6: rate = valid_only ? (burst > 3 ? burst / 3 : 1) : MAXL + 1; break;
    case 7: rate = 1 + s.below(256); if (valid_only && rate > burst) rate = burst; break;
    default: rate = burst ? 1 + s.u64() % burst : (valid_only ? 1 : 0); break;
  }
  if (valid_only) { if (burst == 0 || burst > MAXL) burst = MAXL; if (rate < 1) rate = 1; if (rate > burst) rate = burst; }
}
// tick length; valid_only => accepted by the reference
static bool gen_tick(Src &s, struct timeval *tv, bool valid_only) {
  uint32_t k = s.below(12);
  if (k == 0) return false;                          // NULL => default 1 s
  long sec, usec;
  switch (k) {
    case 1: sec = 1; usec = 0; break;
    case 2: sec = 0; usec = 1000; break;               // 1 ms: smallest tick
    case 3: sec = 0; usec = valid_only ? 1999 : 999; break; // sub-ms: rejected / fraction ignored
    case 4: sec = INT_MAX / 1000; usec = 999999; break; // largest accepted
    case 5: sec = valid_only ? INT_MAX / 1000 : INT_MAX / 1000 + 1; usec = 0; break;
    case 6: sec = valid_only ? 0 : -1; usec = 500000; break;
    case 7: sec = valid_only ? 3 : 0; usec = 0; break;   // zero tick
    case 8: sec = 0; usec = 1000 * (1 + (long)s.below(999)) + (long)s.below(1000); break;
    case 9: sec = (long)s.below(INT_MAX / 1000 + 1); usec = (long)s.below(1000000); if (valid_only && sec == 0 && usec < 1000) usec += 1000; break;
    case 10: sec = valid_only ? 60 : (long)(int64_t)s.boundary(64); usec = (long)s.below(1000000); break;
    default: sec = (long)s.below(10); usec = (long)s.below(1000) * 1000; if (valid_only && sec == 0 && usec == 0) sec = 1; break;
  }
  tv->tv_sec = sec; tv->tv_usec = usec; return true;
}
static uint32_t gen_nticks(Src &s) {
  switch (s.below(12)) {
    case 0: return 1; case 1: return 0; case 2: return 2; case 3: return (uint32_t)INT_MAX; case 4: return (uint32_t)INT_MAX - 1;
    case 5: return 0x80000000u; case 6: return UINT32_MAX; case 7: return s.below(256); case 8: return 1u << s.below(32);
    case 9: return 0x80000000u + s.u32() % 0x80000000u;    // looks like time went backwards
    case 10: return s.u32() % 0x80000000u;
    default: return s.u32();
  }
}
static int64_t gen_level(Src &s, uint64_t rate, uint64_t burst, uint32_t n) {
  tb_i128 tgt = (tb_i128)burst - (tb_i128)n * (tb_i128)rate;       // level at which the refill lands exactly on burst
  switch (s.below(13)) {
    case 0: return (int64_t)rate;                                   // what ev_token_bucket_init_ starts with
    case 1: return (int64_t)burst;
    case 2: return (int64_t)burst - 1;
    case 3: return clamp64((tb_i128)burst + 1);                     // above burst (manual refill by negative decrement)
    case 4: return 0;
    case 5: return -1;
    case 6: return INT64_MIN;
    case 7: return INT64_MAX;
    case 8: return clamp64(tgt + (int)s.below(7) - 3);
    case 9: { tb_u128 span = (tb_u128)4 * rate + 1; tb_i128 d = (tb_i128)((tb_u128)s.u64() % span) - 2 * (tb_i128)rate; return clamp64(tgt + d); }
    case 10: return -(int64_t)s.boundary(63);
    case 11: return clamp64((tb_i128)burst + (tb_i128)s.boundary(63)); // far above burst
    default: return (int64_t)s.u64();
  }
}

static int case_cfg(Src &s) {
  verif_class("cfg");
  uint64_t rr, rb, wr, wb; struct timeval tv = {0, 0}; bool have;
  bool v1 = s.chance(3, 4), v2 = s.chance(3, 4), v3 = s.chance(3, 4);
  gen_pair(s, rr, rb, v1); gen_pair(s, wr, wb, v2); have = gen_tick(s, &tv, v3);
  uint64_t ms = 0; bool valid = tb_ref_cfg_valid(rr, rb, wr, wb, have, tv.tv_sec, tv.tv_usec, &ms);
  struct timeval tvcopy = tv;
  struct ev_token_bucket_cfg *c = ev_token_bucket_cfg_new((size_t)rr, (size_t)rb, (size_t)wr, (size_t)wb, have ? &tv : NULL);
  TR("cfg_new(rr=%llu rb=%llu wr=%llu wb=%llu tick=%s{%ld,%ld}) -> %s (reference: %s, %llu ms/tick)", (unsigned long long)rr, (unsigned long long)rb,
     (unsigned long long)wr, (unsigned long long)wb, have ? "" : "NULL", (long)tv.tv_sec, (long)tv.tv_usec, c ? "accepted" : "rejected", valid ? "valid" : "invalid", (unsigned long long)ms);
  if (c && !valid) { ev_token_bucket_cfg_free(c); VERIF_FAIL("C21/cfg-accepts-invalid", "invalid parameters accepted: rr=%llu rb=%llu wr=%llu wb=%llu tick=%s{%ld,%ld}", (unsigned long long)rr, (unsigned long long)rb, (unsigned long long)wr, (unsigned long long)wb, have ? "" : "NULL", (long)tv.tv_sec, (long)tv.tv_usec); }
  CHECK(c || !valid, "C21/cfg-rejects-valid", "valid parameters rejected: rr=%llu rb=%llu wr=%llu wb=%llu tick=%s{%ld,%ld}", (unsigned long long)rr, (unsigned long long)rb, (unsigned long long)wr, (unsigned long long)wb, have ? "" : "NULL", (long)tv.tv_sec, (long)tv.tv_usec);
  CHECK(tv.tv_sec == tvcopy.tv_sec && tv.tv_usec == tvcopy.tv_usec, "C21/cfg-modifies-arg", "tick_len argument modified");
  int nontrivial = 0;
  if (c) {
    struct timeval want = have ? tv : (struct timeval){1, 0};
    bool ok = c->read_rate == rr && c->read_maximum == rb && c->write_rate == wr && c->write_maximum == wb && c->msec_per_tick == ms &&
              c->tick_timeout.tv_sec == want.tv_sec && c->tick_timeout.tv_usec == want.tv_usec;
    unsigned got_ms = c->msec_per_tick; uint64_t g1 = c->read_rate, g2 = c->read_maximum, g3 = c->write_rate, g4 = c->write_maximum;
    ev_token_bucket_cfg_free(c);
    CHECK(ok, "C21/cfg-fields", "stored configuration differs: rate/burst %llu/%llu %llu/%llu msec_per_tick=%u (want %llu)", (unsigned long long)g1, (unsigned long long)g2, (unsigned long long)g3, (unsigned long long)g4, got_ms, (unsigned long long)ms);
    // accepted with a parameter at an edge of the accepted region
    nontrivial = rr == rb || wr == wb || rr == 1 || wr == 1 || rb == MAXL || wb == MAXL || ms == 1 || (have && tv.tv_sec == INT_MAX / 1000);
    verif_class("cfg_accepted");
  } else {
    // rejected for exactly one reason (each single repair would make it valid)
    int reasons = 0;
    reasons += !(rr >= 1 && rr <= rb && rb <= MAXL);
    reasons += !(wr >= 1 && wr <= wb && wb <= MAXL);
    reasons += !tb_ref_cfg_valid(1, 1, 1, 1, have, tv.tv_sec, tv.tv_usec, NULL);
    nontrivial = reasons == 1;
    verif_class("cfg_rejected");
  }
  return nontrivial;
}

static int case_tick(Src &s) {
  verif_class("get_tick");
  struct timeval tl = {1, 0}; bool have = gen_tick(s, &tl, true);
  struct ev_token_bucket_cfg *c = ev_token_bucket_cfg_new(1, 1, 1, 1, have ? &tl : NULL);
  CHECK(c, "C21/cfg-rejects-valid", "valid tick length {%ld,%ld} rejected", (long)tl.tv_sec, (long)tl.tv_usec);
  uint64_t mpt = 0; tb_ref_cfg_valid(1, 1, 1, 1, have, tl.tv_sec, tl.tv_usec, &mpt);
  struct timeval tv;
  if (s.chance(1, 2)) {      // aim at a tick boundary: ms = q*mpt + {-1,0,+1}
    uint64_t q = s.boundary(34); tb_u128 ms = (tb_u128)q * mpt; int adj = (int)s.below(3) - 1;
    if (adj < 0 && ms == 0) adj = 0;
    ms = (tb_u128)((tb_i128)ms + adj);
    tb_u128 lim = ((tb_u128)1 << 54) * 1000;
    if (ms >= lim) ms = lim - 1;
    tv.tv_sec = (long)(uint64_t)(ms / 1000); tv.tv_usec = (long)(uint64_t)(ms % 1000) * 1000 + (long)s.below(1000);
  } else { tv.tv_sec = (long)s.boundary(54); tv.tv_usec = (long)s.below(1000000); }
  uint32_t want = tb_ref_tick(tv.tv_sec, tv.tv_usec, mpt);
  uint32_t got = ev_token_bucket_get_tick_(&tv, c);
  tb_u128 msx = (tb_u128)(uint64_t)tv.tv_sec * 1000 + (uint64_t)(tv.tv_usec / 1000);
  TR("get_tick({%ld,%ld}, %llu ms/tick) -> %u (reference %u)", (long)tv.tv_sec, (long)tv.tv_usec, (unsigned long long)mpt, got, want);
  ev_token_bucket_cfg_free(c);
  CHECK(got == want, "C21/get-tick", "time {%ld,%ld} with %llu ms per tick: tick %u, reference %u", (long)tv.tv_sec, (long)tv.tv_usec, (unsigned long long)mpt, got, want);
  bool trunc = (msx / mpt) >> 32 != 0; uint64_t rem = (uint64_t)(msx % mpt);
  if (trunc) verif_class("get_tick_wraps_32bit");
  return trunc || (mpt > 1 && (rem == 0 || rem == mpt - 1));
}

static int case_refill(Src &s) {
  verif_class("refill");
  uint64_t rr, rb, wr, wb; struct timeval tl = {1, 0};
  gen_pair(s, rr, rb, true); gen_pair(s, wr, wb, true); bool have = gen_tick(s, &tl, true);
  struct ev_token_bucket_cfg *c = ev_token_bucket_cfg_new((size_t)rr, (size_t)rb, (size_t)wr, (size_t)wb, have ? &tl : NULL);
  CHECK(c, "C21/cfg-rejects-valid", "valid parameters rejected: rr=%llu rb=%llu wr=%llu wb=%llu", (unsigned long long)rr, (unsigned long long)rb, (unsigned long long)wr, (unsigned long long)wb);
  const struct ev_token_bucket_cfg snap = *c;
  const tb_ref_cfg rc = {rr, rb, wr, wb};
  TR("cfg: read %llu/%llu write %llu/%llu", (unsigned long long)rr, (unsigned long long)rb, (unsigned long long)wr, (unsigned long long)wb);
  struct ev_token_bucket b; tb_ref_bucket m;
  b.last_updated = m.last_updated = (uint32_t)s.boundary(32);
  b.read_limit = m.read_level = (int64_t)rr; b.write_limit = m.write_level = (int64_t)wr;     // as after ev_token_bucket_init_
  bool known_above = verif_known(K_ABOVE) != 0;
  int nontrivial = 0, steps = 1 + (int)s.below(4);
  for (int st = 0; st < steps; st++) {
    uint32_t n = gen_nticks(s), cur = m.last_updated + n;
    // choose the levels for this step: keep, manual decrement (possibly negative = manual refill), or set
    for (int side = 0; side < 2; side++) {
      int64_t &ml = side ? m.write_level : m.read_level; uint64_t rate = side ? wr : rr, burst = side ? wb : rb;
      uint32_t how = (st == 0) ? 2 + s.below(2) : s.below(4);
      if (how == 1) {            // documented manual adjustment: level -= decr, decr may be negative
        int64_t d = (int64_t)s.boundary(63) * (s.flag() ? -1 : 1);
        tb_i128 nv = (tb_i128)ml - d;
        if (nv >= (tb_i128)INT64_MIN && nv <= (tb_i128)INT64_MAX) {
          if (side) ev_token_bucket_decrement_write(&b, (ev_ssize_t)d); else ev_token_bucket_decrement_read(&b, (ev_ssize_t)d);
          ml = (int64_t)nv; TR("  decrement_%s(%lld)", side ? "write" : "read", (long long)d);
        }
      } else if (how >= 2) {
        ml = gen_level(s, rate, burst, n);
        if (side) b.write_limit = ml; else b.read_limit = ml;
      }
      if (known_above && ml > (int64_t)burst && !(n == 0 || n > (uint32_t)INT_MAX)) {   // excluded sub-domain of a listed finding
        ml = (int64_t)burst; if (side) b.write_limit = ml; else b.read_limit = ml; verif_known_skipped(K_ABOVE);
      }
    }
    const tb_ref_bucket before = m;
    bool wide_r, wide_w;
    int want = tb_ref_update(&m, &rc, cur, &wide_r, &wide_w);
    int got = ev_token_bucket_update_(&b, c, cur);
    TR("  update(read=%lld write=%lld last=%u, tick=%u [n=%u]) -> %d read=%lld write=%lld last=%u | reference %d read=%lld write=%lld last=%u", (long long)before.read_level, (long long)before.write_level, before.last_updated, cur, n,
       got, (long long)b.read_limit, (long long)b.write_limit, b.last_updated, want, (long long)m.read_level, (long long)m.write_level, m.last_updated);
    bool cfg_same = !memcmp(&snap, c, sizeof snap);
    if (!cfg_same) { ev_token_bucket_cfg_free(c); VERIF_FAIL("C21/refill-modifies-cfg", "configuration changed by a refill"); }
    if (!want) {
      bool same = b.read_limit == before.read_level && b.write_limit == before.write_level && b.last_updated == before.last_updated && got == 0;
      if (!same) { ev_token_bucket_cfg_free(c);
        VERIF_FAIL("C21/refill-noop-changed", "tick difference %u must change nothing: read %lld->%lld write %lld->%lld last %u->%u ret %d", n, (long long)before.read_level, (long long)b.read_limit, (long long)before.write_level, (long long)b.write_limit, before.last_updated, b.last_updated, got); }
      verif_class(n == 0 ? "noop_zero_ticks" : "noop_backwards");
      if (before.read_level < (int64_t)rb || before.write_level < (int64_t)wb) nontrivial = 1;
    } else {
      for (int side = 0; side < 2; side++) {
        int64_t old = side ? before.write_level : before.read_level, gotl = side ? b.write_limit : b.read_limit, wantl = side ? m.write_level : m.read_level;
        uint64_t rate = side ? wr : rr, burst = side ? wb : rb;
        if (gotl != wantl) {
          std::string exact = i128s((tb_i128)old + (tb_i128)n * (tb_i128)rate);
          ev_token_bucket_cfg_free(c);
          if (old > (int64_t)burst)
            VERIF_FAIL(K_ABOVE, "%s level %lld above burst %llu, rate %llu, %u ticks: refill left %lld, min(burst, level+ticks*rate) = %lld", side ? "write" : "read", (long long)old, (unsigned long long)burst, (unsigned long long)rate, n, (long long)gotl, (long long)wantl);
          VERIF_FAIL("C21/refill-level", "%s level %lld, burst %llu, rate %llu, %u ticks: refill left %lld, want min(burst, %s) = %lld", side ? "write" : "read", (long long)old, (unsigned long long)burst, (unsigned long long)rate, n, (long long)gotl, exact.c_str(), (long long)wantl);
        }
        tb_i128 v = (tb_i128)old + (tb_i128)n * (tb_i128)rate, dist = v - (tb_i128)burst; if (dist < 0) dist = -dist;
        bool near = dist < 2 * (tb_i128)rate, wide = side ? wide_w : wide_r;
        if (near) verif_class("refill_lands_near_burst");
        if (wide) verif_class("refill_sum_exceeds_int64");
        if (old < 0) verif_class("refill_from_deficit");
        if (old > (int64_t)burst) verif_class("refill_from_above_burst");
        if ((tb_u128)n * rate > (tb_u128)UINT64_MAX) verif_class("refill_product_exceeds_uint64");
        if (near || wide || old < 0) nontrivial = 1;
      }
      if (b.last_updated != cur || got != 1) { unsigned lu = b.last_updated; ev_token_bucket_cfg_free(c);
        VERIF_FAIL("C21/refill-last-updated", "after a refill at tick %u: last_updated=%u return=%d (want %u, 1)", cur, lu, got, cur); }
    }
    // keep model and real bucket identical for the next step (they are, or we failed above)
  }
  ev_token_bucket_cfg_free(c);
  return nontrivial;
}

extern "C" int LLVMFuzzerTestOneInput(const uint8_t *data, size_t size) {
  sim_reset();
  verif_case_begin("C21");
  Src s(data, size);
  int nontrivial;
  switch (s.below(8)) {
    case 1: case 2: nontrivial = case_cfg(s); break;
    case 3: nontrivial = case_tick(s); break;
    default: nontrivial = case_refill(s); break;
  }
  verif_case_end(nontrivial, s.h);
  return 0;
}
