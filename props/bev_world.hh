// Shared world for C17 (stream integrity), C18 (watermarks), C19 (callback lifecycle).
// One connection A<->B of a drawn type (socket over socketpair / connect over AF_UNIX, pair, 0-2 filters on
// top of either), drawn options, drawn backend, harness-owned virtual clock.  A generated history of
// application-level operations is executed against the real bufferevents; per-property monitors judge it.
//
// Preconditions respected by the generator (API rules):
//  * no operation on a bufferevent after bufferevent_free(); an underlying bufferevent is never touched by the
//    application while a filter sits on top of it (except its write watermark and the final free);
//  * an fd handed to a socket bufferevent is never closed by the harness while any bufferevent may still hold events
//    on it (non CLOSE_ON_FREE fds are closed after event_base_free);
//  * a direction on which EOF/ERROR was reported is not re-enabled (the repeat report would be application-provoked);
//  * filters honour `limit`, return BEV_OK iff they moved bytes, BEV_NEED_MORE otherwise.
// C18 only (input decoding of C17/C19 is unchanged): RECORD filters (<= K bytes per call), the model of the high write watermark set on a
// bufferevent under a filter (monitor key C18/filter-output-above-high), boundary-aimed write/read ops (O_WAIM / O_RAIM).
#pragma once
#include "verif.h"
#include "sim.h"
#include <event2/event.h>
#include <event2/buffer.h>
#include <event2/bufferevent.h>
#include <event2/bufferevent_struct.h>
#include <event2/util.h>
#include <sys/socket.h>
#include <sys/un.h>
#include <unistd.h>
#include <fcntl.h>
#include <signal.h>
#include <errno.h>
#include <dirent.h>
extern "C" {
#include "bufferevent-internal.h"
}

namespace bevw {

enum { K_SOCK = 0, K_PAIR = 1 };
enum { F_ID = 0, F_XOR = 1, F_RECHUNK = 2, F_NULL = 3 };
enum { CM_NONE = 0, CM_UNIX_OK = 1, CM_UNIX_REFUSED = 2, CM_PRECONNECTED = 3, CM_SCRIPT_REFUSED = 4 };

struct World; struct End;
static World *W;

#define BEVW_NOSAN __attribute__((no_sanitize("address", "undefined")))
static inline BEVW_NOSAN uint8_t pat(int d, uint64_t p) {
  uint32_t x = (uint32_t)p * 2654435761u + (uint32_t)(p >> 32) * 40503u + (uint32_t)(d + 1) * 0x9e3779b9u;
  return (uint8_t)((x >> 24) ^ (x >> 11) ^ x);
}
static BEVW_NOSAN void fill_pat(uint8_t *b, int d, uint64_t base, size_t n) { for (size_t i = 0; i < n; i++) b[i] = pat(d, base + i); }
static BEVW_NOSAN long find_mismatch(const uint8_t *b, int d, uint64_t base, size_t n) { for (size_t i = 0; i < n; i++) if (b[i] != pat(d, base + i)) return (long)i; return -1; }
static inline BEVW_NOSAN uint8_t xkey(int d, int layer, uint64_t off) { return (uint8_t)(off * 131 + (off >> 8) * 7 + d * 17 + layer * 29 + 7); }

static BEVW_NOSAN void xor_buf(uint8_t *t, int d, int layer, uint64_t off, int n) { for (int i = 0; i < n; i++) t[i] ^= xkey(d, layer, off + i); }
struct FiltCtx { int kind = F_ID; int K = 1; int cap = 0 /* >0: a record filter, moves at most `cap` bytes per call (C18 only) */; int layer = 0; int d_out = 0, d_in = 0; uint64_t in_off = 0, out_off = 0; uint64_t calls = 0, need_more = 0; int busy[2] = {0, 0}; uint64_t moved[2] = {0, 0}; size_t inflight[2] = {0, 0}, len0[2] = {0, 0}; };
struct Layer { struct bufferevent *bev = nullptr; bool is_filter = false; FiltCtx ctx; int opts = 0;
  size_t uw_high = 0; size_t prev_uout = 0; };   // model of the high WRITE watermark the application set on this layer while a filter sits on it; its output length at the last observation


struct End {
  int id = 0;
  Layer L[3]; int nl = 0;                 // L[0] = transport, L[nl-1] = what the application uses
  int fd = -1; bool lib_closes_fd = false; int opts = 0;
  bool live = false;                      // application has not freed it
  bool cb_r = false, cb_w = false, cb_e = false;
  uint64_t written = 0, consumed = 0;     // application-level byte counts
  // model of application-visible settings
  short enabled = EV_WRITE; size_t rlow = 0, rhigh = 0, wlow = 0, whigh = 0;
  // event bookkeeping
  int r_budget = 1, w_budget = 1; int n_term_r = 0, n_term_w = 0, n_conn = 0, n_eof_r = 0, n_eof_w = 0, n_err_r = 0, n_err_w = 0, n_err_plain = 0, n_rcb = 0, n_wcb = 0, n_ecb = 0;
  bool rd_done = false, wr_done = false;  // EOF/ERROR reported for that direction
  bool clean_in = true, clean_out = true; // no fault / reset / free interfered with data flowing in / out
  bool shut_wr = false; bool fin_w = false, fin_r = false;
  // watermark monitor
  uint64_t prev_len = 0; bool hi_excuse = false, low_excuse = false, wlow_excuse = false;
  uint64_t prev_out = 0; bool w_owed = false;
  bool wm_susp_seen = false, wm_resume_seen = false; uint64_t total_at_susp = 0;
  bool resume_armed = false; uint64_t total_at_resume = 0; int armed_turn = 0;
  // lifecycle monitor
  uint64_t total_at_eof = 0;
  bool connect_pending = false, skip_conn_order = false, ever_cleared_e = false; int rw_since_connect = 0; int connect_mode = CM_NONE; bool connect_failed = false;
  uint64_t total_at_last_rcb = 0;
  int cbs_this_turn = 0;
};

struct World {
  Src *s = nullptr; struct event_base *base = nullptr; int prop = 17;
  int kind = K_SOCK; int nfilt = 0; bool asym = false;
  End e[2];
  uint64_t wire_sent[2] = {0, 0}, wire_recv[2] = {0, 0}; int n_early_peer_data = 0;
  bool faults_armed = false; bool any_fault = false;
  int passes = 0; bool cap_hit = false; bool in_turn = false; bool settling = false; int cb_depth = 0;
  int listener = -1; struct sockaddr_un lsa; socklen_t lsalen = 0;
  // classes / non-trivial evidence
  int n_writes = 0, n_toggles = 0, n_flush = 0, n_turns = 0; bool in_cb_free = false, in_cb_setcb = false, saw_short = false;
  bool big = false; int n_aimed = 0;
  bool any_cap = false, uw_limited = false, uw_partial = false;   // a record (per-call capped) filter exists; an output filter call was cut by the underlying's high write watermark; ... to less than one record
  std::vector<struct bufferevent *> graveyard;   // lower layers to free after their top
};

static char g_key[64];
static const char *K(const char *name) { snprintf(g_key, sizeof g_key, "C%d/%s", W->prop, name); return g_key; }
static inline bool M17() { return W->prop == 17; }
static inline bool M18() { return W->prop == 18; }
static inline bool M19() { return W->prop == 19; }

static inline struct bufferevent *top(End &e) { return e.nl ? e.L[e.nl - 1].bev : nullptr; }
static inline End &peer(End &e) { return W->e[1 - e.id]; }
static inline size_t inlen(struct bufferevent *b) { return evbuffer_get_length(bufferevent_get_input(b)); }
static inline size_t outlen(struct bufferevent *b) { return evbuffer_get_length(bufferevent_get_output(b)); }
static inline uint64_t in_total(End &e) { return e.consumed + inlen(top(e)); }     // bytes that reached the application side
static inline uint64_t lower_in(End &e) { uint64_t t = 0; for (int i = 0; i + 1 < e.nl; i++) t += inlen(e.L[i].bev); return t; }
static inline uint64_t all_out(End &e) { uint64_t t = 0; for (int i = 0; i < e.nl; i++) t += outlen(e.L[i].bev); return t; }
static inline bool has_rechunk(End &e) { for (int i = 1; i < e.nl; i++) if (e.L[i].ctx.kind == F_RECHUNK) return true; return false; }
static inline uint64_t rechunk_slack(End &e) { uint64_t t = 0; for (int i = 1; i < e.nl; i++) if (e.L[i].ctx.kind == F_RECHUNK) t += e.L[i].ctx.K - 1; return t; }

// ------------------------------------------------------------------------------------------------ filters
// Known finding (see props/C17.json): evbuffer_remove_buffer() runs the destination's callbacks (via evbuffer_add) before the
// source's accounting is updated; with two stacked filters whose lower one is not deferred, the upper filter is re-entered
// from those callbacks and moves the same bytes twice.  When the key is listed (or in the C18/C19 targets, where it is not
// the subject) the harness filters decline re-entrant calls, and the library's NULL filter is not used as the upper filter.
static const char *KEY_FILTER_EOF = "C17/filter-eof-before-data";     // a filter forwards the underlying EOF while unprocessed input remains below it
static const char *KEY_PAIR_FINISH = "C17/pair-finish-leaves-output";  // pair flush(BEV_FINISHED) honours the partner's high read watermark, then reports EOF
static const char *KEY_REENTRY = "C17/remove-buffer-reentrancy-dup";
static bool reentry_guard() { static int g = -1; if (g < 0) g = verif_known(KEY_REENTRY) ? 1 : 0; return g || !M17(); }
static enum bufferevent_filter_result run_filter(struct evbuffer *src, struct evbuffer *dst, ev_ssize_t limit,
    enum bufferevent_flush_mode mode, FiltCtx *c, bool input) {
  c->calls++;
  size_t len = evbuffer_get_length(src), avail = len;
  if (c->kind == F_RECHUNK && mode == BEV_NORMAL) avail -= avail % (size_t)c->K;
  if (c->cap && avail > (size_t)c->cap) avail = (size_t)c->cap;      // record filter: one bounded record per call, BEV_OK, the library has to call again
  size_t unlimited = avail;
  if (limit >= 0 && (size_t)limit < avail) avail = (size_t)limit;
  TR("%*sfilter[%s kind=%d layer=%d d=%d] src=%zu limit=%lld mode=%d -> move %zu", (W ? W->cb_depth : 0) * 4 + 6, "", input ? "in" : "out", c->kind, c->layer, c->d_out, len, (long long)limit, (int)mode, avail);
  if (!avail) { c->need_more++; return BEV_NEED_MORE; }
  int di = input ? 0 : 1;
  if (c->busy[di] && c->kind != F_XOR && !reentry_guard() && len + c->inflight[di] > c->len0[di])
    VERIF_FAIL(KEY_REENTRY, "filter re-entered from a callback fired inside evbuffer_remove_buffer(src,dst,%zu): the source evbuffer still reports %zu byte(s) (it had %zu before the call), i.e. the bytes being moved are still visible in the source while the destination's callbacks run, and are moved (delivered) twice",
               c->inflight[di], len, c->len0[di]);
  if (c->busy[di] && (reentry_guard() || c->kind == F_XOR)) {
    // called again from a callback that fired inside our own evbuffer call on the same buffers: "nothing to give right now"
    if (c->kind != F_XOR) verif_known_skipped(KEY_REENTRY);
    TR("%*s  (re-entered: NEED_MORE)", (W ? W->cb_depth : 0) * 4 + 6, ""); return BEV_NEED_MORE; }
  if (!input && W && M18() && mode == BEV_NORMAL) {
    // "a filter never writes past its underlying high write watermark in normal mode": this filter honours `limit`, so what it is
    // about to add fits under the mark iff the library told it the room that is left NOW (bufferevent.h: ignoring the limit "will
    // overflow the high-water mark associated with dst"; -1 = no limit)
    End &fe = W->e[c->d_out]; size_t H = fe.live ? fe.L[c->layer].uw_high : 0, pre = evbuffer_get_length(dst);
    if (H) {
      CHECK(pre + avail <= H, "C18/filter-output-above-high", "end %c layer %d: output filter called in BEV_NORMAL mode with limit=%lld while the underlying bufferevent's output holds %zu byte(s) and its high write watermark is %zu: the %zu byte(s) the filter may write take the underlying output past the mark (to %zu)",
            'A' + fe.id, c->layer + 1, (long long)limit, pre, H, avail, pre + avail);
      if (avail < unlimited) { W->uw_limited = true; if (c->cap && unlimited <= (size_t)c->cap && avail < (size_t)c->cap) W->uw_partial = true; }
    }
  }
  if (c->kind == F_XOR) {
    static uint8_t tmp[2][16384]; uint8_t *t = tmp[di];
    uint64_t &off = input ? c->in_off : c->out_off; int d = input ? c->d_in : c->d_out; size_t moved = 0;
    c->busy[di]++;
    while (avail) { size_t k = avail < sizeof tmp[0] ? avail : sizeof tmp[0]; int got = evbuffer_remove(src, t, k); if (got <= 0) break;
      xor_buf(t, d, c->layer, off, got);
      off += got; evbuffer_add(dst, t, got); avail -= got; moved += got; }
    c->busy[di]--;
    if (!moved) return BEV_ERROR;
  } else {
    uint64_t m0 = c->moved[di]; c->busy[di]++; c->inflight[di] = avail; c->len0[di] = len;
    int r = evbuffer_remove_buffer(src, dst, avail);
    c->busy[di]--;
    if (r < 0) return BEV_ERROR;
    uint64_t inner = c->moved[di] - m0; size_t after = evbuffer_get_length(src);
    if (after + (size_t)r + inner != len)
      VERIF_FAIL(M17() ? KEY_REENTRY : K("remove-buffer-reentrancy-dup"), "evbuffer_remove_buffer(src,dst,%zu) on a %zu-byte source returned %d, a re-entrant filter call made from the destination's callbacks moved %llu more, source now reports %zu byte(s): the bytes being moved were still visible in the source while the destination's callbacks ran and were moved twice",
                 avail, len, r, (unsigned long long)inner, after);
    c->moved[di] += r;
  }
  return BEV_OK;
}
static enum bufferevent_filter_result filt_in(struct evbuffer *s, struct evbuffer *d, ev_ssize_t lim, enum bufferevent_flush_mode m, void *c) { return run_filter(s, d, lim, m, (FiltCtx *)c, true); }
static enum bufferevent_filter_result filt_out(struct evbuffer *s, struct evbuffer *d, ev_ssize_t lim, enum bufferevent_flush_mode m, void *c) { return run_filter(s, d, lim, m, (FiltCtx *)c, false); }

// ------------------------------------------------------------------------------------------------ io accounting
static void io_hook(const struct sim_io_rec *r, void *) {
  if (!W) return;
  for (int i = 0; i < 2; i++) { if (W->e[i].fd < 0 || r->fd != W->e[i].fd) continue;
    if (r->result > 0) {
      if (r->kind == SYS_WRITEV || r->kind == SYS_WRITE || r->kind == SYS_SEND) { W->wire_sent[i] += r->result; if (r->result < r->requested) W->saw_short = true; }
      if (r->kind == SYS_READV || r->kind == SYS_READ || r->kind == SYS_RECV) W->wire_recv[i] += r->result;
    } }
}

static int64_t wait_hook(const struct sim_wait_info *wi, void *) {
  W->passes++;
  if (W->passes > 1500) { W->cap_hit = true; event_base_loopbreak(W->base); return 0; }
  if (wi->nready > 0) return 20;
  if (wi->timeout_us < 0) { event_base_loopbreak(W->base); return 0; }
  return wi->timeout_us;
}

// ------------------------------------------------------------------------------------------------ observation (monitors)
static void check_locks(const char *when) {
  const char *d = nullptr; const char *er = sim_lockmon_error();
  CHECK(er == nullptr, K("lock-misuse"), "%s: %s", when, er);
  if (W->cb_depth == 0) { int held = sim_lockmon_held(&d); CHECK(held == 0, K("lock-held"), "%s: %d lock(s) held at top level (%s)", when, held, d ? d : "?"); }
}

// called at every callback entry and after every operation, for an end that is live
static void observe(End &e, const char *when, bool end_of_op = false) {
  if (!e.live) return;
  struct bufferevent *t = top(e);
  size_t len = inlen(t), out = outlen(t);
  if (M18()) {
    // input never GROWS beyond a non-zero high watermark (it may sit above it after the application lowered the mark)
    if (e.rhigh && len > e.rhigh && len > e.prev_len && !e.hi_excuse)
      VERIF_FAIL("C18/input-above-high", "%s: end %c input length %zu grew past the high read watermark %zu (was %llu)", when, 'A' + e.id, len, e.rhigh, (unsigned long long)e.prev_len);
    // the library's watermark suspension flag agrees with "input length >= high"
    bool model_susp = e.rhigh && len >= e.rhigh;
    bool lib_susp = (BEV_UPCAST(t)->read_suspended & BEV_SUSPEND_WM) != 0;
    CHECK(model_susp == lib_susp, "C18/wm-suspend-state", "%s: end %c input=%zu high=%zu: library read suspension by watermark is %d, expected %d", when, 'A' + e.id, len, e.rhigh, lib_susp, model_susp);
    if (model_susp && !e.wm_susp_seen) { e.wm_susp_seen = true; e.total_at_susp = in_total(e); }
    if (e.wm_susp_seen && !model_susp && in_total(e) > e.total_at_susp) e.wm_resume_seen = true;
    // write callback owed when the output buffer dropped to <= low since the last observation
    if (e.cb_w && e.prev_out > e.wlow && out <= e.wlow) e.w_owed = true;
    // the output of a bufferevent under a filter never GROWS past its non-zero high write watermark (only the filter above writes to it;
    // it may sit above the mark after the application lowered it, and FLUSH/FINISHED flushes are not bound by it)
    for (int k = 0; k + 1 < e.nl; k++) { Layer &u = e.L[k]; size_t uo = outlen(u.bev);
      if (u.uw_high && uo > u.uw_high && uo > u.prev_uout && !e.hi_excuse)
        VERIF_FAIL("C18/filter-output-above-high", "%s: end %c layer %d (under a filter): output length %zu grew past its high write watermark %zu (was %zu) without a FLUSH/FINISHED flush", when, 'A' + e.id, k, uo, u.uw_high, u.prev_uout);
      u.prev_uout = uo; }
  }
  if (M19() && e.rd_done && (e.n_eof_r || W->kind == K_PAIR) && !(e.nl > 1 && verif_known("C19/data-after-eof-filter")))
    CHECK(in_total(e) <= e.total_at_eof + rechunk_slack(e), e.nl > 1 ? "C19/data-after-eof-filter" : "C19/data-after-eof", "%s: end %c obtained %llu more byte(s) after EOF was reported for reading", when, 'A' + e.id, (unsigned long long)(in_total(e) - e.total_at_eof));
  e.prev_len = len; e.prev_out = out; if (end_of_op) e.hi_excuse = false;   // a FLUSH/FINISHED flush excuses growth for the whole op, callbacks included
}
static void observe_all(const char *when) { observe(W->e[0], when, true); observe(W->e[1], when, true); }

// conservation of bytes (count level); content is checked when the application consumes
static void check_conservation(const char *when) {
  End &a = W->e[0], &b = W->e[1];
  if (W->kind == K_SOCK) {
    for (int i = 0; i < 2; i++) { End &e = W->e[i]; if (!e.live || e.fd < 0) continue;
      uint64_t outq = all_out(e);
      CHECK(e.written == W->wire_sent[i] + outq, K("send-accounting"), "%s: end %c wrote %llu bytes, %llu on the wire + %llu buffered", when, 'A' + i, (unsigned long long)e.written, (unsigned long long)W->wire_sent[i], (unsigned long long)outq);
      uint64_t inq = in_total(e) + lower_in(e);
      CHECK(W->wire_recv[i] == inq, K("recv-accounting"), "%s: end %c took %llu bytes off the wire, application side holds/consumed %llu", when, 'A' + i, (unsigned long long)W->wire_recv[i], (unsigned long long)inq); }
    CHECK(W->wire_recv[1] <= W->wire_sent[0] && W->wire_recv[0] <= W->wire_sent[1], K("invented-bytes"), "%s: more bytes received than sent", when);
  } else if (a.live && b.live) {
    for (int i = 0; i < 2; i++) { End &src = W->e[i], &dst = W->e[1 - i];
      uint64_t held = all_out(src) + lower_in(dst) + in_total(dst);
      CHECK(src.written == held, K("pair-accounting"), "%s: %c wrote %llu bytes, %llu accounted for (buffered + delivered)", when, 'A' + i, (unsigned long long)src.written, (unsigned long long)held); }
  }
}

// ------------------------------------------------------------------------------------------------ application actions
static void app_read(End &e, size_t n, const char *where) {
  // bufferevent_read() may run callbacks (filters / pairs refill the input, a non-deferred read callback may run and read):
  // reserve the stream positions before the call and use one buffer per nesting level
  static std::vector<uint8_t> bufs[6]; static int nest = 0;
  if (nest >= 6) return;
  std::vector<uint8_t> &buf = bufs[nest]; if (buf.size() < 65536) buf.resize(65536);
  nest++;
  struct bufferevent *t = top(e); int d = 1 - e.id; size_t want = n, total = 0;
  int iters = 0;   // with a tiny high watermark every read refills a few bytes: bound the work of one application read
  while (n && e.live && iters++ < 48) { size_t k = n < buf.size() ? n : buf.size(); size_t have = inlen(t); size_t pre = k < have ? k : have; if (!pre) break;
    uint64_t base = e.consumed; e.consumed += pre;
    size_t got = bufferevent_read(t, buf.data(), k);
    CHECK(got == pre, K("read-short"), "%s: bufferevent_read(%zu) with %zu byte(s) buffered returned %zu", where, k, have, got);
    long bad = find_mismatch(buf.data(), d, base, got);
    if (bad >= 0) VERIF_FAIL(K("content-mismatch"), "%s: end %c byte %llu of the stream is 0x%02x, expected 0x%02x (stream corrupted, reordered, lost or duplicated)", where, 'A' + e.id, (unsigned long long)(base + bad), buf[bad], pat(d, base + bad));
    n -= got; total += got; }
  nest--;
  CHECK(e.consumed <= peer(e).written, K("invented-bytes"), "%s: end %c consumed %llu bytes, peer wrote only %llu", where, 'A' + e.id, (unsigned long long)e.consumed, (unsigned long long)peer(e).written);
  if (!e.live) return;
  TR("%*s%s: %c read(%zu) -> %zu (consumed %llu, input now %zu)", W->cb_depth * 4, "", where, 'A' + e.id, want, total, (unsigned long long)e.consumed, inlen(t));
  size_t len = inlen(t);
  if (e.rhigh && e.prev_len >= e.rhigh && len < e.rhigh && (e.enabled & EV_READ) && !e.rd_done && !e.resume_armed) { e.resume_armed = true; e.total_at_resume = in_total(e); e.armed_turn = W->n_turns; TR("      (resume armed for %c at total %llu, turn %d)", 'A' + e.id, (unsigned long long)e.total_at_resume, W->n_turns); }
  if (total) e.low_excuse = true;
  e.prev_len = len;
}
static void app_write(End &e, size_t n, const char *where) {
  static std::vector<uint8_t> buf; if (buf.size() < n) buf.resize(n);
  if (e.written + n > (3u << 20) || e.shut_wr || e.fin_w || !e.live) return;   // no writes after the application's own shutdown / finish
  fill_pat(buf.data(), e.id, e.written, n);
  e.written += n;   // reserve the stream positions first: a non-deferred write callback may run (and write) inside bufferevent_write
  TR("%*s%s: %c write(%zu) ...", W->cb_depth * 4, "", where, 'A' + e.id, n);
  int r = bufferevent_write(top(e), buf.data(), n);
  if (!e.live) return;
  TR("%*s%s: %c write(%zu) -> %d (written %llu, output now %zu)", W->cb_depth * 4, "", where, 'A' + e.id, n, r, (unsigned long long)e.written, outlen(top(e)));
  CHECK(r == 0, K("write-failed"), "bufferevent_write(%zu) = %d", n, r);
  e.wlow_excuse = true; W->n_writes++; if (n > 65536) W->big = true;
  e.prev_out = outlen(top(e));    // growth by the application is not a "drop"
}
static void set_cbs(End &e, bool r, bool w, bool ev);
static void app_free(End &e, const char *where) {
  if (!e.live) return;
  TR("%*s%s: free %c (layers=%d close_on_free=%d)", W->cb_depth * 4, "", where, 'A' + e.id, e.nl, (e.opts & BEV_OPT_CLOSE_ON_FREE) != 0);
  e.live = false; e.cb_r = e.cb_w = e.cb_e = false; e.w_owed = false; e.resume_armed = false; e.connect_pending = false;
  e.clean_out = false; peer(e).clean_in = false; e.clean_in = false; peer(e).clean_out = false;
  struct bufferevent *t = top(e);
  bufferevent_free(t);
  if (!(e.opts & BEV_OPT_CLOSE_ON_FREE)) for (int i = e.nl - 2; i >= 0; i--) bufferevent_free(e.L[i].bev);
  for (int i = 0; i < e.nl; i++) e.L[i].bev = nullptr;
}

static size_t draw_size(Src &s) {
  static const size_t B[] = {1, 2, 255, 256, 257, 511, 512, 4095, 4096, 4097, 16383, 16384, 16385, 65535, 65536, 65537};
  long maxchunk = verif_param("maxchunk", 1 << 20);
  uint32_t sel = s.below(128);
  static long cap = verif_param("sizeclass_cap", 128); if ((long)sel >= cap) sel = (uint32_t)cap - 1;
  if (sel < 56) return 1 + s.below(64);
  if (sel < 80) return B[s.below(10)];
  if (sel < 88) return B[10 + s.below(6)];
  if (sel < 118) return 1 + s.below(8192);
  if (sel < 124) return 1 + s.below(40000);
  if (sel < 127) return 1 + s.below(200000);
  return 65536 + s.below((uint32_t)(maxchunk - 65536 + 1));
}
static size_t draw_mark(Src &s) {
  static const size_t B[] = {0, 1, 2, 7, 64, 100, 4096, 16384, 16385, 100000};
  return s.chance(3, 4) ? B[s.below(sizeof B / sizeof B[0])] : s.below(70000);
}

static void do_setwatermark(End &e, short ev, size_t lo, size_t hi, const char *where) {
  TR("%*s%s: %c setwatermark(%s%s, low=%zu, high=%zu) input=%zu", W->cb_depth * 4, "", where, 'A' + e.id, ev & EV_READ ? "R" : "", ev & EV_WRITE ? "W" : "", lo, hi, inlen(top(e)));
  bufferevent_setwatermark(top(e), ev, lo, hi);
  if (ev & EV_READ) { e.rlow = lo; e.rhigh = hi; e.low_excuse = true; e.total_at_last_rcb = in_total(e); e.resume_armed = false; }
  if (ev & EV_WRITE) { e.wlow = lo; e.whigh = hi; e.wlow_excuse = true; e.w_owed = false; e.prev_out = outlen(top(e)) ; }
  size_t gl = 0, gh = 0;
  if (ev == EV_READ || ev == EV_WRITE) { int r = bufferevent_getwatermark(top(e), ev, &gl, &gh); CHECK(r == 0 && gl == lo && gh == hi, K("getwatermark"), "getwatermark returned %d (%zu,%zu), set (%zu,%zu)", r, gl, gh, lo, hi); }
}

static void do_enable(End &e, short ev, const char *where) {
  if (e.rd_done) ev &= ~EV_READ;
  if (e.wr_done) ev &= ~EV_WRITE;
  if (!ev) return;
  // the library disables a direction when it detects EOF/ERROR; with deferred callbacks the report may not have been delivered
  // yet, so the application can unknowingly re-enable the direction and thereby legitimately provoke one more report
  short lib_en = bufferevent_get_enabled(top(e));
  short pend = BEV_UPCAST(top(e))->eventcb_pending; bool pend_term = (pend & (BEV_EVENT_EOF | BEV_EVENT_ERROR)) != 0;
  if ((ev & EV_READ) && (((e.enabled & EV_READ) && !(lib_en & EV_READ)) || (pend_term && (pend & BEV_EVENT_READING)))) e.r_budget++;
  if ((ev & EV_WRITE) && (((e.enabled & EV_WRITE) && !(lib_en & EV_WRITE)) || (pend_term && (pend & BEV_EVENT_WRITING)))) e.w_budget++;
  int r = bufferevent_enable(top(e), ev);
  TR("%*s%s: %c enable(%s%s) -> %d", W->cb_depth * 4, "", where, 'A' + e.id, ev & EV_READ ? "R" : "", ev & EV_WRITE ? "W" : "", r);
  CHECK(r == 0, K("enable-failed"), "bufferevent_enable = %d", r);
  e.enabled |= ev; W->n_toggles++;
}
static void do_disable(End &e, short ev, const char *where) {
  int r = bufferevent_disable(top(e), ev);
  TR("%*s%s: %c disable(%s%s) -> %d", W->cb_depth * 4, "", where, 'A' + e.id, ev & EV_READ ? "R" : "", ev & EV_WRITE ? "W" : "", r);
  CHECK(r == 0, K("disable-failed"), "bufferevent_disable = %d", r);
  e.enabled &= ~ev; W->n_toggles++; if (ev & EV_READ) e.resume_armed = false;
}

// ------------------------------------------------------------------------------------------------ callbacks
static void cb_common(End &e, struct bufferevent *bev, const char *which, bool set) {
  if (M19()) {
    CHECK(e.live, "C19/callback-after-free", "%s callback for end %c ran after bufferevent_free", which, 'A' + e.id);
    CHECK(set, "C19/callback-after-clear", "%s callback for end %c ran although it was cleared with bufferevent_setcb(NULL)", which, 'A' + e.id);
  } else if (!e.live || !set) VERIF_FAIL(K("callback-after-free-or-clear"), "%s callback for end %c ran after free/clear", which, 'A' + e.id);
  CHECK(bev == top(e), K("callback-wrong-bev"), "%s callback got a different bufferevent", which);
  e.cbs_this_turn++;
  observe(e, which);
  if (peer(e).live) observe(peer(e), which);
}

// a drawn follow-up action inside a callback (0 = nothing more)
// known finding: the filter's callbacks on the underlying bufferevent run the user's callbacks without holding a reference on
// the filter; freeing a non-deferred filter from inside its read callback lets the refcount hit 0 mid-flight, the watermark
// re-check after the callback (bufferevent_trigger) then increfs/decrefs it again -> unlink/finalize run twice -> refcount assert.
static const char *KEY_FILTER_REF = "assert:bufferevent_decref_and_unlock_:bufev_private->refcnt_>_0";
static bool free_in_cb_excluded(End &x) {
  if (!(x.live && x.nl > 1 && !(x.L[x.nl - 1].opts & BEV_OPT_DEFER_CALLBACKS))) return false;
  if (verif_known(KEY_FILTER_REF)) { verif_known_skipped(KEY_FILTER_REF); return true; }
  return false;
}
static void in_cb_action(End &e, Src &s, const char *where) {
  if (W->settling || e.cbs_this_turn > 12) return;
  int n = M19() ? 9 : 6;
  switch (s.below(n)) {
    case 0: break;
    case 1: if (e.live) app_write(e, 1 + s.below(300), where); break;
    case 2: if (e.live) do_disable(e, EV_READ, where); break;
    case 3: if (e.live) do_enable(e, EV_READ | EV_WRITE, where); break;
    case 4: if (e.live && s.chance(1, 2)) { size_t lo = draw_mark(s), hi = draw_mark(s); do_setwatermark(e, EV_READ, lo, hi, where); } break;
    case 5: if (peer(e).live && !W->settling) app_write(peer(e), 1 + s.below(300), where); break;
    case 6: if (!free_in_cb_excluded(e)) { W->in_cb_free = true; app_free(e, where); } break;
    case 7: if (e.live) { W->in_cb_setcb = true; bool r = s.flag(), w = s.flag(), ev = s.flag();
        set_cbs(e, r, w, ev); } break;
    case 8: if (peer(e).live && !free_in_cb_excluded(peer(e))) { W->in_cb_free = true; app_free(peer(e), where); } break;
  }
}

static void on_read(struct bufferevent *bev, void *arg) {
  End &e = *(End *)arg; Src &s = *W->s;
  size_t len = e.live ? inlen(bev) : 0;
  TR("%*scb READ %c input=%zu low=%zu high=%zu", W->cb_depth * 4, "", 'A' + e.id, len, e.rlow, e.rhigh);
  cb_common(e, bev, "read", e.cb_r);
  e.n_rcb++; W->cb_depth++;
  if (e.connect_pending) e.rw_since_connect++;
  if (M18() && !e.low_excuse) CHECK(len >= e.rlow, "C18/readcb-below-low", "end %c: read callback with %zu bytes buffered, low read watermark is %zu", 'A' + e.id, len, e.rlow);
  e.low_excuse = false;
  // what the application does with the data
  int mode = (W->settling || e.cbs_this_turn > 8) ? 0 : s.below(5);
  switch (mode) {
    case 0: app_read(e, (size_t)-1, "readcb"); break;                 // drain all
    case 1: app_read(e, 1 + s.below(64), "readcb"); break;
    case 2: app_read(e, draw_size(s), "readcb"); break;
    case 3: break;                                                    // leave it
    case 4: if (len) app_read(e, len > 1 ? len - 1 - s.below((uint32_t)(len > 65536 ? 65536 : len - 1)) : 1, "readcb"); break;
  }
  in_cb_action(e, s, "readcb");
  if (e.live) e.total_at_last_rcb = in_total(e);
  W->cb_depth--;
}

static void on_write(struct bufferevent *bev, void *arg) {
  End &e = *(End *)arg; Src &s = *W->s;
  size_t out = e.live ? outlen(bev) : 0;
  TR("%*scb WRITE %c output=%zu low=%zu", W->cb_depth * 4, "", 'A' + e.id, out, e.wlow);
  cb_common(e, bev, "write", e.cb_w);
  e.n_wcb++; W->cb_depth++;
  if (e.connect_pending) e.rw_since_connect++;
  if (M18() && !e.wlow_excuse) CHECK(out <= e.wlow, "C18/writecb-above-low", "end %c: write callback with %zu bytes in the output buffer, low write watermark is %zu", 'A' + e.id, out, e.wlow);
  e.wlow_excuse = false; e.w_owed = false;
  in_cb_action(e, s, "writecb");
  W->cb_depth--;
}

static void on_event(struct bufferevent *bev, short what, void *arg) {
  End &e = *(End *)arg; Src &s = *W->s;
  TR("%*scb EVENT %c what=0x%02x%s%s%s%s%s%s input=%zu", W->cb_depth * 4, "", 'A' + e.id, what, what & BEV_EVENT_READING ? " READING" : "", what & BEV_EVENT_WRITING ? " WRITING" : "",
     what & BEV_EVENT_EOF ? " EOF" : "", what & BEV_EVENT_ERROR ? " ERROR" : "", what & BEV_EVENT_TIMEOUT ? " TIMEOUT" : "", what & BEV_EVENT_CONNECTED ? " CONNECTED" : "", e.live ? inlen(bev) : 0);
  cb_common(e, bev, "event", e.cb_e);
  e.n_ecb++; W->cb_depth++;
  CHECK(!(what & BEV_EVENT_TIMEOUT), K("unexpected-timeout"), "timeout event without any timeout configured");
  if (what & BEV_EVENT_CONNECTED) {
    e.n_conn++;
    if (M19()) {
      CHECK(e.n_conn <= 1, "C19/connected-twice", "end %c: BEV_EVENT_CONNECTED reported %d times", 'A' + e.id, e.n_conn);
      CHECK(e.connect_mode != CM_NONE, "C19/connected-without-connect", "end %c: CONNECTED without a connect", 'A' + e.id);
      if (!e.skip_conn_order) CHECK(e.rw_since_connect == 0, "C19/rw-callback-before-connected", "end %c: %d read/write callback(s) ran after bufferevent_socket_connect() and before BEV_EVENT_CONNECTED", 'A' + e.id, e.rw_since_connect);
      CHECK(!(what & (BEV_EVENT_EOF | BEV_EVENT_ERROR)) || ((BEV_UPCAST(bev)->options) & BEV_OPT_DEFER_CALLBACKS), "C19/connected-with-error", "CONNECTED combined with EOF/ERROR in a non-deferred report: 0x%x", what);
    }
    e.connect_pending = false;
  }
  bool rdir = what & BEV_EVENT_READING, wdir = what & BEV_EVENT_WRITING;
  if (what & (BEV_EVENT_EOF | BEV_EVENT_ERROR)) {
    if (what & BEV_EVENT_EOF) { if (rdir) e.n_eof_r++; if (wdir) e.n_eof_w++; }
    if (what & BEV_EVENT_ERROR) { if (rdir) e.n_err_r++; if (wdir) e.n_err_w++; if (!rdir && !wdir) { e.n_err_plain++; e.connect_failed = true; e.connect_pending = false; } }
    if (rdir) e.n_term_r++; if (wdir) e.n_term_w++;
    if (M17() || M19()) {
      const char *k = M17() ? "C17/eof-or-error-repeated" : "C19/eof-or-error-repeated";
      // (a deferred report may merge EOF|READING with ERROR|WRITING into one call: count reports per direction)
      CHECK(e.n_term_r <= e.r_budget && e.n_term_w <= e.w_budget && e.n_err_plain <= 1, k,
            "end %c: EOF/ERROR reported more than once for a direction (reports for reading %d, for writing %d, connect errors %d; this one 0x%x)", 'A' + e.id, e.n_term_r, e.n_term_w, e.n_err_plain, what);
    }
    if (rdir) {
      // deferred order: data that arrived before the EOF/ERROR must have been announced by a read callback first
      if (M19() && e.cb_r && in_total(e) > e.total_at_last_rcb && inlen(bev) >= e.rlow)
        VERIF_FAIL("C19/eof-before-read-callback", "end %c: EOF/ERROR for reading reported while %llu newly arrived byte(s) were never announced by a read callback (callbacks out of order)", 'A' + e.id, (unsigned long long)(in_total(e) - e.total_at_last_rcb));
      // orderly end of stream: every byte the peer put on the wire (or handed over) before its shutdown is already here
      if (M17() && (what & BEV_EVENT_EOF)) {
        End &p = peer(e);
        if (e.nl > 1 && verif_known(KEY_FILTER_EOF)) verif_known_skipped(KEY_FILTER_EOF);
        else CHECK(lower_in(e) <= rechunk_slack(e), KEY_FILTER_EOF, "end %c: EOF reported to the application while %llu byte(s) received before it are still held in the bufferevent(s) underneath the filter", 'A' + e.id, (unsigned long long)lower_in(e));
        if (W->kind == K_SOCK) CHECK(W->wire_recv[e.id] == W->wire_sent[p.id], "C17/eof-before-wire-data", "end %c: EOF after %llu of %llu wire bytes", 'A' + e.id, (unsigned long long)W->wire_recv[e.id], (unsigned long long)W->wire_sent[p.id]);
        else if (p.live) CHECK(all_out(p) <= rechunk_slack(p), KEY_PAIR_FINISH, "end %c: EOF reported while %llu byte(s) the peer wrote before it finished are still in the peer's output buffer", 'A' + e.id, (unsigned long long)all_out(p));
      }
      // "nothing is read after EOF": the mark is taken at the first terminal report and moved to the first EOF — after a mere ERROR (e.g. a
      // failed readv) the application may enable reading again and legitimately receive the rest of the stream before the EOF
      if (!e.rd_done || ((what & BEV_EVENT_EOF) && e.n_eof_r == 1)) e.total_at_eof = in_total(e);
      e.rd_done = true; e.enabled &= ~EV_READ; e.resume_armed = false;
      if (what & BEV_EVENT_ERROR) e.clean_in = false;
    }
    if (wdir) { e.wr_done = true; e.enabled &= ~EV_WRITE; e.clean_out = false; peer(e).clean_in = false; }
  }
  in_cb_action(e, s, "eventcb");
  W->cb_depth--;
}

static void set_cbs(End &e, bool r, bool w, bool ev) {
  TR("%*ssetcb %c read=%d write=%d event=%d", W->cb_depth * 4, "", 'A' + e.id, r, w, ev);
  bufferevent_setcb(top(e), r ? on_read : nullptr, w ? on_write : nullptr, ev ? on_event : nullptr, &e);
  if (!ev) e.ever_cleared_e = true;
  e.cb_r = r; e.cb_w = w; e.cb_e = ev; e.w_owed = false; e.wlow_excuse = true; e.low_excuse = true; e.total_at_last_rcb = in_total(e);
}

// ------------------------------------------------------------------------------------------------ construction
static int draw_opts(Src &s, bool allow_ts) {
  int o = 0;
  if (s.flag()) o |= BEV_OPT_DEFER_CALLBACKS;
  if (allow_ts && s.chance(1, 4)) { o |= BEV_OPT_THREADSAFE; if ((o & BEV_OPT_DEFER_CALLBACKS) && s.flag()) o |= BEV_OPT_UNLOCK_CALLBACKS; }
  return o;
}
static void add_filters(End &e, Src &s, const int *kinds, const int *Ks, const int *caps, int nf) {
  for (int i = 0; i < nf; i++) {
    Layer &l = e.L[e.nl]; l.is_filter = true; l.ctx = FiltCtx(); l.ctx.kind = kinds[i]; l.ctx.K = Ks[i]; l.ctx.cap = caps[i]; l.ctx.layer = i; l.ctx.d_out = e.id; l.ctx.d_in = 1 - e.id;
    l.opts = (s.flag() ? BEV_OPT_DEFER_CALLBACKS : 0) | (e.opts & BEV_OPT_CLOSE_ON_FREE);
    struct bufferevent *under = e.L[e.nl - 1].bev;
    l.bev = kinds[i] == F_NULL ? bufferevent_filter_new(under, nullptr, nullptr, l.opts, nullptr, nullptr)
                               : bufferevent_filter_new(under, filt_in, filt_out, l.opts, nullptr, &l.ctx);
    CHECK(l.bev != nullptr, K("filter-new-failed"), "bufferevent_filter_new returned NULL");
    e.nl++;
    TR("  %c layer %d: filter kind=%d K=%d%s opts=0x%x", 'A' + e.id, e.nl - 1, kinds[i], Ks[i], caps[i] ? " (record filter: <= K bytes per call)" : "", l.opts);
  }
}

static int make_unix_listener(World &w) {
  static unsigned long ctr = 0;
  int l = socket(AF_UNIX, SOCK_STREAM | SOCK_NONBLOCK | SOCK_CLOEXEC, 0); if (l < 0) return -1;
  memset(&w.lsa, 0, sizeof w.lsa); w.lsa.sun_family = AF_UNIX;
  int n = snprintf(w.lsa.sun_path + 1, sizeof w.lsa.sun_path - 1, "verif-bev-%d-%lu", (int)getpid(), ctr++);
  w.lsalen = (socklen_t)(offsetof(struct sockaddr_un, sun_path) + 1 + n);
  if (bind(l, (struct sockaddr *)&w.lsa, w.lsalen) < 0) { close(l); return -1; }
  return l;
}


// ------------------------------------------------------------------------------------------------ the case
static void dump_state(const char *when) {
  if (!verif_trace_on) return;
  for (int i = 0; i < 2; i++) { End &e = W->e[i]; if (!e.live) { TR("    [%s] %c freed", when, 'A' + i); continue; }
    std::string l; char b[160]; for (int k = e.nl - 1; k >= 0; k--) { snprintf(b, sizeof b, " L%d(in=%zu out=%zu en=0x%x rs=0x%x ws=0x%x pend=%d/%d)", k, inlen(e.L[k].bev), outlen(e.L[k].bev), (int)bufferevent_get_enabled(e.L[k].bev), (int)BEV_UPCAST(e.L[k].bev)->read_suspended, (int)BEV_UPCAST(e.L[k].bev)->write_suspended,
      event_initialized(&e.L[k].bev->ev_read) ? event_pending(&e.L[k].bev->ev_read, EV_READ, nullptr) : -1, event_initialized(&e.L[k].bev->ev_write) ? event_pending(&e.L[k].bev->ev_write, EV_WRITE, nullptr) : -1); l += b; }
    TR("    [%s] %c written=%llu consumed=%llu wire_sent=%llu wire_recv=%llu%s", when, 'A' + i, (unsigned long long)e.written, (unsigned long long)e.consumed, (unsigned long long)W->wire_sent[i], (unsigned long long)W->wire_recv[i], l.c_str()); }
}
static void post_op(const char *when) {
  dump_state(when);
  observe_all(when);
  check_conservation(when);
  check_locks(when);
}

// known finding KEY_PAIR_FINISH: avoid finishing towards a partner whose input is below a non-zero high read watermark
static bool pair_finish_excluded(End &e, short io) {
  End &p = peer(e); bool hit = false;
  if ((io & EV_WRITE) && p.live && p.nl == 1 && p.rhigh) hit = true;
  if ((io & EV_READ) && e.nl == 1 && e.rhigh) hit = true;
  if (!hit) return false;
  if (!M17()) return true;                      // precondition outside C17 (the defect is C17's subject: C17/pair-finish-leaves-output)
  if (verif_known(KEY_PAIR_FINISH)) { verif_known_skipped(KEY_PAIR_FINISH); return true; }
  return false;
}
struct TurnPre { bool armed[2]; bool src_avail[2]; };
static bool source_available(End &e) {
  End &p = peer(e);
  if (lower_in(e) > rechunk_slack(e)) return true;
  if (W->kind == K_SOCK) return e.fd >= 0 && p.fd >= 0 && p.live && e.clean_in && W->wire_sent[p.id] > W->wire_recv[e.id];
  return p.live && outlen(p.L[0].bev) > 0 && (p.nl > 1 || (p.enabled & EV_WRITE));
}
static void do_turn(int flags, const char *why) {
  TurnPre pre;
  for (int i = 0; i < 2; i++) { End &e = W->e[i]; e.cbs_this_turn = 0; pre.armed[i] = e.live && e.resume_armed && e.armed_turn <= W->n_turns; pre.src_avail[i] = pre.armed[i] && source_available(e); }
  W->passes = 0; W->n_turns++;
  TR("  pre-turn %d: armed A=%d(src %d) B=%d(src %d)", W->n_turns, pre.armed[0], pre.src_avail[0], pre.armed[1], pre.src_avail[1]);
  TR("%s: turn flags=%s", why, flags == EVLOOP_ONCE ? "ONCE" : "NONBLOCK");
  W->in_turn = true; int r = event_base_loop(W->base, flags); W->in_turn = false;
  TR("%s: turn -> %d passes=%d", why, r, W->passes);
  CHECK(r >= 0, K("loop-error"), "event_base_loop = %d", r);
  if (W->cap_hit) return;
  if (M18()) for (int i = 0; i < 2; i++) { End &e = W->e[i]; if (!e.live) continue;
    observe(e, "after turn");
    CHECK(!e.w_owed, "C18/writecb-missing", "end %c: output buffer dropped to %zu (<= low write watermark %zu) but no write callback ran by the end of the turn", 'A' + i, outlen(top(e)), e.wlow);
    if (pre.armed[i] && e.resume_armed && e.armed_turn < W->n_turns) {
      if (pre.src_avail[i] && !W->faults_armed && (e.enabled & EV_READ) && !e.rd_done) {
        // known finding: a filter arms its "data left below, input was full" hook only right after it processed something and
        // found the input still full; if the (non-deferred) read callback already drained it, or if the input was full when the
        // underlying data arrived (nothing processed), the rest of the underlying input is never looked at again after the drain
        bool filt_nd = e.nl > 1;
        const char *key = filt_nd ? "C18/filter-no-resume-after-drain" : "C18/no-resume-after-drain";
        if (filt_nd && verif_known(key)) verif_known_skipped(key);
        else CHECK(in_total(e) > e.total_at_resume, key, "end %c: application drained the input below the high read watermark %zu, data was waiting, but nothing arrived during a whole loop turn (input %zu)", 'A' + i, e.rhigh, inlen(top(e)));
      }
      e.resume_armed = false;
    } }
}

static void settle() {
  W->settling = true; sim_script_clear(); W->faults_armed = false;
  TR("settle:");
  for (int i = 0; i < 2; i++) { End &e = W->e[i]; if (!e.live) continue;
    set_cbs(e, true, true, true);
    do_setwatermark(e, EV_READ | EV_WRITE, 0, 0, "settle");
    for (int k = 0; k + 1 < e.nl; k++) { bufferevent_setwatermark(e.L[k].bev, EV_WRITE, 0, 0); e.L[k].uw_high = 0; }
    do_enable(e, EV_READ | EV_WRITE, "settle"); }
  post_op("settle setup");
  uint64_t last = ~0ull; int idle = 0;
  for (int round = 0; round < 64 && idle < 2 && !W->cap_hit; round++) {
    for (int i = 0; i < 2; i++) { End &e = W->e[i]; if (!e.live) continue;
      // one flush call moves data up by one layer only (be_filter_flush handles its own layer before the lower one)
      for (int k = 1; k < e.nl; k++) { W->e[0].hi_excuse = W->e[1].hi_excuse = true; bufferevent_flush(top(e), EV_READ | EV_WRITE, BEV_FLUSH); }
      // with reading disabled (EOF already reported) a flush makes ONE filter call per layer: a record filter then moves one record per flush, keep going while it moves data
      if (W->any_cap && e.nl > 1) { int g = 0; while (bufferevent_flush(top(e), EV_READ | EV_WRITE, BEV_FLUSH) > 0 && ++g < (1 << 19)) {} }
      if (e.nl > 1) for (int k = 0; k < 2; k++) if (W->e[k].live) W->e[k].total_at_last_rcb = in_total(W->e[k]);   // a flush moves data without a read callback
      app_read(e, (size_t)-1, "settle"); }
    do_turn(EVLOOP_NONBLOCK, "settle");
    for (int i = 0; i < 2; i++) if (W->e[i].live) app_read(W->e[i], (size_t)-1, "settle");
    uint64_t sig = W->e[0].consumed * 3 + W->e[1].consumed * 5 + W->wire_sent[0] * 7 + W->wire_sent[1] * 11 + W->wire_recv[0] * 13 + W->wire_recv[1] * 17 + (uint64_t)(W->e[0].n_ecb + W->e[1].n_ecb);
    if (sig == last) idle++; else idle = 0; last = sig;
    post_op("settle round");
  }
}

static int count_open_fds() {   // 3 syscalls instead of 1024 fcntl()s
  DIR *d = opendir("/proc/self/fd"); if (!d) return -1; int n = 0; while (readdir(d)) n++; closedir(d); return n;
}
static int run_case(const uint8_t *data, size_t size, int prop) {
  sim_reset();
  verif_case_begin(prop == 17 ? "C17" : prop == 18 ? "C18" : "C19");
  Src s(data, size);
  World w; W = &w; w.s = &s; w.prop = prop; w.e[0].id = 0; w.e[1].id = 1;
  int64_t live0 = sim_mem_live_blocks; int fds0 = count_open_fds();
  sim_clock_enable(SIM_START_US); sim_set_wait_hook(wait_hook, nullptr); sim_set_io_hook(io_hook, nullptr); sim_set_wait_limit(400000);

  // ---- base
  struct event_config *cfg = event_config_new();
  int backend = s.below(4);
  static const char *AVOID[][3] = {{nullptr}, {nullptr}, {"epoll", nullptr}, {"epoll", "poll", nullptr}};
  for (int k = 0; AVOID[backend][k]; k++) event_config_avoid_method(cfg, AVOID[backend][k]);
  if (backend == 1) event_config_set_flag(cfg, EVENT_BASE_FLAG_EPOLL_USE_CHANGELIST);
  w.base = event_base_new_with_config(cfg); event_config_free(cfg);
  if (!w.base) { W = nullptr; verif_case_end(0, s.h); return 0; }

  // ---- connection type
  w.kind = s.below(2);
  static const int NF[] = {0, 1, 0, 1, 2, 2};
  w.nfilt = NF[s.below(6)];
  int cm = CM_NONE;
  if (prop == 19 && w.kind == K_SOCK && s.chance(1, 2)) { cm = 1 + s.below(3); w.nfilt = 0; }
  int kinds[2] = {0, 0}, Ks[2] = {1, 1}, caps[2] = {0, 0}; bool any_xor = false;
  for (int i = 0; i < w.nfilt; i++) {
    // C18: the same input byte also decides (values 12..15 of byte%16; byte%4 stays the kind, so older inputs decode as before) whether an
    // identity / XOR filter is a RECORD filter: at most K bytes per call, BEV_OK after each record, so the library must call it repeatedly
    if (prop == 18) { uint32_t v = s.below(16); kinds[i] = (int)(v % 4); Ks[i] = 2 + s.below(63); if (v >= 12 && (kinds[i] == F_ID || kinds[i] == F_XOR)) { caps[i] = Ks[i]; w.any_cap = true; } }
    else { kinds[i] = s.below(4); Ks[i] = 2 + s.below(63); }
    if (kinds[i] == F_XOR) any_xor = true; }
  if (w.nfilt == 2 && kinds[1] == F_NULL && reentry_guard()) { kinds[1] = F_ID; if (M17()) verif_known_skipped(KEY_REENTRY); }
  w.asym = w.nfilt && !any_xor && s.below(4) == 3;
  bool ts = s.below(4) == 3;
  for (int i = 0; i < 2; i++) { End &e = w.e[i]; e.opts = draw_opts(s, ts); if (s.flag()) e.opts |= BEV_OPT_CLOSE_ON_FREE; e.connect_mode = CM_NONE; }
  TR("world: backend=%s kind=%s nfilt=%d asym=%d connect_mode=%d optsA=0x%x optsB=0x%x", event_base_get_method(w.base), w.kind == K_SOCK ? "socket" : "pair", w.nfilt, w.asym, cm, w.e[0].opts, w.e[1].opts);

  if (w.kind == K_SOCK && cm == CM_NONE) {
    int sv[2]; int r = socketpair(AF_UNIX, SOCK_STREAM | SOCK_NONBLOCK | SOCK_CLOEXEC, 0, sv);
    CHECK(r == 0, "harness/socketpair", "socketpair failed errno=%d", errno);
    if (s.below(3) == 2) { int v = 2048 + (int)s.below(3) * 4096; setsockopt(sv[0], SOL_SOCKET, SO_SNDBUF, &v, sizeof v); setsockopt(sv[1], SOL_SOCKET, SO_SNDBUF, &v, sizeof v); TR("  SO_SNDBUF=%d", v); }
    for (int i = 0; i < 2; i++) { End &e = w.e[i]; e.fd = sv[i]; e.lib_closes_fd = (e.opts & BEV_OPT_CLOSE_ON_FREE) != 0;
      e.L[0].bev = bufferevent_socket_new(w.base, sv[i], e.opts); e.nl = 1; e.live = true;
      CHECK(e.L[0].bev != nullptr, K("socket-new-failed"), "bufferevent_socket_new returned NULL"); }
  } else if (w.kind == K_SOCK) {
    End &a = w.e[0]; a.connect_mode = cm;
    w.listener = make_unix_listener(w);
    CHECK(w.listener >= 0, "harness/listener", "cannot bind abstract AF_UNIX listener errno=%d", errno);
    if (cm != CM_UNIX_REFUSED) listen(w.listener, 8);
    int fd = -1;
    if (cm == CM_PRECONNECTED) { fd = socket(AF_UNIX, SOCK_STREAM | SOCK_NONBLOCK | SOCK_CLOEXEC, 0); int r = connect(fd, (struct sockaddr *)&w.lsa, w.lsalen); CHECK(fd >= 0 && r == 0, "harness/preconnect", "connect failed errno=%d", errno); }
    a.fd = fd; a.lib_closes_fd = (a.opts & BEV_OPT_CLOSE_ON_FREE) != 0;
    a.L[0].bev = bufferevent_socket_new(w.base, fd, a.opts); a.nl = 1; a.live = true;
    CHECK(a.L[0].bev != nullptr, K("socket-new-failed"), "bufferevent_socket_new returned NULL");
  } else {
    struct bufferevent *pr[2]; int o = w.e[0].opts & ~BEV_OPT_CLOSE_ON_FREE; if (!(o & BEV_OPT_DEFER_CALLBACKS)) o &= ~BEV_OPT_UNLOCK_CALLBACKS;
    int r = bufferevent_pair_new(w.base, o, pr);
    CHECK(r == 0, K("pair-new-failed"), "bufferevent_pair_new = %d", r);
    for (int i = 0; i < 2; i++) { End &e = w.e[i]; e.L[0].bev = pr[i]; e.nl = 1; e.live = true; e.opts = (e.opts & BEV_OPT_CLOSE_ON_FREE) | o; }
    CHECK(bufferevent_pair_get_partner(pr[0]) == pr[1] && bufferevent_pair_get_partner(pr[1]) == pr[0], K("pair-partner"), "pair partners not linked");
  }
  for (int i = 0; i < 2; i++) { End &e = w.e[i]; if (!e.live) continue; if (i == 1 && w.asym) continue; add_filters(e, s, kinds, Ks, caps, w.nfilt); }
  for (int i = 0; i < 2; i++) { End &e = w.e[i]; if (!e.live) continue;
    set_cbs(e, true, true, true);
    if (s.below(4) != 3) do_enable(e, EV_READ, "init"); }
  post_op("init");

  // ---- history
  const int NOP = 32;
  int maxops = (int)verif_param("maxops", 40);
  for (int step = 0; step < maxops && !w.cap_hit; step++) {
    // an "already connecting" socket (addr == NULL) must be declared as such before it is used for I/O: connect first
    bool force_connect = cm == CM_PRECONNECTED && step == 0;
    int op = force_connect ? 1 : s.below(NOP);
    if (op == 0) break;
    End &e = w.e[s.below(2)];
    // op table: weights differ per property
    enum { O_WRITE, O_TURN, O_READ, O_ENABLE, O_DISABLE, O_WM, O_FLUSH, O_SHUT, O_FREE, O_FAULT, O_SETCB, O_CONNECT, O_UWM, O_CLRFAULT, O_WAIM, O_RAIM };
    static const uint8_t T17[NOP] = {0, O_WRITE, O_WRITE, O_WRITE, O_WRITE, O_WRITE, O_WRITE, O_WRITE, O_TURN, O_TURN, O_TURN, O_TURN, O_TURN, O_TURN, O_READ, O_READ, O_READ, O_ENABLE, O_ENABLE, O_DISABLE, O_DISABLE, O_WM, O_FLUSH, O_FLUSH, O_SHUT, O_FREE, O_FAULT, O_FAULT, O_FAULT, O_SETCB, O_CLRFAULT, O_UWM};
    static const uint8_t T18[NOP] = {0, O_WRITE, O_WRITE, O_WRITE, O_WAIM, O_WRITE, O_WRITE, O_TURN, O_TURN, O_TURN, O_TURN, O_TURN, O_TURN, O_READ, O_READ, O_READ, O_RAIM, O_READ, O_ENABLE, O_ENABLE, O_DISABLE, O_WM, O_WM, O_WM, O_WM, O_WM, O_FLUSH, O_UWM, O_UWM, O_SHUT, O_FREE, O_FAULT};
    static const uint8_t T19[NOP] = {0, O_WRITE, O_WRITE, O_WRITE, O_WRITE, O_WRITE, O_TURN, O_TURN, O_TURN, O_TURN, O_TURN, O_TURN, O_READ, O_READ, O_ENABLE, O_ENABLE, O_DISABLE, O_WM, O_FLUSH, O_SHUT, O_SHUT, O_FREE, O_FREE, O_FAULT, O_FAULT, O_SETCB, O_SETCB, O_SETCB, O_CONNECT, O_CONNECT, O_CONNECT, O_CONNECT};
    int o = force_connect ? (int)O_CONNECT : (prop == 17 ? T17 : prop == 18 ? T18 : T19)[op];
    if (o == O_TURN) { do_turn(s.below(3) == 1 ? EVLOOP_ONCE : EVLOOP_NONBLOCK, "op"); post_op("turn"); continue; }
    if (o == O_CONNECT) {
      End &a = w.e[0];
      if (cm == CM_NONE || !a.live || a.connect_mode == CM_NONE || a.n_conn || a.connect_failed || a.connect_pending) continue;
      // known finding C19/rw-callback-before-connected: a connect() that succeeds immediately (AF_UNIX) schedules the USER write
      // callback instead of activating the internal write event, so read/write callbacks run before CONNECTED (and CONNECTED
      // waits for EV_WRITE to be enabled).  When listed, the ordering clause is not judged for immediate connects.
      if (cm == CM_UNIX_OK && verif_known("C19/rw-callback-before-connected")) { verif_known_skipped("C19/rw-callback-before-connected"); a.skip_conn_order = true; }
      a.connect_pending = true; a.rw_since_connect = 0;
      int r = cm == CM_PRECONNECTED ? bufferevent_socket_connect(top(a), nullptr, 0) : bufferevent_socket_connect(top(a), (struct sockaddr *)&w.lsa, (int)w.lsalen);
      a.fd = bufferevent_getfd(top(a));
      TR("connect A mode=%d -> %d fd=%d", cm, r, a.fd);
      CHECK(r == 0, K("connect-call-failed"), "bufferevent_socket_connect = %d errno=%d", r, errno);
      if (cm != CM_UNIX_REFUSED) {
        End &b = w.e[1]; int fd = accept4(w.listener, nullptr, nullptr, SOCK_NONBLOCK | SOCK_CLOEXEC);
        CHECK(fd >= 0, "harness/accept", "accept failed errno=%d", errno);
        b.fd = fd; b.lib_closes_fd = (b.opts & BEV_OPT_CLOSE_ON_FREE) != 0;
        // (C19) the accepting side may speak first: a few bytes written on the raw socket before A's loop ever runs, so that A's socket is
        // readable in the very iteration in which its connect completes.  The choice is derived from the hash of the choices made so far
        // (no extra input byte is consumed, so existing replays decode as before).
        if (prop == 19 && ((s.h >> 9) & 3) == 3) { size_t n = 1 + (size_t)((s.h >> 11) % 40); uint8_t tmp[40]; fill_pat(tmp, b.id, b.written, n); b.written += n;
          ssize_t wr = write(fd, tmp, n); CHECK(wr == (ssize_t)n, "harness/early-write", "raw write on the accepted socket returned %zd", wr); w.n_early_peer_data++; TR("accepted side writes %zu byte(s) on the raw socket before its bufferevent exists", n); }
        b.L[0].bev = bufferevent_socket_new(w.base, fd, b.opts); b.nl = 1; b.live = true;
        set_cbs(b, true, true, true); if (s.below(4) != 3) do_enable(b, EV_READ, "accept");
      }
      post_op("connect"); continue;
    }
    if (!e.live) continue;
    switch (o) {
      case O_WRITE: if (!e.shut_wr && !e.fin_w) { size_t n = draw_size(s); if (w.any_cap && n > 16384) n = 16384;   /* a record filter is called once per <= K bytes: bound the work */ app_write(e, n, "op"); } break;
      case O_WAIM: if (!e.shut_wr && !e.fin_w) {
        // boundary-aimed write (C18): size chosen so that, once the stage below has taken what it has room for, the output is left at
        // low-1 / low / low+1 bytes around the low WRITE watermark.  Room: under a filter = the underlying's high write watermark minus its
        // output; direct pair = the partner's high read watermark minus its input; socket = a scripted short writev of that many bytes
        size_t room = 0; int d = (int)s.below(3) - 1;
        if (e.nl > 1) { Layer &u = e.L[e.nl - 2]; size_t uo = outlen(u.bev); room = u.uw_high > uo ? u.uw_high - uo : 0; }
        else if (w.kind == K_PAIR) { End &p = peer(e); if (p.live && p.nl == 1) { size_t pi = inlen(top(p)); room = p.rhigh > pi ? p.rhigh - pi : 0; } }
        else if (e.fd >= 0) { static const long SH[] = {1, 2, 100, 4096}; room = (size_t)SH[s.below(4)]; sim_script(SYS_WRITEV, e.fd, ACT_SHORT, (long)room); w.faults_armed = w.any_fault = true; TR("op: fault on %c writev short %zu", 'A' + e.id, room); }
        size_t cur = outlen(top(e)); long long n = (long long)e.wlow + d + (long long)room - (long long)cur;
        if (n < 1) n = 1; if (n > 65536) n = 65536; if (w.any_cap && n > 16384) n = 16384;
        w.n_aimed++; app_write(e, (size_t)n, "op(aimed)");
        // a socket only drains inside the loop: optionally run exactly one productive pass (EVLOOP_ONCE) so that the boundary state is what the turn ends in
        if (w.kind == K_SOCK && e.nl == 1 && e.live && s.flag()) { post_op("op"); do_turn(EVLOOP_ONCE, "op(aimed)"); } } break;
      case O_RAIM: {
        // boundary-aimed read (C18): leave high-1 / high / high+1 or low-1 / low / low+1 bytes around the READ watermarks in the input, or (direct
        // pair, partner's output waiting) read just enough that the partner's output drops to low-1 / low / low+1 around its low WRITE watermark
        size_t have = inlen(top(e)); int d = (int)s.below(3) - 1; int how = s.below(3); long long n = -1; End &p = peer(e);
        if (how != 0 && w.kind == K_PAIR && e.nl == 1 && p.live && p.nl == 1 && p.wlow && outlen(top(p)) > p.wlow) n = (long long)outlen(top(p)) - (long long)p.wlow - d;
        else if (how >= 1 && e.rhigh) n = (long long)have - (long long)e.rhigh - d;
        else n = (long long)have - (long long)e.rlow - d;
        if (n >= 1 && (size_t)n <= have) { w.n_aimed++; app_read(e, (size_t)n, "op(aimed)"); } break; }
      case O_READ: { int m = s.below(3); app_read(e, m == 0 ? (size_t)-1 : m == 1 ? 1 + s.below(64) : draw_size(s), "op"); break; }
      case O_ENABLE: do_enable(e, (short)(s.below(3) == 0 ? EV_READ : s.below(2) ? EV_WRITE : EV_READ | EV_WRITE), "op"); break;
      case O_DISABLE: do_disable(e, (short)(s.below(3) == 0 ? EV_READ : s.below(2) ? EV_WRITE : EV_READ | EV_WRITE), "op"); break;
      case O_WM: { int which = s.below(4); short ev = which == 3 ? EV_WRITE : which == 2 ? (EV_READ | EV_WRITE) : EV_READ;
        size_t lo = draw_mark(s), hi = draw_mark(s); int rel = s.below(4); if (rel == 1) hi = lo; else if (rel == 2 && hi > lo) { size_t t = lo; lo = hi; hi = t; }
        do_setwatermark(e, ev, lo, hi, "op"); break; }
      case O_UWM: if (e.nl > 1) { size_t lo = draw_mark(s), hi = draw_mark(s); if (hi && hi < 64) hi = 64;   /* a tiny mark under megabytes of output is legal but takes minutes */
        int k = e.nl - 2; if (M18() && e.nl > 2) k = (int)s.below((uint32_t)e.nl - 1);   // C18: any layer that has a filter on top of it
        TR("op: %c underlying(layer %d) setwatermark(W, %zu, %zu) output=%zu", 'A' + e.id, k, lo, hi, outlen(e.L[k].bev)); bufferevent_setwatermark(e.L[k].bev, EV_WRITE, lo, hi); e.L[k].uw_high = hi; e.L[k].prev_uout = outlen(e.L[k].bev); } break;
      case O_FLUSH: { short io = (short)(1 + s.below(3)); io = (short)(((io & 1) ? EV_READ : 0) | ((io & 2) ? EV_WRITE : 0)); int mode = s.below(3);
        if (e.nl > 2) io = EV_WRITE;   // code-derived corner: flush(EV_READ) on stacked filters strands data in the middle layer (one layer per call, no read callback)
        if (mode == BEV_FINISHED && w.kind == K_PAIR) { if (((io & EV_WRITE) && e.fin_w) || ((io & EV_READ) && e.fin_r) || peer(e).rd_done || peer(e).wr_done) mode = BEV_FLUSH; }
        if (mode == BEV_FINISHED && w.kind == K_PAIR && pair_finish_excluded(e, io)) mode = BEV_FLUSH;
        if (mode != BEV_NORMAL) w.e[0].hi_excuse = w.e[1].hi_excuse = true;
        if (mode == BEV_FINISHED && w.kind == K_PAIR) { if (io & EV_WRITE) e.fin_w = true; if (io & EV_READ) e.fin_r = true; }
        int r = bufferevent_flush(top(e), io, (enum bufferevent_flush_mode)mode); w.n_flush++;
        TR("op: %c flush(io=0x%x, mode=%d) -> %d", 'A' + e.id, io, mode, r);
        for (int i = 0; i < 2; i++) if (w.e[i].live) { w.e[i].total_at_last_rcb = in_total(w.e[i]); w.e[i].low_excuse = true; }
        break; }
      case O_SHUT:
        if (w.kind == K_SOCK) { if (e.fd >= 0 && !e.shut_wr && !e.connect_pending && (cm == CM_NONE || e.n_conn || e.id == 1)) { uint64_t q = all_out(e); TR("op: %c shutdown(SHUT_WR) with %llu byte(s) still buffered", 'A' + e.id, (unsigned long long)q);
            shutdown(e.fd, SHUT_WR); e.shut_wr = true; if (q) { e.clean_out = false; peer(e).clean_in = false; } } }
        else if (!e.fin_w && !peer(e).rd_done && !pair_finish_excluded(e, EV_WRITE)) { e.fin_w = true; w.e[0].hi_excuse = w.e[1].hi_excuse = true; int r = bufferevent_flush(top(e), EV_WRITE, BEV_FINISHED); w.n_flush++; TR("op: %c finish (flush W FINISHED) -> %d", 'A' + e.id, r);
          for (int i = 0; i < 2; i++) if (w.e[i].live) { w.e[i].total_at_last_rcb = in_total(w.e[i]); w.e[i].low_excuse = true; } }
        break;
      case O_FREE: app_free(e, "op"); break;
      case O_FAULT: if (w.kind == K_SOCK && e.fd >= 0) {
          static const long SH[] = {0, 1, 2, 100, 4096}; static const int ER[] = {EAGAIN, EINTR, ECONNRESET, EPIPE};
          bool rd = s.flag(); bool fail = s.below(4) == 3; long arg = fail ? ER[s.below(4)] : SH[s.below(5)];
          sim_script(rd ? SYS_READV : SYS_WRITEV, e.fd, fail ? ACT_FAIL : ACT_SHORT, arg); w.faults_armed = w.any_fault = true;
          TR("op: fault on %c %s %s %ld", 'A' + e.id, rd ? "readv" : "writev", fail ? "fail errno" : "short", arg);
          if (fail && arg != EAGAIN && arg != EINTR) { if (rd) e.clean_in = false; else { e.clean_out = false; peer(e).clean_in = false; } } }
        break;
      case O_CLRFAULT: sim_script_clear(); w.faults_armed = false; TR("op: clear faults"); break;
      case O_SETCB: { bool r = s.flag(), wr = s.flag(), ev = s.flag();
        set_cbs(e, r, wr, ev); break; }
    }
    post_op("op");
  }

  // ---- quiesce and judge
  bool pre_settle_cap = w.cap_hit;
  if (!w.cap_hit) settle();
  if (!w.cap_hit) for (int i = 0; i < 2; i++) { End &src = w.e[i], &dst = w.e[1 - i];
    if (!src.live || !dst.live || !src.clean_out || !dst.clean_in) continue;
    if (dst.rd_done && !(w.kind == K_SOCK && src.shut_wr)) continue;   // judged when the EOF was reported (C17/eof-before-data)
    CHECK(dst.consumed == src.written, K("bytes-not-delivered"), "after the history drained: %c wrote %llu byte(s), %c obtained %llu (no error, reset or free on this direction)", 'A' + i, (unsigned long long)src.written, 'A' + 1 - i, (unsigned long long)dst.consumed);
    if (M17() && w.kind == K_SOCK && src.shut_wr && !dst.ever_cleared_e) CHECK(dst.n_eof_r >= 1, "C17/eof-missing", "%c shut down writing in an orderly way, %c is reading, but saw %d EOF report(s)", 'A' + i, 'A' + 1 - i, dst.n_eof_r);
  }
  (void)pre_settle_cap;

  // ---- teardown
  int closefd[3] = {-1, -1, -1};
  for (int i = 0; i < 2; i++) { End &e = w.e[i]; if (e.fd >= 0 && !e.lib_closes_fd) closefd[i] = e.fd; if (e.live) app_free(e, "teardown"); }
  check_locks("teardown");
  // A deferred bufferevent callback that is still queued holds a reference; event_base_free() cancels it without dropping
  // that reference (the bufferevent, and a CLOSE_ON_FREE fd, would leak).  Not the subject of C17-C19 (reported separately):
  // give the queue one more bounded pass so that pending deferred callbacks and finalizers run.
  w.passes = 0; event_base_loop(w.base, EVLOOP_NONBLOCK);
  event_base_free(w.base); w.base = nullptr;
  for (int i = 0; i < 2; i++) if (closefd[i] >= 0) close(closefd[i]);
  if (w.listener >= 0) close(w.listener);
  int fds1 = count_open_fds();
  if (!w.cap_hit)
  CHECK(fds0 == fds1, K("fd-leak"), "%d file descriptors open at the start of the case, %d at the end", fds0, fds1);
  if (!w.cap_hit)   // (a loop cut short by the harness' pass cap leaves finalizers queued; not judged)
  CHECK(sim_mem_live_blocks == live0, K("leak"), "library allocations outstanding after teardown: %lld", (long long)(sim_mem_live_blocks - live0));
  { const char *er = sim_lockmon_error(); CHECK(er == nullptr, K("lock-misuse"), "teardown: %s", er); }

  // ---- evidence
  bool delivered = w.e[0].consumed + w.e[1].consumed > 0;
  uint64_t total = w.e[0].written + w.e[1].written;
  verif_class(w.kind == K_SOCK ? (cm ? "socket_connect" : "socket") : "pair");
  if (w.nfilt == 1) verif_class("filter1"); if (w.nfilt == 2) verif_class("filter2"); if (w.asym) verif_class("filter_one_side");
  for (int i = 0; i < w.nfilt; i++) verif_class(kinds[i] == F_ID ? "f_identity" : kinds[i] == F_XOR ? "f_xor" : kinds[i] == F_RECHUNK ? "f_rechunk" : "f_null");
  if (delivered) verif_class("delivered"); if (w.any_fault) verif_class("faults"); if (w.saw_short) verif_class("short_write_seen"); if (w.big) verif_class("chunk_gt_64k");
  if (w.cap_hit) verif_class("pass_cap_hit");
  if (w.e[0].n_eof_r + w.e[1].n_eof_r) verif_class("eof_seen"); if (w.e[0].n_err_r + w.e[1].n_err_r + w.e[0].n_err_w + w.e[1].n_err_w) verif_class("error_seen");
  if (w.e[0].wm_susp_seen || w.e[1].wm_susp_seen) verif_class("wm_suspended"); if (w.e[0].wm_resume_seen || w.e[1].wm_resume_seen) verif_class("wm_resumed");
  if (w.n_aimed) verif_class("aimed_rw"); if (w.any_cap) verif_class("f_record"); if (w.uw_limited) verif_class("uw_limited"); if (w.uw_partial) verif_class("uw_partial_record");
  if (w.in_cb_free) verif_class("free_in_callback"); if (w.in_cb_setcb) verif_class("setcb_in_callback");
  if (w.n_early_peer_data) verif_class("peer_data_before_connect_completes");
  if (w.e[0].n_conn) verif_class("connected"); if (w.e[0].connect_failed) verif_class("connect_failed");
  if ((w.e[0].opts | w.e[1].opts) & BEV_OPT_THREADSAFE) verif_class("threadsafe"); if ((w.e[0].opts | w.e[1].opts) & BEV_OPT_DEFER_CALLBACKS) verif_class("deferred");
  int nontrivial = 0;
  if (prop == 17) nontrivial = delivered && w.n_writes > 1 && (w.n_toggles > 2 || w.n_flush) && total > 4096;
  else if (prop == 18) nontrivial = w.e[0].wm_resume_seen || w.e[1].wm_resume_seen || w.uw_limited;
  else nontrivial = w.in_cb_free || w.in_cb_setcb || w.e[0].connect_failed;
  verif_case_end(nontrivial, s.h);
  W = nullptr;
  return 0;
}

static void process_init() { sim_mem_install(); sim_lockmon_install(); signal(SIGPIPE, SIG_IGN); }

}  // namespace bevw
