// C29 — evhttp_uriencode / evhttp_uridecode (round trip, output alphabet, decode never writes more than its
// input length), evhttp_parse_query_str(_flags) / evhttp_parse_query vs a reference splitter, evhttp_htmlescape.
// Preconditions: where the API takes C strings the inputs have no embedded NUL; uriencode gets explicit lengths
// for byte strings with NULs.
#include "verif.h"
#include "sim.h"
#include "uri3986.hh"
#include <event2/http.h>
#include <event2/keyvalq_struct.h>
#include <sys/queue.h>
// non-static internal of http.c (declared in http-internal.h, which does not compile stand-alone as C++)
extern "C" int evhttp_decode_uri_internal(const char *uri, size_t length, char *ret, int decode_plus);

using uri3986::is_unreserved; using uri3986::is_hex;

static int hexval(unsigned char c) { return c <= '9' ? c - '0' : (c | 0x20) - 'a' + 10; }

// ---------------------------------------------------------------- reference definitions (from the header docs)
// "All characters are replaced by their hex-escaped (%22) equivalents, except for characters explicitly
//  unreserved by RFC3986"; space_to_plus: "space characters in 'str' are encoded as +, not %20"
static std::string ref_encode(const std::string &in, bool plus) {
  static const char *H = "0123456789ABCDEF"; std::string r;
  for (unsigned char c : in) {
    if (is_unreserved(c)) r.push_back((char)c);
    else if (c == ' ' && plus) r.push_back('+');
    else { r.push_back('%'); r.push_back(H[c >> 4]); r.push_back(H[c & 15]); }
  }
  return r;
}
// plus_mode: 0 never, 1 always, -1 only after the first '?' (evhttp_decode_uri, deprecated).
// A '%' not followed by two hex digits is copied unchanged (code-derived corner; the docs are silent).
static std::string ref_decode(const std::string &in, int plus_mode) {
  std::string r; bool plus = plus_mode == 1;
  for (size_t i = 0; i < in.size(); i++) {
    unsigned char c = in[i];
    if (c == '?' && plus_mode < 0) plus = true;
    if (c == '+' && plus) { r.push_back(' '); continue; }
    if (c == '%' && i + 2 < in.size() && is_hex(in[i + 1]) && is_hex(in[i + 2])) { r.push_back((char)(hexval(in[i + 1]) * 16 + hexval(in[i + 2]))); i += 2; continue; }
    r.push_back((char)c);
  }
  return r;
}
static int lower(int c) { return (c >= 'A' && c <= 'Z') ? c + 32 : c; }
static bool ieq(const std::string &a, const std::string &b) { if (a.size() != b.size()) return false; for (size_t i = 0; i < a.size(); i++) if (lower((unsigned char)a[i]) != lower((unsigned char)b[i])) return false; return true; }

typedef std::vector<std::pair<std::string, std::string>> KV;
// returns false when the query must be refused
static bool ref_query(const std::string &q, unsigned flags, KV *out) {
  out->clear();
  bool ncf = flags & EVHTTP_URI_QUERY_NONCONFORMANT, last = flags & EVHTTP_URI_QUERY_LAST_VAL;
  std::vector<std::string> pieces; size_t i = 0;
  if (q.empty()) return true;
  for (;;) { size_t a = q.find('&', i); if (a == std::string::npos) { pieces.push_back(q.substr(i)); break; } pieces.push_back(q.substr(i, a - i)); i = a + 1; }
  if (pieces.back().empty()) pieces.pop_back();                 // one trailing '&' is tolerated (code-derived corner)
  for (const std::string &p : pieces) {
    size_t eq = p.find('=');
    std::string key = eq == std::string::npos ? p : p.substr(0, eq);
    bool hasval = eq != std::string::npos;
    std::string val = hasval ? p.substr(eq + 1) : std::string();
    if (ncf) { if (key.empty()) continue; }
    else if (!hasval || key.empty()) { out->clear(); return false; }
    std::string dv = ref_decode(val, 1);
    size_t z = dv.find('\0'); if (z != std::string::npos) dv.resize(z);    // values are C strings
    if (last) { KV kept; for (auto &e : *out) if (!ieq(e.first, key)) kept.push_back(e); *out = kept; }
    out->push_back({key, dv});                                  // keys are not percent-decoded (code-derived corner)
  }
  return true;
}
static std::string ref_htmlescape(const std::string &in) {
  std::string r;
  for (char c : in) switch (c) { case '<': r += "&lt;"; break; case '>': r += "&gt;"; break; case '"': r += "&quot;"; break; case '\'': r += "&#039;"; break; case '&': r += "&amp;"; break; default: r.push_back(c); }
  return r;
}
// inverse, written independently: returns false if a raw markup character or a stray '&' is present
static bool html_unescape(const std::string &in, std::string *out) {
  static const struct { const char *e; char c; } E[] = {{"&lt;", '<'}, {"&gt;", '>'}, {"&quot;", '"'}, {"&#039;", '\''}, {"&amp;", '&'}};
  out->clear();
  for (size_t i = 0; i < in.size();) {
    char c = in[i];
    if (c == '<' || c == '>' || c == '"' || c == '\'') return false;
    if (c == '&') { bool m = false; for (auto &e : E) { size_t l = strlen(e.e); if (in.compare(i, l, e.e) == 0) { out->push_back(e.c); i += l; m = true; break; } } if (!m) return false; continue; }
    out->push_back(c); i++;
  }
  return true;
}

// ---------------------------------------------------------------- generators
static const char PLAIN[] = {'a', 'b', 'z', 'A', 'Z', '0', '9', '-', '.', '_', '~', 'q', 'k', 'K', 'v'};
static const char RESV[] = {' ', '+', '%', '&', '=', '?', '#', '/', ':', '<', '>', '"', '\'', ';', '@', '!', '*', '(', ')', ',', '$', '[', ']', '\\', '^', '`', '{', '|', '}'};
static std::string gen_bytes(Src &s, size_t maxlen, bool allow_nul) {
  std::string r; size_t n = s.below((uint32_t)maxlen + 1);
  for (size_t i = 0; i < n; i++) {
    uint32_t k = s.below(8); unsigned char c;
    if (k < 3) c = PLAIN[s.below(sizeof PLAIN)];
    else if (k < 6) c = RESV[s.below(sizeof RESV)];
    else if (k == 6) { static const unsigned char B[] = {0, 1, 0x1f, 0x20, 0x7f, 0x80, 0xff, 0x2f, 0x3a, 0x40, 0x5b, 0x60, 0x7b, 0x7e, 0x2d, 0x2e}; c = B[s.below(sizeof B)]; }
    else c = (unsigned char)s.byte();
    if (!c && !allow_nul) c = 'n';
    r.push_back((char)c);
  }
  return r;
}
// text with escapes: valid (%41 %7e %00 %2B %26 %3d %20 ...), malformed at any position incl. the very end, pluses
static std::string gen_escaped(Src &s, size_t maxatoms) {
  static const char *OK[] = {"%41", "%7e", "%2B", "%26", "%3d", "%20", "%00", "%fF", "%25", "%0a", "%3F"};
  static const char *BAD[] = {"%", "%4", "%zz", "%4g", "%g4", "%%", "%+1", "% 41"};
  std::string r; size_t n = s.below((uint32_t)maxatoms + 1);
  for (size_t i = 0; i < n; i++) {
    uint32_t k = s.below(16);
    if (k < 6) r.push_back(PLAIN[s.below(sizeof PLAIN)]);
    else if (k < 9) r += OK[s.below(11)];
    else if (k < 11) r.push_back('+');
    else if (k == 11) r += BAD[s.below(8)];
    else if (k == 12) r.push_back('?');
    else if (k == 13) r.push_back(RESV[s.below(sizeof RESV)]);
    else if (k == 14) { r.push_back('%'); r.push_back("0123456789abcdefABCDEFgG"[s.below(24)]); r.push_back("0123456789abcdefABCDEFgG"[s.below(24)]); }
    else { char c = (char)s.byte(); r.push_back(c ? c : 'n'); }
  }
  return r;
}
static std::string gen_key(Src &s) {
  static const char *L[] = {"q", "k", "K", "key", "KEY", "a%20b", "", "x+y", "k%3d", "q2"};
  uint32_t k = s.below(12); if (k < 10) return L[k];
  std::string r = gen_escaped(s, 3); std::string t; for (char c : r) if (c != '&' && c != '=') t.push_back(c); return t;
}
static std::string gen_val(Src &s) {
  static const char *L[] = {"v", "", "some+thing", "a%26b", "x=y", "%00z", "a%", "1"};
  uint32_t k = s.below(12); if (k < 8) return L[k];
  std::string r = gen_escaped(s, 4); std::string t; for (char c : r) if (c != '&') t.push_back(c); return t;
}
static std::string gen_query(Src &s, int *npieces) {
  std::string r; size_t n = s.below(6); *npieces = (int)n;
  for (size_t i = 0; i < n; i++) {
    if (i) r.push_back('&');
    switch (s.below(10)) {
      case 0: break;                                             // empty piece -> "&&" / leading '&'
      case 1: r += gen_key(s); break;                            // no '='
      case 2: r += "=" + gen_val(s); break;                      // empty key
      default: r += gen_key(s) + "=" + gen_val(s); break;
    }
  }
  if (s.chance(1, 6)) r.push_back('&');
  if (s.chance(1, 16)) r.push_back('&');
  return r;
}

static void compare_kv(struct evkeyvalq *h, const KV &want, const char *api, const std::string &q, unsigned flags) {
  size_t i = 0; struct evkeyval *e;
  std::string got;
  TAILQ_FOREACH(e, h, next) { got += "[" + esc(e->key ? e->key : "(null)") + "=" + esc(e->value ? e->value : "(null)") + "]"; }
  std::string ws; for (auto &p : want) ws += "[" + esc(p.first) + "=" + esc(p.second) + "]";
  TR("  %s -> %s (reference %s)", api, got.c_str(), ws.c_str());
  TAILQ_FOREACH(e, h, next) {
    CHECK(i < want.size(), "C29/query-pairs", "%s(\"%s\", flags=%u) yields %s, reference splitter yields %s", api, esc(q).c_str(), flags, got.c_str(), ws.c_str());
    CHECK(e->key && e->value && want[i].first == e->key && want[i].second == e->value, "C29/query-pairs", "%s(\"%s\", flags=%u) yields %s, reference splitter yields %s", api, esc(q).c_str(), flags, got.c_str(), ws.c_str());
    i++;
  }
  CHECK(i == want.size(), "C29/query-pairs", "%s(\"%s\", flags=%u) yields %s, reference splitter yields %s", api, esc(q).c_str(), flags, got.c_str(), ws.c_str());
}

extern "C" int LLVMFuzzerTestOneInput(const uint8_t *data, size_t size) {
  sim_reset();
  verif_case_begin("C29");
  Src s(data, size);
  int nontrivial = 0;
  switch (s.below(4)) {
  case 0: { // encode -> alphabet, reference, decode round trip
    verif_class("encode_roundtrip");
    bool plus = s.flag();
    std::string in = gen_bytes(s, 40, true);
    bool has_nul = in.find('\0') != std::string::npos;
    bool by_strlen = !has_nul && s.flag();
    // exact-size heap copy (no terminator unless the API needs one) so ASan sees any read past `size`
    size_t alloc = in.size() + (by_strlen ? 1 : 0);
    char *src = (char *)malloc(alloc ? alloc : 1); memcpy(src, in.data(), in.size()); if (by_strlen) src[in.size()] = 0;
    char *enc = evhttp_uriencode(src, by_strlen ? -1 : (ev_ssize_t)in.size(), plus);
    free(src);
    CHECK(enc != NULL, "C29/encode-reference", "uriencode returned NULL for %zu bytes", in.size());
    std::string e(enc); free(enc);
    TR("uriencode(%s, size=%s, plus=%d) -> \"%s\"", hexs(in.data(), in.size()).c_str(), by_strlen ? "-1" : std::to_string(in.size()).c_str(), plus, esc(e).c_str());
    for (size_t i = 0; i < e.size(); i++) {
      unsigned char c = e[i];
      if (is_unreserved(c)) continue;
      if (c == '+' && plus) continue;
      CHECK(c == '%' && i + 2 < e.size() && is_hex(e[i + 1]) && is_hex(e[i + 2]), "C29/encode-alphabet", "encoding \"%s\" contains something other than unreserved characters and %%XX escapes at offset %zu", esc(e).c_str(), i);
      i += 2;
    }
    std::string want = ref_encode(in, plus), eu = e;
    for (size_t i = 0; i + 2 < eu.size(); i++) if (eu[i] == '%') { eu[i + 1] = (char)toupper((unsigned char)eu[i + 1]); eu[i + 2] = (char)toupper((unsigned char)eu[i + 2]); i += 2; }
    CHECK(eu == want, "C29/encode-reference", "uriencode gave \"%s\", the documented encoding is \"%s\"", esc(e).c_str(), esc(want).c_str());
    for (int dp = 0; dp <= 1; dp++) {
      if (plus && !dp) continue;                                 // '+' in the output stands for a space only in plus mode
      size_t n = (size_t)-1;
      char *dec = evhttp_uridecode(e.c_str(), dp, &n);
      CHECK(dec != NULL, "C29/roundtrip", "uridecode returned NULL");
      bool same = n == in.size() && !memcmp(dec, in.data(), in.size()) && dec[n] == 0;
      std::string d(dec, n <= e.size() ? n : 0); free(dec);
      CHECK(same, "C29/roundtrip", "uridecode(uriencode(x, plus=%d), decode_plus=%d): size_out=%zu bytes %s, original %zu bytes %s", plus, dp, n, hexs(d.data(), d.size()).c_str(), in.size(), hexs(in.data(), in.size()).c_str());
    }
    { char *dec = evhttp_uridecode(e.c_str(), plus, NULL);         // size_out == NULL is allowed
      size_t z = in.find('\0'); std::string wc = z == std::string::npos ? in : in.substr(0, z);
      CHECK(dec != NULL && wc == dec, "C29/roundtrip", "uridecode without size_out differs from the original");
      free(dec); }
    size_t escapes = 0; for (unsigned char c : in) if (!is_unreserved(c)) escapes++;
    if (has_nul) verif_class("encode_with_nul");
    nontrivial = in.size() >= 2 && escapes >= 1 && escapes < in.size();
    break; }
  case 1: { // decode arbitrary text, bounded output
    verif_class("decode");
    std::string in = gen_escaped(s, 14);
    static const int CTL[] = {0, 1, -1}; int ctl = CTL[s.below(3)];
    std::string want = ref_decode(in, ctl);
    // direct call: input block of exactly `len` bytes (no NUL), output block of exactly len+1 bytes
    size_t len = in.size();
    char *src = (char *)malloc(len ? len : 1); memcpy(src, in.data(), len);
    char *dst = (char *)malloc(len + 1); memset(dst, 0x5a, len + 1);
    int n = evhttp_decode_uri_internal(src, len, dst, ctl);
    TR("decode_uri_internal(\"%s\", len=%zu, ctl=%d) -> %d bytes %s", esc(in).c_str(), len, ctl, n, n >= 0 && (size_t)n <= len ? hexs(dst, (size_t)n).c_str() : "?");
    CHECK(n >= 0 && (size_t)n <= len, "C29/decode-length", "decoding %zu bytes reported %d bytes written", len, n);
    CHECK(dst[n] == 0, "C29/decode-length", "decoded output not terminated at its reported length");
    bool same = (size_t)n == want.size() && !memcmp(dst, want.data(), want.size());
    std::string got(dst, (size_t)n); free(src); free(dst);
    CHECK(same, "C29/decode-reference", "decode(\"%s\", plus-mode %d) gave %s, reference %s", esc(in).c_str(), ctl, hexs(got.data(), got.size()).c_str(), hexs(want.data(), want.size()).c_str());
    // public entry points on the same text
    if (ctl >= 0) { size_t so = (size_t)-1; char *d = evhttp_uridecode(in.c_str(), ctl ? (s.flag() ? 1 : 7) : 0, &so);
      CHECK(d && so == want.size() && !memcmp(d, want.data(), so) && d[so] == 0, "C29/decode-reference", "uridecode(\"%s\", %d) gave %zu bytes, reference %zu bytes %s", esc(in).c_str(), ctl, so, want.size(), hexs(want.data(), want.size()).c_str());
      free(d); }
    else { char *d = evhttp_decode_uri(in.c_str());
      size_t z = want.find('\0'); std::string wc = z == std::string::npos ? want : want.substr(0, z);
      CHECK(d && wc == d, "C29/decode-reference", "decode_uri(\"%s\") gave \"%s\", reference \"%s\"", esc(in).c_str(), d ? esc(d).c_str() : "(null)", esc(wc).c_str());
      free(d); }
    nontrivial = want.size() < in.size() || want != in;
    if (!in.empty() && in[in.size() - 1] == '%') verif_class("decode_trailing_percent");
    if (in.size() >= 2 && in[in.size() - 2] == '%') verif_class("decode_truncated_escape_at_end");
    break; }
  case 2: { // query splitting
    verif_class("query");
    unsigned flags = s.below(4); int np = 0;
    std::string q = gen_query(s, &np);
    KV want; bool ok = ref_query(q, flags, &want);
    uint32_t api = s.below(4);                                   // 0,1: _flags; 2: parse_query_str (flags 0); 3: parse_query on a whole URI
    struct evkeyvalq h; TAILQ_INIT(&h);
    if (api == 3) {
      static const char *PRE[] = {"http://h/p", "/p", "", "http://u@h:80", "p/q"}; static const char *SUF[] = {"", "#f", "#"};
      std::string uri = std::string(PRE[s.below(5)]) + (s.chance(1, 8) ? "" : "?") + q + SUF[s.below(3)];
      struct evhttp_uri *pu = evhttp_uri_parse(uri.c_str());
      uri3986::Parts parts = uri3986::split_b(uri);
      KV w2; bool ok2 = pu != NULL; if (ok2) ok2 = ref_query(parts.query.has ? parts.query.v : std::string(), 0, &w2);
      if (pu) evhttp_uri_free(pu);
      int r = evhttp_parse_query(uri.c_str(), &h);
      TR("parse_query(\"%s\") -> %d (reference %s)", esc(uri).c_str(), r, ok2 ? "ok" : "refuse");
      CHECK(r == (ok2 ? 0 : -1), "C29/query-result", "parse_query(\"%s\") returned %d, reference %s", esc(uri).c_str(), r, ok2 ? "accepts" : "refuses");
      if (!ok2) w2.clear();
      compare_kv(&h, w2, "parse_query", uri, 0);
      evhttp_clear_headers(&h);
      nontrivial = ok2 && w2.size() >= 2;
      verif_class("query_whole_uri");
      break;
    }
    int r;
    if (api == 2) { flags = 0; ok = ref_query(q, 0, &want); r = evhttp_parse_query_str(q.c_str(), &h); }
    else r = evhttp_parse_query_str_flags(q.c_str(), &h, flags);
    TR("parse_query_str%s(\"%s\", flags=%u) -> %d (reference %s)", api == 2 ? "" : "_flags", esc(q).c_str(), flags, r, ok ? "ok" : "refuse");
    CHECK(r == (ok ? 0 : -1), "C29/query-result", "parse_query_str_flags(\"%s\", %u) returned %d, reference %s", esc(q).c_str(), flags, r, ok ? "accepts" : "refuses");
    if (!ok) want.clear();                                        // refused => nothing left in the queue
    compare_kv(&h, want, "parse_query_str_flags", q, flags);
    evhttp_clear_headers(&h);
    if (!ok) verif_class("query_refused");
    if (ok && (int)want.size() < np) verif_class(flags & EVHTTP_URI_QUERY_LAST_VAL ? "query_pairs_dropped_lastval_or_ncf" : "query_pieces_skipped");
    nontrivial = (ok && want.size() >= 2) || (!ok && np >= 2);
    break; }
  default: { // htmlescape
    verif_class("htmlescape");
    std::string in = gen_bytes(s, 24, false);
    if (s.chance(1, 4)) in += s.pick((const char *const[]){"&amp;", "&lt;", "&#039;", "<<", "&&", "'\"", "&quot"});
    char *o = evhttp_htmlescape(in.c_str());
    CHECK(o != NULL, "C29/htmlescape", "htmlescape returned NULL");
    std::string out(o); free(o);
    TR("htmlescape(\"%s\") -> \"%s\"", esc(in).c_str(), esc(out).c_str());
    std::string back;
    CHECK(html_unescape(out, &back), "C29/htmlescape", "output \"%s\" contains a raw markup character or a stray '&'", esc(out).c_str());
    CHECK(back == in, "C29/htmlescape", "output \"%s\" unescapes to \"%s\", input was \"%s\"", esc(out).c_str(), esc(back).c_str(), esc(in).c_str());
    CHECK(out == ref_htmlescape(in), "C29/htmlescape", "output \"%s\" differs from the documented replacements \"%s\"", esc(out).c_str(), esc(ref_htmlescape(in)).c_str());
    nontrivial = out.size() > in.size() && in.size() >= 2;
    break; }
  }
  verif_case_end(nontrivial, s.h);
  return 0;
}
