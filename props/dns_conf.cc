// C39 — resolver configuration files are parsed safely and as documented.
// A case builds resolv.conf / hosts texts from a grammar (plus byte mutations, or plain random bytes), hands them to
// evdns_base_resolv_conf_parse() / evdns_base_load_hosts() as memfd objects addressed through /proc/self/fd/N, mixes
// in evdns_base_set_option() calls, and compares what is observable with refs/resolvconf_ref.hh:
//   result codes, the nameserver list, the search list + ndots / randomize-case / edns-udp-size / use-vc (queries
//   seen by the fake nameservers), max-inflight (datagrams in flight), timeout x attempts (virtual time), hosts
//   entries (evdns_getaddrinfo), and the allocator ledger.  Random-byte inputs: memory safety and leaks only.
#include "dns_common.hh"
#include "resolvconf_ref.hh"
#include <sys/mman.h>
#include <signal.h>
#include <algorithm>
#include <map>
using namespace dnsw;
using rcref::Addr; using rcref::Config;

namespace {
const char K_EMPTY_NUM[] = "C39/empty-number-accepted";
const char K_INT_WRAP[] = "C39/number-wraps";
const char K_PORT[] = "C39/port-junk-accepted";
const char K_NDOTS_RESET[] = "C39/search-resets-ndots";
const char K_FLOAT_UB[] = "ubsan:e-is-outside-the-range-of-representable@evdns.c";   // the driver's key for "(int) d" on a huge double in evdns_strtotimeval

std::string g_etc_hosts; bool g_have_etc_hosts; std::string g_hostname;

struct MemFile {
  int fd = -1; char path[64];
  explicit MemFile(const std::string &content) {
    fd = memfd_create("c39", MFD_CLOEXEC);
    CHECK(fd >= 0, "harness/setup", "memfd_create failed");
    size_t off = 0; while (off < content.size()) { ssize_t r = write(fd, content.data() + off, content.size() - off); CHECK(r > 0, "harness/setup", "memfd write"); off += (size_t)r; }
    snprintf(path, sizeof path, "/proc/self/fd/%d", fd);
  }
  ~MemFile() { if (fd >= 0) close(fd); }
};

std::string fake_ns_text(int i) { char b[64]; snprintf(b, sizeof b, "127.0.0.1:%u", ntohs(g_ns[i].addr.sin_port)); return b; }
bool is_fake(const Addr &a, int *idx) {
  for (int i = 0; i < MAXNS; i++) if (a.family == AF_INET && a.port == ntohs(g_ns[i].addr.sin_port) && !memcmp(a.a, &g_ns[i].addr.sin_addr, 4)) { *idx = i; return true; }
  return false;
}

// ---------------------------------------------------------------- value pools
const char *const INT_OK[] = {"0", "1", "2", "3", "5", "9", "10", "11", "15", "64", "254", "255", "256", "511", "512", "513", "1232", "3600", "3601",
  "4096", "64999", "65000", "65001", "65535", "65536", "70000", "007", "2147483647", "-2", "-7"};
const char *const INT_BIG[] = {"2147483648", "4294967296", "4294967297", "4294967299", "4294967551", "99999999999", "18446744073709551617"};
const char *const INT_BAD[] = {"x", "3x", "0x10", "1.5", "--1", "1-", "a1", ":", "1:2"};
const char *const DUR_OK[] = {"1", "2", "5", "0.5", "2.25", "0.001", "0.01", "0.25", "30", "100", "1.000001", "3600", "3601", "7", "0.002"};
const char *const DUR_BAD[] = {"0", "0.000", "0.0009", "x", "1s", "1.2.3", "-1", "-0.5", "0.0001"};
const char *const DUR_BIG[] = {"99999999999", "3000000000"};
enum OptKind { K_INT, K_DUR, K_NONE, K_ADDR };
struct OptDesc { const char *name; OptKind kind; };
const OptDesc OPTS[] = {{"ndots", K_INT}, {"timeout", K_DUR}, {"attempts", K_INT}, {"max-inflight", K_INT}, {"randomize-case", K_INT}, {"edns-udp-size", K_INT},
  {"use-vc", K_NONE}, {"ignore-tc", K_NONE}, {"max-timeouts", K_INT}, {"getaddrinfo-allow-skew", K_DUR}, {"initial-probe-timeout", K_DUR},
  {"max-probe-timeout", K_INT}, {"probe-backoff-factor", K_INT}, {"so-rcvbuf", K_INT}, {"so-sndbuf", K_INT}, {"tcp-idle-timeout", K_DUR}, {"bind-to", K_ADDR},
  // not options of evdns (ignored): resolv.conf(5) names it does not parse, near misses
  {"rotate", K_NONE}, {"inet6", K_NONE}, {"debug", K_NONE}, {"ndot", K_INT}, {"ndotss", K_INT}, {"timeouts", K_DUR}, {"NDOTS", K_INT}, {"edns0", K_NONE}, {"attempt", K_INT}};
const int NOPTS = sizeof OPTS / sizeof OPTS[0];
const char *const BIND_VALS[] = {"127.0.0.2", "127.0.0.3", "127.0.0.9", "junk", "1.2.3", "", "127.0.0.2:0", "[::1"};

template <size_t N> const char *pick(Src &s, const char *const (&a)[N]) { return a[s.below(N)]; }

std::string gen_value(Src &s, OptKind k, bool via_api) {
  switch (k) {
    case K_INT: {
      int sel = s.below(16);
      if (sel < 10) return pick(s, INT_OK);
      if (sel < 12) { if (verif_known(K_INT_WRAP)) { verif_known_skipped(K_INT_WRAP); return pick(s, INT_OK); } return pick(s, INT_BIG); }
      if (sel < 14) return pick(s, INT_BAD);
      if (sel == 14) { if (verif_known(K_EMPTY_NUM)) { verif_known_skipped(K_EMPTY_NUM); return "4"; } return ""; }
      return via_api ? "3 " : "12";
    }
    case K_DUR: {
      int sel = s.below(16);
      if (sel < 11) return pick(s, DUR_OK);
      if (sel < 14) return pick(s, DUR_BAD);
      if (sel == 14) { if (verif_known(K_FLOAT_UB)) { verif_known_skipped(K_FLOAT_UB); return "8"; } return pick(s, DUR_BIG); }
      return "";
    }
    case K_NONE: return s.chance(1, 6) ? "1" : "";
    case K_ADDR: return pick(s, BIND_VALS);
  }
  return "";
}

const char *const SEARCH_DOMS[] = {"example.com", "corp", "a.b.c", "x", ".lead.dot", "UP.per", "trail.dot.", "sub.example.org", "dd..ee", "#", "lan",
  "l64.aaaaaaaaaaaaaaaaaaaaaaaaaaaaaaaaaaaaaaaaaaaaaaaaaaaaaaaaaaaaaaaa", "."};
const char *const NS_OK[] = {"10.0.0.1", "192.0.2.7:5353", "8.8.8.8:53", "127.0.0.1", "127.0.0.53", "::1", "[::1]:5353", "2001:db8::1", "[2001:db8::2]", "[2001:db8::3]:65535",
  "1.2.3.4:1", "1.2.3.4:65535", "1.2.3.4:053", "255.255.255.255", "0.0.0.0", "::ffff:1.2.3.4"};
const char *const NS_BAD[] = {"1.2.3", "1.2.3.4:0", "1.2.3.4:65536", "1.2.3.4:", "[::1", "::1]:53", "1.2.3.4.5", "example.com", "256.1.1.1", "[1.2.3.4]:53", "1.2.3.4:-5",
  "[::1]:0", "[::1]:", ":53", "1.2.3.4:99999999", "::g", "[]", "[]:53", "1..2.3", "1.2.3.4#53"};
const char *const NS_PORTJUNK[] = {"1.2.3.4:53x", "1.2.3.4:5 3", "[::1]:53abc", "1.2.3.4:4294967349", "9.9.9.9:53:"};
const char *const JUNK_LINES[] = {"# a comment", "; another comment", "#nameserver 6.6.6.6", ";search evil.example", "sortlist 130.155.160.0/255.255.240.0", "rotate", "lookup file bind",
  "nameserverx 6.6.6.6", "NAMESERVER 6.6.6.6", "Search evil.example", "option ndots:7", "optionsndots:7", "nameserver", "domain", "options", "", "   ", "\t", "family inet4", "nameserver\t", "search#x"};

std::string sep(Src &s) { static const char *const S[] = {" ", " ", " ", "\t", "  ", " \t ", "\t\t"}; return S[s.below(7)]; }

std::string gen_ns_token(Src &s, int *nfake) {
  int sel = s.below(16);
  if (sel < 6) { (*nfake)++; return fake_ns_text(s.below(MAXNS)); }
  if (sel < 11) return pick(s, NS_OK);
  if (sel < 14) return pick(s, NS_BAD);
  if (sel == 14) { if (verif_known(K_PORT)) { verif_known_skipped(K_PORT); return pick(s, NS_OK); } const char *t = pick(s, NS_PORTJUNK); return strchr(t, ' ') ? "1.2.3.4:53x" : t; }
  return std::string(100 + s.below(300), s.flag() ? '1' : 'a');     // very long token
}

std::string gen_option_token(Src &s) {
  const OptDesc &o = OPTS[s.below(NOPTS)];
  std::string v = gen_value(s, o.kind, false);
  for (char &ch : v) if (ch == ' ') ch = '_';
  if (o.kind == K_NONE && v.empty()) return s.chance(1, 5) ? std::string(o.name) + ":" : std::string(o.name);
  if (v.empty() && s.flag()) return o.name;       // "ndots" without colon and value
  return std::string(o.name) + ":" + v;
}

std::string gen_resolv(Src &s, int *nfake) {
  std::string out; int nlines = s.below(9);
  bool crlf_all = s.chance(1, 10);
  for (int i = 0; i < nlines; i++) {
    std::string l; int kind = s.below(12);
    if (kind <= 3) { l = "nameserver" + sep(s) + gen_ns_token(s, nfake); if (s.chance(1, 6)) l += sep(s) + (s.flag() ? "# primary" : "extra"); }
    else if (kind == 4) { l = "domain" + sep(s) + pick(s, SEARCH_DOMS); if (s.chance(1, 6)) l += sep(s) + "second.example"; }
    else if (kind <= 6) { l = "search"; int n = s.below(5); for (int k = 0; k < n; k++) l += sep(s) + pick(s, SEARCH_DOMS); }
    else if (kind <= 9) { l = "options"; int n = 1 + s.below(3); for (int k = 0; k < n; k++) l += sep(s) + gen_option_token(s); }
    else if (kind == 10) l = pick(s, JUNK_LINES);
    else { l = "search" + sep(s) + std::string(200 + s.below(1500), 'z') + ".example"; }     // very long line
    if (s.chance(1, 8)) l += sep(s);        // trailing blanks
    out += l;
    bool last = i == nlines - 1;
    if (last && s.chance(1, 4)) break;      // missing final newline
    out += (crlf_all || s.chance(1, 16)) ? "\r\n" : "\n";
  }
  return out;
}

const char *const HOST_NAMES[] = {"alpha", "beta.example", "Gamma.Example.COM", "localhost", "x", "host-1", "with_underscore", "delta.example.", "a.b.c.d.e"};
const char *const HOST_ADDRS[] = {"127.0.0.1", "10.1.2.3", "192.0.2.99", "::1", "2001:db8::77", "fe80::1", "0.0.0.0", "255.255.255.255", "::ffff:10.0.0.1", "::"};
const char *const HOST_BADADDR[] = {"1.2.3", "1.2.3.4:80", "[::1]:80", "example", "1.2.3.4.5", "::g", "256.0.0.1", "1.2.3.4:0", "12345", ":"};
std::string gen_hosts(Src &s) {
  std::string out; int nlines = s.below(8); bool crlf_all = s.chance(1, 12);
  for (int i = 0; i < nlines; i++) {
    std::string l; int kind = s.below(12);
    if (kind <= 7) {
      l = (kind == 7) ? pick(s, HOST_BADADDR) : pick(s, HOST_ADDRS);
      if (s.chance(1, 10)) l = sep(s) + l;      // leading blanks before the address
      int n = s.chance(1, 10) ? 0 : 1 + s.below(3);
      for (int k = 0; k < n; k++) l += sep(s) + pick(s, HOST_NAMES);
      int tail = s.below(10);
      if (tail == 0) l += sep(s) + "# comment words";
      else if (tail == 1) l += "#glued";
      else if (tail == 2) l += sep(s) + "#c " + pick(s, HOST_NAMES);
      else if (tail == 3) l += std::string("#glued") + sep(s) + "hidden.example" + sep(s) + pick(s, HOST_NAMES);
    } else if (kind == 8) l = std::string("# ") + pick(s, HOST_ADDRS) + " commented";
    else if (kind == 9) l = s.flag() ? "" : " \t ";
    else if (kind == 10) l = std::string(pick(s, HOST_ADDRS)) + sep(s) + std::string(100 + s.below(900), 'h') + sep(s) + "after-long";
    else l = std::string("#") + pick(s, HOST_ADDRS) + " hidden";
    out += l;
    if (i == nlines - 1 && s.chance(1, 4)) break;
    out += (crlf_all || s.chance(1, 16)) ? "\r\n" : "\n";
  }
  return out;
}

void mutate(Src &s, std::string &t) {
  static const char ALPHA[] = {'\n', ' ', '\t', ':', '#', ';', '.', '0', '1', '9', '-', '[', ']', '\r', 'n', 's', 'x', (char)0x80, (char)0xff, 0};
  int n = 1 + s.below(3);
  for (int i = 0; i < n; i++) {
    uint32_t pos = t.empty() ? 0 : s.below((uint32_t)t.size() + 1); char ch = ALPHA[s.below(sizeof ALPHA - (s.chance(1, 8) ? 0 : 1))];
    switch (s.below(4)) {
      case 0: if (pos < t.size()) t[pos] = ch; break;
      case 1: t.insert(t.begin() + pos, ch); break;
      case 2: if (pos < t.size()) t.erase(pos, 1 + s.below(4)); break;
      case 3: if (pos < t.size()) { size_t e = t.find('\n', pos); std::string line = t.substr(pos, e == std::string::npos ? std::string::npos : e - pos + 1); t.insert(pos, line); } break;   // duplicate rest of line
    }
  }
}

// ---------------------------------------------------------------- observation helpers
struct GaiResult { int calls = 0; int err = -12345; std::vector<Addr> addrs; };
void gai_cb(int err, struct evutil_addrinfo *res, void *arg) {
  GaiResult *g = (GaiResult *)arg; g->calls++; g->err = err;
  for (struct evutil_addrinfo *ai = res; ai; ai = ai->ai_next) {
    Addr a; a.family = ai->ai_family;
    if (ai->ai_family == AF_INET) { struct sockaddr_in *sin = (struct sockaddr_in *)ai->ai_addr; memcpy(a.a, &sin->sin_addr, 4); a.port = ntohs(sin->sin_port); }
    else if (ai->ai_family == AF_INET6) { struct sockaddr_in6 *sin6 = (struct sockaddr_in6 *)ai->ai_addr; memcpy(a.a, &sin6->sin6_addr, 16); a.port = ntohs(sin6->sin6_port); }
    g->addrs.push_back(a);
  }
  if (res) evutil_freeaddrinfo(res);
}
struct ResCb { int calls = 0; int result = -1; };
void res_cb(int result, char, int, int, void *, void *arg) { ResCb *r = (ResCb *)arg; r->calls++; r->result = result; }

bool looks_numeric(const std::string &n) {
  Addr a; if (rcref::parse_ip(n, AF_INET, &a) != rcref::INVALID || rcref::parse_ip(n, AF_INET6, &a) != rcref::INVALID) return true;
  return n.find(':') != std::string::npos || n.find('%') != std::string::npos;
}
bool same_name(const Labels &q, const Labels &want, bool exact) {
  if (q.size() != want.size()) return false;
  for (size_t i = 0; i < q.size(); i++) if (exact ? q[i] != want[i] : !eq_nocase(q[i], want[i])) return false;
  return true;
}
struct Seen { std::string name; Labels labels; bool tcp = false; bool has_opt = false; unsigned opt = 0; int64_t at = 0; };

struct Harness {
  World &w; Src &s;
  Harness(World &w_, Src &s_) : w(w_), s(s_) {}
  // collect every query currently readable (UDP on all fake servers + TCP), answer per `nx` with NXDOMAIN
  std::vector<Datagram> kept;     // unanswered datagrams (answer_kept() sends NXDOMAIN for them)
  void answer_kept() { for (auto &d : kept) { Builder b = reply_header_echo(d.data, F_QR | F_RD | F_RA | 3, 0); udp_send(d.ns, d.from, b.b.data(), b.b.size()); } kept.clear(); }
  void collect(std::vector<Seen> *out, bool answer_nx) {
    Datagram d;
    for (int i = 0; i < MAXNS; i++) while (udp_recv(i, &d)) {
      Query q = decode_query_strict(d.data.data(), d.data.size());
      CHECK(q.ok, "C39/malformed-query", "datagram on fake nameserver %d is not a well-formed query: %s", i, q.why);
      Seen sn; sn.labels = q.name; sn.name = join(q.name); sn.has_opt = q.has_opt; sn.opt = q.opt_size; sn.at = sim_now_us();
      TR("    udp query ns%d \"%s\" type=%u opt=%d/%u t=+%lldus", i, esc(sn.name, 80).c_str(), q.type, q.has_opt, q.opt_size, (long long)(sn.at - SIM_START_US));
      out->push_back(sn);
      if (answer_nx) { Builder b = reply_header_echo(d.data, F_QR | F_RD | F_RA | 3, 0); udp_send(i, d.from, b.b.data(), b.b.size()); } else kept.push_back(d);
    }
    w.tcp_poll();
    for (auto &c : w.conns) { std::vector<uint8_t> m;
      while (c.fd >= 0 && World::tcp_pop(c, &m)) {
        Query q = decode_query_strict(m.data(), m.size());
        CHECK(q.ok, "C39/malformed-query", "TCP message is not a well-formed query: %s", q.why);
        Seen sn; sn.labels = q.name; sn.name = join(q.name); sn.tcp = true; sn.has_opt = q.has_opt; sn.opt = q.opt_size; sn.at = sim_now_us();
        TR("    tcp query \"%s\"", esc(sn.name, 80).c_str());
        out->push_back(sn);
        if (answer_nx) { Builder b = reply_header_echo(m, F_QR | F_RD | F_RA | 3, 0); std::vector<uint8_t> fr; fr.push_back((uint8_t)(b.b.size() >> 8)); fr.push_back((uint8_t)b.b.size()); fr.insert(fr.end(), b.b.begin(), b.b.end()); (void)!write(c.fd, fr.data(), fr.size()); }
      } }
  }
};
}  // namespace

extern "C" int LLVMFuzzerInitialize(int *, char ***) {
  common_init();
  signal(SIGPIPE, SIG_IGN);
  { FILE *f = fopen("/etc/hosts", "rb"); if (f) { char buf[4096]; size_t n; while ((n = fread(buf, 1, sizeof buf, f)) > 0) g_etc_hosts.append(buf, n); fclose(f); g_have_etc_hosts = true; } }
  { char h[256] = ""; if (!gethostname(h, sizeof h)) g_hostname = h; }
  // warm-up (one-time global allocations are not charged to a case)
  sim_reset(); World w; w.open(1); ResCb c; GaiResult g;
  evdns_base_resolve_ipv4(w.dns, "warm.up", DNS_QUERY_NO_SEARCH, res_cb, &c); w.turn();
  Datagram d; while (udp_recv(0, &d)) { Builder b = reply_header_echo(d.data, F_QR | F_RD | F_RA | 3, 0); udp_send(0, d.from, b.b.data(), b.b.size()); }
  w.turn();
  evdns_base_load_hosts(w.dns, NULL);
  struct evutil_addrinfo hints; memset(&hints, 0, sizeof hints); hints.ai_family = AF_INET; hints.ai_socktype = SOCK_STREAM;
  evdns_getaddrinfo(w.dns, "localhost", NULL, &hints, gai_cb, &g);
  w.close_dns(0); w.turn(); event_base_free(w.base); w.base = nullptr; sim_reset();
  return 0;
}

extern "C" int LLVMFuzzerTestOneInput(const uint8_t *data, size_t size) {
  sim_reset();
  verif_case_begin("C39");
  Src s(data, size);
  World w; w.open(0);
  Harness hz(w, s);
  Config ref; ref.hostname = g_hostname;
  ref.tol_empty = verif_known(K_EMPTY_NUM); ref.tol_wrap = verif_known(K_INT_WRAP); ref.tol_port = verif_known(K_PORT);
  // a disagreement in an option's effect is attributed to the out-of-syntax number that was met, if any
  ref.tol_ndots_reset = verif_known(K_NDOTS_RESET);
  auto blame = [&](const rcref::IntField &f, const char *dflt) -> const char * { return (f.met_empty && !ref.tol_empty) ? K_EMPTY_NUM : (f.met_big && !ref.tol_wrap) ? K_INT_WRAP : dflt; };
  int mode = s.below(10);     // 0-6 grammar, 7-8 grammar + mutation, 9 random bytes

  // ================================================================ random bytes: safety + leaks only
  if (mode == 9) {
    size_t n = s.left() > 2 ? s.left() - 2 : 0; int flags = s.below(32); bool as_hosts = s.flag();
    std::string content = s.bytes(n);
    TR("random bytes (%zu) flags=%d as_hosts=%d: \"%s\"", n, flags, as_hosts, esc(content, 300).c_str());
    MemFile f(content);
    int r1 = evdns_base_resolv_conf_parse(w.dns, flags, f.path);
    int r2 = as_hosts ? evdns_base_load_hosts(w.dns, f.path) : 0;
    CHECK(r1 >= 0 && r1 <= 6, "C39/result-code-range", "evdns_base_resolv_conf_parse returned %d", r1);
    CHECK(r2 == 0, "C39/load-hosts-result", "evdns_base_load_hosts on a readable file returned %d", r2);
    int cnt = evdns_base_count_nameservers(w.dns);
    for (int i = 0; i < cnt && i < 64; i++) { struct sockaddr_storage ss; int r = evdns_base_get_nameserver_addr(w.dns, i, (struct sockaddr *)&ss, sizeof ss); CHECK(r > 0 && r <= (int)sizeof ss, "C39/nameserver-addr", "get_nameserver_addr(%d)=%d with count %d", i, r, cnt); }
    // look something up in whatever hosts table resulted
    struct evutil_addrinfo hints; memset(&hints, 0, sizeof hints); hints.ai_family = AF_UNSPEC; hints.ai_socktype = SOCK_STREAM;
    GaiResult g; struct evdns_getaddrinfo_request *rq = evdns_getaddrinfo(w.dns, "localhost", NULL, &hints, gai_cb, &g);
    if (rq) { evdns_getaddrinfo_cancel(rq); w.turn(); }
    CHECK(g.calls == 1, "C39/gai-callback-count", "getaddrinfo callback ran %d times", g.calls);
    servers_drain();
    w.finish("C39/leak");
    verif_class("random_bytes");
    verif_case_end(n >= 8, s.h);
    return 0;
  }

  // ================================================================ grammar (+ mutation)
  bool any_effect = false; int observations = 0;
  // ---- state before the file is read
  int npre = s.below(3);
  for (int i = 0; i < npre; i++) {
    switch (s.below(4)) {
      case 0: { std::string t = s.flag() ? fake_ns_text(s.below(MAXNS)) : "10.9.9.9";
        int r = evdns_base_nameserver_ip_add(w.dns, t.c_str()); Addr a; bool pg; rcref::parse_ip_port(t, &a, &pg); if (!pg) a.port = 53;
        bool dup = false; for (auto &e : ref.ns) if (e.addr == a) dup = true;
        TR("pre: nameserver_ip_add(%s) = %d", t.c_str(), r);
        CHECK(dup ? r != 0 : r == 0, "C39/nameserver-ip-add", "evdns_base_nameserver_ip_add(\"%s\") returned %d (duplicate=%d)", t.c_str(), r, dup);
        rcref::ns_add(ref, a, false); break; }
      case 1: { const char *d = s.flag() ? "pre.example" : ".pre2.example"; evdns_base_search_add(w.dns, d); ref.search.insert(ref.search.begin(), rcref::strip_dots(d)); TR("pre: search_add(%s)", d); break; }
      case 2: { evdns_base_load_hosts(w.dns, NULL); rcref::load_hosts(ref, nullptr, true); TR("pre: load_hosts(NULL)"); break; }
      case 3: { int nd = s.below(4); evdns_base_search_ndots_set(w.dns, nd); ref.ndots = rcref::IntField(nd); TR("pre: ndots_set(%d)", nd); break; }
    }
  }

  // ---- resolv.conf (once or twice), hosts files, set_option calls, in generated order
  int nsteps = 1 + s.below(4); bool mutated = false; int nfake = 0;
  for (int st = 0; st < nsteps; st++) {
    int what = st == 0 ? 0 : s.below(4);     // 0 resolv.conf  1 hosts  2-3 set_option
    if (what == 0) {
      static const int FLAGSETS[] = {15, 15, 15, 7, 31, 23, 2, 1, 4, 8, 3, 6, 5, 18, 16, 0, 19, 9};
      int flags = s.chance(1, 4) ? (int)s.below(32) : FLAGSETS[s.below(sizeof FLAGSETS / sizeof FLAGSETS[0])];
      int variant = s.below(12);     // 0: file cannot be opened; 1: NULL filename; else a memfd
      std::string content = variant >= 2 ? gen_resolv(s, &nfake) : "";
      if (variant >= 2 && mode >= 7) { mutate(s, content); mutated = true; }
      if (content.find('\0') != std::string::npos) verif_class("nul_in_file");
      if (verif_known(K_FLOAT_UB)) { Config dry = ref; rcref::resolv_conf(dry, &content, flags, nullptr); if (dry.n_big_dur != ref.n_big_dur) { verif_known_skipped(K_FLOAT_UB); content = "# skipped\n"; } }
      TR("resolv.conf flags=%d variant=%s:\n%s\n--", flags, variant == 0 ? "unopenable" : variant == 1 ? "NULL" : "memfd", esc(content, 3000).c_str());
      int r;
      if (variant == 0) { char path[64]; { MemFile f("nameserver 7.7.7.7\n"); strcpy(path, f.path); } r = evdns_base_resolv_conf_parse(w.dns, flags, path); }
      else if (variant == 1) r = evdns_base_resolv_conf_parse(w.dns, flags, NULL);
      else { MemFile f(content); r = evdns_base_resolv_conf_parse(w.dns, flags, f.path); }
      int want = rcref::resolv_conf(ref, variant >= 2 ? &content : nullptr, flags, g_have_etc_hosts ? &g_etc_hosts : nullptr);
      TR("  -> %d (reference %d)", r, want);
      CHECK(want < 0 || r == want, "C39/result-code", "evdns_base_resolv_conf_parse(flags=%d) returned %d, the reference parser says %d", flags, r, want);
      any_effect = true;
    } else if (what == 1) {
      int variant = s.below(10);    // 0 NULL, 1 unopenable, else memfd
      std::string content = variant >= 2 ? gen_hosts(s) : "";
      if (variant >= 2 && mode >= 7) { mutate(s, content); mutated = true; }
      TR("hosts variant=%s:\n%s\n--", variant == 0 ? "NULL" : variant == 1 ? "unopenable" : "memfd", esc(content, 3000).c_str());
      int r;
      if (variant == 0) r = evdns_base_load_hosts(w.dns, NULL);
      else if (variant == 1) { char path[64]; { MemFile f("1.1.1.1 gone\n"); strcpy(path, f.path); } r = evdns_base_load_hosts(w.dns, path); }
      else { MemFile f(content); r = evdns_base_load_hosts(w.dns, f.path); }
      int want = rcref::load_hosts(ref, variant >= 2 ? &content : nullptr, variant == 0);
      CHECK((want == 0) == (r == 0) && (want < 0) == (r < 0), "C39/load-hosts-result", "evdns_base_load_hosts returned %d, documented result %s", r, want ? "negative" : "0");
      if (s.chance(1, 12)) { evdns_base_clear_host_addresses(w.dns); ref.hosts.clear(); TR("clear_host_addresses"); }
      any_effect = true;
    } else {
      const OptDesc &o = OPTS[s.below(NOPTS)]; std::string v = gen_value(s, o.kind, true);
      std::string name = o.name; if (s.flag()) name += ":";
      bool null_val = o.kind == K_NONE && v.empty() && s.flag();
      int r = evdns_base_set_option(w.dns, name.c_str(), null_val ? NULL : v.c_str());
      bool unspec_ret; int want = rcref::set_option(ref, o.name, v, 31, &unspec_ret);
      TR("set_option(\"%s\", %s%s%s) = %d (reference %d%s)", name.c_str(), null_val ? "NULL" : "\"", null_val ? "" : esc(v).c_str(), null_val ? "" : "\"", r, want, unspec_ret ? ", undecided" : "");
      if (!unspec_ret) {
        const char *key = (want == -1 && r == 0 && v.empty()) ? K_EMPTY_NUM : "C39/set-option-result";
        CHECK(r == want, key, "evdns_base_set_option(\"%s\", \"%s\") returned %d, documented syntax says %d", name.c_str(), esc(v).c_str(), r, want);
      }
      any_effect = true;
    }
  }

  // ================================================================ (b) nameserver list
  {
    int cnt = evdns_base_count_nameservers(w.dns);
    std::vector<Addr> got;
    for (int i = 0; i < cnt; i++) {
      struct sockaddr_storage ss; memset(&ss, 0, sizeof ss);
      int r = evdns_base_get_nameserver_addr(w.dns, i, (struct sockaddr *)&ss, sizeof ss);
      CHECK(r > 0 && r <= (int)sizeof ss, "C39/nameserver-addr", "get_nameserver_addr(%d)=%d with count %d", i, r, cnt);
      Addr a; a.family = ss.ss_family;
      if (ss.ss_family == AF_INET) { struct sockaddr_in *sin = (struct sockaddr_in *)&ss; memcpy(a.a, &sin->sin_addr, 4); a.port = ntohs(sin->sin_port); }
      else if (ss.ss_family == AF_INET6) { struct sockaddr_in6 *sin6 = (struct sockaddr_in6 *)&ss; memcpy(a.a, &sin6->sin6_addr, 16); a.port = ntohs(sin6->sin6_port); }
      TR("nameserver[%d] = %s", i, a.str().c_str());
      got.push_back(a);
    }
    { struct sockaddr_storage ss; int r = evdns_base_get_nameserver_addr(w.dns, cnt, (struct sockaddr *)&ss, sizeof ss); CHECK(r == -1, "C39/nameserver-addr", "get_nameserver_addr(count=%d) returned %d, documented -1", cnt, r); }
    for (size_t i = 0; i < got.size(); i++) for (size_t j = i + 1; j < got.size(); j++) CHECK(!(got[i] == got[j]), "C39/nameserver-duplicate", "nameserver %s is configured twice", got[i].str().c_str());
    for (auto &e : ref.ns) { if (e.optional) continue; bool f = false; for (auto &g : got) if (g == e.addr) f = true;
      CHECK(f, "C39/nameserver-missing", "nameserver %s is in the reference configuration but not in the resolver (%d configured)", e.addr.str().c_str(), cnt); }
    for (auto &g : got) { bool f = false; for (auto &e : ref.ns) if (g == e.addr) f = true;
      if (!f) {
        // an address the strict syntax refuses: was it a port with trailing junk / out-of-range digits?
        bool junk = false; for (auto &j : ref.junk_ns) if (j == g) junk = true;
        VERIF_FAIL(junk ? K_PORT : "C39/nameserver-invented", "nameserver %s is configured in the resolver but no well-formed line of the input configures it (%zu in the reference)%s", g.str().c_str(), ref.ns.size(),
                   junk ? "; a refused 'address:port' token has a port part that only atoi() would read as this port" : "");
      } }
    if (!got.empty()) observations++;
    verif_class_n("nameservers", got.size());
  }

  // ================================================================ (d) hosts entries through evdns_getaddrinfo
  // a fake nameserver must exist so that misses have somewhere to go
  bool all_fake = !ref.ns.empty(); for (auto &e : ref.ns) { int idx; if (!is_fake(e.addr, &idx) || e.optional) all_fake = false; }
  if (!all_fake) {
    evdns_base_clear_nameservers_and_suspend(w.dns);
    int r = evdns_base_nameserver_sockaddr_add(w.dns, (struct sockaddr *)&g_ns[0].addr, sizeof g_ns[0].addr, 0);
    CHECK(r == 0, "C39/nameserver-add-after-config", "adding a loopback nameserver after the configuration was read failed: %d", r);
    evdns_base_resume(w.dns);
  } else verif_class("file_nameservers_used");
  w.nns = MAXNS;
  {
    std::vector<std::string> names;
    for (auto &h : ref.hosts) { bool dup = false; for (auto &n : names) if (rcref::eq_nocase(n, h.name)) dup = true; if (!dup && names.size() < 24) names.push_back(h.name); }
    int nprobe = names.empty() ? (s.chance(1, 4) ? 1 : 0) : 1 + s.below(4);
    for (int p = 0; p < nprobe; p++) {
      std::string name; bool miss = names.empty() || s.chance(1, 4);
      if (miss) { int k = s.below(12); name = k == 0 ? "no-such-host.example" : k == 1 ? "alph" : k == 2 ? "hidden.example" : HOST_NAMES[s.below(sizeof HOST_NAMES / sizeof HOST_NAMES[0])]; }
      else { name = names[s.below((uint32_t)names.size())]; if (s.chance(1, 3)) for (char &ch : name) { if (ch >= 'a' && ch <= 'z' && s.flag()) ch -= 32; else if (ch >= 'A' && ch <= 'Z' && s.flag()) ch += 32; } }
      if (looks_numeric(name) || name.empty()) continue;
      static const int FAMS[] = {AF_UNSPEC, AF_INET, AF_INET6}; int fam = FAMS[s.below(3)];
      struct evutil_addrinfo hints; memset(&hints, 0, sizeof hints); hints.ai_family = fam; hints.ai_socktype = SOCK_STREAM;
      std::vector<Addr> req, opt; bool other_family = false;
      for (auto &h : ref.hosts) if (rcref::eq_nocase(h.name, name)) {
        if (fam != AF_UNSPEC && h.addr.family != fam) { other_family = true; continue; }
        (h.optional ? opt : req).push_back(h.addr); }
      GaiResult g; struct evdns_getaddrinfo_request *rq = evdns_getaddrinfo(w.dns, name.c_str(), NULL, &hints, gai_cb, &g);
      TR("getaddrinfo(\"%s\", family=%d) -> %s calls=%d err=%d n=%zu (reference: %zu required, %zu optional, other_family=%d)", esc(name, 60).c_str(), fam, rq ? "pending" : "done", g.calls, g.err, g.addrs.size(), req.size(), opt.size(), other_family);
      if (!req.empty()) {
        CHECK(!rq && g.calls == 1 && g.err == 0, "C39/hosts-entry-missing", "\"%s\" (family %d) has %zu hosts entr%s in the reference but evdns_getaddrinfo %s (err=%d)", esc(name, 60).c_str(), fam, req.size(), req.size() == 1 ? "y" : "ies", rq ? "went to DNS" : "failed", g.err);
        std::vector<Addr> have = g.addrs; std::sort(have.begin(), have.end());
        std::vector<Addr> must = req; std::sort(must.begin(), must.end());
        std::vector<Addr> may = opt; std::sort(may.begin(), may.end());
        // multiset: must ⊆ have ⊆ must ∪ may
        std::vector<Addr> rest;
        std::set_difference(have.begin(), have.end(), must.begin(), must.end(), std::back_inserter(rest));
        std::vector<Addr> lacking; std::set_difference(must.begin(), must.end(), have.begin(), have.end(), std::back_inserter(lacking));
        CHECK(lacking.empty(), "C39/hosts-entry-missing", "\"%s\": address %s from the hosts data is not in the result (%zu returned)", esc(name, 60).c_str(), lacking[0].str().c_str(), have.size());
        std::vector<Addr> extra; std::set_difference(rest.begin(), rest.end(), may.begin(), may.end(), std::back_inserter(extra));
        CHECK(extra.empty(), "C39/hosts-entry-invented", "\"%s\": address %s returned but no well-formed hosts line provides it", esc(name, 60).c_str(), extra[0].str().c_str());
        observations++; verif_class("hosts_hit");
      } else if (opt.empty() && !other_family) {
        CHECK(!(g.calls && g.err == 0), "C39/hosts-entry-invented", "\"%s\" has no hosts entry in the reference but evdns_getaddrinfo answered at once with %zu address(es), first %s", esc(name, 60).c_str(), g.addrs.size(), g.addrs.empty() ? "-" : g.addrs[0].str().c_str());
        verif_class("hosts_miss");
      } else {
        if (g.calls && g.err == 0) for (auto &a : g.addrs) { bool ok = false; for (auto &o : opt) if (o == a) ok = true; CHECK(ok, "C39/hosts-entry-invented", "\"%s\": address %s returned but no hosts line provides it", esc(name, 60).c_str(), a.str().c_str()); }
      }
      if (rq) { evdns_getaddrinfo_cancel(rq); w.turn(); }
      CHECK(g.calls == 1, "C39/gai-callback-count", "getaddrinfo callback ran %d times for \"%s\"", g.calls, esc(name, 60).c_str());
      { std::vector<Seen> junk; hz.collect(&junk, false); hz.kept.clear(); }     // discard what the miss put on the wire (TCP connections stay open)
    }
  }

  // ================================================================ (c) wire probes
  bool exact_case = !ref.randomize_case.unspec && ref.randomize_case.v == 0 && (!ref.randomize_case.big || ref.randomize_case.alt == 0);
  auto check_edns = [&](const Seen &q) {
    if (q.tcp || ref.edns.unspec) return;
    bool ok = (q.has_opt == (ref.edns.v > 512) && (!q.has_opt || (int)q.opt == ref.edns.v)) || (ref.edns.big && q.has_opt == (ref.edns.alt > 512) && (!q.has_opt || (int)q.opt == ref.edns.alt));
    const char *key = blame(ref.edns, "C39/edns-udp-size");
    CHECK(ok, key, "query carries %s (size %u) but the configured edns-udp-size is %d", q.has_opt ? "an OPT record" : "no OPT record", q.opt, ref.edns.v);
  };
  // ---- probe 1: search list / ndots / case / edns / use-vc
  {
    static const char *const PROBES[] = {"PrObE", "PrObE.one", "PrObE.one.two", "PrObE.a.b.c"};
    std::string name = PROBES[s.below(4)];
    std::vector<std::vector<std::string>> expect;      // acceptable candidate sequences
    auto cands = [&](int ndots) { Config c2 = ref; c2.ndots.v = ndots; std::vector<std::string> c = rcref::search_candidates(c2, name), cut; for (auto &x : c) { if (!split_text(x).ok) break; cut.push_back(x); } return cut; };
    bool skip = ref.ndots.unspec || ref.search.size() > 10;
    if (!skip) { expect.push_back(cands(ref.ndots.v)); if (ref.ndots.big) expect.push_back(cands(ref.ndots.alt)); }
    // open finding C34/inflight-limit-stall: with max-inflight 1 the next search candidate is never sent -> do not search then
    bool inflight1 = ref.max_inflight.unspec || ref.max_inflight.v == 1 || (ref.max_inflight.big && ref.max_inflight.alt == 1) || ref.max_inflight.met_empty;
    if (inflight1 && !ref.use_vc) verif_class("search_not_probed_inflight1");
    int flags = (ref.use_vc || inflight1) ? DNS_QUERY_NO_SEARCH : 0;
    if (ref.use_vc || inflight1) { expect.clear(); expect.push_back(std::vector<std::string>{name}); }
    if (!skip && !expect[0].empty()) {
      ResCb rc; std::vector<Seen> seen;
      struct evdns_request *h = evdns_base_resolve_ipv4(w.dns, name.c_str(), flags, res_cb, &rc);
      TR("probe1: resolve_ipv4(\"%s\", flags=%d) -> %s; reference search list (%zu) ndots=%d%s", name.c_str(), flags, h ? "handle" : "NULL", ref.search.size(), ref.ndots.v, ref.ndots.big ? " (or previous)" : "");
      CHECK(h, "C39/probe-request-refused", "evdns_base_resolve_ipv4(\"%s\") returned NULL although its first search candidate \"%s\" is a valid name", name.c_str(), esc(expect[0][0], 80).c_str());
      for (int step = 0, idle = 0; step < 200 && !rc.calls; step++) { w.turn(); size_t before = seen.size(); hz.collect(&seen, true); if (rc.calls) break; if (seen.size() == before) { if (++idle < 6) continue; idle = 0; if (!w.advance()) break; } else idle = 0; }
      w.turn();
      // duplicates caused by retransmission do not occur here (every query is answered at once)
      bool match = false; size_t best = 0;
      for (auto &e : expect) {
        bool ok = e.size() == seen.size();
        for (size_t i = 0; ok && i < e.size(); i++) ok = same_name(seen[i].labels, split_text(e[i]).labels, exact_case);
        if (ok) match = true; best = e.size();
      }
      if (!match) {
        std::string gotl, wantl; for (auto &q : seen) gotl += "\"" + esc(q.name, 60) + "\" "; for (auto &x : expect[0]) wantl += "\"" + esc(x, 60) + "\" ";
        bool only_case = false; for (auto &e : expect) { bool ok = e.size() == seen.size(); for (size_t i = 0; ok && i < e.size(); i++) ok = same_name(seen[i].labels, split_text(e[i]).labels, false); if (ok) only_case = true; }
        const char *key = (ref.max_inflight.met_big && !ref.tol_wrap) ? K_INT_WRAP /* max-inflight wrapped to 1: the search stalls (C34/inflight-limit-stall) */ : only_case ? blame(ref.randomize_case, "C39/randomize-case") : blame(ref.ndots, (ref.n_ndots_hazard && !ref.tol_ndots_reset) ? K_NDOTS_RESET : "C39/search-order");
        VERIF_FAIL(key, "queries seen for \"%s\": %s; reference configuration (search list of %zu, ndots %d, randomize-case %d) expects: %s", name.c_str(), gotl.c_str(), ref.search.size(), ref.ndots.v, ref.randomize_case.v, wantl.c_str());
      }
      hz.kept.clear();
      for (auto &q : seen) { check_edns(q); CHECK(q.tcp == ref.use_vc, "C39/use-vc", "query arrived over %s but use-vc is %s", q.tcp ? "TCP" : "UDP", ref.use_vc ? "set" : "not set"); }
      CHECK(rc.calls == 1, "C39/probe-callback-count", "resolve callback ran %d times (queries seen %zu)", rc.calls, seen.size());
      observations++; if (seen.size() >= 2) verif_class("search_walked"); if (exact_case) verif_class("case_exact"); if (ref.use_vc) verif_class("use_vc");
      if (ref.edns.v > 512 && !ref.edns.unspec) verif_class("edns_on");
      (void)best;
    } else verif_class("probe1_skipped");
    for (auto &c : w.conns) w.tcp_close(c);
    w.turn();
  }
  // ---- probe 3: max-inflight
  if (!ref.use_vc && !ref.max_inflight.unspec && ref.max_inflight.v <= 9 && (!ref.max_inflight.big || ref.max_inflight.alt <= 64)) {
    int m = ref.max_inflight.v, nreq = m + 2; std::vector<ResCb> rcs(nreq); std::vector<Seen> seen;
    if (ref.max_inflight.big && ref.max_inflight.alt + 2 > nreq) nreq = ref.max_inflight.alt + 2, rcs.resize(nreq);
    for (int i = 0; i < nreq; i++) { char nm[64]; snprintf(nm, sizeof nm, "q%d.inflight.test", i); struct evdns_request *h = evdns_base_resolve_ipv4(w.dns, nm, DNS_QUERY_NO_SEARCH, res_cb, &rcs[i]); CHECK(h, "C39/probe-request-refused", "resolve_ipv4(%s) returned NULL", nm); }
    w.turn(); hz.collect(&seen, false);
    TR("probe3: %d requests issued, %zu datagrams before any answer; reference max-inflight %d", nreq, seen.size(), m);
    bool ok = (int)seen.size() == std::min(nreq, m) || (ref.max_inflight.big && (int)seen.size() == std::min(nreq, ref.max_inflight.alt));
    CHECK(ok, blame(ref.max_inflight, "C39/max-inflight"), "%zu queries are in flight at once but max-inflight is %d (%d requests issued)", seen.size(), m, nreq);
    hz.answer_kept();
    for (int round = 0; round < 400; round++) { int done = 0; for (auto &r : rcs) done += r.calls; if (done == nreq) break; w.turn(); std::vector<Seen> more; hz.collect(&more, true); if (more.empty()) w.advance(); }
    for (int i = 0; i < nreq; i++) CHECK(rcs[i].calls == 1, "C39/probe-callback-count", "request %d of the max-inflight probe got %d callbacks", i, rcs[i].calls);
    observations++; verif_class("inflight_probe");
  }
  // ---- probe 2: timeout x attempts under virtual time (last: it leaves the nameserver marked as failed)
  {
    int amax = std::max(ref.attempts.v, ref.attempts.big ? ref.attempts.alt : 0);
    // the third probe above may have marked servers failed when its unanswered queries timed out; that does not change timing
    if (!ref.use_vc && !ref.timeout_unspec && !ref.attempts.unspec && amax <= 8 && ref.timeout_us <= 4000ll * 1000000) {
      evdns_base_set_option(w.dns, "max-timeouts", "255"); evdns_base_set_option(w.dns, "initial-probe-timeout", "3600"); evdns_base_set_option(w.dns, "max-probe-timeout", "3600");
      ResCb rc; std::vector<Seen> seen; int64_t t0 = sim_now_us(), t_cb = -1;
      struct evdns_request *h = evdns_base_resolve_ipv4(w.dns, "T.timeout.test", DNS_QUERY_NO_SEARCH, res_cb, &rc);
      CHECK(h, "C39/probe-request-refused", "resolve_ipv4(T.timeout.test) returned NULL");
      for (int step = 0; step < 64 && !rc.calls; step++) { w.turn(); hz.collect(&seen, false); if (rc.calls) break; if (!w.advance()) break; }
      if (rc.calls) t_cb = sim_now_us();
      hz.collect(&seen, false);
      std::vector<Seen> mine; for (auto &q : seen) if (eq_nocase(q.name, "T.timeout.test")) mine.push_back(q);
      auto fits = [&](int attempts) {
        int n = std::max(1, attempts); if ((int)mine.size() != n || t_cb < 0) return false;
        for (int i = 0; i < n; i++) if (llabs((mine[i].at - t0) - i * ref.timeout_us) > 3 * (i + 1)) return false;
        return llabs((t_cb - t0) - n * ref.timeout_us) <= 3 * (n + 1);
      };
      bool ok = fits(ref.attempts.v) || (ref.attempts.big && fits(ref.attempts.alt));
      if (!ok) {
        std::string ts; for (auto &q : mine) ts += std::to_string(q.at - t0) + "us ";
        bool count_ok = (int)mine.size() == std::max(1, ref.attempts.v);
        VERIF_FAIL(count_ok ? "C39/timeout-value" : blame(ref.attempts, "C39/attempts-value"), "an unanswered request was transmitted %zu time(s) at %s and failed after %lldus (result %d); reference: attempts %d, timeout %lldus", mine.size(), ts.c_str(), (long long)(t_cb - t0), rc.result, ref.attempts.v, (long long)ref.timeout_us);
      }
      CHECK(rc.result == DNS_ERR_TIMEOUT, "C39/timeout-result", "an unanswered request ended with result %d, expected DNS_ERR_TIMEOUT", rc.result);
      observations++; verif_class("timeout_probe"); if (ref.timeout_us != 5000000) verif_class("timeout_nondefault"); if (ref.attempts.v != 3) verif_class("attempts_nondefault");
    }
  }
  servers_drain();
  w.finish("C39/leak");
  if (ref.n_ndots_hazard && ref.tol_ndots_reset) verif_known_skipped(K_NDOTS_RESET);
  if (mutated) verif_class("mutated"); else verif_class("grammar");
  if (ref.search.size()) verif_class("search_set"); if (!ref.hosts.empty()) verif_class("hosts_loaded"); if (nfake) verif_class("fake_ns_in_file");
  verif_case_end(any_effect && observations >= 2, s.h);
  return 0;
}
