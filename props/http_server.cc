// C23 — the HTTP server frames and parses requests as RFC 9112 prescribes.
//
// A case = one request byte stream (grammar of 1-4 pipelined messages with valid and adversarial productions, then
// optional byte-level mutation; or, when the first input byte is 0xFF, the raw bytes that follow) delivered to a real
// evhttp over an AF_UNIX connection in 3-4 different segmentations (whole stream in one write + generated cuts), with
// the loop run to quiescence after every segment.
//
// Oracles (in this order):
//  1. metamorphic, no RFC knowledge: the list of requests handed to callbacks (method, target, version, header list,
//     body), the sequence of final status codes and "server closed the connection" are identical for all segmentations,
//     both after the last byte and after the client half-closes.
//  2. three-valued differential against refs/http9112.hh: must-accept prefix equals exactly; nothing is delivered at or
//     after a must-reject message and it is answered by an error status or a close; nothing is delivered beyond the end
//     of the stream / inside an incomplete message; no claim after a may-item.
//  3. memory safety / no leaks / no fd leaks (ASan, allocation ledger, fd ledger).
// Each root cause has its own violation key; when a key is listed as known (verif_known) the generator avoids the
// production and the stream is truncated in front of the first message the reference attributes to that key.
#include "http_common.hh"
#include "http9112.hh"
#include <algorithm>

namespace {
using namespace hw;
using h9112::Msg; using h9112::Result;

const char *K_SEG = "C23/segmentation-dependent";
const char *K_DUPCL = "C23/dup-content-length";
const char *K_CLMAL = "C23/malformed-content-length-accepted";
const char *K_TENF = "C23/te-not-final-chunked-accepted";
const char *K_TELIST = "C23/te-list-misframed";
const char *K_WSCOLON = "C23/ws-before-colon-accepted";
const char *K_CHUNKEXT = "C23/chunk-ext-rejected";
const char *K_BODYLESS = "C23/bodyless-method-body-not-consumed";
const char *K_HOST = "C23/host-missing-or-duplicate-accepted";
const char *K_TECL = "C23/te-cl-connection-not-closed";
const char *K_HTAB = "C23/leading-htab-not-stripped";
const char *K_CONNERR = "C23/connect-error-reply-keeps-connection";

bool known_method(const std::string &m) { return method_type(m) != 0; }
bool bodyless_method(const std::string &m) { return m == "HEAD" || m == "TRACE" || m == "M-SEARCH"; }

const char *key_for_reason(const std::string &r) {
  if (r == "cl-conflict") return K_DUPCL;
  if (r == "cl-malformed") return K_CLMAL;
  if (r == "te-not-final-chunked") return K_TENF;
  if (r == "ws-before-colon") return K_WSCOLON;
  if (r == "host-missing" || r == "host-duplicate") return K_HOST;
  if (r == "unknown-method") return "C23/unknown-method-delivered";
  return "C23/must-reject-accepted";
}
// root-cause attribution for a must-accept message that the server did not take as the reference does
const char *key_for_msg(const Msg &m, bool value_only_htab) {
  if (bodyless_method(m.method) && (m.chunked || (m.has_cl && m.cl > 0))) return K_BODYLESS;
  if (m.features & h9112::F_TE_LIST) return K_TELIST;
  if (m.features & h9112::F_CHUNK_EXT) return K_CHUNKEXT;
  if ((m.features & h9112::F_HTAB_OWS) && value_only_htab) return K_HTAB;
  return nullptr;
}

// the same attribution for a message the stream ends inside of (its header section is complete, its body is not)
const char *key_for_incomplete(const Result &R) {
  if (R.term != h9112::T_INCOMPLETE) return nullptr;
  if (bodyless_method(R.term_method) && R.term_content) return K_BODYLESS;
  if (R.term_features & h9112::F_TE_LIST) return K_TELIST;
  return nullptr;
}

// ------------------------------------------------------------------------------------------------ generator
struct Gen {
  Src &s; std::string out; int skipped = 0;
  explicit Gen(Src &src) : s(src) {}
  bool avoid(const char *key) { if (verif_known(key)) { verif_known_skipped(key); return true; } return false; }

  std::string body_bytes() {
    switch (s.below(8)) {
      case 0: return "hello";
      case 1: return "GET /smuggled HTTP/1.1\r\nHost: h\r\n\r\n";
      case 2: return "0\r\n\r\n";
      case 3: { size_t n = 1 + s.below(16); return s.bytes(n); }
      case 4: return "a=b&c=d";
      case 5: return "POST /x HTTP/1.1\r\nHost: h\r\nContent-Length: 3\r\n\r\nabc";
      case 6: return "";
      default: return "x";
    }
  }
  std::string target(const std::string &method) {
    static const char *P[] = {"/", "/a", "/index.html", "/a/b", "/x%20y", "/a+b", "/~u", "/p;q=1", "/%41", "/a%2Fb", "/admin"};
    static const char *Q[] = {"", "", "", "?q=1", "?a=b&c=d", "?", "?x=%3F"};
    static const char *BAD[] = {"/a b", "/\x80", "/a#f", "a/b", "/%zz", "http://", "//x", "/a\tb", "http://h:99999/", "*"};
    uint32_t r = s.below(48);
    if (method == "CONNECT") return r < 44 ? "example.com:443" : "/notauthority";
    if (method == "OPTIONS" && r < 16) return "*";
    if (r == 47) return BAD[s.below(sizeof BAD / sizeof *BAD)];
    std::string o = std::string(P[s.below(sizeof P / sizeof *P)]) + Q[s.below(sizeof Q / sizeof *Q)];
    if (r >= 40) { static const char *H[] = {"h", "example.com", "EXAMPLE.com:8080"}; return std::string("http://") + H[s.below(3)] + o; }
    return o;
  }
  std::string version() {
    static const char *ODD[] = {"HTTP/1.2", "HTTP/2.0", "HTTP/0.9", "http/1.1", "HTTP/1.10", "HTTP/01.1", "HTTP/1.", "HTTP/1.1 ", "HTTP/1.1\t", "XTTP/1.1"};
    uint32_t r = s.below(32);
    if (r < 26) return "HTTP/1.1"; if (r < 31) return "HTTP/1.0";
    return ODD[s.below(sizeof ODD / sizeof *ODD)];
  }
  // one continuation line of an obs-fold (RFC 9112 5.2: obs-fold = OWS CRLF RWS): leading SP / HTAB run, then content that may be
  // empty (a line of whitespace only -- still a continuation, never the empty line that ends the section), carry trailing
  // whitespace, or look like a field line / framing field / request line (it stays part of the previous field's value)
  std::string fold_line() {
    static const char *LW[] = {" ", "\t", "  ", " \t", "\t "};
    static const char *C[] = {"b", "", "", "b c", "X-F: v", "", "Content-Length: 7", "GET /f HTTP/1.1", ":", "Transfer-Encoding: chunked", "b:", "a\tb"};
    static const char *TW[] = {"", "", " ", "\t", " \t "};
    std::string l = LW[s.below(5)]; l += C[s.below(12)]; l += TW[s.below(5)]; return l;
  }
  std::string header(const std::string &eol) {
    static const char *N[] = {"X-A", "Accept", "User-Agent", "x-b", "X-A", "X|A~"};
    static const char *V[] = {"v", "*/*", "a b", "a,b", "\x80\xff", "v1", "a\tb"};
    static const char *LW[] = {"", " ", "  ", "\t", " \t "};
    std::string n = N[s.below(6)], v = V[s.below(7)];
    uint32_t r = s.below(64);
    if (r < 24) return n + ": " + v;
    if (r < 32) { std::string l = LW[s.below(5)]; if (l.find('\t') != std::string::npos && avoid(K_HTAB)) l = " "; return n + ":" + l + v + LW[s.below(5)]; }
    switch (r) {
      case 32: case 33: return s.flag() ? "X-E:" : "X-E: ";
      case 34: case 35: case 36: {   // obs-fold: 1-3 continuation lines on a field whose first line holds a value, trailing OWS or nothing
        static const char *F[] = {": a", ": a", ":", ": ", ": a \t", ":a"};
        std::string l = n + F[s.below(6)]; int k = s.chance(1, 4) ? 2 + (int)s.below(2) : 1;
        for (int i = 0; i < k; i++) l += eol + fold_line();
        return l; }
      case 37: case 38: if (avoid(K_WSCOLON)) return n + ": " + v; return n + (s.flag() ? " : " : "\t: ") + v;
      case 39: return "garbage-without-colon";
      case 40: return s.flag() ? std::string("X-N: a\0b", 8) : std::string("X-C: a\rb");
      case 41: case 42: return "Connection: close";
      case 43: case 44: return "Connection: keep-alive";
      case 45: case 46: { static const char *C[] = {"Connection: close, x", "Connection: Close", "connection: x, close", "Connection: Keep-Alive"}; return C[s.below(4)]; }
      case 47: case 48: case 49: return "Expect: 100-continue";
      case 50: return s.flag() ? "Expect: 100-Continue" : "Expect: something-else";
      case 51: return s.flag() ? ": v" : "X(A): v";
      case 52: case 53: return n + ": " + std::string(40 + s.below(60), 'a');
      case 54: if (avoid(K_WSCOLON)) return n + ": " + v; return "Transfer-Encoding : chunked";
      case 55: if (avoid(K_WSCOLON)) return n + ": " + v; return "Content-Length : 3";
      default: return n + ": " + v;
    }
  }
  std::string chunked_body(const std::string &eol) {
    std::string b; int n = s.below(4);
    auto sizeline = [&](size_t len, bool last) {
      char buf[40]; uint32_t f = s.below(8);
      if (f == 1) snprintf(buf, sizeof buf, "%zX", len); else if (f == 2) snprintf(buf, sizeof buf, "000%zx", len); else snprintf(buf, sizeof buf, "%zx", len);
      std::string l = buf;
      uint32_t e = s.below(last ? 40 : 32);
      if (e >= 1 && e <= 4) { static const char *X[] = {";x", ";x=y", ";x=\"a b\"", ";a;b=c", ";x=\"q\\\"r\""}; if (!avoid(K_CHUNKEXT)) l += X[s.below(5)]; }
      else if (e == 5) { static const char *X[] = {" ;x", " ", ";", ";x=", "; x", ";x =y", "\t"}; l += X[s.below(7)]; }
      else if (e == 6 && !last) { static const char *X[] = {"+5", "0x5", "-5", "", "g", "5 5", "FFFFFFFFFFFFFFFFF", "7fffffffffffffff", "ffffffffffffffff", " 5"}; l = X[s.below(10)]; }
      return l + eol;
    };
    for (int i = 0; i < n; i++) {
      std::string d; switch (s.below(5)) { case 0: d = "hello"; break; case 1: d = "GET /c HTTP/1.1\r\nHost: h\r\n\r\n"; break; case 2: d = s.bytes(1 + s.below(12)); break; case 3: d = "0\r\n\r\n"; break; default: d = "ab"; }
      b += sizeline(d.size(), false); b += d;
      uint32_t t = s.below(64); if (t == 1) {} else if (t == 2) b += "\n"; else b += eol;
    }
    b += sizeline(0, true);
    uint32_t t = s.below(16);
    if (t == 1 || t == 4) b += "X-T: v" + eol; else if (t == 2 || t == 5) b += "X-T: v" + eol + "Content-Length: 3" + eol; else if (t == 3) { static const char *X[] = {" folded", "no-colon", "X-T : v", "Transfer-Encoding: chunked"}; b += std::string(X[s.below(4)]) + eol; }
    else if (t == 6 || t == 7) {   // obs-fold inside the trailer section, optionally with a further trailer field behind it
      b += "X-T: v" + eol + fold_line() + eol; if (s.flag()) b += fold_line() + eol; if (t == 7) b += "X-U: w" + eol; }
    b += eol;
    return b;
  }
  void message() {
    static const char *M[] = {"GET", "POST", "GET", "POST", "PUT", "DELETE", "HEAD", "OPTIONS", "TRACE", "PATCH", "PROPFIND", "PROPPATCH", "MKCOL", "LOCK",
      "UNLOCK", "COPY", "MOVE", "PURGE", "M-SEARCH", "CONNECT", "BREW", "get", "GE T", "POST", "GET", "PUT", "HEAD", "POST",
      "GET", "POST", "PUT", "DELETE", "HEAD", "OPTIONS", "PATCH", "PURGE", "GET", "POST", "TRACE", "GET"};
    std::string method = M[s.below(sizeof M / sizeof *M)];
    std::string eol = s.chance(1, 64) ? "\n" : "\r\n";
    if (s.chance(1, 64)) out += eol;
    out += method + " " + target(method) + " " + version() + eol;
    std::vector<std::string> lines;
    uint32_t hm = s.below(24);
    if (hm == 1 && !avoid(K_HOST)) { /* no Host */ }
    else if (hm == 2 && !avoid(K_HOST)) { lines.push_back("Host: h"); lines.push_back("Host: other"); }
    else lines.push_back(hm == 3 ? "host: EXAMPLE.com:80" : "Host: h");
    int nx = s.below(4); for (int i = 0; i < nx; i++) { std::string h = header(eol); size_t at = s.below((uint32_t)lines.size() + 1); lines.insert(lines.begin() + at, h); }
    // framing
    uint32_t fr = s.below(16); std::string body; std::vector<std::string> fl;
    if (bodyless_method(method) && fr >= 5 && avoid(K_BODYLESS)) fr = 0;
    if (fr == 15 && avoid(K_TECL)) fr = 9;
    if (fr >= 5 && fr <= 8) { body = body_bytes(); fl.push_back("Content-Length: " + std::to_string(body.size())); }
    else if (fr >= 9 && fr <= 12) { body = chunked_body(eol); fl.push_back(s.chance(1, 8) ? "transfer-encoding: chunked" : "Transfer-Encoding: chunked"); }
    else if (fr == 13) {
      body = body_bytes(); size_t n = body.size(); std::string N = std::to_string(n);
      switch (s.below(14)) {
        case 0: {   // two fields: identical (valid), or a well-formed first one and a later one that only shares its numeric prefix (must be refused).
          // The variant is derived from the hash of the earlier choices: no extra input is consumed, saved inputs decode as before.
          static const char *SUF[] = {"", "", "", ", 11", "x", ".9", " 6", ",", ";q=1"};
          unsigned v = (unsigned)(s.h >> 17) % 9; fl.push_back("Content-Length: " + N); fl.push_back("Content-Length: " + N + SUF[v]);
          if (v >= 3 && ((s.h >> 23) & 1)) std::swap(fl[fl.size() - 1], fl[fl.size() - 2]);
          break; }
        case 1: if (avoid(K_DUPCL)) { fl.push_back("Content-Length: " + N); break; } fl.push_back("Content-Length: " + N); fl.push_back("Content-Length: " + std::to_string(n + 1 + s.below(40))); if (s.flag()) std::swap(fl[0], fl[1]); break;
        case 2: fl.push_back("Content-Length: " + N + ", " + N); break;
        case 3: fl.push_back("Content-Length: " + N + ", " + std::to_string(n + 1)); break;
        case 4: if (avoid(K_CLMAL)) { fl.push_back("Content-Length: " + N); break; } fl.push_back("Content-Length: +" + N); break;
        case 5: fl.push_back("Content-Length: -" + N); break;
        case 6: fl.push_back("Content-Length: 0x" + N); break;
        case 7: fl.push_back("Content-Length: " + N + (s.flag() ? " abc" : "abc")); break;
        case 8: fl.push_back("Content-Length:"); break;
        case 9: if (avoid(K_HTAB)) { fl.push_back("Content-Length: " + N); break; } fl.push_back("Content-Length: \t" + N); break;
        case 10: fl.push_back("Content-Length: 0" + N); break;
        case 11: fl.push_back("Content-Length: 99999999999999999999"); break;
        case 12: fl.push_back(s.flag() ? "Content-Length: 9223372036854775807" : "Content-Length: 9223372036854775808"); break;
        default: fl.push_back("Content-Length: " + std::to_string(s.flag() ? n + 1 + s.below(30) : (n ? n - 1 : 0))); break;
      }
    } else if (fr == 14) {
      body = chunked_body(eol);
      switch (s.below(12)) {
        case 0: fl.push_back("Transfer-Encoding: Chunked"); break;
        case 1: fl.push_back("Transfer-Encoding: chunked "); break;
        case 2: if (avoid(K_TELIST)) { fl.push_back("Transfer-Encoding: chunked"); break; } fl.push_back("Transfer-Encoding: gzip, chunked"); break;
        case 3: if (avoid(K_TENF)) { fl.push_back("Transfer-Encoding: chunked"); break; } fl.push_back("Transfer-Encoding: chunked, gzip"); break;
        case 4: if (avoid(K_TENF)) { fl.push_back("Transfer-Encoding: chunked"); break; } fl.push_back("Transfer-Encoding: gzip"); break;
        case 5: if (avoid(K_TENF)) { fl.push_back("Transfer-Encoding: chunked"); break; } fl.push_back("Transfer-Encoding: identity"); if (s.flag()) { body = body_bytes(); fl.push_back("Content-Length: " + std::to_string(body.size())); } break;
        case 6: if (avoid(K_TELIST)) { fl.push_back("Transfer-Encoding: chunked"); break; } fl.push_back("Transfer-Encoding: gzip"); fl.push_back("Transfer-Encoding: chunked"); break;
        case 7: fl.push_back("Transfer-Encoding: chunked, chunked"); break;
        case 8: fl.push_back("Transfer-Encoding: chunked;q=1"); break;
        case 9: fl.push_back("Transfer-Encoding:"); break;
        case 10: fl.push_back("Transfer-Encoding: ,chunked"); break;
        default: if (avoid(K_HTAB)) { fl.push_back("Transfer-Encoding: chunked"); break; } fl.push_back("Transfer-Encoding:\tchunked"); break;
      }
    } else if (fr == 15) {
      body = chunked_body(eol); fl.push_back("Transfer-Encoding: chunked"); fl.push_back("Content-Length: " + std::to_string(s.flag() ? body.size() : s.below(8))); if (s.flag()) std::swap(fl[0], fl[1]);
    }
    for (auto &f : fl) { size_t at = s.below((uint32_t)lines.size() + 1); lines.insert(lines.begin() + at, f); }
    // continuation lines at any position of the finished header section: behind framing fields, Host, other folds, as the last line
    // before the empty line, and (rarely) in front of the first field
    if (s.chance(1, 10)) { int k = 1 + (int)s.below(2);
      for (int i = 0; i < k; i++) { size_t at = lines.empty() ? 0 : 1 + s.below((uint32_t)lines.size()); if (s.chance(1, 16)) at = 0; lines.insert(lines.begin() + at, fold_line()); } }
    for (auto &l : lines) out += l + eol;
    out += eol; out += body;
  }
  void mutate() {
    int n = 1 + s.below(3);
    static const char INS[] = {'\r', '\n', ' ', '\t', ':', ';', ',', '0', '\0', '5', 'a', '"'};
    for (int i = 0; i < n && !out.empty(); i++) {
      size_t p = s.below((uint32_t)out.size());
      switch (s.below(5)) {
        case 0: out.erase(p, 1); break;
        case 1: out.insert(p, 1, INS[s.below(sizeof INS)]); break;
        case 2: out[p] = (char)s.byte(); break;
        case 3: out.resize(p); break;
        default: { size_t l = 1 + s.below(12); out.insert(p, out.substr(p, l)); break; }
      }
    }
  }
};

// ------------------------------------------------------------------------------------------------ observation
struct Obs { std::vector<Delivered> d; std::vector<int> codes; bool closed = false; bool interim100 = false; };
std::vector<int> final_codes(const std::string &resp, bool closed, bool *interim) {
  std::vector<int> c; for (auto &r : parse_responses(resp, closed)) { if (r.code >= 100 && r.code < 200) { if (interim) *interim = true; continue; } c.push_back(r.code); } return c; }
Obs observe(World &w) { Obs o; o.d = w.delivered; o.codes = final_codes(w.resp, w.peer_closed, &o.interim100); o.closed = w.peer_closed; return o; }
std::string show(const Delivered &d) {
  std::string s = std::string(method_name(d.cmd)) + " " + esc(d.uri) + " HTTP/" + std::to_string(d.major) + "." + std::to_string(d.minor) + " {";
  for (auto &h : d.headers) s += "[" + esc(h.first) + "|" + esc(h.second) + "]";
  return s + "} body(" + std::to_string(d.body.size()) + ")='" + esc(d.body, 80) + "'"; }
std::string show(const Obs &o) { std::string s = "delivered=" + std::to_string(o.d.size()) + " codes=["; for (int c : o.codes) s += std::to_string(c) + ","; s += o.closed ? "] closed" : "] open"; for (auto &d : o.d) s += "\n      " + show(d); return s; }
bool same(const Delivered &a, const Delivered &b) { return a.cmd == b.cmd && a.uri == b.uri && a.major == b.major && a.minor == b.minor && a.headers == b.headers && a.body == b.body; }
bool same(const Obs &a, const Obs &b) {
  if (a.d.size() != b.d.size() || a.codes != b.codes || a.closed != b.closed) return false;
  for (size_t i = 0; i < a.d.size(); i++) if (!same(a.d[i], b.d[i])) return false; return true; }

std::string collapse_ws(const std::string &v) { std::string o; bool ws = false; for (char c : v) { if (c == ' ' || c == '\t') { ws = true; continue; } if (ws && !o.empty()) o.push_back(' '); ws = false; o.push_back(c); } return o; }

// compare one delivered request with the reference message; returns "" when equal, otherwise a description. *only_htab = the only
// difference is leading HTAB kept in a field value
std::string diff_msg(const Delivered &d, const Msg &e, bool *only_htab) {
  *only_htab = false;
  if (e.method != method_name(d.cmd)) return "method: server " + std::string(method_name(d.cmd)) + " reference " + e.method;
  if (e.target != d.uri) return "target: server '" + esc(d.uri) + "' reference '" + esc(e.target) + "'";
  if (e.major != d.major || e.minor != d.minor) return "version differs";
  if (e.body != d.body) return "body: server (" + std::to_string(d.body.size()) + ")'" + esc(d.body, 60) + "' reference (" + std::to_string(e.body.size()) + ")'" + esc(e.body, 60) + "'";
  // header section; the implementation has a single list, so trailer fields may (code-derived corner) appear appended to it
  size_t nh = e.headers.size();
  if (d.headers.size() != nh && d.headers.size() != nh + e.trailers.size()) return "field count: server " + std::to_string(d.headers.size()) + " reference " + std::to_string(nh) + " (+" + std::to_string(e.trailers.size()) + " trailer fields)";
  bool htab_diff = false;
  for (size_t i = 0; i < d.headers.size(); i++) {
    const h9112::Field &f = i < nh ? e.headers[i] : e.trailers[i - nh];
    if (d.headers[i].first != f.name) return "field " + std::to_string(i) + " name: server '" + esc(d.headers[i].first) + "' reference '" + esc(f.name) + "'";
    const std::string &v = d.headers[i].second;
    if (v == f.value) continue;
    if (f.folded && collapse_ws(v) == collapse_ws(f.value)) continue;
    if (f.htab_lead && h9112::trim_ows(v) == f.value) { htab_diff = true; continue; }
    return "field " + std::to_string(i) + " (" + esc(f.name) + ") value: server '" + esc(v) + "' reference '" + esc(f.value) + "'";
  }
  if (htab_diff) { *only_htab = true; return "a field value keeps its leading HTAB (OWS is SP / HTAB and is not part of the value)"; }
  return "";
}

std::vector<size_t> draw_cuts(Src &s, const std::string &st, int k) {
  std::vector<size_t> cuts; size_t len = st.size(); if (len < 2) return cuts;
  int mode = (int)((s.below(4) + (uint32_t)k) % 4);
  if (mode == 1 && len > 72) mode = 0;
  switch (mode) {
    case 0: { int n = 1 + s.below(6); for (int i = 0; i < n; i++) cuts.push_back(s.below((uint32_t)len)); if (cuts.size() == 1 && cuts[0] == 0) cuts[0] = len / 2; break; }
    case 1: for (size_t p = 1; p < len; p++) cuts.push_back(p); break;
    case 2: { size_t ls = 0; for (size_t p = 0; p < len && cuts.size() < 10; p++) if (st[p] == '\n' || p + 1 == len) { size_t ll = p + 1 - ls; if (ll > 1 && !s.chance(1, 4)) cuts.push_back(ls + 1 + s.below((uint32_t)ll - 1)); ls = p + 1; } break; }
    default: for (size_t p = 0; p + 1 < len && cuts.size() < 10; p++) if (st[p] == '\r') cuts.push_back(p + 1); if (cuts.empty()) cuts.push_back(len / 2); break;
  }
  std::sort(cuts.begin(), cuts.end()); cuts.erase(std::unique(cuts.begin(), cuts.end()), cuts.end());
  while (!cuts.empty() && cuts.front() == 0) cuts.erase(cuts.begin());
  return cuts;
}
}  // namespace

extern "C" int LLVMFuzzerInitialize(int *, char ***) { sim_mem_install(); return 0; }

extern "C" int LLVMFuzzerTestOneInput(const uint8_t *data, size_t size) {
  sim_reset();
  verif_case_begin("C23");
  std::string stream; bool raw = false;
  const uint8_t *cd = data; size_t cn = size;
  if (size >= 2 && data[0] == 0xFF) {   // raw mode: 0xFF, k, k choice bytes for the segmentations, then the stream itself
    raw = true; size_t k = data[1]; if (k > size - 2) k = size - 2;
    cd = data + 2; cn = k; stream.assign((const char *)data + 2 + k, size - 2 - k);
  }
  Src s(cd, cn);
  if (!raw) {
    Gen g(s);
    int nm = 1 + (int)(s.below(8) % 4); if (s.chance(1, 2)) nm = 1 + s.below(2);
    for (int i = 0; i < nm && g.out.size() < 1200; i++) g.message();
    if (s.chance(1, 8)) g.mutate();
    if (s.chance(1, 16)) { static const char *T[] = {"\r\n", "GET", "\r\n\r\n", "GET / HTTP/1.1\r\n", "0\r\n\r\n"}; g.out += T[s.below(5)]; }
    stream = g.out;
  }
  if (stream.size() > 1600) stream.resize(1600);
  for (unsigned char c : stream) s.mix(c);

  // reference parse; narrow away sub-domains that belong to listed findings
  h9112::Options opt; opt.known_method = known_method;
  Result R;
  for (int it = 0; it < 8; it++) {
    R = h9112::parse(stream, opt);
    for (auto &m : R.msgs) if (bodyless_method(m.method) && (m.chunked || (m.has_cl && m.cl > 0))) m.may_reject = true;   // the server was told (ext_method_cmp) / knows the method carries no content: rejecting is fine, mis-framing is not
    const char *hit = nullptr; size_t at = 0;
    for (auto &m : R.msgs) {
      const char *k = key_for_msg(m, true);
      if (!k && (m.features & h9112::F_TE_CL)) k = K_TECL;
      if (!k && m.method == "CONNECT" && m.may_reject) k = K_CONNERR;   // a refused CONNECT: the error reply does not end the connection
      if (k && verif_known(k)) { hit = k; at = m.begin; break; }
    }
    if (!hit) { const char *k = key_for_incomplete(R); if (k && R.term_pos < stream.size() && verif_known(k)) { hit = k; at = R.term_pos; } }
    if (!hit && R.term == h9112::T_REJECT) { const char *k = key_for_reason(R.reason); if (verif_known(k)) { hit = k; at = R.term_pos; } }
    if (!hit && (R.term == h9112::T_REJECT || R.term == h9112::T_INCOMPLETE) && R.term_method == "CONNECT" && R.term_pos < stream.size() && verif_known(K_CONNERR)) { hit = K_CONNERR; at = R.term_pos; }
    if (!hit) break;
    verif_known_skipped(hit); stream.resize(at);
  }
  static const char *TN[] = {"end", "incomplete", "must-reject", "may"};
  TR("stream (%zu bytes): %s", stream.size(), esc(stream, 1600).c_str());
  TR("reference: %zu message(s), terminal=%s%s%s at %zu", R.msgs.size(), TN[R.term], R.reason.empty() ? "" : ":", R.reason.c_str(), R.term_pos);
  for (auto &m : R.msgs) TR("  ref msg %s %s HTTP/%d.%d fields=%zu trailers=%zu body=%zu%s%s%s feat=0x%x", m.method.c_str(), esc(m.target).c_str(), m.major, m.minor, m.headers.size(), m.trailers.size(), m.body.size(),
                           m.may_reject ? " may-reject" : "", m.close_after ? " close-after" : "", m.must_close_after ? " must-close-after" : "", m.features);

  World w; { uint32_t b = s.below(8); w.backend = b < 6 ? 0 : (int)b - 5; }
  if (!w.open()) { verif_case_end(0, s.h); return 0; }
  w.cbarg(0); evhttp_set_gencb(w.http, World::user_cb, w.cbargs[0]);

  // ---- run the segmentations
  int nseg = 2 + s.below(2); Obs ref_after_send, ref_after_eof; int inside_splits = 0; uint64_t total_segments = 0;
  for (int k = 0; k <= nseg; k++) {
    std::vector<size_t> cuts; if (k > 0) cuts = draw_cuts(s, stream, k);
    if (verif_trace_on) { std::string c; for (size_t p : cuts) c += std::to_string(p) + ","; TR("segmentation %d: cuts=[%s]", k, c.c_str()); }
    w.connect_client();
    size_t prev = 0; for (size_t i = 0; i <= cuts.size(); i++) { size_t e = i < cuts.size() ? cuts[i] : stream.size(); if (e > prev) { w.send_segment(stream.data() + prev, e - prev); total_segments++; } prev = e; }
    Obs a = observe(w);
    w.half_close();
    Obs b = observe(w);
    w.close_client();
    TR("  after send: %s", show(a).c_str()); if (!same(a, b)) TR("  after half-close: %s", show(b).c_str());
    if (k == 0) { ref_after_send = a; ref_after_eof = b; }
    else {
      CHECK(same(a, ref_after_send), K_SEG, "segmentation %d gives a different result than the unsegmented stream (after the last byte):\n   unsegmented: %s\n   segmented:   %s", k, show(ref_after_send).c_str(), show(a).c_str());
      CHECK(same(b, ref_after_eof), K_SEG, "segmentation %d gives a different result than the unsegmented stream (after half-close):\n   unsegmented: %s\n   segmented:   %s", k, show(ref_after_eof).c_str(), show(b).c_str());
      bool inside = false;
      for (size_t p : cuts) { if (p == 0 || p >= stream.size() || stream[p - 1] == '\n') continue;
        for (auto &m : R.msgs) { if (p > m.begin && p < m.hdr_end) inside = true; for (auto &cl : m.chunk_lines) if (p > cl.first && p < cl.second) inside = true; } }
      if (inside) inside_splits++;
    }
  }
  w.close_world();
  w.check_no_leak("C23/leak", "C23/fd-leak");

  // ---- differential against the reference (on the observation after the last byte; EOF must not add deliveries)
  const Obs &o = ref_after_send; size_t n = R.msgs.size(), m = o.d.size();
  CHECK(ref_after_eof.d.size() == m, "C23/delivery-on-eof", "a request was delivered only because the client half-closed: %s", show(ref_after_eof).c_str());
  for (size_t i = 0; i < n && i < m; i++) {
    bool only_htab; std::string df = diff_msg(o.d[i], R.msgs[i], &only_htab);
    if (!df.empty()) { const char *k = key_for_msg(R.msgs[i], only_htab);
      if (!k && R.msgs[i].method == "CONNECT" && R.msgs[i].may_reject && o.d[i].cmd != EVHTTP_REQ_CONNECT) k = K_CONNERR; VERIF_FAIL(k ? k : "C23/must-accept-mismatch", "request %zu differs from the RFC 9112 reference: %s\n   server: %s", i, df.c_str(), show(o.d[i]).c_str()); }
    if (R.msgs[i].must_close_after) CHECK(m <= i + 1, K_TECL, "request %zu carried both Transfer-Encoding and Content-Length; RFC 9112 6.1 requires closing the connection after responding, but %zu further request(s) were served on it", i, m - i - 1);
  }
  if (m < n) {
    const Msg &e = R.msgs[m];
    bool ok = e.may_reject || (m >= 1 && R.msgs[m - 1].close_after);
    if (!ok) { const char *k = key_for_msg(e, false); VERIF_FAIL(k ? k : "C23/must-accept-not-delivered", "request %zu (%s %s, bytes %zu..%zu) is valid and complete per RFC 9112 but was not delivered; server answered codes=%s", m, e.method.c_str(), esc(e.target).c_str(), e.begin, e.end, show(o).c_str()); }
  } else if (m > n) {
    const char *last = n ? key_for_msg(R.msgs[n - 1], false) : nullptr;
    switch (R.term) {
      case h9112::T_MAY: break;
      case h9112::T_REJECT: if (R.term_method == "CONNECT" && o.d[n].cmd != EVHTTP_REQ_CONNECT) VERIF_FAIL(K_CONNERR, "message %zu (CONNECT) is rejected (%s) as it must be, but the connection stays open and the bytes of the rejected message are parsed as a new request: %s", n, R.reason.c_str(), show(o.d[n]).c_str());
        VERIF_FAIL(key_for_reason(R.reason), "message %zu must be rejected (%s) but a request was delivered at/after it: %s", n, R.reason.c_str(), show(o.d[n]).c_str());
      case h9112::T_INCOMPLETE: if (R.term_method == "CONNECT" && o.d[n].cmd != EVHTTP_REQ_CONNECT) VERIF_FAIL(K_CONNERR, "message %zu (CONNECT, %s) was refused, but the connection stays open and its bytes are parsed as a new request: %s", n, R.reason.c_str(), show(o.d[n]).c_str());
        if (key_for_incomplete(R)) last = key_for_incomplete(R);
        VERIF_FAIL(last ? last : "C23/delivered-incomplete", "the stream ends inside message %zu (%s) but the server delivered: %s", n, R.reason.c_str(), show(o.d[n]).c_str());
      case h9112::T_END: VERIF_FAIL(last ? last : "C23/delivered-beyond-stream", "the stream holds %zu message(s) but the server delivered %zu; extra: %s", n, m, show(o.d[n]).c_str());
    }
  }
  if (m >= n && R.term == h9112::T_REJECT) {
    bool answered = o.closed || ref_after_eof.closed; for (int c : o.codes) if (c >= 400) answered = true;
    (void)answered;   // rejection by status or close: closing on EOF always happens; the substantive claim is "nothing delivered" above
  }
  if (m == n && R.term == h9112::T_END && n > 0) {
    // every message was taken and the stream ends on a boundary: an error status now means the server saw bytes where there are none
    size_t errs = 0; for (int c : o.codes) if (c >= 400) errs++;
    const char *last = key_for_msg(R.msgs[n - 1], false);
    CHECK(errs == 0, last ? last : "C23/error-after-clean-end", "all %zu message(s) were delivered and the stream ends on a message boundary, yet the server answered %s", n, show(o).c_str());
  }

  // ---- evidence
  verif_class(TN[R.term]); if (!R.reason.empty()) verif_class(("term:" + R.reason).c_str());
  uint32_t feats = 0; for (auto &mm : R.msgs) feats |= mm.features;
  static const struct { uint32_t f; const char *n; } FN[] = {{h9112::F_CHUNK_EXT, "chunk_ext"}, {h9112::F_HTAB_OWS, "htab_ows"}, {h9112::F_TE_LIST, "te_list"}, {h9112::F_TE_CL, "te_and_cl"},
    {h9112::F_CL_REPEAT, "cl_repeat"}, {h9112::F_FOLD, "obs_fold"}, {h9112::F_EXPECT_OTHER, "expect_other"}, {h9112::F_EXPECT_CONTINUE, "expect_continue"}, {h9112::F_TRAILERS, "trailers"},
    {h9112::F_CHUNKED, "chunked"}, {h9112::F_CL, "content_length"}, {h9112::F_CLOSE, "conn_close"}, {h9112::F_HTTP10, "http10"}, {h9112::F_ABS_FORM, "absolute_form"}, {h9112::F_DUP_FIELD, "dup_field"},
    {h9112::F_FOLD_EMPTY, "fold_whitespace_only_line"}, {h9112::F_FOLD_MULTI, "fold_multi_line"}, {h9112::F_TRAILER_FOLD, "trailer_fold"}, {h9112::F_FOLD_FIELDLIKE, "fold_fieldlike"}};
  for (auto &f : FN) if (feats & f.f) verif_class(f.n);
  if (n >= 2) verif_class("pipelined>=2"); if (m >= 2) verif_class("delivered>=2"); if (m >= 1) verif_class("delivered>=1");
  for (size_t i = 0; i < n && i < m; i++) { if (R.msgs[i].features & h9112::F_FOLD_EMPTY) { verif_class("fold_whitespace_only_line_delivered"); break; } }
  for (size_t i = 0; i < n && i < m; i++) { if (R.msgs[i].features & h9112::F_TRAILER_FOLD) { verif_class("trailer_fold_delivered"); break; } }
  if (o.interim100) verif_class("100-continue-sent"); if (raw) verif_class("raw_mode");
  verif_class_n("segments_written", total_segments);
  bool rich = n >= 2 || (feats & (h9112::F_CHUNKED | h9112::F_EXPECT_CONTINUE | h9112::F_FOLD | h9112::F_TRAILER_FOLD));
  int nontrivial = rich && m >= 1 && inside_splits >= 2;
  verif_case_end(nontrivial, s.h);
  return 0;
}
