// C42 — tagged-data codec (event_tagging.c): round trip of everything the marshallers write, and for arbitrary
// bytes: no read outside the buffer's data, and each decoder either fails or consumes exactly one well-formed item.
//
// Layout trick: the byte stream handed to the decoders is stored as malloc'ed blocks of EXACTLY the chunk size,
// attached with evbuffer_add_reference, split at generated points.  Any read one byte beyond a block is an ASan
// heap-buffer-overflow, so "never reads past the buffer's data" is observed directly.
//
// Preconditions respected: evbuffers are used from one thread; need_tag/len arguments are plain values; the string
// marshalled is NUL-terminated; timevals have 0 <= tv_sec < 2^32 and 0 <= tv_usec < 10^6 (the encoder writes 32-bit
// fields); unmarshal_fixed gets a destination of exactly `len` bytes.
//
// Oracle clauses (keys):
//   C42/roundtrip-*          un-mutated stream, matching decoder, items read in order: must succeed with the tag,
//                            length and value that were marshalled
//   C42/accepts-malformed    decoder succeeded where the reference reader (refs/tagcodec.hh) says the bytes are
//                            not a well-formed item of that kind
//   C42/rejects-wellformed   decoder failed on a canonical item
//   C42/wrong-value          decoder succeeded with a tag / length / value different from the reference reader's
//   C42/consumed-wrong       success but the number of bytes removed is not exactly one item (header-only and
//                            peek functions: exactly the header / nothing)
//   C42/content-corrupted    after any call the buffer's content is not a suffix of its previous content
//                            (peek functions: not identical)
//   asan:* / ubsan:*         memory errors, keyed by the driver
#include "verif.h"
#include "sim.h"
#include "tagcodec.hh"
#include <event2/buffer.h>
#include <event2/tag.h>
#include <event2/util.h>
#include <sys/time.h>
extern "C" {
int evtag_decode_int(ev_uint32_t *pnumber, struct evbuffer *evbuf);
int evtag_decode_int64(ev_uint64_t *pnumber, struct evbuffer *evbuf);
int evtag_encode_tag(struct evbuffer *evbuf, ev_uint32_t tag);
int evtag_decode_tag(ev_uint32_t *ptag, struct evbuffer *evbuf);
}
using namespace tagref;

static const char *KNOWN_TAG_OVERREAD = "asan:heap-buffer-overflow@decode_tag_internal";
// evtag_unmarshal of an item with an empty payload calls evbuffer_add(dst, evbuffer_pullup(src, 0) == NULL, 0) -> memcpy(.., NULL, 0)
static const char *KNOWN_NULL_MEMCPY = "ubsan:null-pointer-passed-as-argument-which-is@buffer.c";

enum Kind { K_INT, K_INT64, K_STRING, K_FIXED, K_TIMEVAL, K_BUFFER, K_BARE_INT, K_BARE_INT64, K_BARE_TAG, K__N };
static const char *KIND_NAME[] = {"int", "int64", "string", "fixed", "timeval", "buffer", "bare_int", "bare_int64", "bare_tag"};
struct Orig { Kind kind; uint32_t tag; uint64_t num; std::string data; struct timeval tv; size_t enc_size; };

static void free_block(const void *data, size_t, void *) { free((void *)data); }

static std::vector<uint8_t> content(struct evbuffer *b) {
  std::vector<uint8_t> v(evbuffer_get_length(b));
  if (!v.empty()) { ev_ssize_t r = evbuffer_copyout(b, v.data(), v.size()); CHECK(r == (ev_ssize_t)v.size(), "harness/copyout", "copyout %zd of %zu", (ssize_t)r, v.size()); }
  return v;
}

static std::string gen_payload(Src &s) {
  static const uint32_t LENS[] = {0, 1, 2, 15, 16, 17, 255, 256, 257, 4095, 4096, 4097, 65535, 65536, 65537};
  if (s.chance(1, 16)) { size_t L = LENS[s.below(sizeof LENS / sizeof LENS[0])]; uint8_t seed = s.byte(); std::string r(L, 0); for (size_t i = 0; i < L; i++) r[i] = (char)(uint8_t)(i * 7 + seed); return r; }
  size_t L = s.below(40);
  return s.bytes(L);
}

enum Dec { D_NONE, D_DECODE_TAG, D_DECODE_INT, D_DECODE_INT64, D_PEEK, D_PEEK_LENGTH, D_PAYLOAD_LENGTH, D_HEADER, D_CONSUME,
  D_UNMARSHAL, D_INT, D_INT64, D_FIXED, D_STRING, D_TIMEVAL, D__N };
static const char *DEC_NAME[] = {"-", "decode_tag", "decode_int", "decode_int64", "peek", "peek_length", "payload_length", "unmarshal_header", "consume",
  "unmarshal", "unmarshal_int", "unmarshal_int64", "unmarshal_fixed", "unmarshal_string", "unmarshal_timeval"};
static Dec matching(Kind k) {
  switch (k) { case K_INT: return D_INT; case K_INT64: return D_INT64; case K_STRING: return D_STRING; case K_FIXED: return D_FIXED; case K_TIMEVAL: return D_TIMEVAL;
    case K_BUFFER: return D_UNMARSHAL; case K_BARE_INT: return D_DECODE_INT; case K_BARE_INT64: return D_DECODE_INT64; default: return D_DECODE_TAG; }
}

extern "C" int LLVMFuzzerTestOneInput(const uint8_t *data, size_t size) {
  sim_reset();
  verif_case_begin("C42");
  Src s(data, size);

  // ---- 1. marshal a short stream with the library's encoders
  std::vector<Orig> items;
  struct evbuffer *enc = evbuffer_new();
  unsigned nitems = s.below(5);
  for (unsigned i = 0; i < nitems; i++) {
    Orig o; o.kind = (Kind)s.below(K__N); o.tag = (uint32_t)s.boundary(32); o.num = 0; o.tv.tv_sec = 0; o.tv.tv_usec = 0;
    size_t before = evbuffer_get_length(enc);
    switch (o.kind) {
      case K_INT: o.num = (uint32_t)s.boundary(32); evtag_marshal_int(enc, o.tag, (uint32_t)o.num); break;
      case K_INT64: o.num = s.boundary(64); evtag_marshal_int64(enc, o.tag, o.num); break;
      case K_STRING: { o.data = gen_payload(s); for (auto &c : o.data) if (!c) c = 'z'; evtag_marshal_string(enc, o.tag, o.data.c_str()); break; }
      case K_FIXED: o.data = gen_payload(s); evtag_marshal(enc, o.tag, o.data.data(), (ev_uint32_t)o.data.size()); break;
      case K_TIMEVAL: o.tv.tv_sec = (time_t)(uint32_t)s.boundary(32); o.tv.tv_usec = (suseconds_t)(s.flag() ? s.below(1000000) : (uint32_t[]){0, 1, 15, 16, 255, 256, 65535, 65536, 999999}[s.below(9)]);
        evtag_marshal_timeval(enc, o.tag, &o.tv); break;
      case K_BUFFER: { o.data = gen_payload(s); struct evbuffer *d = evbuffer_new(); size_t cut = o.data.empty() ? 0 : s.below((uint32_t)o.data.size() + 1);
        evbuffer_add(d, o.data.data(), cut);
        if (cut < o.data.size()) { size_t tl = o.data.size() - cut; uint8_t *blk = (uint8_t *)malloc(tl); memcpy(blk, o.data.data() + cut, tl); evbuffer_add_reference(d, blk, tl, free_block, NULL); }
        evtag_marshal_buffer(enc, o.tag, d);
        CHECK(evbuffer_get_length(d) == 0, "C42/marshal-buffer-left-data", "marshal_buffer left %zu bytes in the source", evbuffer_get_length(d));
        evbuffer_free(d); break; }
      case K_BARE_INT: o.num = (uint32_t)s.boundary(32); evtag_encode_int(enc, (uint32_t)o.num); break;
      case K_BARE_INT64: o.num = s.boundary(64); evtag_encode_int64(enc, o.num); break;
      default: { int n = evtag_encode_tag(enc, o.tag); int n2 = evtag_encode_tag(NULL, o.tag);
        CHECK(n == n2 && n >= 1 && n <= 5, "C42/encode-tag-size", "encode_tag(%u) returned %d, size-only call %d", o.tag, n, n2);
        CHECK((size_t)n == evbuffer_get_length(enc) - before, "C42/encode-tag-size", "encode_tag(%u) returned %d but wrote %zu", o.tag, n, evbuffer_get_length(enc) - before); break; }
    }
    o.enc_size = evbuffer_get_length(enc) - before;
    TR("marshal %s tag=%u num=%llu datalen=%zu tv=%ld.%06ld -> %zu bytes", KIND_NAME[o.kind], o.tag, (unsigned long long)o.num, o.data.size(), (long)o.tv.tv_sec, (long)o.tv.tv_usec, o.enc_size);
    items.push_back(o);
  }
  std::vector<uint8_t> bytes = content(enc);
  evbuffer_free(enc);

  // ---- 2. maybe mutate (mode B), or replace by arbitrary bytes
  bool mutated = false;
  unsigned mode = s.below(4);   // 0,1: as marshalled   2: mutations   3: arbitrary bytes
  if (mode == 3 || (mode == 2 && bytes.empty())) {
    mutated = true; size_t L = s.below(24); bytes.clear();
    for (size_t i = 0; i < L; i++) { uint8_t b; switch (s.below(4)) { case 0: b = (uint8_t)(0x80 | s.below(16)); break; case 1: b = (uint8_t)s.below(16); break; case 2: b = (uint8_t)(s.below(16) << 4 | s.below(4)); break; default: b = s.byte(); } bytes.push_back(b); }
  } else if (mode == 2) {
    mutated = true; unsigned k = 1 + s.below(3);
    for (unsigned m = 0; m < k && !bytes.empty(); m++) {
      size_t pos = s.below((uint32_t)(bytes.size() < 24 ? bytes.size() : 24));    // headers live at the front
      switch (s.below(6)) {
        case 0: bytes[pos] ^= (uint8_t)(1u << s.below(8)); break;
        case 1: bytes[pos] = s.byte(); break;
        case 2: bytes.resize(pos); break;                                             // truncate
        case 3: bytes.insert(bytes.begin() + pos, (uint8_t)(s.flag() ? 0x80 | s.below(16) : s.byte())); break;
        case 4: bytes.erase(bytes.begin() + pos); break;
        default: bytes[pos] = (uint8_t)(bytes[pos] + 0x10); break;                   // nibble count + 1
      }
    }
  }
  // ---- 3. lay the stream out as exact-size reference blocks
  struct evbuffer *buf = evbuffer_new();
  size_t nblocks = 0, first_block = 0;
  bool plain = s.chance(1, 8);
  if (plain) { if (!bytes.empty()) evbuffer_add(buf, bytes.data(), bytes.size()); nblocks = 1; verif_class("layout_plain_add"); }
  else {
    size_t pos = 0;
    while (pos < bytes.size()) {
      size_t rem = bytes.size() - pos, n;
      if (pos >= 64 && nblocks >= 6) n = 1 + s.below(16384);      // keep the number of blocks small for big payloads
      else switch (s.below(4)) { case 0: n = 1 + s.below(3); break; case 1: n = 1 + s.below(8); break; case 2: n = 5; break; default: n = 1 + s.below(64); break; }
      if (s.chance(1, 6) || n > rem) n = rem;
      uint8_t *blk = (uint8_t *)malloc(n); memcpy(blk, bytes.data() + pos, n);
      CHECK(evbuffer_add_reference(buf, blk, n, free_block, NULL) == 0, "harness/add-reference", "add_reference failed");
      if (!nblocks) first_block = n;
      nblocks++; pos += n;
    }
  }
  TR("stream %zu bytes in %zu block(s)%s%s: %s", bytes.size(), nblocks, plain ? " (plain add)" : "", mutated ? " MUTATED" : "", hexs(bytes.data(), bytes.size(), 48).c_str());
  if (first_block == 5 && bytes.size() > 5) verif_class("first_block_exactly_5");
  if (nblocks >= 2) verif_class("multi_block");

  // ---- 4. decode
  size_t next_item = 0; bool in_sync = !mutated;
  unsigned roundtripped = 0, ops = 0, lib_ok = 0, ref_interesting = 0;
  unsigned maxops = mutated ? 1 + s.below(4) : (unsigned)items.size() + s.below(2);
  for (unsigned op = 0; op < maxops; op++) {
    std::vector<uint8_t> cur = content(buf);
    const uint8_t *p = cur.data(); size_t n = cur.size();
    const Orig *o = (in_sync && next_item < items.size()) ? &items[next_item] : NULL;
    Dec d;
    bool want_match = o && s.chance(7, 8);
    if (want_match) d = matching(o->kind); else d = (Dec)(1 + s.below(D__N - 1));
    bool is_match = o && d == matching(o->kind);
    if (d != D_DECODE_INT && d != D_DECODE_INT64 && n >= 6 && verif_known(KNOWN_TAG_OVERREAD)) {
      // known finding excluded by construction: five tag bytes with the continuation bit, the fifth with value bits <= 15,
      // followed by more data: decode_tag_internal then reads a sixth byte that it never pulled up
      bool run = true; for (size_t j = 0; j < 5; j++) if (!(p[j] & 0x80)) run = false;
      if (run && (p[4] & 0x7f) <= 15) { verif_known_skipped(KNOWN_TAG_OVERREAD); break; }
    }
    Item it = read_item(p, n);
    // evtag_unmarshal of an empty payload calls memcpy(dst, NULL, 0) (UBSan nonnull report): benign, not a property matter -> never generated
    if (d == D_UNMARSHAL && it.v != REJECT && it.len == 0) { d = D_CONSUME; is_match = false; }
    // need_tag: usually the tag the reference reader sees, sometimes another
    uint32_t need_tag = it.header_ok ? it.tag : 0;
    bool tag_match = true;
    if (!is_match && !s.chance(4, 5)) { need_tag ^= 1u << s.below(32); tag_match = false; }
    else if (is_match && !s.chance(15, 16)) { need_tag = o->tag ^ (1u << s.below(32)); tag_match = false; }
    else if (is_match) need_tag = o->tag;
    size_t fixed_len = it.header_ok ? it.len : 0;
    bool len_match = true;
    if (d == D_FIXED && !s.chance(5, 6)) { fixed_len = s.flag() ? fixed_len + 1 : (fixed_len ? fixed_len - 1 : 3); len_match = false; }
    if (fixed_len > (1u << 20)) fixed_len = 1u << 20;

    // reference expectation
    Verdict ev = REJECT; size_t exp_consumed = 0; bool peek_fn = false;
    uint64_t ev_num = 0; uint32_t ev_tag = it.tag; uint64_t ev_a = 0, ev_b = 0;
    switch (d) {
      case D_DECODE_TAG: { Num t = read_tag(p, n); ev = t.v; exp_consumed = t.n; ev_num = t.value; break; }
      case D_DECODE_INT: { Num t = read_int(p, n, 8); ev = t.v; exp_consumed = t.n; ev_num = t.value; break; }
      case D_DECODE_INT64: { Num t = read_int(p, n, 16); ev = t.v; exp_consumed = t.n; ev_num = t.value; break; }
      case D_PEEK: { Num t = read_tag(p, n); ev = t.v; ev_num = t.value; exp_consumed = 0; peek_fn = true; ev_a = t.n; break; }
      case D_PEEK_LENGTH: ev = it.header_ok ? it.header_v : REJECT; ev_num = (uint64_t)it.len + it.taglen + it.lenlen; peek_fn = true; break;
      case D_PAYLOAD_LENGTH: ev = it.header_ok ? it.header_v : REJECT; ev_num = it.len; peek_fn = true; break;
      case D_HEADER: ev = it.v; exp_consumed = it.payload_off; ev_num = it.len; break;
      case D_CONSUME: case D_UNMARSHAL: case D_STRING: ev = it.v; exp_consumed = it.payload_off + it.len; ev_num = it.len; if (d == D_STRING && !tag_match) ev = REJECT; break;
      case D_FIXED: ev = it.v; exp_consumed = it.payload_off + it.len; if (!tag_match || fixed_len != it.len) ev = REJECT; break;
      case D_INT: case D_INT64: {
        ev = it.v; exp_consumed = it.payload_off + it.len;
        if (ev != REJECT) { Num t = read_int(p + it.payload_off, it.len, d == D_INT ? 8 : 16); ev = both(ev, t.v); ev_num = t.value; ev_a = t.n; if (t.v != REJECT && t.n < it.len) ev = both(ev, MAY); }
        if (!tag_match) ev = REJECT;
        break; }
      case D_TIMEVAL: {
        ev = it.v; exp_consumed = it.payload_off + it.len;
        if (ev != REJECT) { Num a = read_int(p + it.payload_off, it.len, 8);
          if (a.v == REJECT) ev = REJECT;
          else { Num b = read_int(p + it.payload_off + a.n, it.len - a.n, 8); ev = both(ev, both(a.v, b.v)); ev_a = a.value; ev_b = b.value; if (b.v != REJECT && a.n + b.n < it.len) ev = both(ev, MAY); } }
        if (!tag_match) ev = REJECT;
        break; }
      default: break;
    }
    verif_class(ev == ACCEPT ? "ref_accept" : ev == MAY ? "ref_may" : "ref_reject");

    // run the decoder
    int rc = -1; bool ok = false;
    uint32_t g_tag = 0xdeadbeef, g_u32 = 0xdeadbeef; uint64_t g_u64 = 0xdeadbeefdeadbeefull;
    std::string detail;
    char msg[256];
#define WRONG(...) do { snprintf(msg, sizeof msg, __VA_ARGS__); detail = msg; } while (0)
    switch (d) {
      case D_DECODE_TAG: rc = evtag_decode_tag(&g_tag, buf); ok = rc != -1;
        if (ok && ev != REJECT && ev != REJECT) { if (g_tag != (uint32_t)ev_num) WRONG("tag %u, reference %llu", g_tag, (unsigned long long)ev_num); else if ((size_t)rc != exp_consumed) WRONG("returned size %d, reference %zu", rc, exp_consumed); } break;
      case D_DECODE_INT: rc = evtag_decode_int(&g_u32, buf); ok = rc != -1; if (ok && ev != REJECT && g_u32 != (uint32_t)ev_num) WRONG("value %u, reference %llu", g_u32, (unsigned long long)ev_num); break;
      case D_DECODE_INT64: rc = evtag_decode_int64(&g_u64, buf); ok = rc != -1; if (ok && ev != REJECT && g_u64 != ev_num) WRONG("value %llu, reference %llu", (unsigned long long)g_u64, (unsigned long long)ev_num); break;
      case D_PEEK: rc = evtag_peek(buf, &g_tag); ok = rc != -1;
        if (ok && ev != REJECT && ev != REJECT) { if (g_tag != (uint32_t)ev_num) WRONG("tag %u, reference %llu", g_tag, (unsigned long long)ev_num); else if ((uint64_t)rc != ev_a) WRONG("returned size %d, reference %llu", rc, (unsigned long long)ev_a); } break;
      case D_PEEK_LENGTH: rc = evtag_peek_length(buf, &g_u32); ok = rc != -1; if (ok && ev != REJECT && g_u32 != (uint32_t)ev_num) WRONG("total length %u, reference %llu", g_u32, (unsigned long long)ev_num); break;
      case D_PAYLOAD_LENGTH: rc = evtag_payload_length(buf, &g_u32); ok = rc != -1; if (ok && ev != REJECT && g_u32 != (uint32_t)ev_num) WRONG("payload length %u, reference %llu", g_u32, (unsigned long long)ev_num); break;
      case D_HEADER: rc = evtag_unmarshal_header(buf, &g_tag); ok = rc != -1;
        if (ok && ev != REJECT && ev != REJECT) { if (g_tag != ev_tag) WRONG("tag %u, reference %u", g_tag, ev_tag); else if ((uint64_t)rc != ev_num) WRONG("length %d, reference %llu", rc, (unsigned long long)ev_num); } break;
      case D_CONSUME: rc = evtag_consume(buf); ok = rc != -1; break;
      case D_UNMARSHAL: { struct evbuffer *dst = evbuffer_new(); if (s.flag()) evbuffer_add(dst, "pre", 3); size_t pre = evbuffer_get_length(dst);
        rc = evtag_unmarshal(buf, &g_tag, dst); ok = rc != -1;
        if (ok && ev != REJECT && ev != REJECT) { std::vector<uint8_t> got = content(dst);
          if (g_tag != ev_tag) WRONG("tag %u, reference %u", g_tag, ev_tag); else if ((uint64_t)rc != ev_num) WRONG("length %d, reference %llu", rc, (unsigned long long)ev_num);
          else if (got.size() != pre + it.len || memcmp(got.data() + pre, p + it.payload_off, it.len) || memcmp(got.data(), "pre", pre)) WRONG("payload delivered to dst differs (dst has %zu bytes, want %zu)", got.size(), pre + it.len);
          if (is_match && detail.empty()) CHECK(got.size() == pre + o->data.size() && !memcmp(got.data() + pre, o->data.data(), o->data.size()) && g_tag == o->tag, "C42/roundtrip-buffer", "tag %u len %zu read back as tag %u len %zu or different bytes", o->tag, o->data.size(), g_tag, got.size() - pre); }
        if (!ok) CHECK(evbuffer_get_length(dst) == pre, "C42/failed-unmarshal-wrote-dst", "unmarshal failed but dst grew to %zu", evbuffer_get_length(dst));
        evbuffer_free(dst); break; }
      case D_INT: rc = evtag_unmarshal_int(buf, need_tag, &g_u32); ok = rc != -1;
        if (ok && ev != REJECT && ev != REJECT) { if (g_u32 != (uint32_t)ev_num) WRONG("value %u, reference %llu", g_u32, (unsigned long long)ev_num); else if ((uint64_t)rc != ev_a) WRONG("returned %d, encoded integer size %llu", rc, (unsigned long long)ev_a); } break;
      case D_INT64: rc = evtag_unmarshal_int64(buf, need_tag, &g_u64); ok = rc != -1;
        if (ok && ev != REJECT && ev != REJECT) { if (g_u64 != ev_num) WRONG("value %llu, reference %llu", (unsigned long long)g_u64, (unsigned long long)ev_num); else if ((uint64_t)rc != ev_a) WRONG("returned %d, encoded integer size %llu", rc, (unsigned long long)ev_a); } break;
      case D_FIXED: { uint8_t *dst = (uint8_t *)malloc(fixed_len ? fixed_len : 1); memset(dst, 0xa5, fixed_len ? fixed_len : 1);
        rc = evtag_unmarshal_fixed(buf, need_tag, dst, fixed_len); ok = rc != -1;
        if (ok && ev != REJECT && (fixed_len != it.len || memcmp(dst, p + it.payload_off, fixed_len))) WRONG("fixed data differs from the payload (len %zu, reference %u)", fixed_len, it.len);
        if (ok && ev != REJECT && is_match && detail.empty()) CHECK(fixed_len == o->data.size() && !memcmp(dst, o->data.data(), fixed_len), "C42/roundtrip-fixed", "raw data of %zu bytes read back differently", o->data.size());
        free(dst); break; }
      case D_STRING: { char *str = NULL; rc = evtag_unmarshal_string(buf, need_tag, &str); ok = rc != -1;
        if (ok && ev != REJECT && ev != REJECT) { if (!str) WRONG("success but NULL string"); else if (memcmp(str, p + it.payload_off, it.len) || str[it.len] != 0) WRONG("string differs from the payload or is not terminated at %u", it.len);
          if (str && is_match && detail.empty()) CHECK(o->data.size() == it.len && !strcmp(str, o->data.c_str()), "C42/roundtrip-string", "string of %zu bytes read back differently", o->data.size());
          free(str); }
        break; }
      case D_TIMEVAL: { struct timeval tv; tv.tv_sec = -7; tv.tv_usec = -7; rc = evtag_unmarshal_timeval(buf, need_tag, &tv); ok = rc != -1;
        if (ok && ev != REJECT && ((uint64_t)tv.tv_sec != ev_a || (uint64_t)tv.tv_usec != ev_b)) WRONG("timeval %ld.%ld, reference %llu.%llu", (long)tv.tv_sec, (long)tv.tv_usec, (unsigned long long)ev_a, (unsigned long long)ev_b);
        if (ok && ev != REJECT && is_match && detail.empty()) CHECK(tv.tv_sec == o->tv.tv_sec && tv.tv_usec == o->tv.tv_usec, "C42/roundtrip-timeval", "timeval %ld.%06ld read back as %ld.%06ld", (long)o->tv.tv_sec, (long)o->tv.tv_usec, (long)tv.tv_sec, (long)tv.tv_usec);
        break; }
      default: break;
    }
    ops++; if (ok) lib_ok++;
    verif_class(ok ? "lib_accept" : "lib_reject");
    std::vector<uint8_t> after = content(buf);
    size_t consumed = n >= after.size() ? n - after.size() : (size_t)-1;
    TR("%s(need_tag=%u%s) on %zu bytes -> rc=%d consumed=%zu | reference: %s tag=%u len=%u hdr=%zu", DEC_NAME[d], need_tag, d == D_FIXED ? (", len=" + std::to_string(fixed_len)).c_str() : "", n, rc, consumed,
       ev == ACCEPT ? "ACCEPT" : ev == MAY ? "MAY" : "REJECT", it.tag, it.len, it.payload_off);

    CHECK(after.size() <= n && (after.empty() || !memcmp(after.data(), p + (n - after.size()), after.size())), "C42/content-corrupted", "%s: buffer content after the call (%zu bytes) is not a suffix of the content before (%zu bytes)", DEC_NAME[d], after.size(), n);
    if (peek_fn) CHECK(after.size() == n, "C42/content-corrupted", "%s changed the buffer length %zu -> %zu", DEC_NAME[d], n, after.size());
    if (ok) {
      CHECK(ev != REJECT, "C42/accepts-malformed", "%s succeeded (rc=%d) but the data is not a well-formed item for it: %s", DEC_NAME[d], rc, hexs(p, n, 24).c_str());
      CHECK(detail.empty(), "C42/wrong-value", "%s: %s; data %s", DEC_NAME[d], detail.c_str(), hexs(p, n, 24).c_str());
      CHECK(consumed == exp_consumed, "C42/consumed-wrong", "%s consumed %zu bytes, one item is %zu; data %s", DEC_NAME[d], consumed, exp_consumed, hexs(p, n, 24).c_str());
    } else {
      CHECK(ev != ACCEPT, "C42/rejects-wellformed", "%s failed on a well-formed item: %s", DEC_NAME[d], hexs(p, n, 24).c_str());
    }
    if (ev != REJECT || it.header_ok) ref_interesting++;

    // round trip bookkeeping
    if (o && is_match && tag_match && len_match) {
      CHECK(ok, "C42/roundtrip-failed", "%s failed on item %zu (%s tag=%u) marshalled by the library", DEC_NAME[d], next_item, KIND_NAME[o->kind], o->tag);
      CHECK(consumed == o->enc_size, "C42/roundtrip-size", "%s consumed %zu bytes, the marshaller wrote %zu", DEC_NAME[d], consumed, o->enc_size);
      switch (o->kind) {
        case K_INT: case K_BARE_INT: CHECK(g_u32 == (uint32_t)o->num, "C42/roundtrip-int", "%u read back as %u", (uint32_t)o->num, g_u32); break;
        case K_INT64: case K_BARE_INT64: CHECK(g_u64 == o->num, "C42/roundtrip-int64", "%llu read back as %llu", (unsigned long long)o->num, (unsigned long long)g_u64); break;
        case K_BARE_TAG: CHECK(g_tag == o->tag, "C42/roundtrip-tag", "tag %u read back as %u", o->tag, g_tag); break;
        default: break;   // string/fixed/timeval/buffer compared above
      }
      roundtripped++; next_item++; verif_class("roundtrip_item");
      verif_class((std::string("roundtrip_") + KIND_NAME[o->kind]).c_str());
    } else if (!peek_fn) {
      if (o && ok && consumed == o->enc_size) next_item++;        // generic decoder took exactly this item: still in sync
      else in_sync = false;
    }
  }
  evbuffer_free(buf);
  if (mutated) verif_class("mutated_stream"); else verif_class("pristine_stream");
  int nontrivial = nblocks >= 2 && ((roundtripped >= 1) || (mutated && ops >= 1 && ref_interesting >= 1));
  verif_case_end(nontrivial, s.h);
  return 0;
}
