// C43 — RPC calls complete exactly once with the reply the server sent.
// One world per case, everything on one event_base under the harness' virtual clock:
//   evrpc_pool (1-2 evhttp_connections, AF_UNIX path) --> harness relay (accepts, forwards bytes, injects faults)
//   --> evhttp server on an AF_UNIX abstract-namespace evconnlistener --> evrpc_base with RPCs Message and NeverReply
//   (msg -> kill of test/regress.rpc, generated marshalling code in build/gen/regress.gen.c).
// Faults: relay down (connection refused), per relay connection: cut after k bytes in either direction, stall,
// rewrite of the n-th request / response body (byte flip, truncation, garbage, a different valid message, empty);
// handler replies late / never / with an incomplete reply; client and server hooks CONTINUE / TERMINATE / PAUSE (+ later
// evrpc_resume_request with CONTINUE or TERMINATE); pool timeout and clock advances.
// Preconditions respected: request / reply objects stay alive until the completion callback ran; every paused request
// is resumed and every handler invocation is answered (EVRPC_REQUEST_DONE) before teardown; the pool is freed only
// after every request completed; hooks do not modify the payload.
#include "verif.h"
#include "sim.h"
#include <event2/event.h>
#include <event2/event_compat.h>
#include <event2/http.h>
#include <event2/http_struct.h>
#include <event2/buffer.h>
#include <event2/listener.h>
#include <event2/rpc.h>
#include <event2/rpc_struct.h>
#include <event2/tag.h>
#include <event2/util.h>
#include <sys/socket.h>
#include <sys/un.h>
#include <errno.h>
#include <fcntl.h>
#include <signal.h>
#include <unistd.h>
#include <dirent.h>
extern "C" {
#include "regress.gen.h"
EVRPC_HEADER(Message, msg, kill)
EVRPC_HEADER(NeverReply, msg, kill)
EVRPC_GENERATE(Message, msg, kill)
EVRPC_GENERATE(NeverReply, msg, kill)
}

extern "C" int __lsan_do_recoverable_leak_check(void);
#define K_UNSTARTED_LEAK "C43/unstarted-request-leaks-http-request"
#define K_GEN_LEAK "C43/generated-unmarshal-leaks-failed-array-element"
#define K_STRANDED "C43/queued-request-stranded-after-unstarted"
#define K_ZERO_STRUCT "ubsan:null-pointer-passed-as-argument-which-is@buffer.c"   /* evtag_unmarshal() of a zero-length item: evbuffer_add(dst, NULL, 0) */

namespace {
// ---------------------------------------------------------------- value mirror of the generated types
struct KillV { bool has_weapon = false, has_action = false; std::string weapon, action; std::vector<uint32_t> how;
  bool operator==(const KillV &o) const { return has_weapon == o.has_weapon && has_action == o.has_action && weapon == o.weapon && action == o.action && how == o.how; } };
struct RunV { std::string how; bool has_some = false; std::string some; std::string fixed; std::vector<std::string> notes; bool has_large = false; uint64_t large = 0; std::vector<uint32_t> other;
  bool operator==(const RunV &o) const { return how == o.how && has_some == o.has_some && some == o.some && fixed == o.fixed && notes == o.notes && has_large == o.has_large && large == o.large && other == o.other; } };
struct MsgV { std::string from, to; bool has_attack = false; KillV attack; std::vector<RunV> runs;
  bool operator==(const MsgV &o) const { return from == o.from && to == o.to && has_attack == o.has_attack && (!has_attack || attack == o.attack) && runs == o.runs; } };

const char ALPHA[] = "abcXYZ019 _-:/\x01\x7f\x80\xff\r\n";
std::string gen_str(Src &s, int maxlen) { int n = s.below(4) == 3 ? s.below(maxlen + 1) : s.below(6); return s.from(ALPHA, sizeof ALPHA - 1, n); }
uint32_t gen_u32(Src &s) { return (uint32_t)s.boundary(32); }
KillV gen_kill(Src &s) { KillV k; k.has_weapon = k.has_action = true; k.weapon = gen_str(s, 40); k.action = gen_str(s, 40); int n = s.below(4); for (int i = 0; i < n; i++) k.how.push_back(gen_u32(s)); return k; }
RunV gen_run(Src &s) { RunV r; r.how = gen_str(s, 30); r.has_some = s.flag(); if (r.has_some) r.some = s.bytes(s.below(12)); r.fixed = s.flag() ? s.bytes(24) : std::string(24, 'f');
  int n = s.below(3); for (int i = 0; i < n; i++) r.notes.push_back(gen_str(s, 20)); r.has_large = s.flag(); if (r.has_large) r.large = s.boundary(64); n = s.below(3); for (int i = 0; i < n; i++) r.other.push_back(gen_u32(s)); return r; }

void fill_kill(struct kill *k, const KillV &v) {
  if (v.has_weapon) EVTAG_ASSIGN(k, weapon, v.weapon.c_str());
  if (v.has_action) EVTAG_ASSIGN(k, action, v.action.c_str());
  for (uint32_t x : v.how) EVTAG_ARRAY_ADD_VALUE(k, how_often, x);
}
void fill_msg(struct msg *m, const MsgV &v) {
  EVTAG_ASSIGN(m, from_name, v.from.c_str()); EVTAG_ASSIGN(m, to_name, v.to.c_str());
  if (v.has_attack) { struct kill *k = nullptr; EVTAG_GET(m, attack, &k); fill_kill(k, v.attack); }
  for (const RunV &r : v.runs) { struct run *x = EVTAG_ARRAY_ADD(m, run);
    EVTAG_ASSIGN(x, how, r.how.c_str()); if (r.has_some) EVTAG_ASSIGN_WITH_LEN(x, some_bytes, (const ev_uint8_t *)r.some.data(), (ev_uint32_t)r.some.size());
    EVTAG_ASSIGN(x, fixed_bytes, (const ev_uint8_t *)r.fixed.data());
    for (auto &n : r.notes) EVTAG_ARRAY_ADD_VALUE(x, notes, n.c_str());
    if (r.has_large) EVTAG_ASSIGN(x, large_number, r.large);
    for (uint32_t o : r.other) EVTAG_ARRAY_ADD_VALUE(x, other_numbers, o); }
}
KillV read_kill(struct kill *k) { KillV v; char *p;
  if (EVTAG_HAS(k, weapon) && EVTAG_GET(k, weapon, &p) == 0) { v.has_weapon = true; v.weapon = p; }
  if (EVTAG_HAS(k, action) && EVTAG_GET(k, action, &p) == 0) { v.has_action = true; v.action = p; }
  int n = EVTAG_ARRAY_LEN(k, how_often); for (int i = 0; i < n; i++) { ev_uint32_t x = 0; EVTAG_ARRAY_GET(k, how_often, i, &x); v.how.push_back(x); }
  return v; }
MsgV read_msg(struct msg *m) { MsgV v; char *p;
  if (EVTAG_HAS(m, from_name) && EVTAG_GET(m, from_name, &p) == 0) v.from = p;
  if (EVTAG_HAS(m, to_name) && EVTAG_GET(m, to_name, &p) == 0) v.to = p;
  if (EVTAG_HAS(m, attack)) { struct kill *k = nullptr; EVTAG_GET(m, attack, &k); v.has_attack = true; v.attack = read_kill(k); }
  int n = EVTAG_ARRAY_LEN(m, run);
  for (int i = 0; i < n; i++) { struct run *x = nullptr; EVTAG_ARRAY_GET(m, run, i, &x); RunV r;
    if (EVTAG_GET(x, how, &p) == 0) r.how = p;
    if (EVTAG_HAS(x, some_bytes)) { ev_uint8_t *b; ev_uint32_t l; if (EVTAG_GET_WITH_LEN(x, some_bytes, &b, &l) == 0) { r.has_some = true; r.some.assign((char *)b, l); } }
    { ev_uint8_t *b; if (EVTAG_GET(x, fixed_bytes, &b) == 0) r.fixed.assign((char *)b, 24); }
    int k = EVTAG_ARRAY_LEN(x, notes); for (int j = 0; j < k; j++) { char *q; if (EVTAG_ARRAY_GET(x, notes, j, &q) == 0) r.notes.push_back(q); }
    if (EVTAG_HAS(x, large_number)) { ev_uint64_t l; if (EVTAG_GET(x, large_number, &l) == 0) { r.has_large = true; r.large = l; } }
    k = EVTAG_ARRAY_LEN(x, other_numbers); for (int j = 0; j < k; j++) { ev_uint32_t o = 0; EVTAG_ARRAY_GET(x, other_numbers, j, &o); r.other.push_back(o); }
    v.runs.push_back(r); }
  return v; }
std::string marshal_kill(const KillV &v) { struct kill *k = kill_new(); fill_kill(k, v); struct evbuffer *b = evbuffer_new(); kill_marshal(b, k);
  std::string out(evbuffer_get_length(b), 0); evbuffer_copyout(b, &out[0], out.size()); evbuffer_free(b); kill_free(k); return out; }
std::string marshal_msg(const MsgV &v) { struct msg *m = msg_new(); fill_msg(m, v); struct evbuffer *b = evbuffer_new(); msg_marshal(b, m);
  std::string out(evbuffer_get_length(b), 0); evbuffer_copyout(b, &out[0], out.size()); evbuffer_free(b); msg_free(m); return out; }
bool decode_kill(const std::string &body, KillV *out) { struct kill *k = kill_new(); struct evbuffer *b = evbuffer_new(); evbuffer_add(b, body.data(), body.size());
  bool ok = kill_unmarshal(k, b) == 0; if (ok) *out = read_kill(k); evbuffer_free(b); kill_free(k); return ok; }
// Does the body carry a struct-valued element (attack, run) with a zero-length payload?  evtag_unmarshal() then calls
// evbuffer_add(dst, NULL, 0) -> memcpy(.., NULL, 0) (known finding K_ZERO_STRUCT); such a body never unmarshals.
bool zero_len_struct(const std::string &body) {
  struct evbuffer *b = evbuffer_new(); evbuffer_add(b, body.data(), body.size()); bool hit = false;
  while (evbuffer_get_length(b) > 0) { ev_uint32_t tag, len;
    if (evtag_peek(b, &tag) == -1 || evtag_payload_length(b, &len) == -1) break;
    if ((tag == MSG_ATTACK || tag == MSG_RUN) && len == 0) { hit = true; break; }
    if (evtag_consume(b) == -1) break; }
  evbuffer_free(b); return hit;
}
// Would the generated msg_unmarshal() allocate a run element and then fail inside it?  (It then returns without freeing the
// element: known finding K_GEN_LEAK.)  Mirrors msg_unmarshal's top-level walk with leak-free stand-alone decoders.
bool gen_leak_possible(const std::string &body) {
  if (zero_len_struct(body)) return false;
  struct evbuffer *b = evbuffer_new(); evbuffer_add(b, body.data(), body.size()); bool leak = false, from = false, to = false, attack = false;
  while (evbuffer_get_length(b) > 0) { ev_uint32_t tag;
    if (evtag_peek(b, &tag) == -1) break;
    if (tag == MSG_RUN) { struct run *r = run_new(); int rc = evtag_unmarshal_run(b, MSG_RUN, r); run_free(r); if (rc == -1) { leak = true; break; } }
    else if (tag == MSG_ATTACK) { if (attack) break; struct kill *k = kill_new(); int rc = evtag_unmarshal_kill(b, MSG_ATTACK, k); kill_free(k); if (rc == -1) break; attack = true; }
    else if (tag == MSG_FROM_NAME) { if (from || evtag_consume(b) == -1) break; from = true; }
    else if (tag == MSG_TO_NAME) { if (to || evtag_consume(b) == -1) break; to = true; }
    else break; }
  evbuffer_free(b); return leak;
}
bool decode_msg(const std::string &body, MsgV *out) { if (zero_len_struct(body) || gen_leak_possible(body)) return false; struct msg *m = msg_new(); struct evbuffer *b = evbuffer_new(); evbuffer_add(b, body.data(), body.size());
  bool ok = body.size() > 0 && msg_unmarshal(m, b) == 0; if (ok) *out = read_msg(m); evbuffer_free(b); msg_free(m); return ok; }
int id_of(const std::string &from) { if (from.size() < 2 || from[0] != 'q') return -1; int v = 0; size_t i = 1; for (; i < from.size() && from[i] >= '0' && from[i] <= '9'; i++) v = v * 10 + (from[i] - '0'); if (i == 1 || i >= from.size() || from[i] != ';') return -1; return v; }
std::string show(const KillV &k) { return "{w=" + (k.has_weapon ? esc(k.weapon, 30) : "-") + " a=" + (k.has_action ? esc(k.action, 30) : "-") + " n=" + std::to_string(k.how.size()) + "}"; }

// the reply a handler produces: a function of the request only (a retransmitted request gets the same reply)
KillV reply_for(const MsgV &q) { KillV k; k.has_action = true; k.action = "a:" + q.from; k.has_weapon = q.to.empty() || q.to[0] != '!'; if (k.has_weapon) k.weapon = "w:" + q.to;
  k.how.push_back((uint32_t)q.runs.size()); if (q.has_attack) for (uint32_t x : q.attack.how) k.how.push_back(x ^ 0x5a5a5a5au); for (auto &r : q.runs) if (r.has_large) k.how.push_back((uint32_t)(r.large >> 17)); return k; }

// ---------------------------------------------------------------- world
struct World;
struct Rec { World *w; int id; int kind; /* 0 Message 1 NeverReply */ MsgV q; struct msg *m = nullptr; struct kill *k = nullptr;
  int cb_calls = 0; int status = -1; bool out_term = false, in_term = false, server_non200 = false; bool has_override = false, override_ok = false; KillV override_v; bool override_of_non200 = false;
  int handler_calls = 0; bool scheduled = false; /* reached the pool's output hook (only tracked with client hooks) */ };
struct Saved { void *rpc; int kind; MsgV q; };   // handler invocation not answered yet
struct Paused { void *vbase; void *ctx; int site; };
struct HookSite { World *w; int site; void *vbase; };   // 0 client-out 1 client-in 2 server-in 3 server-out
enum { F_NONE = 0, F_CUT_C2S, F_CUT_S2C, F_STALL, F_RW_REQ, F_RW_RESP, F_CLOSE_AT_ONCE };
struct RConn { int cfd = -1, sfd = -1; int fault = F_NONE; long cut_at = 0; long fwd[2] = {0, 0}; int rw_index = 0; int rw_kind = 0; int rw_arg = 0; int msgno[2] = {0, 0};
  std::string in[2], out[2]; int cur_id = -1; bool cur_non200 = false; bool dead = false; };
struct World {
  Src *s; struct event_base *base = nullptr; struct evhttp *http = nullptr; struct evrpc_base *rbase = nullptr; struct evrpc_pool *pool = nullptr;
  struct evhttp_connection *evcon[2] = {nullptr, nullptr}; int nevcon = 1;
  int lfd = -1; char path[64]; struct sockaddr_un saddr; socklen_t salen = 0;
  std::vector<Rec *> recs; std::vector<Saved> saved; std::vector<Paused> paused; std::vector<RConn> conns; std::vector<MsgV> forwarded_valid[2];
  HookSite sites[4]; bool client_hooks = false, server_hooks = false; bool quiet = false;
  bool disruptive = false, rewrites = false, gen_leak_forwarded = false; int last_nready = 0; int cb_budget = 4; int pool_timeout = -1;
  int n_ok = 0, n_timeout = 0, n_badpayload = 0, n_unstarted = 0, n_hookabort = 0, n_pauses = 0, n_resumes = 0, n_handler = 0, n_deferred = 0, n_cuts = 0, n_override_ok = 0, n_incb_req = 0;
};
World *W;

int count_fds() { int n = 0; DIR *d = opendir("/proc/self/fd"); if (!d) return -1; while (readdir(d)) n++; closedir(d); return n; }

// ---------------------------------------------------------------- client side
void make_request(World &w, bool in_cb);
void client_cb(struct evrpc_status *st, struct msg *m, struct kill *k, void *arg) {
  Rec *r = (Rec *)arg; World &w = *r->w;
  r->cb_calls++;
  TR("    -> completion q%d (%s) status=%d calls=%d", r->id, r->kind ? "NeverReply" : "Message", st ? st->error : -9, r->cb_calls);
  CHECK(r->cb_calls == 1, "C43/completed-twice", "request q%d: completion callback ran %d times", r->id, r->cb_calls);
  CHECK(st && m == r->m && k == r->k, "C43/callback-args", "request q%d: callback got other request/reply objects than were passed to EVRPC_MAKE_REQUEST", r->id);
  r->status = st->error;
  CHECK(st->error >= EVRPC_STATUS_ERR_NONE && st->error <= EVRPC_STATUS_ERR_HOOKABORTED, "C43/status-range", "request q%d: status %d", r->id, st->error);
  if (r->out_term) CHECK(st->error == EVRPC_STATUS_ERR_UNSTARTED, "C43/terminated-request-status", "request q%d: the pool's output hook terminated it but it completed with status %d (expected UNSTARTED)", r->id, st->error);
  else CHECK(st->error != EVRPC_STATUS_ERR_UNSTARTED, "C43/unexpected-unstarted", "request q%d: status UNSTARTED although no output hook terminated it", r->id);
  if (r->in_term) CHECK(st->error == EVRPC_STATUS_ERR_HOOKABORTED, "C43/terminated-reply-status", "request q%d: the pool's input hook terminated it but it completed with status %d (expected HOOKABORTED)", r->id, st->error);
  else CHECK(st->error != EVRPC_STATUS_ERR_HOOKABORTED, "C43/unexpected-hookaborted", "request q%d: status HOOKABORTED although no input hook terminated it", r->id);
  switch (st->error) {
    case EVRPC_STATUS_ERR_NONE: {
      KillV got = read_kill(k);
      CHECK(kill_complete(k) == 0, "C43/incomplete-reply-delivered", "request q%d: status NONE but the reply object is incomplete %s", r->id, show(got).c_str());
      if (r->has_override) {
        if (r->override_ok) { CHECK(got == r->override_v, "C43/reply-mismatch", "request q%d: reply %s differs from the (rewritten) reply on the wire %s", r->id, show(got).c_str(), show(r->override_v).c_str()); w.n_override_ok++; }
        else if (!r->override_of_non200) CHECK(false, "C43/bad-payload-accepted", "request q%d: status NONE %s although the reply body on the wire does not unmarshal", r->id, show(got).c_str());
      } else {
        CHECK(r->handler_calls > 0, "C43/reply-without-handler", "request q%d: status NONE %s but no handler ever saw the request", r->id, show(got).c_str());
        KillV want = reply_for(r->q);
        CHECK(!r->server_non200, "C43/error-reply-accepted", "request q%d: status NONE %s although the server answered with an error", r->id, show(got).c_str());
        CHECK(got == want, "C43/reply-mismatch", "request q%d: reply %s differs from what the handler produced %s", r->id, show(got).c_str(), show(want).c_str());
      }
      w.n_ok++; break; }
    case EVRPC_STATUS_ERR_TIMEOUT:
      CHECK(w.disruptive, "C43/unexpected-failure", "request q%d: status TIMEOUT (connection failure) in a case without connection faults, timeouts or clock advances", r->id);
      w.n_timeout++; break;
    case EVRPC_STATUS_ERR_BADPAYLOAD:
      // a refused connection completes the HTTP request with an empty response object (code 0), which evrpc reports as BADPAYLOAD
      CHECK(r->server_non200 || w.rewrites || w.disruptive || (r->has_override && !r->override_ok), "C43/unexpected-badpayload", "request q%d: status BADPAYLOAD but the server sent a well-formed reply and nothing rewrote it or disturbed the connection", r->id);
      w.n_badpayload++; break;
    case EVRPC_STATUS_ERR_UNSTARTED: w.n_unstarted++; break;
    case EVRPC_STATUS_ERR_HOOKABORTED: w.n_hookabort++; break;
  }
  if (!w.quiet && w.cb_budget > 0 && w.s->below(4) == 1) { w.cb_budget--; w.n_incb_req++; make_request(w, true); }
}
void cbM(struct evrpc_status *st, struct msg *m, struct kill *k, void *arg) { client_cb(st, m, k, arg); }

void make_request(World &w, bool in_cb) {
  Src &s = *w.s;
  if (w.recs.size() >= 8) return;
  Rec *r = new Rec; r->w = &w; r->id = (int)w.recs.size(); r->kind = s.below(4) == 3 ? 1 : 0;
  r->q.from = "q" + std::to_string(r->id) + ";" + gen_str(s, 30);
  { int t = s.below(8); r->q.to = (t == 6 ? "!" : t == 7 ? "~" : "") + gen_str(s, 30); }
  r->q.has_attack = s.flag(); if (r->q.has_attack) r->q.attack = gen_kill(s);
  int nr = s.below(3); for (int i = 0; i < nr; i++) r->q.runs.push_back(gen_run(s));
  r->m = msg_new(); fill_msg(r->m, r->q); r->k = kill_new();
  CHECK(msg_complete(r->m) == 0, "harness/incomplete-msg", "generated request incomplete");
  w.recs.push_back(r);
  TR("%srequest q%d %s from='%s' to='%s' attack=%d runs=%zu", in_cb ? "      in-cb " : "", r->id, r->kind ? "NeverReply" : "Message", esc(r->q.from, 40).c_str(), esc(r->q.to, 40).c_str(), r->q.has_attack, r->q.runs.size());
  int rc = r->kind ? EVRPC_MAKE_REQUEST(NeverReply, w.pool, r->m, r->k, cbM, r) : EVRPC_MAKE_REQUEST(Message, w.pool, r->m, r->k, cbM, r);
  (void)rc;
}

// ---------------------------------------------------------------- hooks
// Is a request other than r still waiting in the pool's queue (made, not completed, never reached the output hook)?
bool other_queued(World &w, Rec *r) { if (!w.client_hooks) return false; for (Rec *o : w.recs) if (o != r && o->cb_calls == 0 && !o->scheduled) return true; return false; }
int hook_decide(World &w) { if (w.quiet) return EVRPC_CONTINUE; int d = w.s->below(8); return d == 6 ? EVRPC_TERMINATE : d == 7 ? EVRPC_PAUSE : EVRPC_CONTINUE; }
Rec *rec_from_buf(World &w, struct evbuffer *evbuf) {
  size_t n = evbuffer_get_length(evbuf); std::string body(n, 0); if (n) evbuffer_copyout(evbuf, &body[0], n);
  MsgV v; if (!decode_msg(body, &v)) return nullptr; int id = id_of(v.from); if (id < 0 || id >= (int)w.recs.size()) return nullptr; return w.recs[id];
}
int hook_cb(void *ctx, struct evhttp_request *req, struct evbuffer *evbuf, void *arg) {
  HookSite *hs = (HookSite *)arg; World &w = *hs->w; Rec *r = nullptr;
  if (hs->site == 0) { r = rec_from_buf(w, evbuf); CHECK(r != nullptr, "C43/hook-payload", "the pool's output hook got a buffer that is not the marshalled request");
    int id = r->id; CHECK(evrpc_hook_add_meta(ctx, "id", &id, sizeof id) == 0, "harness/add-meta", "evrpc_hook_add_meta failed");
    CHECK(evrpc_hook_get_connection(ctx) != nullptr, "C43/hook-connection", "evrpc_hook_get_connection returned NULL in the pool's output hook"); }
  else if (hs->site == 1) { void *d = nullptr; size_t dl = 0;
    CHECK(evrpc_hook_find_meta(ctx, "id", &d, &dl) == 0 && dl == sizeof(int), "C43/hook-meta-lost", "meta data added in the output hook is gone in the input hook");
    int id; memcpy(&id, d, sizeof id); CHECK(id >= 0 && id < (int)w.recs.size(), "C43/hook-meta-lost", "meta data corrupted (id %d)", id); r = w.recs[id]; }
  else if (hs->site == 2) r = rec_from_buf(w, evbuf);   // may be NULL when the relay rewrote the request
  else { EVRPC_STRUCT(Message) *rs = (EVRPC_STRUCT(Message) *)ctx; MsgV v = read_msg(rs->request); int id = id_of(v.from); if (id >= 0 && id < (int)w.recs.size()) r = w.recs[id]; }
  int d = hook_decide(w);
  if (hs->site == 0 && r) r->scheduled = true;
  if (d == EVRPC_TERMINATE && hs->site == 0 && verif_known(K_STRANDED) && other_queued(w, r)) { verif_known_skipped(K_STRANDED); d = EVRPC_CONTINUE; }
  TR("    hook site=%d q%d -> %s", hs->site, r ? r->id : -1, d == EVRPC_CONTINUE ? "CONTINUE" : d == EVRPC_TERMINATE ? "TERMINATE" : "PAUSE");
  if (d == EVRPC_PAUSE) { w.paused.push_back(Paused{hs->vbase, ctx, hs->site}); w.n_pauses++; }
  if (d == EVRPC_TERMINATE && r) { if (hs->site == 0) r->out_term = true; else if (hs->site == 1) r->in_term = true; else r->server_non200 = true; }
  if (d == EVRPC_PAUSE && r) { /* attribution of a later TERMINATE */ }
  return d;
}
Rec *rec_of_paused(World &w, const Paused &p) {   // only used to attribute resume(TERMINATE)
  if (p.site <= 1) { void *d = nullptr; size_t dl = 0; if (evrpc_hook_find_meta(p.ctx, "id", &d, &dl) == 0 && dl == sizeof(int)) { int id; memcpy(&id, d, sizeof id); if (id >= 0 && id < (int)w.recs.size()) return w.recs[id]; } return nullptr; }
  EVRPC_STRUCT(Message) *rs = (EVRPC_STRUCT(Message) *)p.ctx;
  if (p.site == 3) { MsgV v = read_msg(rs->request); int id = id_of(v.from); return id >= 0 && id < (int)w.recs.size() ? w.recs[id] : nullptr; }
  return rec_from_buf(w, evhttp_request_get_input_buffer(rs->http_req));
}
void resume_one(World &w, size_t i, int res) {
  Paused p = w.paused[i]; w.paused.erase(w.paused.begin() + i);
  Rec *r = rec_of_paused(w, p);
  if (res == EVRPC_TERMINATE && p.site == 0 && verif_known(K_STRANDED) && other_queued(w, r)) { verif_known_skipped(K_STRANDED); res = EVRPC_CONTINUE; }
  TR("resume site=%d q%d with %s", p.site, r ? r->id : -1, res == EVRPC_CONTINUE ? "CONTINUE" : "TERMINATE");
  if (res == EVRPC_TERMINATE && r) { if (p.site == 0) r->out_term = true; else if (p.site == 1) r->in_term = true; else r->server_non200 = true; }
  w.n_resumes++;
  int rc = evrpc_resume_request(p.vbase, p.ctx, (enum EVRPC_HOOK_RESULT)res);
  CHECK(rc == 0, "C43/resume-failed", "evrpc_resume_request returned %d for a paused request", rc);
}

// ---------------------------------------------------------------- server side
void finish(World &w, const Saved &sv) {
  EVRPC_STRUCT(Message) *rpc = (EVRPC_STRUCT(Message) *)sv.rpc;
  KillV v = reply_for(sv.q); fill_kill(rpc->reply, v);
  TR("    handler answers q%d %s%s", id_of(sv.q.from), show(v).c_str(), v.has_weapon ? "" : " (incomplete)");
  EVRPC_REQUEST_DONE(rpc);
}
void handler(int kind, void *vrpc) {
  World &w = *W; EVRPC_STRUCT(Message) *rpc = (EVRPC_STRUCT(Message) *)vrpc;
  w.n_handler++;
  CHECK(rpc->request != nullptr && rpc->reply != nullptr, "C43/handler-null", "handler got no request/reply object");
  CHECK(msg_complete(rpc->request) == 0, "C43/handler-malformed-request", "handler of %s got an incomplete request", kind ? "NeverReply" : "Message");
  MsgV v = read_msg(rpc->request);
  int id = id_of(v.from);
  TR("    handler %s from='%s' to='%s' (q%d)", kind ? "NeverReply" : "Message", esc(v.from, 40).c_str(), esc(v.to, 40).c_str(), id);
  bool known = false;
  if (id >= 0 && id < (int)w.recs.size() && w.recs[id]->q == v) { known = true;
    CHECK(w.recs[id]->kind == kind, "C43/handler-wrong-rpc", "request q%d was made as %s but reached the handler of %s", id, w.recs[id]->kind ? "NeverReply" : "Message", kind ? "NeverReply" : "Message");
    w.recs[id]->handler_calls++; if (!reply_for(v).has_weapon) w.recs[id]->server_non200 = true; }
  if (!known) for (auto &f : w.forwarded_valid[kind]) if (f == v) known = true;
  CHECK(known, "C43/handler-unsent-request", "handler of %s got a request nobody sent: from='%s' to='%s' attack=%d runs=%zu", kind ? "NeverReply" : "Message", esc(v.from, 40).c_str(), esc(v.to, 40).c_str(), v.has_attack, v.runs.size());
  Saved sv{vrpc, kind, v};
  bool defer = kind == 1 || (!v.to.empty() && v.to[0] == '~');
  if (defer) { w.saved.push_back(sv); w.n_deferred++; } else finish(w, sv);
}
void MessageCb(EVRPC_STRUCT(Message) *rpc, void *) { handler(0, rpc); }
void NeverReplyCb(EVRPC_STRUCT(NeverReply) *rpc, void *) { handler(1, rpc); }

// ---------------------------------------------------------------- relay
void relay_listen(World &w) {
  if (w.lfd >= 0) return;
  unlink(w.path);
  w.lfd = socket(AF_UNIX, SOCK_STREAM | SOCK_NONBLOCK | SOCK_CLOEXEC, 0); CHECK(w.lfd >= 0, "harness/socket", "socket: %s", strerror(errno));
  struct sockaddr_un a; memset(&a, 0, sizeof a); a.sun_family = AF_UNIX; strcpy(a.sun_path, w.path);
  CHECK(bind(w.lfd, (struct sockaddr *)&a, sizeof a) == 0 && listen(w.lfd, 16) == 0, "harness/bind", "bind/listen %s: %s", w.path, strerror(errno));
}
void relay_unlisten(World &w) { if (w.lfd >= 0) { close(w.lfd); w.lfd = -1; } unlink(w.path); }
void conn_kill(RConn &c) { if (c.cfd >= 0) close(c.cfd); if (c.sfd >= 0) close(c.sfd); c.cfd = c.sfd = -1; c.dead = true; }

// split one complete HTTP message (header block + Content-Length body) off the front of `in`
bool take_message(std::string &in, std::string *head, std::string *body) {
  size_t he = in.find("\r\n\r\n"); if (he == std::string::npos) return false;
  size_t cl = 0; bool has = false;
  for (size_t p = 0; p < he;) { size_t e = in.find("\r\n", p); if (e == std::string::npos || e > he) e = he;
    if (e - p > 15 && evutil_ascii_strncasecmp(in.c_str() + p, "Content-Length:", 15) == 0) { cl = (size_t)atol(in.c_str() + p + 15); has = true; }
    p = e + 2; }
  if (!has) cl = 0;
  if (in.size() < he + 4 + cl) return false;
  *head = in.substr(0, he + 4); *body = in.substr(he + 4, cl); in.erase(0, he + 4 + cl); return true;
}
std::string set_content_length(const std::string &head, size_t n) {
  std::string out; bool done = false;
  for (size_t p = 0; p + 2 <= head.size();) { size_t e = head.find("\r\n", p); if (e == std::string::npos) break; std::string line = head.substr(p, e - p);
    if (line.size() > 15 && evutil_ascii_strncasecmp(line.c_str(), "Content-Length:", 15) == 0) { line = "Content-Length: " + std::to_string(n); done = true; }
    if (line.empty()) { if (!done) out += "Content-Length: " + std::to_string(n) + "\r\n"; out += "\r\n"; break; }
    out += line + "\r\n"; p = e + 2; }
  return out;
}
std::string mutate_body(World &w, RConn &c, const std::string &body, int dir) {
  Src &s = *w.s; std::string b = body;
  switch (c.rw_kind) {
    case 0: if (!b.empty()) { size_t p = (size_t)c.rw_arg % b.size(); b[p] = (char)(b[p] ^ (1 << s.below(8))); } break;
    case 1: b.resize(b.empty() ? 0 : (size_t)c.rw_arg % b.size()); break;
    case 2: b = s.bytes(1 + s.below(40)); break;
    case 3: if (dir == 0) { MsgV v; v.from = "zz" + gen_str(s, 10); v.to = gen_str(s, 10); v.has_attack = s.flag(); if (v.has_attack) v.attack = gen_kill(s); if (s.flag()) v.runs.push_back(gen_run(s)); b = marshal_msg(v); }
            else b = marshal_kill(gen_kill(s)); break;
    case 4: b += s.bytes(1 + s.below(3)); break;
    default: b.clear(); break;
  }
  return b;
}
// returns true if anything moved
bool relay_step(World &w) {
  bool moved = false; Src &s = *w.s;
  if (w.lfd >= 0) for (;;) {
    int fd = accept4(w.lfd, nullptr, nullptr, SOCK_NONBLOCK | SOCK_CLOEXEC); if (fd < 0) break;
    moved = true; RConn c; c.cfd = fd;
    c.sfd = socket(AF_UNIX, SOCK_STREAM | SOCK_NONBLOCK | SOCK_CLOEXEC, 0);
    if (c.sfd < 0 || connect(c.sfd, (struct sockaddr *)&w.saddr, w.salen) < 0) { TR("  relay: cannot reach the server: %s", strerror(errno)); w.disruptive = true; conn_kill(c); w.conns.push_back(c); continue; }
    int f = w.quiet ? 0 : (int)s.below(12); c.fault = f >= 6 ? F_NONE : f;
    if (c.fault == F_CUT_C2S || c.fault == F_CUT_S2C) { c.cut_at = s.below(3) == 0 ? s.below(8) : s.below(400); w.n_cuts++; }
    if (c.fault == F_RW_REQ || c.fault == F_RW_RESP) { c.rw_index = s.below(2); c.rw_kind = s.below(6); c.rw_arg = s.below(256); w.rewrites = true; }
    if (c.fault != F_NONE) w.disruptive = true;
    TR("  relay: connection %zu accepted, fault=%d cut_at=%ld rw(index=%d kind=%d arg=%d)", w.conns.size(), c.fault, c.cut_at, c.rw_index, c.rw_kind, c.rw_arg);
    if (c.fault == F_CLOSE_AT_ONCE) conn_kill(c);
    w.conns.push_back(c);
  }
  for (size_t ci = 0; ci < w.conns.size(); ci++) { RConn &c = w.conns[ci]; if (c.dead) continue;
    for (int dir = 0; dir < 2 && !c.dead; dir++) {
      int from = dir == 0 ? c.cfd : c.sfd, to = dir == 0 ? c.sfd : c.cfd; bool eof = false;
      char buf[4096];
      for (;;) { ssize_t n = recv(from, buf, sizeof buf, MSG_DONTWAIT); if (n > 0) { c.in[dir].append(buf, (size_t)n); moved = true; continue; } if (n == 0 || (errno != EAGAIN && errno != EINTR)) eof = true; break; }
      // whole-message processing (needed to know which request is in flight and to rewrite bodies)
      for (;;) { std::string head, body; if (!take_message(c.in[dir], &head, &body)) break;
        int no = c.msgno[dir]++;
        bool rewrite = (dir == 0 && c.fault == F_RW_REQ && no == c.rw_index) || (dir == 1 && c.fault == F_RW_RESP && no == c.rw_index);
        if (dir == 0) { MsgV v; c.cur_id = decode_msg(body, &v) ? id_of(v.from) : -1; if (c.cur_id >= (int)w.recs.size()) c.cur_id = -1; }
        if (dir == 1) c.cur_non200 = head.compare(0, 12, "HTTP/1.1 200") != 0;
        if (rewrite) { std::string nb = mutate_body(w, c, body, dir);
          TR("  relay: conn %zu rewrites %s #%d (q%d): %zu -> %zu bytes", ci, dir ? "response" : "request", no, c.cur_id, body.size(), nb.size());
          if (dir == 0 && zero_len_struct(nb)) TR("  relay: this body has a zero-length struct element");   // K_ZERO_STRUCT (fixed): UBSan reports a regression
          if (dir == 0 && gen_leak_possible(nb)) { w.gen_leak_forwarded = true; TR("  relay: this body fails inside a run element"); }   // K_GEN_LEAK (fixed): checked at the end
          if (dir == 0) { Rec *r = c.cur_id >= 0 ? w.recs[c.cur_id] : nullptr; MsgV v; bool ok = decode_msg(nb, &v);
            int kind = head.find("/.rpc.NeverReply") != std::string::npos ? 1 : 0;
            if (ok) w.forwarded_valid[kind].push_back(v);
            if (r && !(ok && v == r->q)) { r->has_override = true; r->override_ok = false; r->override_of_non200 = true; }   // whatever comes back is not the reply to what the client asked: no claim
          } else if (c.cur_id >= 0) { Rec *r = w.recs[c.cur_id]; r->has_override = true; r->override_ok = decode_kill(nb, &r->override_v); r->override_of_non200 = c.cur_non200 || r->override_of_non200; }
          head = set_content_length(head, nb.size()); body = nb; }
        c.out[dir] += head + body; }
      if (c.in[dir].find("\r\n\r\n") == std::string::npos && c.in[dir].size() > 8192) { c.out[dir] += c.in[dir]; c.in[dir].clear(); }   // not HTTP-like: pass through
      if (c.fault == F_STALL) { c.out[dir].clear(); if (eof) conn_kill(c); continue; }
      while (!c.out[dir].empty()) {
        size_t n = c.out[dir].size(); bool cut = false;
        if ((dir == 0 && c.fault == F_CUT_C2S) || (dir == 1 && c.fault == F_CUT_S2C)) { long left = c.cut_at - c.fwd[dir]; if ((long)n >= left) { n = left > 0 ? (size_t)left : 0; cut = true; } }
        ssize_t k = n ? send(to, c.out[dir].data(), n, MSG_NOSIGNAL | MSG_DONTWAIT) : 0;
        if (k < 0) { if (errno == EAGAIN) break; conn_kill(c); break; }
        c.out[dir].erase(0, (size_t)k); c.fwd[dir] += k; if (k) moved = true;
        if (cut && (size_t)k == n) { TR("  relay: conn %zu cut after %ld bytes %s", ci, c.fwd[dir], dir ? "server->client" : "client->server"); conn_kill(c); moved = true; break; }
      }
      if (!c.dead && eof && c.out[dir].empty()) {   // propagate the close
        TR("  relay: conn %zu %s closed", ci, dir ? "server" : "client"); conn_kill(c); moved = true; }
    }
  }
  return moved;
}

int64_t wait_hook(const struct sim_wait_info *wi, void *) {
  World &w = *W; w.last_nready = wi->nready;
  if (wi->nready == 0 && wi->timeout_us < 0) { event_base_loopbreak(w.base); return 0; }
  return wi->nready > 0 ? 20 : 0;
}
void pump(World &w) {
  for (int i = 0; i < 400; i++) {
    w.last_nready = 0;
    int r = event_base_loop(w.base, EVLOOP_NONBLOCK); CHECK(r >= 0, "harness/loop-error", "event_base_loop=%d", r);
    bool moved = relay_step(w);
    if (!moved && w.last_nready == 0 && event_base_get_num_events(w.base, EVENT_BASE_COUNT_ACTIVE) == 0) return;
  }
  VERIF_FAIL("harness/pump-spin", "world not quiescent after 400 passes");
}
void fatal_cb(int err) { VERIF_FAIL("C43/fatal", "libevent called the fatal callback (event_err/event_errx), code %d", err); }
}  // namespace

extern "C" int LLVMFuzzerInitialize(int *, char ***) {
  signal(SIGPIPE, SIG_IGN);
  event_set_log_callback([](int, const char *) {});
  event_set_fatal_callback(fatal_cb);
  struct event_base *b = event_base_new(); char x[8]; evutil_secure_rng_get_bytes(x, sizeof x); event_base_free(b);
  return 0;
}

extern "C" int LLVMFuzzerTestOneInput(const uint8_t *data, size_t size) {
  sim_reset();
  verif_case_begin("C43");
  Src s(data, size);
  World w; W = &w; w.s = &s;
  int fds0 = count_fds();
  sim_clock_enable(SIM_START_US);
  sim_set_wait_hook(wait_hook, nullptr);
  // evhttp connections that are "newly created" for a pool have no base of their own, which only works with the legacy
  // current base: event_init() (backend chosen through the documented EVENT_NO* environment switches)
  int backend = s.below(3);
  unsetenv("EVENT_NOEPOLL"); unsetenv("EVENT_NOPOLL");
  if (backend >= 1) setenv("EVENT_NOEPOLL", "1", 1); if (backend == 2) setenv("EVENT_NOPOLL", "1", 1);
  w.base = event_init();
  if (!w.base) { verif_case_end(0, s.h); W = nullptr; return 0; }
  // server
  w.http = evhttp_new(w.base);
  memset(&w.saddr, 0, sizeof w.saddr); w.saddr.sun_family = AF_UNIX; int nl = snprintf(w.saddr.sun_path + 1, sizeof w.saddr.sun_path - 1, "verif-c43-%d", (int)getpid());
  w.salen = (socklen_t)(offsetof(struct sockaddr_un, sun_path) + 1 + nl);
  struct evconnlistener *lev = evconnlistener_new_bind(w.base, nullptr, nullptr, LEV_OPT_CLOSE_ON_FREE | LEV_OPT_CLOSE_ON_EXEC, -1, (struct sockaddr *)&w.saddr, (int)w.salen);
  CHECK(lev != nullptr, "harness/listener", "evconnlistener_new_bind: %s", strerror(errno));
  CHECK(evhttp_bind_listener(w.http, lev) != nullptr, "harness/bind-listener", "evhttp_bind_listener failed");
  w.rbase = evrpc_init(w.http);
  EVRPC_REGISTER(w.rbase, Message, msg, kill, MessageCb, nullptr);
  EVRPC_REGISTER(w.rbase, NeverReply, msg, kill, NeverReplyCb, nullptr);
  // relay + client
  snprintf(w.path, sizeof w.path, "/tmp/verif-c43-%d.sock", (int)getpid());
  relay_listen(w);
  w.pool = evrpc_pool_new(s.flag() ? nullptr : w.base);   // NULL = "single-threaded application": the current base
  w.nevcon = 1 + s.below(2);
  for (int i = 0; i < w.nevcon; i++) { w.evcon[i] = evhttp_connection_base_bufferevent_unix_new(nullptr, nullptr, w.path);   /* "newly created": the pool associates its base */ CHECK(w.evcon[i] != nullptr, "harness/evcon", "evhttp_connection_base_bufferevent_unix_new failed"); evrpc_pool_add_connection(w.pool, w.evcon[i]); }
  { int t = s.below(4); w.pool_timeout = t == 0 ? -1 : t == 1 ? 1 : t == 2 ? 3 : 30; if (w.pool_timeout > 0) evrpc_pool_set_timeout(w.pool, w.pool_timeout); }
  int hk = s.below(4); w.client_hooks = hk & 1; w.server_hooks = hk & 2;
  for (int i = 0; i < 4; i++) w.sites[i] = HookSite{&w, i, i < 2 ? (void *)w.pool : (void *)w.rbase};
  if (w.client_hooks) { CHECK(evrpc_add_hook(w.pool, EVRPC_OUTPUT, hook_cb, &w.sites[0]) && evrpc_add_hook(w.pool, EVRPC_INPUT, hook_cb, &w.sites[1]), "harness/add-hook", "evrpc_add_hook failed"); }
  if (w.server_hooks) { CHECK(evrpc_add_hook(w.rbase, EVRPC_INPUT, hook_cb, &w.sites[2]) && evrpc_add_hook(w.rbase, EVRPC_OUTPUT, hook_cb, &w.sites[3]), "harness/add-hook", "evrpc_add_hook failed"); }
  TR("world backend=%s connections=%d pool_timeout=%d client_hooks=%d server_hooks=%d", event_base_get_method(w.base), w.nevcon, w.pool_timeout, w.client_hooks, w.server_hooks);

  for (int step = 0; step < 40; step++) {
    int op = s.below(12);
    if (op == 0) break;
    switch (op) {
      case 1: case 2: case 3: make_request(w, false); break;
      case 4: case 5: TR("pump"); pump(w); break;
      case 6: { static const int64_t DT[] = {200000, 999999, 1000000, 2000000, 3000001, 31000000, 60000000}; int64_t dt = DT[s.below(7)]; TR("advance %lld us", (long long)dt); w.disruptive = true; sim_advance_us(dt); pump(w); break; }
      case 7: if (!w.paused.empty()) { size_t i = s.below((uint32_t)w.paused.size()); int res = s.below(4) == 3 ? EVRPC_TERMINATE : EVRPC_CONTINUE; resume_one(w, i, res); } break;
      case 8: if (!w.saved.empty()) { size_t i = s.below((uint32_t)w.saved.size()); Saved sv = w.saved[i]; w.saved.erase(w.saved.begin() + i); TR("late answer"); finish(w, sv); } break;
      case 9: if (w.lfd >= 0) { TR("relay down"); relay_unlisten(w); w.disruptive = true; } else { TR("relay up"); relay_listen(w); } break;
      case 10: { int live = 0; for (auto &c : w.conns) if (!c.dead) live++; if (live) { int k = s.below(live); for (auto &c : w.conns) if (!c.dead && k-- == 0) { TR("relay kills a connection"); conn_kill(c); w.disruptive = true; w.n_cuts++; break; } } break; }
      case 11: { int t = s.below(3); int v = t == 0 ? 1 : t == 1 ? 2 : 30; TR("pool timeout %d", v); evrpc_pool_set_timeout(w.pool, v); w.pool_timeout = v; break; }
    }
  }
  // ---- drive everything to completion
  TR("--- completion phase");
  w.quiet = true;
  pump(w);
  for (int round = 0; round < 64 && (!w.paused.empty() || !w.saved.empty()); round++) {
    while (!w.paused.empty()) resume_one(w, 0, EVRPC_CONTINUE);
    while (!w.saved.empty()) { Saved sv = w.saved[0]; w.saved.erase(w.saved.begin()); finish(w, sv); }
    pump(w);
  }
  bool pending = false; for (Rec *r : w.recs) if (r->cb_calls == 0) pending = true;
  if (pending) {   // whatever is still outstanding is stalled / lost on the wire: only a failure can complete it
    int in_flight = 0; for (Rec *r : w.recs) if (r->scheduled && r->cb_calls == 0) in_flight++;   // each occupies a connection (nothing is paused any more)
    if (w.client_hooks && w.n_unstarted && in_flight < w.nevcon) for (Rec *r : w.recs) CHECK(r->cb_calls != 0 || r->scheduled, K_STRANDED, "request q%d is still in the pool's queue although its connection is idle: the request scheduled before it was terminated by the output hook (UNSTARTED) and nothing schedules the next one", r->id);
    CHECK(w.disruptive, "C43/never-completed", "a request is still outstanding after the world went quiescent although nothing disrupted the connection");
    TR("--- kill the relay, advance the clock");
    relay_unlisten(w); for (auto &c : w.conns) if (!c.dead) conn_kill(c);
    pump(w);
    for (int k = 0; k < 6; k++) { sim_advance_us(61000000); pump(w);
      while (!w.paused.empty()) resume_one(w, 0, EVRPC_CONTINUE);
      while (!w.saved.empty()) { Saved sv = w.saved[0]; w.saved.erase(w.saved.begin()); finish(w, sv); }
      pump(w); }
  }
  if (w.client_hooks && w.n_unstarted) for (Rec *r : w.recs) CHECK(r->cb_calls != 0 || r->scheduled, K_STRANDED, "request q%d never left the pool's queue: the request scheduled before it was terminated by the output hook (UNSTARTED) and nothing schedules the next one", r->id);
  for (Rec *r : w.recs) CHECK(r->cb_calls == 1, "C43/never-completed", "request q%d (%s): completion callback ran %d times by the time every connection was dead and 6 minutes had passed", r->id, r->kind ? "NeverReply" : "Message", r->cb_calls);
  // ---- teardown
  evrpc_pool_free(w.pool);
  CHECK(EVRPC_UNREGISTER(w.rbase, Message) == 0 && EVRPC_UNREGISTER(w.rbase, NeverReply) == 0, "C43/unregister", "EVRPC_UNREGISTER failed");
  evrpc_free(w.rbase);
  evhttp_free(w.http);
  relay_unlisten(w); for (auto &c : w.conns) if (!c.dead) conn_kill(c);
  event_base_free(w.base);
  int fds1 = count_fds();
  CHECK(fds1 == fds0, "C43/fd-leak", "open fds before the case %d, after %d", fds0, fds1);

  if (w.n_unstarted)   // ledger clause for the one path that completes a request without ever handing its evhttp_request to a connection
    CHECK(__lsan_do_recoverable_leak_check() == 0, K_UNSTARTED_LEAK, "%d request(s) completed with status UNSTARTED (output hook terminated them); LeakSanitizer finds unreachable library allocations afterwards (the evhttp_request built for them)", w.n_unstarted);
  if (w.gen_leak_forwarded)
    CHECK(__lsan_do_recoverable_leak_check() == 0, K_GEN_LEAK, "a request body whose run[] element is malformed was delivered to the server; LeakSanitizer finds unreachable allocations afterwards (msg_unmarshal generated by event_rpcgen.py drops the element it allocated)");
  bool faulted = w.n_timeout || w.n_badpayload || w.n_unstarted || w.n_hookabort || w.n_override_ok;
  int nontrivial = w.n_ok >= 1 && (faulted || w.n_resumes || w.n_deferred || w.recs.size() >= 3 || w.n_incb_req);
  if (w.n_ok) verif_class("ok"); if (w.n_timeout) verif_class("status_timeout"); if (w.n_badpayload) verif_class("status_badpayload"); if (w.n_unstarted) verif_class("status_unstarted");
  if (w.n_hookabort) verif_class("status_hookaborted"); if (w.n_pauses) verif_class("paused"); if (w.n_resumes) verif_class("resumed"); if (w.n_deferred) verif_class("deferred_reply");
  if (w.n_cuts) verif_class("cut"); if (w.rewrites) verif_class("rewrite"); if (w.n_override_ok) verif_class("rewritten_reply_accepted"); if (w.n_incb_req) verif_class("request_in_callback");
  if (w.recs.size() > (size_t)w.nevcon) verif_class("queued_on_pool"); if (!w.disruptive && w.n_ok) verif_class("clean");
  for (Rec *r : w.recs) { msg_free(r->m); kill_free(r->k); delete r; }
  verif_case_end(nontrivial, s.h);
  W = nullptr;
  return 0;
}
