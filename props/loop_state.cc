// C02 — event API state machine vs a reference model of the documented event states.
// One base under the harness-owned virtual clock, <= 6 event slots: pure timers, read / write ends of two pipes, signals
// SIGUSR1 / SIGUSR2; persistent or one-shot; 1..3 priorities; created with event_new or event_assign on harness storage.
// Ops (top level and from inside callbacks): event_add (with / without timeout), event_del, event_active(res, ncalls),
// event_remove_timer, event_priority_set, event_free, event_assign (re-initialise a non-pending slot), write to / drain a
// pipe, raise(signal), turn (EVLOOP_ONCE or ONCE|NONBLOCK).
// Oracle: reference model (struct Slot / Model): initialised; inserted (I/O or signal interest registered); timeout armed
// with absolute deadline; active with result flags.  After EVERY op and every callback: event_pending for every flag (and the
// reported expiry), event_initialized, event_base_get_num_events for the 7 flag combinations, event_base_get_max_events
// (with and without clear), return values, event_base_assert_ok_.  Every callback must be for a slot the model holds
// active with exactly the model's result flags; a signal event's callback repeats ncalls times unless deleted; when an
// unbroken loop returns nothing may be left active in the model.
// Preconditions respected: no API call on a freed event; event_assign only on a slot that is neither pending nor active;
// events deleted before their fds are closed; raise() only while an event for that signal is added; the clock moves only
// inside backend waits, so the time cache equals the clock.
#include "verif.h"
#include "sim.h"
#include <event2/event.h>
#include <event2/event_struct.h>
#include <fcntl.h>
#include <signal.h>
#include <unistd.h>
#include <algorithm>
#include <vector>
extern "C" {
#include "event-internal.h"
}

namespace {
const int MAXS = 6;
enum Kind { K_TIMER, K_READ, K_WRITE, K_SIGNAL };
const int SIGS[2] = {SIGUSR1, SIGUSR2};
// finding: event_remove_timer() clears ev_io_timeout, which for a signal event is the same storage as ev_ncalls/ev_pncalls
const char *KEY_WIPE = "C02/remove-timer-wipes-signal-ncalls";
// finding: event_del() from inside a signal event's ncalls loop stops the loop through ev_pncalls but leaves ev_pncalls pointing at the
// dead stack slot of event_signal_closure (and ev_ncalls != 0), so the next event_del/event_free of that event writes 0 through it
const char *KEY_DANGLE = "C02/signal-del-leaves-dangling-pncalls";
struct Slot {
  struct event *ev = nullptr; bool heap = false; Kind kind = K_TIMER; int pipe = 0, sig = 0; bool persist = false; int pri = 0;
  bool inserted = false, timed = false, active = false; int64_t deadline = 0, interval = 0; short res = 0; int ncalls = 0;
  short events() const { short e = persist ? EV_PERSIST : 0; if (kind == K_READ) e |= EV_READ; if (kind == K_WRITE) e |= EV_WRITE; if (kind == K_SIGNAL) e |= EV_SIGNAL; return e; }
  bool io() const { return kind == K_READ || kind == K_WRITE; }
};
struct World {
  Src *s; struct event_base *base; Slot sl[MAXS]; struct event store[MAXS]; bool store_init[MAXS]; int npri = 1;
  int pfd[2][2]; int pbytes[2] = {0, 0};
  int raised[2] = {0, 0}; bool noticed = false; int internal_active = 0;
  int cnt = 0, cnt_max = 0, cnt_max_hi = 0, act = 0, act_max = 0;   // cnt_max..cnt_max_hi: see the timeout tie rule in wait_hook;   // model of event_count / event_count_active and their maxima
  int sigloop_slot = -1, sigloop_left = 0; short sigloop_res = 0;
  bool in_loop = false, broke = false; int waits_this_turn = 0, budget = 40;
  int running = -1; bool wiped = false, narrowed = false, narrowed2 = false;
  // statistics
  int n_cb = 0; bool f_readd_active = false, f_remove_timer = false, f_prio = false, f_in_cb = false, f_signal = false, f_free_pending = false, f_io = false, f_timeout_cb = false, f_persist_rearm = false, f_assign = false, f_merge = false;
};
World *W;

// ---- model primitives (same order of counter updates as the queues they stand for)
void c_inc() { W->cnt++; if (W->cnt > W->cnt_max) W->cnt_max = W->cnt; if (W->cnt > W->cnt_max_hi) W->cnt_max_hi = W->cnt; }
void a_inc() { W->act++; if (W->act > W->act_max) W->act_max = W->act; }
void ins_inserted(Slot &m) { m.inserted = true; c_inc(); }
void ins_timeout(Slot &m, int64_t dl) { m.timed = true; m.deadline = dl; c_inc(); }
void ins_active(Slot &m, short res) { m.active = true; m.res = res; c_inc(); a_inc(); }
void rem_inserted(Slot &m) { if (m.inserted) { m.inserted = false; W->cnt--; } }
void rem_timeout(Slot &m) { if (m.timed) { m.timed = false; W->cnt--; } }
void rem_active(Slot &m) { if (m.active) { m.active = false; W->cnt--; W->act--; } }

void m_del(int i) { Slot &m = W->sl[i]; if (m.kind == K_SIGNAL && W->sigloop_slot == i) W->sigloop_left = 0; rem_timeout(m); rem_active(m); rem_inserted(m); }
// event_add(ev, tv): tv_us < 0 means NULL; absolute = re-arm of a persistent event by the loop
void m_add(int i, int64_t tv_us, bool absolute) {
  Slot &m = W->sl[i];
  if (m.kind != K_TIMER && !m.inserted && !m.active) ins_inserted(m);
  if (tv_us < 0) return;
  if (m.persist && m.kind != K_SIGNAL && !absolute) m.interval = tv_us;
  rem_timeout(m);
  if (m.active && (m.res & EV_TIMEOUT)) { if (m.kind == K_SIGNAL && W->sigloop_slot == i) W->sigloop_left = 0; rem_active(m); W->f_readd_active = true; }
  ins_timeout(m, absolute ? tv_us : sim_now_us() + tv_us);
}
void m_active(int i, short res, int ncalls) {
  Slot &m = W->sl[i];
  if (m.active) { if ((m.res | res) != m.res) W->f_merge = true; m.res |= res; return; }
  ins_active(m, res); if (m.kind == K_SIGNAL) m.ncalls = ncalls;
}
void m_remove_timer(int i) { Slot &m = W->sl[i]; if (m.timed) { rem_timeout(m); m.interval = 0; W->f_remove_timer = true; } }

// signals that the loop has read from its internal socketpair are delivered to the events added at that moment
void sync_signals() {
  if (!W->noticed) return;
  if (W->base->sig.ev_signal.ev_flags & EVLIST_ACTIVE) return;   // the internal reader has not run yet (library state consulted)
  W->noticed = false; W->internal_active = 0; W->act--;
  for (int k = 0; k < 2; k++) if (W->raised[k]) {
    // evmap order (most recently added first) does not matter for this oracle
    for (int i = 0; i < MAXS; i++) { Slot &m = W->sl[i]; if (m.ev && m.kind == K_SIGNAL && m.sig == k && m.inserted) { m_active(i, EV_SIGNAL, W->raised[k]); W->f_signal = true; } }
    W->raised[k] = 0;
  }
}

// outside its own ncalls loop no signal event may keep a pointer into event_signal_closure's frame (observed in the public struct)
void check_dangling(int in_loop_slot, const char *when) {
  for (int i = 0; i < MAXS; i++) { Slot &m = W->sl[i]; if (!m.ev || m.kind != K_SIGNAL || i == in_loop_slot) continue;
    CHECK(!(m.ev->ev_ncalls && m.ev->ev_pncalls), KEY_DANGLE, "%s: signal slot %d is not inside its callback loop but still has ev_ncalls=%d and ev_pncalls=%p (a later event_del/event_free writes through it)", when, i, m.ev->ev_ncalls, (void *)(m.ev->ev_pncalls ? (void *)1 : nullptr)); }
}

// a lost activation / stale pending state that follows an event_remove_timer() on an active signal event is reported under its own root-cause key
const char *lost_key(const char *generic) { return W->wiped ? KEY_WIPE : generic; }

void check_slot(int i, const char *when) {
  Slot &m = W->sl[i]; if (!m.ev) return;
  CHECK(event_initialized(m.ev) == 1, "C02/initialized", "%s: event_initialized(slot %d)=0", when, i);
  short expect = 0;
  if (m.inserted) expect |= m.events() & (EV_READ | EV_WRITE | EV_CLOSED | EV_SIGNAL);
  if (m.active) expect |= m.res;
  if (m.timed) expect |= EV_TIMEOUT;
  expect &= (EV_TIMEOUT | EV_READ | EV_WRITE | EV_CLOSED | EV_SIGNAL);
  struct timeval tv = {-1, -1};
  int got = event_pending(m.ev, EV_TIMEOUT | EV_READ | EV_WRITE | EV_CLOSED | EV_SIGNAL, &tv);
  CHECK(got == expect, lost_key("C02/pending-mismatch"), "%s: slot %d event_pending=0x%x model=0x%x (inserted=%d timed=%d active=%d res=0x%x)", when, i, got, expect, m.inserted, m.timed, m.active, m.res);
  // each flag asked on its own must agree too
  static const short ONE[] = {EV_TIMEOUT, EV_READ, EV_WRITE, EV_SIGNAL};
  for (short f : ONE) { int g = event_pending(m.ev, f, nullptr); CHECK(g == (expect & f), "C02/pending-mismatch", "%s: slot %d event_pending(0x%x)=0x%x model=0x%x", when, i, f, g, expect & f); }
  if (m.timed) {   // documented: tv receives the expiry time (wall clock)
    int64_t gotus = (int64_t)tv.tv_sec * 1000000 + tv.tv_usec;
    CHECK(gotus == m.deadline + SIM_WALL_OFFSET_US, "C02/expiry-mismatch", "%s: slot %d reported expiry %lld model deadline %lld", when, i, (long long)(gotus - SIM_WALL_OFFSET_US), (long long)m.deadline);
  } else if (!(expect & EV_TIMEOUT))   // (an event that is merely active with an EV_TIMEOUT result gets a stale value written: not asserted)
    CHECK(tv.tv_sec == -1 && tv.tv_usec == -1, "C02/expiry-written", "%s: slot %d has no timeout pending but event_pending wrote *tv", when, i);
}
void check_counts(const char *when) {
  int a = W->act, c = W->cnt;
  for (unsigned f = 1; f < 8; f++) {
    int expect = ((f & EVENT_BASE_COUNT_ACTIVE) ? a : 0) + ((f & EVENT_BASE_COUNT_ADDED) ? c : 0);
    int got = event_base_get_num_events(W->base, f);
    CHECK(got == expect, "C02/num-events", "%s: event_base_get_num_events(0x%x)=%d model=%d (active=%d added=%d)", when, f, got, expect, a, c);
  }
}
void check_max(unsigned f, int clear, const char *when) {
  int la = event_base_get_max_events(W->base, EVENT_BASE_COUNT_ACTIVE, 0), lc = event_base_get_max_events(W->base, EVENT_BASE_COUNT_ADDED, 0);
  CHECK(la == W->act_max, "C02/max-events", "%s: event_base_get_max_events(ACTIVE)=%d model=%d", when, la, W->act_max);
  CHECK(lc >= W->cnt_max && lc <= W->cnt_max_hi, "C02/max-events", "%s: event_base_get_max_events(ADDED)=%d model=%d..%d", when, lc, W->cnt_max, W->cnt_max_hi);
  CHECK(event_base_get_max_events(W->base, EVENT_BASE_COUNT_VIRTUAL, 0) == 0, "C02/max-events", "%s: virtual maximum not 0", when);
  W->cnt_max = W->cnt_max_hi = lc;   // an order-dependent maximum (tied deadlines) is resolved by looking at the library
  int expect = ((f & EVENT_BASE_COUNT_ACTIVE) ? W->act_max : 0) + ((f & EVENT_BASE_COUNT_ADDED) ? W->cnt_max : 0);
  int got = event_base_get_max_events(W->base, f, clear);
  TR("max_events(0x%x, clear=%d) -> %d", f, clear, got);
  CHECK(got == expect, "C02/max-events", "%s: event_base_get_max_events(0x%x, clear=%d)=%d model=%d (active_max=%d added_max=%d)", when, f, clear, got, expect, W->act_max, W->cnt_max);
  if (clear) { if (f & EVENT_BASE_COUNT_ACTIVE) W->act_max = 0; if (f & EVENT_BASE_COUNT_ADDED) W->cnt_max = W->cnt_max_hi = 0; }
  // cleared maxima restart from 0 (not from the current count): the next insertion re-establishes them
  int after = event_base_get_max_events(W->base, f, 0);
  int expect_after = ((f & EVENT_BASE_COUNT_ACTIVE) ? W->act_max : 0) + ((f & EVENT_BASE_COUNT_ADDED) ? W->cnt_max : 0);
  CHECK(after == expect_after, "C02/max-events", "%s: after the query event_base_get_max_events(0x%x)=%d model=%d", when, f, after, expect_after);
}
void check_all(const char *when) {
  for (int i = 0; i < MAXS; i++) check_slot(i, when);
  for (int i = 0; i < MAXS; i++) if (!W->sl[i].ev && !W->sl[i].heap) CHECK(event_initialized(&W->store[i]) == (W->store_init[i] ? 1 : 0), "C02/initialized", "%s: event_initialized(storage %d) wrong", when, i);
  check_counts(when);
  event_base_assert_ok_(W->base);
}

void cb(evutil_socket_t, short, void *);
const int64_t DURS[] = {0, 1, 1000, 1500, 1000000, 60000000};

void setup_slot(int i, bool assign_mode, const char *ctx) {
  Src &s = *W->s; Slot &m = W->sl[i];
  Slot n; n.kind = (Kind)s.below(4); n.persist = s.flag(); n.pipe = s.below(2); n.sig = s.below(2); n.heap = !assign_mode;
  int fd = n.kind == K_TIMER ? -1 : n.kind == K_READ ? W->pfd[n.pipe][0] : n.kind == K_WRITE ? W->pfd[n.pipe][1] : SIGS[n.sig];
  if (assign_mode) { int r = event_assign(&W->store[i], W->base, fd, n.events(), cb, (void *)(intptr_t)i); CHECK(r == 0, "C02/assign-failed", "event_assign=%d", r); n.ev = &W->store[i]; W->store_init[i] = true; W->f_assign = true; }
  else { n.ev = event_new(W->base, fd, n.events(), cb, (void *)(intptr_t)i); CHECK(n.ev != nullptr, "C02/new-failed", "event_new returned NULL"); }
  n.pri = W->npri / 2;   // documented default: middle priority
  m = n;
  TR("%s%s slot %d kind=%s persist=%d fd=%d", ctx, assign_mode ? "assign" : "new", i, n.kind == K_TIMER ? "timer" : n.kind == K_READ ? "read" : n.kind == K_WRITE ? "write" : "signal", n.persist, fd);
}

void do_op(int op, const char *ctx) {
  Src &s = *W->s; int i = s.below(MAXS); Slot &m = W->sl[i];
  bool looping_self = W->sigloop_left > 0 && W->sigloop_slot == i;   // inside a signal event's repeat loop only deletes are generated
  switch (op) {
    case 1: if (!m.ev) setup_slot(i, s.flag(), ctx); break;
    case 2: case 3: if (m.ev && !looping_self) {
        int64_t d = op == 2 ? -1 : DURS[s.below(sizeof DURS / sizeof DURS[0])];
        struct timeval tv; tv.tv_sec = d / 1000000; tv.tv_usec = d % 1000000;
        int r = event_add(m.ev, d < 0 ? nullptr : &tv); TR("%sadd slot %d tv=%lld -> %d", ctx, i, (long long)d, r);
        CHECK(r == 0, "C02/add-failed", "event_add=%d", r); m_add(i, d, false); } break;
    case 4: if (m.ev) {
        if (looping_self && verif_known(KEY_DANGLE)) { if (!W->narrowed2) { W->narrowed2 = true; verif_known_skipped(KEY_DANGLE); } TR("%s(del of signal slot %d inside its ncalls loop skipped: known finding)", ctx, i); break; }
        int r = event_del(m.ev); TR("%sdel slot %d -> %d", ctx, i, r); CHECK(r == 0, "C02/del-failed", "event_del=%d", r); m_del(i); } break;
    case 5: if (m.ev && !looping_self) {
        static const short RES[] = {EV_READ, EV_WRITE, EV_TIMEOUT, EV_READ | EV_WRITE, EV_SIGNAL};
        short res = RES[s.below(5)]; int nc = 1 + s.below(3);
        TR("%sactive slot %d res=0x%x ncalls=%d", ctx, i, res, nc); event_active(m.ev, res, (short)nc); m_active(i, res, nc); } break;
    case 6: if (m.ev && !looping_self) {
        if (m.kind == K_SIGNAL && m.timed && m.active) {
          if (verif_known(KEY_WIPE)) { if (!W->narrowed) { W->narrowed = true; verif_known_skipped(KEY_WIPE); } TR("%s(remove_timer on active signal slot %d skipped: known finding)", ctx, i); break; }
          W->wiped = true;
        }
        int r = event_remove_timer(m.ev); TR("%sremove_timer slot %d -> %d", ctx, i, r); CHECK(r == 0, "C02/remove-timer-failed", "r=%d", r); m_remove_timer(i); } break;
    case 7: if (m.ev) { int p = (int)s.below(W->npri + 1); int expect = (m.active || p >= W->npri) ? -1 : 0; int r = event_priority_set(m.ev, p); TR("%spriority_set slot %d %d -> %d", ctx, i, p, r);
        CHECK(r == expect, "C02/priority-set", "event_priority_set(%d) with %d priorities on %s event returned %d", p, W->npri, m.active ? "an active" : "a non-active", r); if (r == 0) { m.pri = p; W->f_prio = true; } } break;
    case 8: if (m.ev && !(looping_self)) {
        if (m.inserted || m.timed || m.active) W->f_free_pending = true;
        TR("%sfree slot %d%s", ctx, i, i == W->running ? " (running)" : "");
        m_del(i);
        if (m.heap) event_free(m.ev); else { int r = event_del(m.ev); CHECK(r == 0, "C02/del-failed", "event_del=%d", r); }
        m.ev = nullptr; } break;
    case 9: { int p = s.below(2); if (W->pbytes[p] < 6) { char c = 'x'; if (write(W->pfd[p][1], &c, 1) == 1) W->pbytes[p]++; TR("%swrite pipe %d (%d bytes)", ctx, p, W->pbytes[p]); } break; }
    case 10: { int p = s.below(2); char buf[16]; ssize_t n = read(W->pfd[p][0], buf, sizeof buf); if (n > 0) W->pbytes[p] -= (int)n; TR("%sdrain pipe %d", ctx, p); break; }
    case 11: { int k = s.below(2); bool ok = false; for (auto &x : W->sl) if (x.ev && x.kind == K_SIGNAL && x.sig == k && x.inserted) ok = true;
        if (ok && W->raised[k] < 3) { TR("%sraise %s", ctx, k ? "SIGUSR2" : "SIGUSR1"); raise(SIGS[k]); W->raised[k]++; } break; }
    default: break;
  }
}

void cb(evutil_socket_t fd, short what, void *arg) {
  int i = (int)(intptr_t)arg; Src &s = *W->s;
  CHECK(W->in_loop, "C02/callback-outside-loop", "callback for slot %d outside event_base_loop", i);
  sync_signals();
  Slot &m = W->sl[i];
  TR("  cb slot %d what=0x%x now=%lld", i, what, (long long)sim_now_us());
  check_dangling(i, "callback entry");   // (the running event itself may legitimately be inside its ncalls loop)
  CHECK(m.ev != nullptr, "C02/callback-after-free", "callback for freed slot %d", i);
  if (W->sigloop_left > 0) {   // a signal event's callback repeats ncalls times back to back
    CHECK(i == W->sigloop_slot && what == W->sigloop_res, "C02/signal-ncalls", "expected repeat %d of signal slot %d, got slot %d what=0x%x", W->sigloop_left, W->sigloop_slot, i, what);
    W->sigloop_left--;
  } else {
    CHECK(m.active, "C02/spurious-callback", "slot %d ran (what=0x%x) but the model does not hold it active (inserted=%d timed=%d)", i, what, m.inserted, m.timed);
    CHECK(what == m.res, "C02/callback-flags", "slot %d ran with what=0x%x, model result flags 0x%x", i, what, m.res);
    int fdexp = m.kind == K_TIMER ? -1 : m.kind == K_READ ? W->pfd[m.pipe][0] : m.kind == K_WRITE ? W->pfd[m.pipe][1] : SIGS[m.sig];
    CHECK(fd == fdexp, "C02/callback-fd", "slot %d callback fd=%d expected %d", i, (int)fd, fdexp);
    short res = m.res; int64_t prev_deadline = m.deadline;
    if (m.persist) rem_active(m); else m_del(i);
    if (m.kind == K_SIGNAL) { W->sigloop_slot = i; W->sigloop_left = m.ncalls - 1; W->sigloop_res = res; if (m.ncalls < 1) W->sigloop_left = 0; }
    else if (m.persist && m.interval > 0) {
      int64_t now = sim_now_us(); int64_t run_at = ((res & EV_TIMEOUT) ? prev_deadline : now) + m.interval; if (run_at < now) run_at = now + m.interval;
      m_add(i, run_at, true); W->f_persist_rearm = true;
    }
    if (what & EV_TIMEOUT) W->f_timeout_cb = true; if (what & (EV_READ | EV_WRITE)) W->f_io = true;
  }
  W->n_cb++;
  check_slot(i, "in callback");
  if (W->budget > 0) { W->budget--; int op = s.below(14); if (op >= 1 && op <= 11) { int prev = W->running; W->running = i; W->f_in_cb = true; do_op(op, "    in-cb "); W->running = prev; } }
  check_all("after callback");
}

int64_t wait_hook(const struct sim_wait_info *wi, void *) {
  Src &s = *W->s;
  CHECK(W->in_loop, "C02/wait-outside-loop", "backend wait outside event_base_loop");
  sync_signals();
  CHECK(W->sigloop_left == 0, "C02/signal-ncalls", "signal slot %d still owes %d callback repeats when the loop went back to wait", W->sigloop_slot, W->sigloop_left);
  check_dangling(-1, "backend wait");
  int64_t req = wi->timeout_us;
  W->waits_this_turn++;
  int64_t adv = 0;
  bool io_ready = wi->nready > 0;
  if (W->waits_this_turn > 12 || (req < 0 && !io_ready)) { TR("  wait#%llu req=%lld nready=%d -> loopbreak", (unsigned long long)wi->ordinal, (long long)req, wi->nready); event_base_loopbreak(W->base); W->broke = true; }
  else if (req > 0) { switch (s.below(4)) { case 1: adv = req / 2; break; case 2: adv = req + 1; break; case 3: adv = req + 2000000; break; default: adv = req; break; } }
  TR("  wait#%llu req=%lld adv=%lld nready=%d", (unsigned long long)wi->ordinal, (long long)req, (long long)adv, wi->nready);
  sim_advance_us(adv);
  // what the dispatch that is returning now will report: readable pipes with data, writable pipe write ends, the signal socketpair
  for (int i = 0; i < MAXS; i++) { Slot &m = W->sl[i]; if (!m.ev || !m.inserted) continue;
    if (m.kind == K_READ && W->pbytes[m.pipe] > 0) m_active(i, EV_READ, 1);
    if (m.kind == K_WRITE) m_active(i, EV_WRITE, 1); }
  if ((W->raised[0] || W->raised[1]) && !W->noticed) { W->noticed = true; W->internal_active = 1; a_inc(); if (W->cnt > W->cnt_max) W->cnt_max = W->cnt; if (W->cnt > W->cnt_max_hi) W->cnt_max_hi = W->cnt; /* inserting an internal event adds 0 to the count but still refreshes the maximum */ }
  // then the loop activates every timeout that is due, earliest deadline first
  int64_t now = sim_now_us();
  std::vector<int> due; for (int i = 0; i < MAXS; i++) { Slot &m = W->sl[i]; if (m.ev && m.timed && m.deadline <= now) due.push_back(i); }
  std::stable_sort(due.begin(), due.end(), [](int a, int b) { return W->sl[a].deadline < W->sl[b].deadline; });
  bool tie = false; for (size_t k = 1; k < due.size(); k++) if (W->sl[due[k]].deadline == W->sl[due[k - 1]].deadline) tie = true;
  int cnt_before = W->cnt, lo_before = W->cnt_max, hi_before = W->cnt_max_hi;
  bool inserted_any = false;
  for (int i : due) { Slot &m = W->sl[i];
    if (!m.active) { int64_t dl = m.deadline; m_del(i); m.deadline = dl; ins_active(m, EV_TIMEOUT); if (m.kind == K_SIGNAL) m.ncalls = 1; inserted_any = true; }
    else { rem_timeout(m); if (!(m.res & EV_TIMEOUT)) W->f_merge = true; m.res |= EV_TIMEOUT; } }
  if (tie && inserted_any) {   // equal deadlines: heap order unspecified, and the running maximum of the added-count depends on it (never above the value before).
    // Only an insertion refreshes the library's maximum: when every due event was already active nothing is inserted and a cleared maximum stays 0.
    W->cnt_max = std::max(lo_before, W->cnt); W->cnt_max_hi = std::max(hi_before, cnt_before);
  }
  return 0;
}
}  // namespace

extern "C" int LLVMFuzzerInitialize(int *, char ***) { sim_mem_install(); return 0; }

extern "C" int LLVMFuzzerTestOneInput(const uint8_t *data, size_t size) {
  sim_reset();
  verif_case_begin("C02");
  Src s(data, size);
  World w; W = &w; w.s = &s; memset(w.store, 0, sizeof w.store); memset(w.store_init, 0, sizeof w.store_init);
  int64_t live0 = sim_mem_live_blocks;
  sim_clock_enable(SIM_START_US + s.below(1000000));
  sim_set_wait_hook(wait_hook, nullptr);
  sim_set_wait_limit(3000);
  struct event_config *cfg = event_config_new();
  int backend = s.below(4);
  static const char *AVOID[][3] = {{nullptr}, {nullptr}, {"epoll", nullptr}, {"epoll", "poll", nullptr}};
  for (int k = 0; AVOID[backend][k]; k++) event_config_avoid_method(cfg, AVOID[backend][k]);
  int bflags = 0;
  if (backend == 1) bflags |= EVENT_BASE_FLAG_EPOLL_USE_CHANGELIST;
  if (s.flag()) bflags |= EVENT_BASE_FLAG_NO_CACHE_TIME;
  event_config_set_flag(cfg, bflags);
  w.base = event_base_new_with_config(cfg); event_config_free(cfg);
  if (!w.base) { verif_case_end(0, s.h); W = nullptr; return 0; }
  w.npri = 1 + s.below(3); event_base_priority_init(w.base, w.npri);
  for (int p = 0; p < 2; p++) if (pipe2(w.pfd[p], O_NONBLOCK | O_CLOEXEC) != 0) abort();
  TR("base backend=%s flags=0x%x npri=%d", event_base_get_method(w.base), bflags, w.npri);
  check_max(7, 1, "start");

  for (int step = 0; step < 48; step++) {
    int op = s.below(16);
    if (op == 0) break;
    if (op <= 11) { do_op(op, ""); check_all("after op"); }
    else if (op == 12) { unsigned f = 1 + s.below(7); int clear = s.flag(); check_max(f, clear, "max query"); }
    else {
      int lf = s.flag() ? EVLOOP_ONCE : (EVLOOP_ONCE | EVLOOP_NONBLOCK);
      w.waits_this_turn = 0; w.broke = false;
      TR("turn flags=%d now=%lld added=%d active=%d", lf, (long long)sim_now_us(), w.cnt, w.act);
      bool empty = w.cnt == 0 && w.act == 0;
      w.in_loop = true; int r = event_base_loop(w.base, lf); w.in_loop = false;
      TR("turn -> %d", r);
      sync_signals();
      CHECK(r == 0 || r == 1, "C02/loop-error", "event_base_loop=%d", r);
      if (empty) CHECK(r == 1, "C02/loop-return", "loop entered with nothing pending or active returned %d (documented: 1)", r);
      if (r == 1) CHECK(w.cnt == 0 && w.act == 0, "C02/loop-return", "loop returned 1 but the model still has %d added / %d active", w.cnt, w.act);
      check_dangling(-1, "after loop");
      if (w.broke) w.sigloop_left = 0;
      CHECK(w.sigloop_left == 0, "C02/signal-ncalls", "loop returned but signal slot %d still owes %d repeats", w.sigloop_slot, w.sigloop_left);
      if (!w.broke) CHECK(w.act - w.internal_active == 0, lost_key("C02/activation-lost"), "loop returned normally but the model still holds %d active events", w.act - w.internal_active);
      check_all("after turn");
    }
  }
  check_max(7, 0, "end");
  for (int i = 0; i < MAXS; i++) { Slot &m = w.sl[i]; if (m.ev) { if (m.heap) event_free(m.ev); else event_del(m.ev); m.ev = nullptr; } }
  event_base_free(w.base);
  for (int p = 0; p < 2; p++) { close(w.pfd[p][0]); close(w.pfd[p][1]); }
  CHECK(sim_mem_live_blocks == live0, "C02/leak", "library allocations outstanding after base free: %lld", (long long)(sim_mem_live_blocks - live0));
  int feats = w.f_readd_active + w.f_remove_timer + w.f_prio + w.f_in_cb + w.f_signal + w.f_free_pending;
  int nontrivial = w.n_cb >= 1 && feats >= 2;
  if (w.n_cb) verif_class("callback_ran"); if (w.f_readd_active) verif_class("readd_of_timeout_active"); if (w.f_remove_timer) verif_class("remove_timer"); if (w.f_prio) verif_class("priority_change");
  if (w.f_in_cb) verif_class("op_inside_callback"); if (w.f_signal) verif_class("signal_delivered"); if (w.f_free_pending) verif_class("free_while_pending"); if (w.f_io) verif_class("io_callback");
  if (w.f_timeout_cb) verif_class("timeout_callback"); if (w.f_persist_rearm) verif_class("persist_rearm"); if (w.f_assign) verif_class("event_assign"); if (w.f_merge) verif_class("result_flags_merged");
  verif_case_end(nontrivial, s.h);
  W = nullptr;
  return 0;
}
