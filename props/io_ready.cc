// C04 — every backend reports exactly the ready I/O asked for (differential across backends).
// One case = one scenario script (decoded once from the input, independent of run-time state) that is executed on every
// applicable backend in turn (epoll, epoll+changelist, poll, select; self-pipe or signalfd signal event present or not),
// each time on fresh files at the same fd numbers.  Before every loop pass the harness probes each fd with the real
// poll(2) (zero timeout): that is the ground truth the callbacks of that pass are judged against.
// Preconditions respected (DESIGN.md §2.7): events are deleted before their fd is closed; no ET/non-ET mixing on one fd;
// EV_ET only on backends advertising EV_FEATURE_ET (cases with ET events run on the two epoll variants only), EV_CLOSED only
// with EV_FEATURE_EARLY_CLOSE (cases with EV_CLOSED events skip select); no fd known to libevent has a live dup.
#include "verif.h"
#include "sim.h"
#include <errno.h>
#include <fcntl.h>
#include <signal.h>
#include <unistd.h>
#include <sys/epoll.h>
#include <sys/socket.h>
#include <algorithm>
#include <event2/event.h>
#include <event2/event_struct.h>
extern "C" {
#include "event-internal.h"
#include "util-internal.h"
ssize_t __real_read(int, void *, size_t);
ssize_t __real_write(int, const void *, size_t);
int __real_poll(struct pollfd *, nfds_t, int);
}

namespace {
const int NSLOT = 4, NEV = 8, MAXOPS = 48;
inline int WFD(int k) { return 60 + 4 * k; }
inline int PFD(int k) { return 61 + 4 * k; }
enum { K_PIPE_R = 0, K_PIPE_W = 1, K_SOCK = 2 };
enum { OP_END = 0, OP_OPEN, OP_NEW, OP_ADD, OP_DEL, OP_REOPEN, OP_FREE, OP_STATE, OP_TURN, OP__N };
struct Op { int op, a, b, c, d, e, f, g; };

struct MSlot {
  bool open = false, peer_open = false; int kind = 0; int gen = 0;
  bool special = false;       // half-closed / peer closed / reset / reused fd number
  bool activity = false;      // something happened on this fd since the last dispatch (state op, add/del of one of its events)
  bool activity_at_dispatch = false;
  bool et_del_in_window = false;   // an ET event of this fd was deleted since the last dispatch
  bool stale_et_possible = false;  // changelist only: a non-ET event was then added in the same window (known finding, see C05)
  short truth = 0, truth_prev = 0; bool truth_prev_valid = false;   // revents of the probe before this / the previous pass
};
struct MEv {
  struct event *ev = nullptr; int slot = 0; short what = 0; bool persist = false, et = false; bool added = false;
  int cb_action = 0, cb_target = 0;
  bool added_at_probe = false;      // added when the current pass was probed
  bool continuous = false;          // added at the previous probe and not deleted since
  bool touched_in_pass = false;     // deleted / re-added by a callback during the current pass
  int fired_in_pass = 0; short fired_what = 0;
};
struct PassRec { std::vector<std::pair<int, int>> lt_fired, et_fired; bool may_pass = false; };   // (event, what) of non-ET events, sorted
struct Run { std::vector<PassRec> passes; const char *method = ""; };
struct World {
  struct event_base *base = nullptr; MSlot sl[NSLOT]; MEv e[NEV]; int backend = 0; int features = 0; struct event *sigev = nullptr;
  bool in_pass = false; Run *run = nullptr;
  // evidence
  int callbacks = 0; bool nt_multi = false, nt_state = false, saw_et_fire = false, saw_closed_fire = false, saw_reuse_fire = false, saw_cb_change = false, saw_full = false;
};
World *W;
struct Agg { int callbacks = 0; bool nt_multi = false, nt_state = false, et = false, closed = false, reuse = false, cbchg = false, full = false; int passes = 0; };
Agg A;

// --- ground truth --------------------------------------------------------------------------------------------------
// must-hold / may-hold sets for a probe result.  READ: data, EOF or error (read would not block).  WRITE: space or error
// (write would not block); a bare POLLHUP without POLLOUT (pipe read end whose writer is gone) is left open ("may"): poll and
// epoll report it as writable, select does not.  CLOSED: POLLRDHUP.
short must_of(short rev) { short m = 0; if (rev & (POLLIN | POLLHUP | POLLERR)) m |= EV_READ; if (rev & (POLLOUT | POLLERR)) m |= EV_WRITE; if (rev & POLLRDHUP) m |= EV_CLOSED; return m; }
short may_of(short rev) { short m = must_of(rev); if (rev & POLLHUP) m |= EV_WRITE; return m; }

void probe_all() {
  World &w = *W;
  for (int k = 0; k < NSLOT; k++) { MSlot &m = w.sl[k];
    m.truth_prev = m.truth;
    if (!m.open) { m.truth = 0; m.truth_prev_valid = false; continue; }
    struct pollfd p; p.fd = WFD(k); p.events = POLLIN | POLLOUT | POLLRDHUP; p.revents = 0;
    int r; do { p.revents = 0; r = __real_poll(&p, 1, 0); } while (r < 0 && errno == EINTR);   // libFuzzer's SIGALRM can interrupt an empty poll
    if (r < 0) VERIF_FAIL("harness/probe", "poll errno=%d", errno);
    if (p.revents & POLLNVAL) VERIF_FAIL("harness/probe-nval", "fd %d", WFD(k));
    m.truth = p.revents;
  }
}

void model_add(MEv &m) { if (m.added) return; m.added = true; W->sl[m.slot].activity = true; if (!m.et && W->backend == 1 && W->sl[m.slot].et_del_in_window) W->sl[m.slot].stale_et_possible = true; if (W->in_pass) m.touched_in_pass = true; }
void model_del(MEv &m) { if (!m.added) { return; } m.added = false; m.continuous = false; if (m.et) W->sl[m.slot].et_del_in_window = true; W->sl[m.slot].activity = true; if (W->in_pass) m.touched_in_pass = true; }
bool slot_has_added(int k) { for (auto &e : W->e) if (e.ev && e.added && e.slot == k) return true; return false; }
bool slot_et(int k) { for (auto &e : W->e) if (e.ev && e.added && e.slot == k) return e.et; return false; }

void open_slot(int k, int kind) {
  int a[2];
  if (kind == K_SOCK) { if (socketpair(AF_UNIX, SOCK_STREAM | SOCK_NONBLOCK, 0, a) != 0) VERIF_FAIL("harness/socketpair", "errno=%d", errno);
    int sz = 4096; setsockopt(a[0], SOL_SOCKET, SO_SNDBUF, &sz, sizeof sz); setsockopt(a[1], SOL_SOCKET, SO_SNDBUF, &sz, sizeof sz); }
  else { if (pipe2(a, O_NONBLOCK) != 0) VERIF_FAIL("harness/pipe", "errno=%d", errno); fcntl(a[1], F_SETPIPE_SZ, 4096); if (kind == K_PIPE_W) std::swap(a[0], a[1]); }
  if (a[0] >= 60 || a[1] >= 60) VERIF_FAIL("harness/fd-range", "kernel handed out fd %d/%d", a[0], a[1]);
  if (dup2(a[0], WFD(k)) < 0 || dup2(a[1], PFD(k)) < 0) VERIF_FAIL("harness/dup2", "errno=%d", errno);
  close(a[0]); close(a[1]);
  MSlot &m = W->sl[k]; m.open = m.peer_open = true; m.kind = kind; m.gen++; m.special = m.gen > 1; m.activity = true; m.truth = 0; m.truth_prev_valid = false; m.stale_et_possible = false;
}
void close_slot(int k) { MSlot &m = W->sl[k]; if (!m.open) return; close(WFD(k)); if (m.peer_open) close(PFD(k)); m.open = m.peer_open = false; m.truth_prev_valid = false; }

bool can_add(const MEv &m) {
  if (!m.ev || !W->sl[m.slot].open) return false;
  if (m.added) return true;
  if (slot_has_added(m.slot) && slot_et(m.slot) != m.et) return false;
  // (applied on every backend of the case so that the runs stay comparable)
  if (!m.et && W->sl[m.slot].et_del_in_window && verif_known("C04/changelist-stale-et-after-del")) { verif_known_skipped("C04/changelist-stale-et-after-del"); return false; }
  return true;
}
void do_add(int i, const char *who) { MEv &m = W->e[i]; if (!can_add(m)) return;
  int r = event_add(m.ev, nullptr); TR("%sadd ev%d (fd %d what=0x%x%s%s) -> %d", who, i, WFD(m.slot), m.what, m.persist ? " persist" : "", m.et ? " et" : "", r);
  CHECK(r == 0, "C04/add-failed", "event_add(ev%d) returned %d", i, r); model_add(m); }
void do_del(int i, const char *who) { MEv &m = W->e[i]; if (!m.ev) return;
  int r = event_del(m.ev); TR("%sdel ev%d (fd %d) -> %d", who, i, WFD(m.slot), r);
  CHECK(r == 0, "C04/del-failed", "event_del(ev%d) returned %d", i, r); model_del(m); }

char g_chunk[4096];
void drain_fd(int fd) { char b[4096]; for (int n = 0; n < 64; n++) { ssize_t r = __real_read(fd, b, sizeof b); if (r <= 0) break; } }
void fill_fd(int fd) { for (int n = 0; n < 256; n++) { ssize_t r = __real_write(fd, g_chunk, sizeof g_chunk); if (r < 0) break; } for (int n = 0; n < 64; n++) { ssize_t r = __real_write(fd, g_chunk, 1); if (r < 0) break; } }

void io_cb(evutil_socket_t fd, short what, void *arg) {
  int i = (int)(intptr_t)arg; World &w = *W; MEv &m = w.e[i]; MSlot &sl = w.sl[m.slot];
  TR("  cb ev%d fd=%d what=0x%x (truth revents=0x%x)", i, (int)fd, what, sl.truth);
  CHECK(m.ev != nullptr && m.added, "C04/callback-after-del", "callback for event %d (fd %d, what 0x%x) which is not added (deleted earlier or never added)", i, (int)fd, what);
  CHECK((int)fd == WFD(m.slot), "C04/wrong-fd", "event %d on fd %d called back with fd %d", i, WFD(m.slot), (int)fd);
  CHECK(m.added_at_probe && !m.touched_in_pass, "C04/callback-for-event-added-after-wait", "event %d ran in a pass in which it was (re-)added only after the backend had been polled", i);
  CHECK(m.fired_in_pass == 0, "C04/callback-twice", "event %d ran twice in one pass", i);
  short must = must_of(sl.truth), may = may_of(sl.truth);
  short w0 = what & ~EV_ET;
  CHECK(!(what & EV_ET) || m.et, "C04/et-echo", "non-ET event %d called with EV_ET in what=0x%x", i, what);
  CHECK(w0 != 0, "C04/empty-what", "event %d called with what=0x%x", i, what);
  CHECK((w0 & ~m.what) == 0, "C04/what-not-requested", "event %d requested 0x%x but was called with what=0x%x", i, m.what, what);
  CHECK((m.what & may) != 0, "C04/spurious-callback", "event %d (wants 0x%x) ran although none of its conditions holds on fd %d (poll revents 0x%x)", i, m.what, (int)fd, sl.truth);
  CHECK((w0 & ~may) == 0, "C04/what-not-holding", "event %d called with what=0x%x but only 0x%x holds on fd %d (poll revents 0x%x)", i, what, may, (int)fd, sl.truth);
  if (!m.et) {
    short need = m.what & must;
    // known finding C04/epoll-closed-lost-on-error: see below (reported where the pass is audited)
    bool closed_lost = (need & ~w0) == EV_CLOSED && (sl.truth & POLLERR) && w.backend <= 1;
    if (closed_lost) VERIF_FAIL("C04/epoll-closed-lost-on-error", "event %d wants 0x%x, fd %d has POLLRDHUP together with POLLERR (revents 0x%x): epoll reported what=0x%x without EV_CLOSED", i, m.what, (int)fd, sl.truth, what);
    CHECK((need & ~w0) == 0, "C04/lt-what-incomplete", "level-triggered event %d wants 0x%x, 0x%x of it holds on fd %d (poll revents 0x%x) but what=0x%x", i, m.what, need, (int)fd, sl.truth, what);
  } else {
    CHECK(sl.activity_at_dispatch, "C04/et-refire", "edge-triggered event %d fired (what=0x%x) although nothing happened on fd %d since the previous pass", i, what, (int)fd);
    w.saw_et_fire = true;
  }
  m.fired_in_pass++; m.fired_what = what; w.callbacks++;
  if (what & EV_CLOSED) w.saw_closed_fire = true;
  if (sl.gen > 1) w.saw_reuse_fire = true;
  if (sl.special) w.nt_state = true;
  for (int j = 0; j < NEV; j++) if (j != i && w.e[j].ev && w.e[j].added_at_probe && w.e[j].slot == m.slot && w.e[j].what != m.what) w.nt_multi = true;
  if (!m.et) w.run->passes.back().lt_fired.push_back({i, (int)what}); else w.run->passes.back().et_fired.push_back({i, (int)what});
  if (!m.persist) model_del(m), m.touched_in_pass = false;   // removed before its callback runs; it may re-add itself below
  switch (m.cb_action) {
    case 1: do_del(i, "    in-cb "); w.saw_cb_change = true; break;
    case 2: do_add(i, "    in-cb "); w.saw_cb_change = true; break;
    case 3: if (w.e[m.cb_target].ev && w.e[m.cb_target].slot == m.slot) { do_del(m.cb_target, "    in-cb "); w.saw_cb_change = true; } break;
    case 4: if (w.e[m.cb_target].ev && w.e[m.cb_target].slot == m.slot) { do_add(m.cb_target, "    in-cb "); w.saw_cb_change = true; } break;
    case 5: if (sl.kind != K_PIPE_W) { drain_fd(WFD(m.slot)); sl.activity = true; TR("    in-cb drain fd %d", WFD(m.slot)); } break;
    default: break;
  }
}
void sig_cb(evutil_socket_t, short, void *) {}

void io_hook(const struct sim_io_rec *r, void *) { if (r->kind == SYS_EPOLL_CTL) TR("      epoll_ctl(op=%ld fd=%d events=0x%lx) -> %ld errno=%d", r->requested & 0xff, r->fd, (unsigned long)r->requested >> 8, r->result, r->err); }
int64_t wait_hook(const struct sim_wait_info *wi, void *) {
  // pending changes are flushed only when the backend is actually polled (a pass on an empty base returns before that)
  for (int k = 0; k < NSLOT; k++) W->sl[k].et_del_in_window = false;
  if (wi->timeout_us < 0) event_base_loopbreak(W->base);
  return 0;
}

void one_pass(int lf) {
  World &w = *W;
  probe_all();
  bool may_pass = false;
  for (int i = 0; i < NEV; i++) { MEv &m = w.e[i]; m.added_at_probe = m.ev && m.added; m.touched_in_pass = false; m.fired_in_pass = 0; m.fired_what = 0;
    if (m.added_at_probe) { MSlot &sl = w.sl[m.slot]; if (m.what & may_of(sl.truth) & ~must_of(sl.truth)) may_pass = true; } }
  for (int k = 0; k < NSLOT; k++) { MSlot &m = w.sl[k]; m.activity_at_dispatch = m.activity; m.activity = false; }
  w.run->passes.push_back(PassRec()); w.run->passes.back().may_pass = may_pass;
  uint64_t waits0 = sim_wait_count;
  w.in_pass = true; int r = event_base_loop(w.base, lf); w.in_pass = false;
  TR("turn -> %d", r);
  CHECK(r >= 0, "C04/loop-error", "event_base_loop returned %d", r);
  bool any_added = false; for (auto &m : w.e) if (m.added_at_probe) any_added = true;
  if (any_added || w.sigev) CHECK(sim_wait_count == waits0 + 1, "harness/one-wait-per-pass", "%llu waits in one pass", (unsigned long long)(sim_wait_count - waits0));
  // audit: who had to fire?
  for (int i = 0; i < NEV; i++) { MEv &m = w.e[i]; if (!m.added_at_probe) continue; MSlot &sl = w.sl[m.slot];
    short must = must_of(sl.truth); short need = m.what & must;
    if (m.fired_in_pass || m.touched_in_pass) continue;           // ran, or a callback of this pass deleted it before its turn
    if (!m.et) {
      if (need == EV_CLOSED && (sl.truth & POLLERR) && w.backend <= 1)
        VERIF_FAIL("C04/epoll-closed-lost-on-error", "level-triggered event %d wants 0x%x, fd %d has POLLRDHUP together with POLLERR (revents 0x%x): epoll ran no callback", i, m.what, WFD(m.slot), sl.truth);
      if (need && sl.stale_et_possible)   // same root cause as C05/changelist-stale-et-after-del: the fd was left edge-triggered in the kernel
        VERIF_FAIL("C04/changelist-stale-et-after-del", "level-triggered event %d (wants 0x%x) stopped firing although 0x%x holds on fd %d: an ET event was deleted and a non-ET event added on this fd between two waits (changelist)", i, m.what, need, WFD(m.slot));
      CHECK(need == 0, "C04/lt-missed", "level-triggered event %d (wants 0x%x) did not run although 0x%x holds on fd %d (poll revents 0x%x)", i, m.what, need, WFD(m.slot), sl.truth);
    } else if (m.continuous && sl.truth_prev_valid) {
      short before = may_of(sl.truth_prev); short edge = need & ~before;   // false at the previous pass, true now, registered throughout
      bool closed_lost = edge == EV_CLOSED && (sl.truth & POLLERR);
      if (closed_lost) VERIF_FAIL("C04/epoll-closed-lost-on-error", "edge-triggered event %d wants 0x%x, fd %d got POLLRDHUP together with POLLERR (revents 0x%x): epoll ran no callback", i, m.what, WFD(m.slot), sl.truth);
      CHECK(edge == 0, "C04/et-missed-edge", "edge-triggered event %d (wants 0x%x) did not run although 0x%x became true on fd %d since the previous pass (revents 0x%x -> 0x%x)", i, m.what, edge, WFD(m.slot), sl.truth_prev, sl.truth);
    }
  }
  for (int i = 0; i < NEV; i++) { MEv &m = w.e[i]; m.continuous = m.ev && m.added && m.added_at_probe && !m.touched_in_pass; }
  for (int k = 0; k < NSLOT; k++) w.sl[k].truth_prev_valid = w.sl[k].open;
  std::sort(w.run->passes.back().lt_fired.begin(), w.run->passes.back().lt_fired.end()); std::sort(w.run->passes.back().et_fired.begin(), w.run->passes.back().et_fired.end());
}

void run_script(const std::vector<Op> &ops, int backend, int sigmode, int wseed, bool allow_closed, bool allow_et, Run *run) {
  World w; W = &w; w.backend = backend; w.run = run;
  struct event_config *cfg = event_config_new();
  static const char *AVOID[][3] = {{nullptr}, {nullptr}, {"epoll", nullptr}, {"epoll", "poll", nullptr}};
  for (int k = 0; AVOID[backend][k]; k++) event_config_avoid_method(cfg, AVOID[backend][k]);
  int flags = EVENT_BASE_FLAG_IGNORE_ENV;
  if (backend == 1) flags |= EVENT_BASE_FLAG_EPOLL_USE_CHANGELIST;
  if (sigmode == 2) flags |= EVENT_BASE_FLAG_USE_SIGNALFD;
  event_config_set_flag(cfg, flags);
  w.base = event_base_new_with_config(cfg); event_config_free(cfg);
  if (!w.base) VERIF_FAIL("harness/no-base", "backend %d", backend);
  evutil_weakrand_seed_(&w.base->weakrand_seed, 1 + wseed);
  w.features = event_base_get_features(w.base); run->method = event_base_get_method(w.base);
  if (allow_et) CHECK(w.features & EV_FEATURE_ET, "harness/feature", "ET case on %s", run->method);
  if (allow_closed) CHECK(w.features & EV_FEATURE_EARLY_CLOSE, "harness/feature", "EV_CLOSED case on %s", run->method);
  TR("== run on %s flags=0x%x sigmode=%d", run->method, flags, sigmode);
  // known finding C04/epoll-closed-lost-on-error: in cases that may ask for EV_CLOSED never produce a reset (POLLERR together with POLLRDHUP):
  // the peer reads everything before it closes
  bool no_reset = allow_closed && verif_known("C04/epoll-closed-lost-on-error");
  if (sigmode) { w.sigev = evsignal_new(w.base, SIGUSR1, sig_cb, nullptr); CHECK(event_add(w.sigev, nullptr) == 0, "C04/add-failed", "signal event"); }
  for (const Op &o : ops) {
    switch (o.op) {
      case OP_OPEN: if (!w.sl[o.a].open) { open_slot(o.a, o.b); TR("open slot%d kind=%d fd=%d", o.a, o.b, WFD(o.a)); } break;
      case OP_NEW: { MEv &m = w.e[o.a]; if (m.ev) break;
        short what = 0; if (o.c & 1) what |= EV_READ; if (o.c & 2) what |= EV_WRITE; if ((o.c & 4) && allow_closed) what |= EV_CLOSED; if (!what) what = EV_READ;
        m = MEv(); m.slot = o.b; m.what = what; m.persist = o.d & 1; m.et = allow_et && (o.d & 2); m.cb_action = o.e > 5 ? 0 : o.e; m.cb_target = o.f;
        if (!m.persist && m.cb_action == 1) m.cb_action = 0; if (m.persist && m.cb_action == 2) m.cb_action = 0;
        m.ev = event_new(w.base, WFD(m.slot), what | (m.persist ? EV_PERSIST : 0) | (m.et ? EV_ET : 0), io_cb, (void *)(intptr_t)o.a);
        if (!m.ev) VERIF_FAIL("harness/event-new", "NULL");
        TR("new ev%d fd=%d what=0x%x persist=%d et=%d cb_action=%d/%d", o.a, WFD(m.slot), what, m.persist, m.et, m.cb_action, m.cb_target);
        if (o.g) do_add(o.a, ""); break; }
      case OP_ADD: do_add(o.a, ""); break;
      case OP_DEL: do_del(o.a, ""); break;
      case OP_REOPEN: { int k = o.a; if (!w.sl[k].open) break;
        bool had[NEV]; for (int i = 0; i < NEV; i++) had[i] = w.e[i].ev && w.e[i].slot == k && w.e[i].added;
        for (int i = 0; i < NEV; i++) if (had[i]) do_del(i, "  ");
        close_slot(k); TR("close slot%d fd=%d", k, WFD(k));
        if (o.b) { open_slot(k, o.c); TR("reopen slot%d kind=%d fd=%d", k, o.c, WFD(k)); if (o.d) for (int i = 0; i < NEV; i++) if (had[i] && ((o.e >> i) & 1)) do_add(i, "  re"); }
        break; }
      case OP_FREE: { MEv &m = w.e[o.a]; if (!m.ev) break; TR("free ev%d", o.a); model_del(m); event_free(m.ev); m.ev = nullptr; break; }
      case OP_STATE: { int k = o.a; MSlot &m = w.sl[k]; if (!m.open) break; m.activity = true;
        switch (o.b) {
          case 0: if (m.peer_open && m.kind != K_PIPE_W) { ssize_t r = __real_write(PFD(k), g_chunk, 1 + o.c); TR("peer of slot%d writes %d -> %zd", k, 1 + o.c, r); } break;
          case 1: if (m.kind != K_PIPE_W) { drain_fd(WFD(k)); TR("slot%d drains its input", k); } break;
          case 2: if (m.kind != K_PIPE_R) { fill_fd(WFD(k)); w.saw_full = true; TR("slot%d fills its send buffer", k); } break;
          case 3: if (m.peer_open && m.kind != K_PIPE_R) { drain_fd(PFD(k)); TR("peer of slot%d drains", k); } break;
          case 4: if (m.peer_open && m.kind == K_SOCK) { shutdown(PFD(k), SHUT_WR); m.special = true; TR("peer of slot%d shutdown(WR)", k); } break;
          case 5: if (m.peer_open) { if (no_reset && m.kind == K_SOCK) drain_fd(PFD(k)); close(PFD(k)); m.peer_open = false; m.special = true; TR("peer of slot%d closed", k); } break;
          case 6: if (m.kind == K_SOCK) { shutdown(WFD(k), SHUT_WR); m.special = true; TR("slot%d shutdown(WR) on its own side", k); } break;
          case 7: if (m.peer_open && m.kind == K_SOCK && no_reset) { verif_known_skipped("C04/epoll-closed-lost-on-error"); break; }
                  if (m.peer_open && m.kind == K_SOCK) { ssize_t r = __real_write(WFD(k), g_chunk, 1); close(PFD(k)); m.peer_open = false; m.special = true; TR("slot%d writes %zd, peer closes without reading (reset)", k, r); } break;
        }
        break; }
      case OP_TURN: { int lf = EVLOOP_ONCE | EVLOOP_NONBLOCK; /* exactly one poll-and-dispatch pass */ TR("turn"); one_pass(lf); break; }
    }
    event_base_assert_ok_(w.base);
  }
  for (auto &m : w.e) if (m.ev) { event_free(m.ev); m.ev = nullptr; }
  if (w.sigev) event_free(w.sigev);
  event_base_free(w.base);
  for (int k = 0; k < NSLOT; k++) close_slot(k);
  A.callbacks += w.callbacks; A.nt_multi |= w.nt_multi; A.nt_state |= w.nt_state; A.et |= w.saw_et_fire; A.closed |= w.saw_closed_fire; A.reuse |= w.saw_reuse_fire;
  A.cbchg |= w.saw_cb_change; A.full |= w.saw_full; A.passes += (int)run->passes.size();
  W = nullptr;
}

}  // namespace

extern "C" int LLVMFuzzerInitialize(int *, char ***) {
  sim_mem_install();
  for (int fd = 60; fd < 60 + 4 * NSLOT; fd++) if (fcntl(fd, F_GETFD) != -1) { fprintf(stderr, "io_ready: fd %d already open at start-up\n", fd); abort(); }
  signal(SIGPIPE, SIG_IGN);
  memset(g_chunk, 'x', sizeof g_chunk);
  return 0;
}

extern "C" int LLVMFuzzerTestOneInput(const uint8_t *data, size_t size) {
  sim_reset();
  verif_case_begin("C04");
  Src s(data, size);
  int64_t live0 = sim_mem_live_blocks;
  sim_clock_enable(SIM_START_US);
  sim_set_wait_hook(wait_hook, nullptr);
  if (verif_trace_on) sim_set_io_hook(io_hook, nullptr);
  int mode = s.below(3);          // 0: READ/WRITE only, all four backends; 1: + EV_CLOSED (no select); 2: + EV_ET (epoll variants only)
  int sig0 = s.below(3); int wseed = s.below(255);
  bool allow_closed = mode >= 1, allow_et = mode == 2;
  std::vector<Op> ops;
  { int nopen = s.below(NSLOT + 1); for (int k = 0; k < nopen; k++) { Op o{}; o.op = OP_OPEN; o.a = k; o.b = s.below(3); ops.push_back(o); } }
  for (int n = 0; n < MAXOPS; n++) {
    static const int OPTAB[16] = {OP_END, OP_OPEN, OP_NEW, OP_NEW, OP_NEW, OP_ADD, OP_ADD, OP_DEL, OP_REOPEN, OP_FREE, OP_STATE, OP_STATE, OP_STATE, OP_TURN, OP_TURN, OP_TURN};
    Op o{}; o.op = OPTAB[s.below(16)]; if (o.op == OP_END) break;
    switch (o.op) {
      case OP_OPEN: o.a = s.below(NSLOT); o.b = s.below(3); break;
      case OP_NEW: o.a = s.below(NEV); o.b = s.below(NSLOT); o.c = s.below(8); o.d = s.below(4); o.e = s.below(9); o.f = s.below(NEV); o.g = s.below(4) != 1; break;
      case OP_ADD: case OP_DEL: case OP_FREE: o.a = s.below(NEV); break;
      case OP_REOPEN: o.a = s.below(NSLOT); o.b = s.below(4) != 0; o.c = s.below(3); o.d = s.below(3) != 0; o.e = s.below(256); break;
      case OP_STATE: o.a = s.below(NSLOT); o.b = s.below(8); o.c = s.below(16); break;
      case OP_TURN: break;
    }
    ops.push_back(o);
  }
  int nb = allow_et ? 2 : allow_closed ? 3 : 4;
  Run runs[4]; A = Agg();
  for (int b = 0; b < nb; b++) run_script(ops, b, sig0 /* same for all runs: whether an otherwise empty base polls at all depends on it */, wseed, allow_closed, allow_et, &runs[b]);
  // differential: non-ET (event, what) multisets per pass must agree; once a pass contains an open ("may") condition the runs may
  // legitimately drift apart, so comparison with poll/select stops there (the two epoll variants share the kernel mechanism: compared until their edge-triggered firings differ)
  for (int b = 1; b < nb; b++) {
    CHECK(runs[b].passes.size() == runs[0].passes.size(), "C04/backends-disagree", "%s made %zu passes, %s made %zu", runs[0].method, runs[0].passes.size(), runs[b].method, runs[b].passes.size());
    for (size_t p = 0; p < runs[0].passes.size(); p++) {
      if (b >= 2 && (runs[0].passes[p].may_pass || runs[b].passes[p].may_pass)) break;
      // an edge-triggered event is only a "may": the changelist coalesces an add+del of the same turn into no epoll_ctl at all, plain epoll
      // issues a MOD that re-arms the edge.  Once the ET firings differ the two histories are different histories (the event stays pending in one).
      if (runs[0].passes[p].et_fired != runs[b].passes[p].et_fired) break;
      auto &x = runs[0].passes[p].lt_fired, &y = runs[b].passes[p].lt_fired;
      if (x != y) {
        std::string sx, sy; char t[48]; for (auto &q : x) { snprintf(t, sizeof t, " ev%d:0x%x", q.first, q.second); sx += t; } for (auto &q : y) { snprintf(t, sizeof t, " ev%d:0x%x", q.first, q.second); sy += t; }
        VERIF_FAIL("C04/backends-disagree", "pass %zu: %s ran {%s } but %s ran {%s }", p + 1, runs[0].method, sx.c_str(), runs[b].method, sy.c_str());
      }
    }
  }
  CHECK(sim_mem_live_blocks == live0, "C04/leak", "library allocations outstanding after base free: %lld", (long long)(sim_mem_live_blocks - live0));
  int nontrivial = A.callbacks >= 1 && (A.nt_multi || A.nt_state);
  verif_class(mode == 0 ? "mode_rw_4backends" : mode == 1 ? "mode_closed_3backends" : "mode_et_2backends");
  if (A.callbacks) verif_class("callback_ran"); if (A.nt_multi) verif_class("fired_with_differing_events_on_fd"); if (A.nt_state) verif_class("fired_on_halfclosed_reset_or_reused_fd");
  if (A.et) verif_class("et_fired"); if (A.closed) verif_class("closed_reported"); if (A.reuse) verif_class("fired_on_reused_fd_number"); if (A.cbchg) verif_class("change_in_callback"); if (A.full) verif_class("send_buffer_filled");
  verif_class_n("passes", (uint64_t)A.passes);
  verif_case_end(nontrivial, s.h);
  return 0;
}
