// C26 — HTTP messages written by evhttp carry exactly the caller's content.
//
// Two worlds, chosen by the first draw:
//   * server: a real evhttp (props/http_common.hh: AF_UNIX abstract listener, virtual clock) receives ONE valid request
//     written by the harness (method x version x Connection option x content framing: none / Content-Length / chunked with
//     0-3 chunks and an optional trailer x extra request fields whose names replies use too x segmentation on the wire: the
//     reply may depend on none of the last three); the request callback answers in a generated style
//     (evhttp_send_reply with a data buffer / with the request's output buffer / without body, evhttp_send_error with or without
//     an evhttp_set_errorcb formatter, evhttp_send_reply_start + _chunk* + _end inside the callback or spread over later loop
//     turns, evhttp_send_reply_chunk_with_cb chains) with generated status code, reason phrase (NULL / benign / adversarial),
//     output headers added with evhttp_add_header (benign / adversarial names and values, valid caller-supplied Content-Type /
//     Date / Content-Length), default content type (unchanged / NULL / custom / adversarial) and body / chunk bytes (including
//     bytes that look like HTTP messages or chunk framing).  The harness reads the raw response bytes from its client socket.
//   * client: an evhttp_connection over a socketpair (props/http_client_common.hh); one request built with evhttp_request_new,
//     evhttp_add_header on the output headers, bytes in the output buffer, optional major/minor, evhttp_make_request(type, uri)
//     with adversarial URIs; built-in and extension methods.  The harness reads the raw request bytes from its end.
//
// Oracle (refs/http9112_emit.hh, a sender-side RFC 9112 reference; not derived from http.c): the captured bytes are exactly
// ONE message (nothing in front, nothing behind), whose start line carries the supplied method / target / status / reason,
// whose field lines are the accepted supplied ones (value compared after OWS trimming / obs-fold unfolding) plus at most one
// each of the documented automatic ones with a valid value, and whose body (after de-chunking, chunk by chunk) is the supplied
// one.  An argument the API rejects (-1) must leave no trace; an argument a void API cannot reject may be replaced by something
// valid.  Each root cause has its own key; listed keys are excluded by construction (the generator repairs the argument).
#include "http_common.hh"
#include "http_client_common.hh"
#include "http9112_emit.hh"
#include <signal.h>

namespace {
using h9112e::Msg; using h9112e::Field;

// ---- keys: one per root cause
const char *K_REASON   = "C26/reason-phrase-line-break-written";          // evhttp_send_reply/_start/_error: reason with CR / LF goes into the status line
const char *K_TARGET   = "C26/request-target-not-validated";              // evhttp_make_request: URI with CR / LF / HTAB / other CTL / empty goes into the request line
const char *K_TARGET_SP= "C26/request-target-with-space-written";         // evhttp_make_request: URI with SP goes into the request line (upstream keeps this on purpose: "nonconformant" URIs)
const char *K_VALUE    = "C26/header-value-line-break-run-accepted";      // evhttp_add_header: any run of CR / LF followed by SP / HTAB is taken as a continuation
const char *K_NAME     = "C26/header-name-not-validated";                 // evhttp_add_header: ':' / whitespace / CTL in a field name
const char *K_BODILESS = "C26/bodiless-response-carries-body";            // HEAD / 1xx / 204 / 304: output buffer written behind the header section
const char *K_STREAM10 = "C26/streamed-reply-http10-keepalive-content-length-0";   // send_reply_start to an HTTP/1.0 keep-alive request announces Content-Length: 0
const char *K_REQBODY  = "C26/request-body-without-content-length";       // HEAD / TRACE / body-less extension method: output buffer written without framing
// ---- generic oracle clauses (no known root cause attached)
const char *G_PARSE    = "C26/message-does-not-parse";
const char *G_TRAIL    = "C26/bytes-after-message";
const char *G_START    = "C26/start-line-differs";
const char *G_MISSING  = "C26/supplied-header-missing-or-altered";
const char *G_EXTRA    = "C26/extra-header-field";
const char *G_AUTO     = "C26/automatic-header-invalid";
const char *G_BODY     = "C26/body-differs";
const char *G_CHUNKS   = "C26/chunks-differ";
const char *G_REJECTED = "C26/rejected-argument-left-trace";
const char *G_VALIDREJ = "C26/valid-argument-rejected";
const char *G_CLOSE    = "C26/close-delimited-reply-on-open-connection";
const char *G_TE10     = "C26/chunked-reply-to-http10-request";
const char *G_VALUE_LB = "C26/header-value-line-break-accepted";          // a CR / LF not followed by SP / HTAB got through evhttp_add_header
const char *G_NAME_LB  = "C26/header-name-line-break-accepted";           // CR / LF or an empty name got through evhttp_add_header

// ---- argument predicates (structure only; see the reference header for what is tolerated)
bool ws_like(unsigned char c) { return c == ' ' || c == '\t' || c == 0x0b || c == 0x0c || c == '\r' || c == '\n'; }
bool ctl(unsigned char c) { return c < 0x20 || c == 0x7f; }
bool has_crlf(const std::string &v) { return v.find_first_of("\r\n") != std::string::npos; }
bool reason_ok(const std::string &r) { return !has_crlf(r); }
bool target_ok(const std::string &t) { if (t.empty()) return false; for (unsigned char c : t) if (ws_like(c)) return false; return true; }
bool target_sp_only(const std::string &t) { bool sp = false; for (unsigned char c : t) { if (c == ' ') sp = true; else if (ws_like(c)) return false; } return sp; }   // the only offence is SP
bool name_ok(const std::string &n) { if (n.empty()) return false; for (unsigned char c : n) if (c == ':' || ws_like(c) || ctl(c)) return false; return true; }
// every line break in the value is exactly CRLF followed by SP / HTAB (obs-fold)
bool value_ok(const std::string &v) {
  for (size_t i = 0; i < v.size(); i++) {
    if (v[i] == '\r') { if (i + 2 >= v.size() || v[i + 1] != '\n' || !h9112::is_ows((unsigned char)v[i + 2])) return false; i++; }
    else if (v[i] == '\n') return false;
  }
  return true;
}
// the sub-domain of C26/header-value-line-break-run-accepted: every run of CR / LF is followed by SP / HTAB, but not every run
// is exactly CRLF (what is left of !value_ok() is refused by the unchanged library and stays in the generated domain)
bool value_run_subdomain(const std::string &v) {
  if (value_ok(v)) return false;
  for (size_t i = 0; i < v.size(); i++) if (v[i] == '\r' || v[i] == '\n') {
    while (i < v.size() && (v[i] == '\r' || v[i] == '\n')) i++;
    if (i >= v.size() || !h9112::is_ows((unsigned char)v[i])) return false;
  }
  return true;
}
std::string fix_reason(std::string r) { std::string o; for (char c : r) if (c != '\r' && c != '\n') o.push_back(c); return o; }
std::string fix_target(std::string t) { std::string o; for (unsigned char c : t) if (!ws_like(c)) o.push_back((char)c); return o.empty() ? "/" : o; }
std::string fix_name(std::string n) { std::string o; for (unsigned char c : n) if (!(c == ':' || ws_like(c) || ctl(c))) o.push_back((char)c); return o.empty() ? "X-E" : o; }
std::string fix_value(const std::string &v) {
  std::string o;
  for (size_t i = 0; i < v.size(); i++) {
    if (v[i] == '\r' && i + 2 < v.size() && v[i + 1] == '\n' && h9112::is_ows((unsigned char)v[i + 2])) { o += "\r\n"; i++; continue; }
    if (v[i] == '\r' || v[i] == '\n') continue;
    o.push_back(v[i]);
  }
  return o;
}

// ---- taints: what in this case could explain a broken message (first one wins the key)
struct Taints {
  std::vector<const char *> keys;
  void add(const char *k) { for (auto x : keys) if (x == k) return; keys.push_back(k); }
  const char *blame(const char *generic) const { return keys.empty() ? generic : keys[0]; }
};

bool avoid(const char *key) { if (verif_known(key)) { verif_known_skipped(key); return true; } return false; }

// ---- adversarial strings
struct Arg { std::string v; bool adv = false; };
const char *FRAG[] = {
  "\r\n", "\n", "\r", "\r\nX-Injected: 1", "\r\n\r\n", "\r\n ", "\r\n\t", "\n ", "\r ", "\r\n\r\n ",
  "\r\nContent-Length: 0\r\n\r\nHTTP/1.1 200 OK\r\nContent-Length: 1\r\n\r\nx", "\r\n\r\nGET /smuggled HTTP/1.1\r\nHost: x\r\n\r\n",
  " ", "\t", "\xe9", "\x01", "\x7f", "\x0b", ":", " HTTP/1.1\r\nX-Injected: 1\r\nX-Rest:", "\r\n x\r\n\r\n y", "\r\n \r\n ", "\n\n", "%0d%0a",
  "\r\n\tfolded", "\r\r\n ", "\r\n\n ", "\xc3\xa9\xff", ": x", " :", "\x0c",
};
const size_t NFRAG = sizeof FRAG / sizeof FRAG[0];
// adv_in_8: how many of 8 draws yield an adversarial string (0 = most benign draw)
Arg adversarial(Src &s, const std::string &base, uint32_t adv_in_8) {
  Arg a; a.v = base;
  if (s.below(8) < 8 - adv_in_8) return a;
  a.adv = true;
  int n = 1 + (s.below(4) == 3);
  for (int k = 0; k < n; k++) {
    const char *f = FRAG[s.below((uint32_t)NFRAG)];
    switch (s.below(4)) {
      case 0: a.v += f; break;                                   // at the end
      case 1: a.v = f + a.v; break;                              // in front
      case 2: a.v.insert(a.v.size() / 2, f); break;              // in the middle
      default: a.v += f; a.v += "tail"; break;                   // followed by more text
    }
  }
  return a;
}

std::string body_bytes(Src &s) {
  switch (s.below(10)) {
    case 0: return "";
    case 1: return "hello";
    case 2: return "HTTP/1.1 200 OK\r\nContent-Length: 1\r\n\r\nx";
    case 3: return "0\r\n\r\n";
    case 4: { size_t n = 1 + s.below(24); return s.bytes(n); }
    case 5: return "GET /second HTTP/1.1\r\nHost: x\r\n\r\n";
    case 6: return std::string(1 + s.below(700), 'a');
    case 7: return "\r\n";
    case 8: return std::string("a\0b", 3);
    default: return "5\r\nhello\r\n";
  }
}

struct Hdr { std::string name, value; bool benign = true; int rc = -2; };

const char *BENIGN_NAMES[] = {"X-A", "X-Custom-Header", "Set-Cookie", "Server", "x-lower", "Cache-Control", "X-A"};
const char *BENIGN_VALUES[] = {"v", "some value", "a=b; Path=/", "", "text/plain", "0", "close-ish, x"};

void gen_headers(Src &s, std::vector<Hdr> &out, Taints &t, int max) {
  int n = s.below(max + 1);
  for (int i = 0; i < n; i++) {
    Hdr h;
    Arg nm = adversarial(s, BENIGN_NAMES[s.below(7)], 2);
    Arg vl = adversarial(s, BENIGN_VALUES[s.below(7)], 4);
    h.name = nm.v; h.value = vl.v; h.benign = !nm.adv && !vl.adv;
    if (nm.adv && !has_crlf(h.name) && !name_ok(h.name) && avoid(K_NAME)) h.name = fix_name(h.name);
    if (vl.adv && value_run_subdomain(h.value) && avoid(K_VALUE)) h.value = fix_value(h.value);
    // names that would collide with framing fields after repair are not wanted here: framing names are only supplied in valid forms
    std::string ln = h9112::lower(h.name);
    if (ln == "content-length" || ln == "transfer-encoding" || ln == "connection" || ln == "date" || ln == "content-type" || ln == "expect") h.name = "X-" + h.name;
    out.push_back(h);
  }
}

// add the headers through the public API, record what the API said, and note the taints of what it accepted
void add_headers(struct evkeyvalq *q, std::vector<Hdr> &hdrs, Taints &t) {
  for (auto &h : hdrs) {
    h.rc = evhttp_add_header(q, h.name.c_str(), h.value.c_str());
    TR("  evhttp_add_header('%s', '%s') = %d", esc(h.name).c_str(), esc(h.value).c_str(), h.rc);
    CHECK(h.rc == 0 || h.rc == -1, "C26/add-header-return-value", "evhttp_add_header returned %d", h.rc);
    if (h.benign && h.name.size() && h9112::is_token(h.name)) CHECK(h.rc == 0, G_VALIDREJ, "evhttp_add_header('%s','%s') refused a valid field", esc(h.name).c_str(), esc(h.value).c_str());
    if (h.rc == 0) {
      if (h.name.empty() || has_crlf(h.name)) t.add(G_NAME_LB); else if (!name_ok(h.name)) t.add(K_NAME);
      if (value_run_subdomain(h.value)) t.add(K_VALUE); else if (!value_ok(h.value)) t.add(G_VALUE_LB);
      if (has_crlf(h.value) || has_crlf(h.name)) verif_class("crlf_argument_accepted");
      if (!h.benign) verif_class("adversarial_header_accepted");
    } else verif_class("header_rejected");
  }
}

// the argument, as passed to the API, carries a line break or another structure-changing byte
bool structural(const Hdr &h) { return has_crlf(h.name) || has_crlf(h.value) || !name_ok(h.name); }

struct AutoSpec {
  bool date = false, cl = false, te = false, conn = false;   // which automatic names may appear
  bool ct = false; std::string ct_value;                     // Content-Type may appear with exactly this value
  bool supplied_optional = false;                            // evhttp_send_error replaces the caller's header list (code-derived corner)
  bool supplied_connection_optional = false;                 // a request with "Connection: close" makes the server replace the caller's Connection field
};

void check_fields(const Msg &m, const std::vector<Hdr> &sup, const AutoSpec &au, const Taints &t, const std::string &wire) {
  std::vector<bool> used(m.fields.size(), false);
  bool sup_ct = false, sup_cl = false;
  for (auto &h : sup) {
    if (h.rc != 0) continue;
    std::string ln = h9112::lower(h.name);
    if (ln == "content-type" && !au.supplied_optional) sup_ct = true;
    if (ln == "content-length" && !au.supplied_optional) sup_cl = true;
    std::string want = h9112e::unfold(h.value);
    bool found = false;
    for (size_t i = 0; i < m.fields.size() && !found; i++) if (!used[i] && m.fields[i].name == h.name && m.fields[i].value == want) { used[i] = true; found = true; }
    if (found) continue;
    if (au.supplied_optional) continue;
    if (au.supplied_connection_optional && ln == "connection") continue;
    VERIF_FAIL(t.blame(G_MISSING), "accepted field '%s: %s' is not among the emitted fields; wire='%s'", esc(h.name).c_str(), esc(h.value).c_str(), esc(wire, 600).c_str());
  }
  int n_date = 0, n_cl = 0, n_te = 0, n_conn = 0, n_ct = 0;
  for (size_t i = 0; i < m.fields.size(); i++) {
    if (used[i]) continue;
    const Field &f = m.fields[i]; std::string ln = h9112::lower(f.name);
    bool ok = false, valok = true;
    if (ln == "date" && au.date) { ok = ++n_date == 1; valok = h9112e::is_imf_fixdate(f.value); }
    else if (ln == "content-length" && au.cl && !sup_cl) { ok = ++n_cl == 1; }
    else if (ln == "transfer-encoding" && au.te) { ok = ++n_te == 1; valok = f.value == "chunked"; }
    else if (ln == "connection" && au.conn) { ok = ++n_conn == 1; valok = f.value == "close" || f.value == "keep-alive"; }
    else if (ln == "content-type" && au.ct && !sup_ct) { ok = ++n_ct == 1; valok = f.value == au.ct_value; }
    if (!ok) VERIF_FAIL(t.blame(G_EXTRA), "emitted field '%s: %s' was neither supplied nor a documented automatic field here; wire='%s'", esc(f.name).c_str(), esc(f.value).c_str(), esc(wire, 600).c_str());
    if (!valok) VERIF_FAIL(t.blame(G_AUTO), "automatic field '%s: %s' has an unexpected value; wire='%s'", esc(f.name).c_str(), esc(f.value).c_str(), esc(wire, 600).c_str());
  }
  // a rejected field must leave no trace: its name (when it is one no other field of this case uses) must not start a line
  for (auto &h : sup) {
    if (h.rc == 0 || h.name.empty() || has_crlf(h.name)) continue;
    bool shared = false; for (auto &o : sup) if (&o != &h && o.rc == 0 && o.name == h.name) shared = true;
    if (shared) continue;
    for (auto &f : m.fields) if (f.name == h.name) VERIF_FAIL(t.blame(G_REJECTED), "field '%s' was refused by evhttp_add_header but is on the wire; wire='%s'", esc(h.name).c_str(), esc(wire, 600).c_str());
  }
}

// parse exactly one message out of the captured bytes
Msg parse_single(const std::string &wire, h9112e::Kind kind, const h9112e::Ctx &ctx, const Taints &t) {
  Msg m; std::string why;
  h9112e::Status st = h9112e::parse_one(wire, 0, kind, ctx, m, why);
  if (st == h9112e::INCOMPLETE && why == "close-delimited-body-on-open-connection")
    VERIF_FAIL(t.blame(G_CLOSE), "reply has neither Content-Length nor chunked coding and the connection stays open; wire='%s'", esc(wire, 600).c_str());
  if (st != h9112e::OK) VERIF_FAIL(t.blame(G_PARSE), "captured bytes are not one well-formed message (%s: %s); wire='%s'", st == h9112e::INVALID ? "invalid" : "incomplete", why.c_str(), esc(wire, 600).c_str());
  if (m.end != wire.size()) {
    Msg m2; std::string why2; h9112e::Ctx c2 = ctx; c2.head = false;
    h9112e::Status st2 = h9112e::parse_one(wire, m.end, kind, c2, m2, why2);
    VERIF_FAIL(t.blame(G_TRAIL), "%zu bytes follow the message (%s); wire='%s'", wire.size() - m.end, st2 == h9112e::OK ? "they parse as a SECOND message" : "not a message", esc(wire, 600).c_str());
  }
  return m;
}

// =============================================================================================== server world
enum Style { ST_REPLY_BUF = 0, ST_REPLY_OUTBUF, ST_REPLY_NOBODY, ST_ERROR, ST_STREAM_INLINE, ST_STREAM_DEFERRED, ST_STREAM_CB, ST_N };
const char *STYLE_NAME[] = {"send_reply(databuf)", "send_reply(output_buffer)", "send_reply(NULL)", "send_error", "start/chunk/end inline", "start/chunk/end deferred", "chunk_with_cb chain"};

struct ServerCase {
  // request written by the harness
  std::string method = "GET"; int ver = 0; bool req_close = false, req_keepalive = false; std::string req_body;
  int req_framing = 0;                      // RQ_NONE / RQ_CL / RQ_CHUNKED: how the request carried its content
  std::vector<std::string> req_chunks; bool req_trailer = false; int req_extra = 0; bool req_conn_caps = false; int req_seg = 0;
  // reply
  int style = 0; int code = 200; bool reason_null = false; std::string reason; bool reason_adv = false;
  std::vector<Hdr> hdrs; std::vector<std::string> chunks; std::string body;
  int ctype_mode = 0; std::string ctype;
  int errcb_mode = 0; std::string errcb_body;
  // run state
  bool bodiless = false;
  Taints t; struct evhttp_request *req = nullptr; size_t next_chunk = 0; bool started = false, ended = false; int cb_runs = 0;
  hw::World *w = nullptr;
};
ServerCase *g_sc;

bool code_bodiless(int code) { return (code >= 100 && code < 200) || code == 204 || code == 304; }

int error_cb(struct evhttp_request *, struct evbuffer *buf, int, const char *, void *arg) {
  ServerCase *c = (ServerCase *)arg;
  if (c->errcb_mode == 2) { evbuffer_add(buf, "ignored", 7); return -1; }
  if (c->errcb_mode == 3) return 0;   // "doesn't output anything to the buffer": the default page is documented to be sent
  evbuffer_add(buf, c->errcb_body.data(), c->errcb_body.size());
  return 0;
}

void send_one_chunk(ServerCase *c, bool with_cb);
void chunk_written_cb(struct evhttp_connection *, void *arg) {
  ServerCase *c = (ServerCase *)arg;
  if (c->ended) return;
  while (c->next_chunk < c->chunks.size() && c->chunks[c->next_chunk].empty()) send_one_chunk(c, false);
  if (c->next_chunk < c->chunks.size()) send_one_chunk(c, true);
  else { c->ended = true; TR("  evhttp_send_reply_end (from chunk cb)"); evhttp_send_reply_end(c->req); c->req = nullptr; }
}
void send_one_chunk(ServerCase *c, bool with_cb) {
  const std::string &d = c->chunks[c->next_chunk++];
  struct evbuffer *b = evbuffer_new(); evbuffer_add(b, d.data(), d.size());
  TR("  evhttp_send_reply_chunk%s(%zu bytes '%s')", with_cb ? "_with_cb" : "", d.size(), esc(d, 60).c_str());
  if (with_cb) evhttp_send_reply_chunk_with_cb(c->req, b, chunk_written_cb, c); else evhttp_send_reply_chunk(c->req, b);
  evbuffer_free(b);
}

void reply_cb(struct evhttp_request *req, void *arg) {
  ServerCase *c = (ServerCase *)arg; c->cb_runs++;
  if (c->cb_runs > 1) { evhttp_send_reply(req, 200, "OK", NULL); return; }
  c->req = req;
  const char *reason = c->reason_null ? NULL : c->reason.c_str();
  add_headers(evhttp_request_get_output_headers(req), c->hdrs, c->t);
  TR("  reply style=%s code=%d reason=%s", STYLE_NAME[c->style], c->code, reason ? ("'" + esc(c->reason) + "'").c_str() : "NULL");
  switch (c->style) {
    case ST_REPLY_BUF: {
      struct evbuffer *b = evbuffer_new(); evbuffer_add(b, c->body.data(), c->body.size());
      evhttp_send_reply(req, c->code, reason, b); evbuffer_free(b); c->req = nullptr; break; }
    case ST_REPLY_OUTBUF:
      evbuffer_add(evhttp_request_get_output_buffer(req), c->body.data(), c->body.size());
      evhttp_send_reply(req, c->code, reason, NULL); c->req = nullptr; break;
    case ST_REPLY_NOBODY: evhttp_send_reply(req, c->code, reason, NULL); c->req = nullptr; break;
    case ST_ERROR: evhttp_send_error(req, c->code, reason); c->req = nullptr; break;
    case ST_STREAM_INLINE:
      evhttp_send_reply_start(req, c->code, reason); c->started = true;
      while (c->next_chunk < c->chunks.size()) send_one_chunk(c, false);
      TR("  evhttp_send_reply_end"); c->ended = true; evhttp_send_reply_end(req); c->req = nullptr; break;
    case ST_STREAM_DEFERRED: evhttp_send_reply_start(req, c->code, reason); c->started = true; break;
    case ST_STREAM_CB:
      evhttp_send_reply_start(req, c->code, reason); c->started = true;
      // the first chunk with a callback must be one the library writes (an empty buffer, or any chunk of a reply that has no
      // body, is ignored and its callback never runs)
      while (c->next_chunk < c->chunks.size() && (c->bodiless || c->chunks[c->next_chunk].empty())) send_one_chunk(c, false);
      if (c->next_chunk < c->chunks.size()) send_one_chunk(c, true); else { c->ended = true; TR("  evhttp_send_reply_end"); evhttp_send_reply_end(req); c->req = nullptr; }
      break;
  }
}

// ---- the request the reply answers: content framing x extra fields x segmentation (all valid HTTP; the reply must not depend on it)
enum { RQ_NONE = 0, RQ_CL, RQ_CHUNKED };
std::string req_content(Src &s, bool nonempty) {
  switch (s.below(7)) {
    case 0: return "abc";
    case 1: return nonempty ? "x" : "";
    case 2: return "0\r\n\r\n";
    case 3: return "5\r\nhello\r\n0\r\n\r\n";
    case 4: return "HTTP/1.1 200 OK\r\nContent-Length: 1\r\n\r\nx";
    case 5: return std::string(1 + s.below(300), 'q');
    default: { size_t n = 1 + s.below(16); return s.bytes(n); }
  }
}
void gen_request(Src &s, ServerCase &c) {
  bool can_body = c.method != "HEAD";     // the only method of this harness the library gives no request content
  int rq = s.below(8);
  if (rq == 0) { c.req_framing = c.req_body.empty() ? RQ_NONE : RQ_CL; }                       // the simple request: "abc" with Content-Length for POST / PUT / PATCH
  else if (rq == 1 || !can_body) { c.req_body.clear(); c.req_framing = RQ_NONE; }                // no content, no framing field
  else if (rq == 2) { c.req_body = req_content(s, false); c.req_framing = RQ_CL; }               // Content-Length (also 0) on any method
  else if (rq == 3 || c.ver >= 2) { c.req_body = req_content(s, true); c.req_framing = RQ_CL; }  // (Transfer-Encoding is HTTP/1.1 only: RFC 9112 6.1)
  else {                                                                                           // chunked: 0-3 chunks, optional trailer section
    c.req_framing = RQ_CHUNKED; c.req_body.clear();
    int n = s.below(4); for (int i = 0; i < n; i++) { c.req_chunks.push_back(req_content(s, true)); c.req_body += c.req_chunks.back(); }
    c.req_trailer = s.flag();
  }
  c.req_extra = s.below(8);        // bit 0: Content-Type, bit 1: Date + Server, bit 2: Accept + a name replies use (none may show up in the reply)
  c.req_conn_caps = s.flag();      // "Close" / "Keep-Alive" instead of the lower-case option
  c.req_seg = s.below(4);          // 0: one write, 1: header section | content, 2: cut at a drawn offset, 3: header section, every chunk, last-chunk separately
}
// the pieces of the request: [0] = request line + header section, then the content (one piece per chunk + the last-chunk / trailer piece)
std::vector<std::string> request_pieces(const ServerCase &c) {
  std::vector<std::string> p;
  std::string h = c.method + " /x HTTP/1." + (c.ver >= 2 ? "0" : "1") + "\r\nHost: a\r\n";
  if (c.req_extra & 1) h += "Content-Type: text/from-request\r\n";
  if (c.req_close) h += c.req_conn_caps ? "Connection: Close\r\n" : "Connection: close\r\n";
  if (c.req_keepalive) h += c.req_conn_caps ? "Connection: Keep-Alive\r\n" : "Connection: keep-alive\r\n";
  if (c.req_extra & 2) h += "Date: Monday, 01-Jan-01 00:00:00 GMT\r\nServer: from-request\r\n";   // (obsolete RFC 850 form: would not pass for an automatic Date)
  if (c.req_framing == RQ_CL) h += "Content-Length: " + std::to_string(c.req_body.size()) + "\r\n";
  if (c.req_framing == RQ_CHUNKED) h += "Transfer-Encoding: chunked\r\n";
  if (c.req_extra & 4) h += "Accept: */*\r\nX-A: from-request\r\n";
  h += "\r\n"; p.push_back(h);
  if (c.req_framing == RQ_CL) p.push_back(c.req_body);
  if (c.req_framing == RQ_CHUNKED) {
    for (auto &x : c.req_chunks) { char sz[32]; snprintf(sz, sizeof sz, "%zx\r\n", x.size()); p.push_back(sz + x + "\r\n"); }
    p.push_back(std::string("0\r\n") + (c.req_trailer ? "X-Trailer: from-request\r\n" : "") + "\r\n");
  }
  return p;
}

void run_server(Src &s) {
  ServerCase c; g_sc = &c;
  static const char *METHODS[] = {"GET", "HEAD", "POST", "GET", "PUT", "DELETE", "OPTIONS", "PATCH"};
  c.method = METHODS[s.below(8)];
  c.ver = s.below(4);   // 0: 1.1  1: 1.1 + close  2: 1.0  3: 1.0 + keep-alive
  c.req_close = c.ver == 1; c.req_keepalive = c.ver == 3;
  if (c.method == "POST" || c.method == "PUT" || c.method == "PATCH") c.req_body = "abc";
  c.style = s.below(ST_N);
  static const int CODES[] = {200, 404, 204, 304, 201, 206, 301, 400, 500, 503, 100, 102, 199, 299, 599, 205};
  c.code = CODES[s.below(16)];
  switch (s.below(4)) {
    case 0: c.reason = "OK"; break;
    case 1: c.reason_null = true; break;
    default: { static const char *R[] = {"OK", "Not Found", "", "Custom reason with words", "r\xe9sum\xe9"};
      Arg a = adversarial(s, R[s.below(5)], 5); c.reason = a.v; c.reason_adv = a.adv;
      if (!reason_ok(c.reason) && avoid(K_REASON)) c.reason = fix_reason(c.reason);
      break; }
  }
  gen_headers(s, c.hdrs, c.t, 3);
  // body / chunks
  bool streaming = c.style == ST_STREAM_INLINE || c.style == ST_STREAM_DEFERRED || c.style == ST_STREAM_CB;
  if (streaming) { int n = s.below(4); for (int i = 0; i < n; i++) c.chunks.push_back(body_bytes(s)); for (auto &x : c.chunks) c.body += x; }
  else if (c.style == ST_REPLY_BUF || c.style == ST_REPLY_OUTBUF) c.body = body_bytes(s);
  // server configuration
  c.ctype_mode = s.below(4);
  if (c.ctype_mode == 2) c.ctype = "application/x-test";
  if (c.ctype_mode == 3) { Arg a = adversarial(s, "text/x", 6); c.ctype = a.v; if (value_run_subdomain(c.ctype) && avoid(K_VALUE)) c.ctype = fix_value(c.ctype); }
  if (c.style == ST_ERROR) { c.errcb_mode = s.below(4); if (c.errcb_mode == 1) { c.errcb_body = body_bytes(s); if (c.errcb_body.empty()) c.errcb_body = "custom error page"; } }
  // valid caller-supplied framing / automatic names
  int own = s.below(8);
  bool bodiless = c.method == "HEAD" || code_bodiless(c.code);
  if (own == 1) { Hdr h; h.name = "Content-Type"; h.value = "text/own"; c.hdrs.push_back(h); }
  else if (own == 2) { Hdr h; h.name = "Date"; h.value = "Sun, 06 Nov 1994 08:49:37 GMT"; c.hdrs.push_back(h); }
  else if (own == 3 && c.style != ST_ERROR && !bodiless) { Hdr h; h.name = s.flag() ? "Content-Length" : "content-length"; h.value = std::to_string(c.body.size()); c.hdrs.push_back(h); }
  else if (own == 4 && !c.req_close && c.ver != 3) { Hdr h; h.name = "Connection"; h.value = "close"; c.hdrs.push_back(h); }
  gen_request(s, c);   // drawn last: an input that ends here decodes to the simple request (most benign draws)

  // ---- exclusion by construction of listed findings
  if (bodiless && (c.style == ST_REPLY_BUF || c.style == ST_REPLY_OUTBUF) && !c.body.empty() && avoid(K_BODILESS)) c.body.clear();
  if (bodiless && c.style == ST_ERROR && avoid(K_BODILESS)) { c.style = ST_REPLY_NOBODY; }
  bool own_cl = false; for (auto &h : c.hdrs) if (h9112::lower(h.name) == "content-length") own_cl = true;
  if (streaming && c.ver == 3 && !bodiless && !own_cl && !c.body.empty() && avoid(K_STREAM10)) { c.ver = 2; c.req_keepalive = false; }
  bodiless = c.method == "HEAD" || code_bodiless(c.code);
  streaming = c.style == ST_STREAM_INLINE || c.style == ST_STREAM_DEFERRED || c.style == ST_STREAM_CB;
  c.bodiless = bodiless;
  // taints known before running
  if (!c.reason_null && !reason_ok(c.reason)) c.t.add(K_REASON);
  if (bodiless && (c.style == ST_REPLY_BUF || c.style == ST_REPLY_OUTBUF) && !c.body.empty()) c.t.add(K_BODILESS);
  if (bodiless && c.style == ST_ERROR) c.t.add(K_BODILESS);
  if (streaming && c.ver == 3 && !bodiless && !own_cl && !c.body.empty()) c.t.add(K_STREAM10);
  if (c.ctype_mode == 3 && value_run_subdomain(c.ctype)) c.t.add(K_VALUE);   // (any other invalid one is dropped by the library; if not, a generic clause reports it)

  hw::World w; c.w = &w; w.backend = 0;
  w.open();
  evhttp_set_gencb(w.http, reply_cb, &c);
  if (c.ctype_mode == 1) evhttp_set_default_content_type(w.http, NULL);
  else if (c.ctype_mode >= 2) evhttp_set_default_content_type(w.http, c.ctype.c_str());
  if (c.errcb_mode) evhttp_set_errorcb(w.http, error_cb, &c);
  w.connect_client();
  std::vector<std::string> pieces = request_pieces(c), segs;
  std::string rq; for (auto &x : pieces) rq += x;
  if (c.req_seg == 1) { segs.push_back(pieces[0]); segs.push_back(rq.substr(pieces[0].size())); }
  else if (c.req_seg == 2) { size_t cut = 1 + s.below((uint32_t)rq.size() - 1); segs.push_back(rq.substr(0, cut)); segs.push_back(rq.substr(cut)); }
  else if (c.req_seg == 3) segs = pieces;
  else segs.push_back(rq);
  TR("server world: request '%s' (framing %d, %zu segments) ctype_mode=%d ctype='%s' errcb=%d", esc(rq, 500).c_str(), c.req_framing, segs.size(), c.ctype_mode, esc(c.ctype).c_str(), c.errcb_mode);
  int nseg = 0;
  for (auto &x : segs) if (!x.empty()) { if (nseg++) CHECK(c.cb_runs == 0, "harness/request-delivered-early", "request callback ran before the request was complete"); w.send_segment(x.data(), x.size()); }
  CHECK(c.cb_runs == 1, "harness/request-not-delivered", "request callback ran %d times; response so far '%s'", c.cb_runs, esc(w.resp).c_str());
  if (c.style == ST_STREAM_DEFERRED) {
    while (c.next_chunk < c.chunks.size()) { send_one_chunk(&c, false); if (s.flag()) w.pump(); }
    TR("  evhttp_send_reply_end"); c.ended = true; evhttp_send_reply_end(c.req); c.req = nullptr;
    w.pump();
  }
  for (int i = 0; i < 6 && !c.ended && c.style == ST_STREAM_CB; i++) w.pump();
  if (c.style == ST_STREAM_CB) CHECK(c.ended, "harness/chunk-cb-chain-stalled", "chunk callback chain did not finish (next=%zu of %zu)", c.next_chunk, c.chunks.size());
  w.pump();
  const std::string wire = w.resp; bool eof = w.peer_closed;
  TR("wire (%zu bytes, eof=%d): '%s'", wire.size(), (int)eof, esc(wire, 1200).c_str());

  // ---- oracle
  h9112e::Ctx ctx; ctx.head = c.method == "HEAD"; ctx.eof = eof;
  Msg m = parse_single(wire, h9112e::RESPONSE, ctx, c.t);
  if (m.status != c.code || m.major != 1 || m.minor > 1) VERIF_FAIL(c.t.blame(G_START), "status line carries HTTP/%d.%d %d, supplied code %d; wire='%s'", m.major, m.minor, m.status, c.code, esc(wire, 400).c_str());
  if (!c.reason_null && reason_ok(c.reason) && m.reason != c.reason) VERIF_FAIL(c.t.blame(G_START), "reason phrase '%s' differs from the supplied '%s'", esc(m.reason).c_str(), esc(c.reason).c_str());
  if (c.ver >= 2) for (auto &f : m.fields) if (h9112::lower(f.name) == "transfer-encoding") VERIF_FAIL(c.t.blame(G_TE10), "Transfer-Encoding sent in reply to an HTTP/1.0 request; wire='%s'", esc(wire, 400).c_str());
  AutoSpec au; au.date = au.cl = au.te = au.conn = true;
  if (c.style == ST_ERROR) { au.ct = true; au.ct_value = "text/html"; au.supplied_optional = true; }
  else if (c.ctype_mode == 0) { au.ct = true; au.ct_value = "text/html; charset=ISO-8859-1"; }
  else if (c.ctype_mode >= 2) { au.ct = true; au.ct_value = h9112e::unfold(c.ctype); }   // (an invalid one may be dropped or, if it gets through, the wire decides: tainted)
  au.supplied_connection_optional = c.req_close;
  check_fields(m, c.hdrs, au, c.t, wire);
  // body
  std::string want_body;
  if (bodiless) want_body = "";
  else if (c.style == ST_ERROR) want_body = c.errcb_mode == 1 ? c.errcb_body : m.body;   // the default page is library text: only its framing is checked
  else want_body = c.body;
  if (m.body != want_body) VERIF_FAIL(c.t.blame(G_BODY), "body on the wire (%zu bytes '%s') differs from the supplied one (%zu bytes '%s'); wire='%s'", m.body.size(), esc(m.body, 80).c_str(), want_body.size(), esc(want_body, 80).c_str(), esc(wire, 600).c_str());
  // errcb_mode 3 (callback returns 0 and writes nothing): the property only asks for the supplied body, which is empty; the documented
  // fallback to the default page is not part of C26 (DESIGN.md §9/§10), so either outcome is accepted there
  if (c.style == ST_ERROR && !bodiless && c.errcb_mode != 1 && c.errcb_mode != 3) CHECK(!m.body.empty(), c.t.blame(G_BODY), "evhttp_send_error sent no error page (errorcb mode %d); wire='%s'", c.errcb_mode, esc(wire, 400).c_str());
  if (m.framing == h9112e::FR_CHUNKED) {
    std::vector<std::string> want; for (auto &x : c.chunks) if (!x.empty()) want.push_back(x);
    bool same = want.size() == m.chunks.size(); for (size_t i = 0; same && i < want.size(); i++) same = want[i] == m.chunks[i];
    if (!same) VERIF_FAIL(c.t.blame(G_CHUNKS), "chunked reply de-chunks to %zu chunks, %zu non-empty chunks were supplied; wire='%s'", m.chunks.size(), want.size(), esc(wire, 600).c_str());
    CHECK(m.trailers.empty(), c.t.blame(G_EXTRA), "trailer fields nobody supplied; wire='%s'", esc(wire, 600).c_str());
  }
  // classes + non-trivial
  verif_class("server"); verif_class(STYLE_NAME[c.style]);
  if (m.framing == h9112e::FR_CHUNKED) verif_class(m.chunks.size() >= 2 ? "chunked_multi" : "chunked");
  if (m.framing == h9112e::FR_CLOSE) verif_class("close_delimited");
  if (bodiless) verif_class("bodiless");
  if (m.grammar_only) verif_class("grammar_only_deviation");
  bool adv_seen = c.reason_adv || c.ctype_mode == 3; for (auto &h : c.hdrs) if (!h.benign) adv_seen = true;
  bool lb_seen = (!c.reason_null && has_crlf(c.reason)) || (c.ctype_mode == 3 && has_crlf(c.ctype)); for (auto &h : c.hdrs) if (structural(h)) lb_seen = true;
  for (auto &f : m.fields) if (f.folded) verif_class("obs_fold_emitted");
  if (adv_seen) verif_class("adversarial_argument");
  if (lb_seen) verif_class("structural_argument");
  if (c.req_framing == RQ_CHUNKED) verif_class(c.req_trailer ? "request_chunked_with_trailer" : "request_chunked");
  if (c.req_framing == RQ_CL) verif_class("request_content_length");
  if (nseg > 1) verif_class("request_in_segments");
  // the request arrived chunked and the streamed reply had to go out unchunked (own Content-Length, body-less status)
  bool framing_crossed = c.req_framing == RQ_CHUNKED && streaming && m.framing != h9112e::FR_CHUNKED;
  if (framing_crossed) verif_class("request_chunked_streamed_reply_not_chunked");
  if (c.req_framing == RQ_CHUNKED && m.framing == h9112e::FR_CHUNKED) verif_class("request_chunked_reply_chunked");
  bool nontrivial = lb_seen || (m.framing == h9112e::FR_CHUNKED && !m.chunks.empty()) || framing_crossed;
  w.close_client(); w.close_world();
  w.check_no_leak("C26/leak", "C26/fd-leak");
  g_sc = nullptr;
  verif_case_end(nontrivial, s.h);
}

// =============================================================================================== client world
int client_ext_method_cb(struct evhttp_ext_method *m) { return hw::ext_method_cb(m); }

void run_client(Src &s) {
  Taints t;
  struct M { uint32_t type; const char *name; bool has_body; };
  static const M METHODS[] = {
    {EVHTTP_REQ_GET, "GET", true}, {EVHTTP_REQ_POST, "POST", true}, {EVHTTP_REQ_HEAD, "HEAD", false}, {EVHTTP_REQ_PUT, "PUT", true},
    {EVHTTP_REQ_DELETE, "DELETE", true}, {EVHTTP_REQ_OPTIONS, "OPTIONS", true}, {EVHTTP_REQ_TRACE, "TRACE", false}, {EVHTTP_REQ_CONNECT, "CONNECT", true},
    {EVHTTP_REQ_PATCH, "PATCH", true}, {EVHTTP_REQ_PROPFIND, "PROPFIND", true}, {EVHTTP_REQ_MKCOL, "MKCOL", true}, {EVHTTP_REQ_MOVE, "MOVE", true},
    {hw::EXT_PURGE, "PURGE", true}, {hw::EXT_MSEARCH, "M-SEARCH", false},
  };
  const M &me = METHODS[s.below(14)];
  int ver = s.below(3);   // 0: not set (library default 1.1), 1: 1.1, 2: 1.0
  static const char *URIS[] = {"/", "/a/b?x=1&y=2", "*", "http://example.com/p", "example.com:443", "/%0d%0a", "/caf\xc3\xa9"};
  Arg uri = adversarial(s, URIS[s.below(7)], 5);
  if (uri.adv && s.below(8) == 7) uri.v = "";
  if (target_sp_only(uri.v)) { if (avoid(K_TARGET_SP)) uri.v = fix_target(uri.v); }
  else if (!target_ok(uri.v) && avoid(K_TARGET)) uri.v = fix_target(uri.v);
  if (!target_ok(uri.v)) t.add(target_sp_only(uri.v) ? K_TARGET_SP : K_TARGET);   // first: a broken request line is what the reference parser reports first
  std::vector<Hdr> hdrs; { Hdr h; h.name = "Host"; h.value = "example.com"; hdrs.push_back(h); }
  gen_headers(s, hdrs, t, 3);
  std::string body = s.below(2) ? body_bytes(s) : "";
  int own = s.below(6);
  if (own == 1 && me.has_body) { Hdr h; h.name = s.flag() ? "Content-Length" : "content-length"; h.value = std::to_string(body.size()); hdrs.push_back(h); }
  if (!me.has_body && !body.empty() && avoid(K_REQBODY)) body.clear();
  if (!me.has_body && !body.empty()) t.add(K_REQBODY);

  hc::World w; w.prop = "C26"; w.backend = 0;
  w.open_base(); w.open_pair();
  evhttp_connection_set_ext_method_cmp(w.evcon, client_ext_method_cb);
  hc::ReqRec *rec = w.new_rec();
  struct evhttp_request *req = evhttp_request_new(hc::World::done_cb, rec);
  CHECK(req != nullptr, "harness/request-new", "evhttp_request_new failed");
  rec->req = req;
  if (ver == 1) { req->major = 1; req->minor = 1; } else if (ver == 2) { req->major = 1; req->minor = 0; }
  TR("client world: %s uri='%s' ver=%d body=%zu '%s'", me.name, esc(uri.v).c_str(), ver, body.size(), esc(body, 60).c_str());
  add_headers(evhttp_request_get_output_headers(req), hdrs, t);
  if (!body.empty()) evbuffer_add(evhttp_request_get_output_buffer(req), body.data(), body.size());
  int rc = evhttp_make_request(w.evcon, req, (enum evhttp_cmd_type)me.type, uri.v.c_str());
  TR("  evhttp_make_request = %d", rc);
  if (rc != 0) rec->req = nullptr;   // freed by the library
  w.pump();
  const std::string wire = w.req_in;
  TR("wire (%zu bytes): '%s'", wire.size(), esc(wire, 1200).c_str());
  bool nontrivial = false;
  if (rc != 0) {
    CHECK(rc == -1, "C26/make-request-return-value", "evhttp_make_request returned %d", rc);
    CHECK(wire.empty(), G_REJECTED, "evhttp_make_request failed but wrote '%s'", esc(wire, 300).c_str());
    if (!uri.adv && uri.v.size()) VERIF_FAIL(G_VALIDREJ, "evhttp_make_request refused the valid target '%s'", esc(uri.v).c_str());
    verif_class("request_rejected"); nontrivial = true;
  } else {
    h9112e::Ctx ctx;
    Msg m = parse_single(wire, h9112e::REQUEST, ctx, t);
    int want_minor = ver == 2 ? 0 : 1;
    if (m.method != me.name || m.target != uri.v || m.major != 1 || m.minor != want_minor)
      VERIF_FAIL(t.blame(G_START), "request line carries '%s' '%s' HTTP/%d.%d, supplied '%s' '%s' HTTP/1.%d; wire='%s'", esc(m.method).c_str(), esc(m.target).c_str(), m.major, m.minor, me.name, esc(uri.v).c_str(), want_minor, esc(wire, 400).c_str());
    AutoSpec au; au.cl = true;
    check_fields(m, hdrs, au, t, wire);
    if (m.body != body) VERIF_FAIL(t.blame(G_BODY), "body on the wire (%zu bytes '%s') differs from the supplied one (%zu bytes '%s'); wire='%s'", m.body.size(), esc(m.body, 80).c_str(), body.size(), esc(body, 80).c_str(), esc(wire, 600).c_str());
    bool adv_seen = uri.adv; for (auto &h : hdrs) if (!h.benign) adv_seen = true;
    bool lb_seen = !target_ok(uri.v); for (auto &h : hdrs) if (structural(h)) lb_seen = true;
    if (adv_seen) verif_class("adversarial_argument");
    if (lb_seen) verif_class("structural_argument");
    if (m.grammar_only) verif_class("grammar_only_deviation");
    for (auto &f : m.fields) if (f.folded) verif_class("obs_fold_emitted");
    if (has_crlf(uri.v)) verif_class("crlf_argument_accepted");
    nontrivial = lb_seen;
  }
  verif_class("client"); verif_class(me.name);
  w.close_world();
  w.check_no_leak("C26/leak", "C26/fd-leak");
  verif_case_end(nontrivial, s.h);
}

}  // namespace

extern "C" int LLVMFuzzerInitialize(int *, char ***) { sim_mem_install(); signal(SIGPIPE, SIG_IGN); return 0; }

extern "C" int LLVMFuzzerTestOneInput(const uint8_t *data, size_t size) {
  sim_reset();
  verif_case_begin("C26");
  Src s(data, size);
  if (s.below(3) == 2) run_client(s); else run_server(s);
  return 0;
}
