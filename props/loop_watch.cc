// C45 — prepare/check watchers run exactly once per loop iteration around the backend wait.
// History over <= 6 watcher slots (prepare or check) and 4 events (3 one-shot timers + one persistent pipe-read event)
// on one base under the harness-owned virtual clock.  Watchers are created and freed at top level and from inside
// prepare callbacks, check callbacks and event callbacks (self, next / previous in registration order, any other).
// Preconditions respected: no use of a watcher after evwatch_free; watchers still registered at the end are left to
// event_base_free (documented); events are freed before the base.
//
// Oracle (stage machine driven by the three observation points: watcher callbacks, the intercepted wait, event callbacks):
//   * a prepare callback may only run between the end of the previous iteration and the wait of its own iteration;
//     nothing else (check / event callback, loop return) may come between a prepare callback and that wait
//   * at the wait every live prepare watcher has run exactly once in this iteration (a watcher registered from inside a
//     prepare callback of the same iteration may or may not run in it: documentation silent, both accepted)
//   * evwatch_prepare_get_timeout: 1 + the very timeout the wait receives, 0 iff the wait is infinite
//   * a check callback may only run after the wait and before the first event callback of that iteration; when the first
//     event callback runs (or the next iteration begins, or the loop returns) every live check watcher has run exactly once
//   * callbacks of one kind come in registration order; a freed watcher never runs; pointer / base passed are the registered ones
#include "verif.h"
#include "sim.h"
#include <event2/event.h>
#include <event2/watch.h>
#include <fcntl.h>
#include <unistd.h>

namespace {
const char *KEY_SELF_FREE = "asan:heap-use-after-free@event_base_loop";
enum Stage { S_TOP, S_PREP, S_WAITED, S_CHECK, S_CB };
const char *STAGE[] = {"top", "prepare", "waited", "check", "callbacks"};
enum { T_PREP = 0, T_CHECK = 1 };
const int MAXW = 6, MAXE = 4, PIPE_EV = 3;
struct MW { struct evwatch *w = nullptr; int type = 0; uint64_t reg = 0; uint32_t gen = 0; uint64_t optional_iter = 0; uint64_t run_iter = 0; };
struct World {
  Src *s; struct event_base *base; MW w[MAXW]; struct event *e[MAXE]; int pfd[2];
  Stage stage = S_TOP; bool in_loop = false; uint64_t iter = 0, reg_counter = 0, last_reg = 0; uint32_t gen_counter = 0;
  bool have_report = false; int64_t rep_us = 0;
  int running = -1;             // slot of the watcher whose callback is on the stack (-1: none)
  int actions_left = 40, waits_this_turn = 0, pipe_bytes = 0;
  bool iter_had_prep = false, iter_had_check = false;
  // statistics
  int full_iters = 0, mut_in_cb = 0, n_free_next = 0, n_free_prev = 0, n_free_other = 0, n_new_in_cb = 0, n_self_free = 0, n_event_cb = 0, n_infinite = 0, n_iter_nocb = 0, n_finite_report = 0;
  bool iter_saw_cb = false, narrowed = false;
};
World *W;

const int64_t DURS[] = {0, 1, 999, 1000, 1500, 20000, 1000000, 3000000};
void *arg_of(int slot, uint32_t gen) { return (void *)(intptr_t)(((uint64_t)gen << 8) | (uint64_t)slot); }

void end_check_phase(const char *why) {
  for (int i = 0; i < MAXW; i++) { MW &m = W->w[i];
    if (m.w && m.type == T_CHECK && m.run_iter != W->iter)
      CHECK(m.optional_iter == W->iter, "C45/check-skipped", "%s: live check watcher w%d (registration #%llu) did not run in iteration %llu", why, i, (unsigned long long)m.reg, (unsigned long long)W->iter);
  }
  if (W->iter_had_prep && W->iter_had_check) W->full_iters++;
}
void begin_iteration(const char *why) {
  if (W->stage == S_WAITED || W->stage == S_CHECK) { end_check_phase(why); if (!W->iter_saw_cb) W->n_iter_nocb++; }
  W->iter++; W->last_reg = 0; W->have_report = false; W->iter_had_prep = W->iter_had_check = false; W->iter_saw_cb = false;
}

void cb_prepare(struct evwatch *, const struct evwatch_prepare_cb_info *, void *);
void cb_check(struct evwatch *, const struct evwatch_check_cb_info *, void *);
void cb_event(evutil_socket_t, short, void *);

void do_new(int slot, int type, const char *ctx) {
  MW &m = W->w[slot]; if (m.w) return;
  m = MW(); m.type = type; m.reg = ++W->reg_counter; m.gen = ++W->gen_counter;
  // registered from inside a callback of the same kind: may or may not be visited by the walk in progress
  if ((type == T_PREP && W->stage == S_PREP) || (type == T_CHECK && W->stage == S_CHECK)) m.optional_iter = W->iter;
  m.w = type == T_PREP ? evwatch_prepare_new(W->base, cb_prepare, arg_of(slot, m.gen)) : evwatch_check_new(W->base, cb_check, arg_of(slot, m.gen));
  TR("%snew %s watcher w%d (registration #%llu)", ctx, type == T_PREP ? "prepare" : "check", slot, (unsigned long long)m.reg);
  CHECK(m.w != nullptr, "C45/new-failed", "evwatch_%s_new returned NULL", type == T_PREP ? "prepare" : "check");
  CHECK(evwatch_base(m.w) == W->base, "C45/wrong-base", "evwatch_base() differs from the base the watcher was registered on");
  if (W->in_loop) { W->n_new_in_cb++; W->mut_in_cb++; }
}
void do_free(int slot, const char *ctx) {
  MW &m = W->w[slot]; if (!m.w) return;
  if (slot == W->running && verif_known(KEY_SELF_FREE)) { if (!W->narrowed) { W->narrowed = true; verif_known_skipped(KEY_SELF_FREE); } TR("%s(self-free of w%d skipped: known finding)", ctx, slot); return; }
  TR("%sfree w%d%s", ctx, slot, slot == W->running ? " (SELF)" : "");
  if (slot == W->running) W->n_self_free++;
  if (W->in_loop) W->mut_in_cb++;
  evwatch_free(m.w); m.w = nullptr;
}
// neighbour of `slot` among live watchers of the same kind, by registration order (dir = +1 next, -1 previous); -1 if none
int neighbour(int slot, int dir) {
  MW &me = W->w[slot]; int best = -1;
  for (int i = 0; i < MAXW; i++) { MW &o = W->w[i]; if (!o.w || i == slot || o.type != me.type) continue;
    if (dir > 0 ? o.reg > me.reg : o.reg < me.reg) { if (best < 0 || (dir > 0 ? o.reg < W->w[best].reg : o.reg > W->w[best].reg)) best = i; } }
  return best;
}
void add_timer(int k, const char *ctx) {
  int64_t d = DURS[W->s->below(sizeof DURS / sizeof DURS[0])];
  if (!W->e[k]) W->e[k] = event_new(W->base, -1, 0, cb_event, (void *)(intptr_t)k);
  struct timeval tv; tv.tv_sec = d / 1000000; tv.tv_usec = d % 1000000;
  int r = event_add(W->e[k], &tv); TR("%sadd timer e%d dur=%lld -> %d", ctx, k, (long long)d, r);
  CHECK(r == 0, "C45/add-failed", "event_add=%d", r);
}
void poke_pipe(const char *ctx) { if (W->pfd[1] >= 0 && W->pipe_bytes < 8) { char c = 'x'; if (write(W->pfd[1], &c, 1) == 1) W->pipe_bytes++; TR("%swrite 1 byte to pipe", ctx); } }

// generated action from inside a callback; self = slot of the running watcher or -1 in an event callback
void act(int self) {
  if (W->actions_left <= 0) return;
  W->actions_left--;
  Src &s = *W->s; const char *ctx = "    in-cb ";
  switch (s.below(12)) {
    case 1: if (self >= 0) do_free(self, ctx); break;
    case 2: { int j = s.below(MAXW); if (self >= 0 && W->w[j].w && j != self) W->n_free_other++; do_free(j, ctx); break; }
    case 3: if (self >= 0) { int j = neighbour(self, +1); if (j >= 0) { W->n_free_next++; do_free(j, ctx); } } break;
    case 4: if (self >= 0) { int j = neighbour(self, -1); if (j >= 0) { W->n_free_prev++; do_free(j, ctx); } } break;
    case 5: case 6: { int j = s.below(MAXW); do_new(j, s.below(2), ctx); break; }
    case 7: add_timer(s.below(3), ctx); break;
    case 8: { int k = s.below(3); if (W->e[k]) { TR("%sactive e%d", ctx, k); event_active(W->e[k], EV_READ, 1); } break; }
    case 9: poke_pipe(ctx); break;
    case 10: if (self >= 0) { /* free self AND register a replacement in the same callback */ int j = s.below(MAXW); int t = W->w[self].type; do_free(self, ctx); do_new(j, t, ctx); } break;
    default: break;
  }
}

MW &identify(void *arg, struct evwatch *watcher, int type, int *slot_out) {
  uint64_t v = (uint64_t)(intptr_t)arg; int slot = (int)(v & 0xff); uint32_t gen = (uint32_t)(v >> 8);
  CHECK(slot < MAXW, "C45/bad-arg", "callback argument %llx is not one the harness registered", (unsigned long long)v);
  MW &m = W->w[slot];
  CHECK(m.w && m.gen == gen && m.type == type, "C45/ran-after-free", "%s callback ran for watcher w%d generation %u which has been freed", type == T_PREP ? "prepare" : "check", slot, gen);
  CHECK(watcher == m.w, "C45/wrong-watcher-pointer", "callback for w%d received a different evwatch pointer", slot);
  CHECK(W->in_loop, "C45/outside-loop", "watcher w%d ran outside event_base_loop", slot);
  *slot_out = slot; return m;
}

void cb_prepare(struct evwatch *watcher, const struct evwatch_prepare_cb_info *info, void *arg) {
  int slot; MW &m = identify(arg, watcher, T_PREP, &slot);
  if (W->stage != S_PREP) { begin_iteration("next prepare phase began"); W->stage = S_PREP; }
  struct timeval tv = {-7, -7}; int r = evwatch_prepare_get_timeout(info, &tv);
  int64_t us = r ? (int64_t)tv.tv_sec * 1000000 + tv.tv_usec : -1;
  TR("  prepare w%d iter=%llu timeout=%lld", slot, (unsigned long long)W->iter, (long long)us);
  CHECK(m.run_iter != W->iter, "C45/ran-twice", "prepare watcher w%d ran twice in iteration %llu", slot, (unsigned long long)W->iter);
  CHECK(m.reg > W->last_reg, "C45/order", "prepare watcher w%d (registration #%llu) ran after #%llu", slot, (unsigned long long)m.reg, (unsigned long long)W->last_reg);
  m.run_iter = W->iter; W->last_reg = m.reg; W->iter_had_prep = true;
  CHECK(r == 0 || (r == 1 && tv.tv_sec >= 0 && tv.tv_usec >= 0 && tv.tv_usec < 1000000), "C45/timeout-malformed", "evwatch_prepare_get_timeout=%d tv={%lld,%lld}", r, (long long)tv.tv_sec, (long long)tv.tv_usec);
  if (r == 0) CHECK(tv.tv_sec == -7 && tv.tv_usec == -7, "C45/timeout-written-on-0", "evwatch_prepare_get_timeout returned 0 but wrote *timeout");
  if (W->have_report) CHECK(us == W->rep_us, "C45/timeout-inconsistent", "prepare watchers of one iteration saw different timeouts: %lld vs %lld", (long long)us, (long long)W->rep_us);
  W->have_report = true; W->rep_us = us;
  int prev = W->running; W->running = slot; act(slot); W->running = prev;
}

void cb_check(struct evwatch *watcher, const struct evwatch_check_cb_info *, void *arg) {
  int slot; MW &m = identify(arg, watcher, T_CHECK, &slot);
  TR("  check w%d iter=%llu stage=%s", slot, (unsigned long long)W->iter, STAGE[W->stage]);
  CHECK(W->stage == S_WAITED || W->stage == S_CHECK, "C45/check-misplaced", "check watcher w%d ran in stage '%s' (must be after the wait and before event callbacks)", slot, STAGE[W->stage]);
  if (W->stage == S_WAITED) W->last_reg = 0;
  W->stage = S_CHECK;
  CHECK(m.run_iter != W->iter, "C45/ran-twice", "check watcher w%d ran twice in iteration %llu", slot, (unsigned long long)W->iter);
  CHECK(m.reg > W->last_reg, "C45/order", "check watcher w%d (registration #%llu) ran after #%llu", slot, (unsigned long long)m.reg, (unsigned long long)W->last_reg);
  m.run_iter = W->iter; W->last_reg = m.reg; W->iter_had_check = true;
  int prev = W->running; W->running = slot; act(slot); W->running = prev;
}

void cb_event(evutil_socket_t fd, short what, void *arg) {
  int k = (int)(intptr_t)arg;
  TR("  event cb e%d what=0x%x stage=%s", k, what, STAGE[W->stage]);
  CHECK(W->in_loop, "C45/outside-loop", "event callback outside event_base_loop");
  if (W->stage == S_WAITED || W->stage == S_CHECK) { end_check_phase("first event callback of the iteration"); W->stage = S_CB; }
  else CHECK(W->stage == S_CB, "C45/callback-misplaced", "event callback e%d ran in stage '%s' (between a prepare watcher and the wait, or before any wait)", k, STAGE[W->stage]);
  W->iter_saw_cb = true; W->n_event_cb++;
  if (k == PIPE_EV) { char buf[16]; ssize_t n = read(fd, buf, sizeof buf); if (n > 0) W->pipe_bytes -= (int)n; }
  int prev = W->running; W->running = -1; act(-1); W->running = prev;
}

int64_t wait_hook(const struct sim_wait_info *wi, void *) {
  Src &s = *W->s;
  CHECK(W->in_loop, "C45/outside-loop", "backend wait outside event_base_loop");
  if (W->stage != S_PREP) begin_iteration("next wait began");
  for (int i = 0; i < MAXW; i++) { MW &m = W->w[i];
    if (m.w && m.type == T_PREP && m.run_iter != W->iter)
      CHECK(m.optional_iter == W->iter, "C45/prepare-skipped", "backend wait #%llu entered but live prepare watcher w%d (registration #%llu) has not run in this iteration", (unsigned long long)wi->ordinal, i, (unsigned long long)m.reg);
  }
  int64_t req = wi->timeout_us;
  if (W->have_report) {
    int64_t expect = W->rep_us;
    if (expect > 0 && wi->kind == SIM_WAIT_POLL) expect = (expect + 999) / 1000 * 1000;   // poll(2) takes milliseconds, rounded up
    CHECK(req == expect, "C45/timeout-mismatch", "prepare watchers were told timeout %lld us but the backend wait received %lld us", (long long)W->rep_us, (long long)req);
    if (W->rep_us > 0) W->n_finite_report++;
  }
  W->stage = S_WAITED; W->waits_this_turn++;
  if (W->waits_this_turn > 12) { event_base_loopbreak(W->base); }   // bound the turn (documented: the loop stops after the current iteration's running callback)
  if (req < 0) { W->n_infinite++; TR("  wait#%llu infinite nready=%d%s", (unsigned long long)wi->ordinal, wi->nready, wi->nready <= 0 ? " -> loopbreak" : ""); if (wi->nready <= 0) event_base_loopbreak(W->base); return 0; }
  int64_t adv = req;
  switch (s.below(4)) { case 1: adv = req / 2; break; case 2: adv = req + 1000; break; case 3: adv = req + 2000000; break; default: break; }
  TR("  wait#%llu req=%lld adv=%lld nready=%d", (unsigned long long)wi->ordinal, (long long)req, (long long)adv, wi->nready);
  return adv;
}
}  // namespace

extern "C" int LLVMFuzzerInitialize(int *, char ***) { sim_mem_install(); return 0; }

extern "C" int LLVMFuzzerTestOneInput(const uint8_t *data, size_t size) {
  sim_reset();
  verif_case_begin("C45");
  Src s(data, size);
  World w; W = &w; w.s = &s; memset(w.e, 0, sizeof w.e);
  int64_t live0 = sim_mem_live_blocks;
  sim_clock_enable(SIM_START_US + s.below(1000000));
  sim_set_wait_hook(wait_hook, nullptr);
  sim_set_wait_limit(2000);
  struct event_config *cfg = event_config_new();
  int backend = s.below(4);
  static const char *AVOID[][3] = {{nullptr}, {nullptr}, {"epoll", nullptr}, {"epoll", "poll", nullptr}};
  for (int k = 0; AVOID[backend][k]; k++) event_config_avoid_method(cfg, AVOID[backend][k]);
  int flags = 0;
  if (backend == 1) flags |= EVENT_BASE_FLAG_EPOLL_USE_CHANGELIST;
  if (s.flag()) flags |= EVENT_BASE_FLAG_NO_CACHE_TIME;
  event_config_set_flag(cfg, flags);
  w.base = event_base_new_with_config(cfg); event_config_free(cfg);
  if (!w.base) { verif_case_end(0, s.h); W = nullptr; return 0; }
  TR("base backend=%s flags=0x%x", event_base_get_method(w.base), flags);
  w.pfd[0] = w.pfd[1] = -1;
  if (s.flag()) {
    if (pipe2(w.pfd, O_NONBLOCK | O_CLOEXEC) != 0) { event_base_free(w.base); verif_case_end(0, s.h); W = nullptr; return 0; }
    w.e[PIPE_EV] = event_new(w.base, w.pfd[0], EV_READ | EV_PERSIST, cb_event, (void *)(intptr_t)PIPE_EV); event_add(w.e[PIPE_EV], nullptr); TR("pipe read event added");
  }

  static const int LOOPFLAGS[] = {EVLOOP_ONCE, EVLOOP_ONCE, EVLOOP_NONBLOCK, 0, EVLOOP_NO_EXIT_ON_EMPTY, EVLOOP_ONCE | EVLOOP_NO_EXIT_ON_EMPTY, EVLOOP_NONBLOCK | EVLOOP_NO_EXIT_ON_EMPTY};
  for (int step = 0; step < 48; step++) {
    int op = s.below(10);
    if (op == 0) break;
    switch (op) {
      case 1: do_new(s.below(MAXW), T_PREP, ""); break;
      case 2: do_new(s.below(MAXW), T_CHECK, ""); break;
      case 3: do_free(s.below(MAXW), ""); break;
      case 4: add_timer(s.below(3), ""); break;
      case 5: { int k = s.below(3); if (w.e[k]) { TR("active e%d", k); event_active(w.e[k], EV_WRITE, 1); } break; }
      case 6: poke_pipe(""); break;
      default: {
        int lf = LOOPFLAGS[s.below(sizeof LOOPFLAGS / sizeof LOOPFLAGS[0])];
        w.waits_this_turn = 0; w.stage = S_TOP;
        TR("turn flags=%d now=%lld", lf, (long long)sim_now_us());
        w.in_loop = true; int r = event_base_loop(w.base, lf); w.in_loop = false;
        TR("turn -> %d (stage %s)", r, STAGE[w.stage]);
        CHECK(r >= 0, "C45/loop-error", "event_base_loop=%d", r);
        CHECK(w.stage != S_PREP, "C45/no-wait-after-prepare", "event_base_loop returned after prepare watchers ran without entering the backend wait");
        if (w.stage == S_WAITED || w.stage == S_CHECK) { end_check_phase("loop returned"); if (!w.iter_saw_cb) w.n_iter_nocb++; }
        w.stage = S_TOP;
        break; }
    }
  }
  for (auto &e : w.e) if (e) { event_free(e); e = nullptr; }
  // watchers still registered are released by event_base_free (documented)
  int left = 0; for (auto &m : w.w) if (m.w) { left++; m.w = nullptr; }
  event_base_free(w.base);
  if (w.pfd[0] >= 0) { close(w.pfd[0]); close(w.pfd[1]); }
  CHECK(sim_mem_live_blocks == live0, "C45/leak", "library allocations outstanding after event_base_free: %lld (watchers left registered: %d)", (long long)(sim_mem_live_blocks - live0), left);
  int nontrivial = w.full_iters >= 1 && w.mut_in_cb >= 1;
  if (w.full_iters) verif_class("iter_with_prepare_and_check"); if (w.mut_in_cb) verif_class("mutation_in_callback");
  if (w.n_free_next) verif_class("free_next_from_watcher"); if (w.n_free_prev) verif_class("free_prev_from_watcher"); if (w.n_free_other) verif_class("free_other_from_watcher");
  if (w.n_self_free) verif_class("self_free"); if (w.n_new_in_cb) verif_class("new_in_callback"); if (w.n_event_cb) verif_class("event_cb_ran");
  if (w.n_infinite) verif_class("infinite_wait"); if (w.n_iter_nocb) verif_class("iteration_without_event_cb"); if (w.n_finite_report) verif_class("finite_timeout_reported");
  if (left) verif_class("watchers_left_to_base_free");
  verif_case_end(nontrivial, s.h);
  W = nullptr;
  return 0;
}
