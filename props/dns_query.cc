// C36 — queries the resolver puts on the wire are well-formed and ask for the requested name.
// One resolve request per case against one fake nameserver that answers every query with NXDOMAIN / NODATA
// (the search goes on), an answer (the search ends) or silence once (the query is retransmitted).
// Every datagram is decoded by the strict reference decoder (refs/dnscodec.hh) and compared with the expected
// search candidate.  Preconditions respected: names are NUL-terminated C strings (no embedded NUL); options are
// set before the request is issued; the base is freed after the request completed.
#include "dns_common.hh"
using namespace dnsw;

namespace {
struct Case {
  int cb_count = 0, cb_result = -1, cb_type = 0, cb_n = 0; std::vector<uint8_t> cb_addrs; std::string cb_ptr;
};
void resolve_cb(int result, char type, int count, int ttl, void *addrs, void *arg) {
  Case *c = (Case *)arg; c->cb_count++; c->cb_result = result; c->cb_type = type; c->cb_n = count;
  TR("  callback result=%d type=%d count=%d ttl=%d", result, type, count, ttl);
  if (result == DNS_ERR_NONE && addrs) {
    if (type == DNS_IPv4_A) c->cb_addrs.assign((uint8_t *)addrs, (uint8_t *)addrs + 4 * count);
    else if (type == DNS_IPv6_AAAA) c->cb_addrs.assign((uint8_t *)addrs, (uint8_t *)addrs + 16 * count);
    else if (type == DNS_PTR && count > 0) c->cb_ptr = *(char **)addrs;
  }
}

const char LABEL_ALPHA[] = "abcxyzABCXYZ019-_";
const char WEIRD[] = {'\\', ' ', '@', '*', (char)0x80, (char)0xe9, (char)0xff, '\t', '/', ':', '\x01', '\x7f'};

std::string gen_label(Src &s, bool weird_ok) {
  static const int LENS[] = {1, 1, 2, 3, 5, 8, 20, 62, 63, 64, 65};
  int len = LENS[s.below(sizeof LENS / sizeof LENS[0])];
  std::string l;
  for (int i = 0; i < len; i++) {
    if (weird_ok && s.chance(1, 12)) l.push_back(WEIRD[s.below(sizeof WEIRD)]);
    else l.push_back(LABEL_ALPHA[s.below(sizeof LABEL_ALPHA - 1)]);
  }
  return l;
}
// names from the grammar: labels of boundary lengths, empty labels (leading / double / trailing dots), total
// lengths around 253..256, backslash "escapes" and non-ASCII bytes (sent verbatim: evdns documents no escaping)
const char *K_OVERLONG = "C36/overlong-name-sent";
std::string gen_name(Src &s, bool allow_empty_label, bool allow_overlong) {
  int shape = s.below(8);
  std::string n;
  if (shape == 7) {   // total-length boundary: fill up with 63-byte labels, last label sized to hit the target
    static const int TOT[] = {252, 253, 254, 255, 256, 257};
    int target = TOT[s.below(6)]; bool trail = s.flag();
    if (!allow_overlong && target - (trail ? 1 : 0) > 253) target = 253 + (trail ? 1 : 0);
    int body = target - (trail ? 1 : 0);
    while ((int)n.size() < body) {
      int room = body - (int)n.size(); int l = room > 64 ? (s.chance(1, 4) ? 1 + (int)s.below(63) : 63) : room;
      if (l > 63) l = 63;
      if (room - l == 1) l--;          // never leave room for just a dot
      if (l <= 0) break;
      for (int i = 0; i < l; i++) n.push_back(LABEL_ALPHA[s.below(sizeof LABEL_ALPHA - 1)]);
      if ((int)n.size() < body) n.push_back('.');
    }
    if (trail) n.push_back('.');
    return n;
  }
  int nl = 1 + s.below(4); bool weird = shape == 5 || shape == 6;
  for (int i = 0; i < nl; i++) { if (i) n.push_back('.'); n += gen_label(s, weird); }
  if (allow_empty_label) switch (s.below(10)) {
    case 1: n = "." + n; break;                                     // leading dot
    case 2: { size_t p = n.find('.'); if (p != std::string::npos) n.insert(p, "."); else n += ".."; break; }   // double dot
    case 3: n += ".."; break;                                        // two trailing dots
    case 4: n = "."; break;
    case 5: n = ".."; break;
    default: break;
  }
  if (s.chance(1, 5)) n.push_back('.');                              // absolute name
  if (shape == 4 && s.chance(1, 3)) n = "";                          // the root
  return n;
}
const char *const DOMAINS[] = {"example.com", "corp", "a.b.c.d", "x", ".lead.dot", "UP.per", "trail.dot.",
  "l63.aaaaaaaaaaaaaaaaaaaaaaaaaaaaaaaaaaaaaaaaaaaaaaaaaaaaaaaaaaaaaaa",
  "big.aaaaaaaaaaaaaaaaaaaaaaaaaaaaaaaaaaaaaaaaaaaaaaaaaaaaaaaaaaaaaaaaaaaaaa.bbbbbbbbbbbbbbbbbbbbbbbbbbbbbbbbbbbbbbbbbbbbbbbbbbbbbbbbbbbbbb.cccccccccccccccccccccccccccccccccccccccccccccccccccccccccccccc",
  "dd..ee"};
const int NDOMAINS = sizeof DOMAINS / sizeof DOMAINS[0];

int count_dots(const std::string &s) { int n = 0; for (char c : s) n += c == '.'; return n; }
}  // namespace

extern "C" int LLVMFuzzerInitialize(int *, char ***) {
  common_init();
  // warm-up: one resolve so that one-time global allocations (secure RNG, getaddrinfo hooks) are not counted per case
  sim_reset(); World w; w.open(1); Case c;
  evdns_base_resolve_ipv4(w.dns, "warm.up", DNS_QUERY_NO_SEARCH, resolve_cb, &c); w.turn();
  Datagram d; while (udp_recv(0, &d)) { Builder b = reply_header_echo(d.data, F_QR | F_RD | F_RA | 3, 0); udp_send(0, d.from, b.b.data(), b.b.size()); }
  w.turn(); w.close_dns(0); w.turn(); event_base_free(w.base); w.base = nullptr; sim_reset();
  return 0;
}

extern "C" int LLVMFuzzerTestOneInput(const uint8_t *data, size_t size) {
  sim_reset();
  verif_case_begin("C36");
  Src s(data, size);
  World w; w.open(1);
  Case c;

  // ---- configuration
  bool randcase = s.below(3) != 1;                  // default is on; sometimes leave the default untouched
  int rc_mode = s.below(3);                          // 0: leave default(on), 1: explicit
  if (rc_mode == 0) randcase = true; else w.set_opt("randomize-case:", randcase ? 1 : 0);
  static const long EDNS[] = {0, 512, 513, 1232, 4096, 65535, 100, 70000};
  long edns = EDNS[s.below(8)]; long edns_eff = 512;
  if (edns) { w.set_opt("edns-udp-size:", edns); edns_eff = edns < 512 ? 512 : edns > 65535 ? 65535 : edns; }   // documented clipping to [512, 65535]
  bool want_opt = edns_eff > 512;
  int ndom = s.below(4); std::vector<std::string> doms_added;
  for (int i = 0; i < ndom; i++) { int di = s.below(NDOMAINS); doms_added.push_back(DOMAINS[di]); evdns_base_search_add(w.dns, DOMAINS[di]); }
  int ndots = 1; bool ndots_set = s.flag();
  if (ndots_set) { ndots = s.below(4); if (s.flag()) evdns_base_search_ndots_set(w.dns, ndots); else w.set_opt("ndots:", ndots); }
  // search order: evdns_base_search_add() pushes to the FRONT of the list (code-derived corner, dns.h is silent)
  std::vector<std::string> doms;
  for (int i = ndom - 1; i >= 0; i--) { std::string d = doms_added[i]; while (!d.empty() && d[0] == '.') d.erase(0, 1); doms.push_back(d); }

  // ---- the request
  int kind = s.below(6);   // 0,1,4: A  2: AAAA  3: PTR v4  5: PTR v6
  uint16_t qtype = (kind == 2) ? T_AAAA : (kind == 3 || kind == 5) ? T_PTR : T_A;
  int flags = s.chance(1, 4) ? DNS_QUERY_NO_SEARCH : 0;
  std::string name; uint8_t addr[16];
  struct evdns_request *h = nullptr;
  if (kind == 3) {
    for (int i = 0; i < 4; i++) addr[i] = (uint8_t)s.boundary(8);
    char b[64]; snprintf(b, sizeof b, "%u.%u.%u.%u.in-addr.arpa", addr[3], addr[2], addr[1], addr[0]); name = b;   // RFC 1035 §3.5
    struct in_addr in; memcpy(&in, addr, 4);
    h = evdns_base_resolve_reverse(w.dns, &in, flags, resolve_cb, &c);
  } else if (kind == 5) {
    for (int i = 0; i < 16; i++) addr[i] = (uint8_t)s.boundary(8);
    for (int i = 15; i >= 0; i--) { char b[8]; snprintf(b, sizeof b, "%x.%x.", addr[i] & 15, addr[i] >> 4); name += b; }   // RFC 3596 §2.5
    name += "ip6.arpa";
    struct in6_addr in6; memcpy(&in6, addr, 16);
    h = evdns_base_resolve_reverse_ipv6(w.dns, &in6, flags, resolve_cb, &c);
  } else {
    name = gen_name(s, true, true);
    if (name.empty() && ndom) name = "x";   // empty name with a search list: not generated (behaviour undocumented)
  }

  // expected candidates, in order (PTR requests are never searched)
  std::vector<std::string> cand;
  bool searched = qtype != T_PTR && !(flags & DNS_QUERY_NO_SEARCH) && !doms.empty();
  auto candidates = [&]() {
    cand.clear();
    if (!searched) cand.push_back(name);
    else {
      auto app = [&](const std::string &d) { return name + (name.back() == '.' ? "" : ".") + d; };
      if (count_dots(name) >= ndots) cand.push_back(name);
      for (auto &d : doms) cand.push_back(app(d));
      if (count_dots(name) < ndots) cand.push_back(name);
    }
  };
  candidates();
  // open finding C36/overlong-name-sent: text of at most 255 characters whose wire form needs 256/257 octets is transmitted.  Excluded by
  // construction (only that sub-domain: longer text is refused by the unchanged library and stays in): the name is shortened until no candidate is in it.
  if (verif_known(K_OVERLONG)) {
    auto in_subdomain = [&]() { for (auto &cn : cand) { TextName t = split_text(cn); if (t.too_long && !t.empty_label && !t.long_label && cn.size() <= 255) return true; } return false; };
    if (in_subdomain()) { verif_known_skipped(K_OVERLONG); while (in_subdomain() && name.size() > 10) { name.resize(name.size() - 10); if (name.back() == '.' && name.size() > 1 && name[name.size() - 2] == '.') name.pop_back(); candidates(); } }
  }
  TR("config: randomize-case=%d(%s) edns=%ld ndots=%d%s domains(search order)=%zu flags=%d type=%u", randcase, rc_mode ? "set" : "default", edns, ndots, ndots_set ? "" : "(default)", doms.size(), flags, qtype);
  for (auto &d : doms) TR("  domain \"%s\"", esc(d).c_str());
  TR("request name=\"%s\" (len %zu)", esc(name, 300).c_str(), name.size());
  if (kind != 3 && kind != 5) {
    h = (qtype == T_A) ? evdns_base_resolve_ipv4(w.dns, name.c_str(), flags, resolve_cb, &c)
                       : evdns_base_resolve_ipv6(w.dns, name.c_str(), flags, resolve_cb, &c);
  }
  TR("resolve -> %s", h ? "handle" : "NULL");

  // ---- serve
  size_t k = 0;                 // index of the candidate the next NEW query must ask for
  std::vector<uint8_t> last_query; bool awaiting_retransmit = false; int drops = 0; bool answered = false;
  uint8_t ans_addr[16] = {192, 0, 2, 1, 0, 0, 0, 0, 0, 0, 0, 0, 0, 0, 0, 7};
  int queries_seen = 0, retransmits_seen = 0; bool saw_boundary = false, saw_case_flip = false;
  for (int step = 0; step < 40 && h; step++) {
    w.turn();
    Datagram d; bool any = false;
    while (udp_recv(0, &d)) {
      any = true;
      TR("  query[%zu] %s", d.data.size(), hexs(d.data.data(), d.data.size(), 48).c_str());
      CHECK(c.cb_count == 0, "C36/query-after-callback", "a query was transmitted after the request's callback ran");
      if (awaiting_retransmit) {
        // a retransmission after a timeout must be the same question (same bytes: same ID, same 0x20 pattern)
        CHECK(d.data == last_query, "C36/retransmit-differs", "retransmitted query differs from the original: %s vs %s", hexs(d.data.data(), d.data.size()).c_str(), hexs(last_query.data(), last_query.size()).c_str());
        awaiting_retransmit = false; retransmits_seen++;
      } else {
        CHECK(k < cand.size(), "C36/extra-query", "query #%zu but only %zu candidate name(s) are expected", k + 1, cand.size());
        const std::string &cn = cand[k]; TextName t = split_text(cn);
        Query q = decode_query_strict(d.data.data(), d.data.size());
        if (!t.ok) {
          const char *key = t.empty_label ? "C36/empty-label-sent" : t.too_long ? K_OVERLONG : "C36/long-label-sent";
          VERIF_FAIL(key, "a query was transmitted for \"%s\" (len %zu), which cannot be encoded as valid labels (%s); datagram %s decodes %s%s",
                     esc(cn, 80).c_str(), cn.size(), t.empty_label ? "empty label" : t.too_long ? "wire length > 255" : "label > 63",
                     hexs(d.data.data(), d.data.size(), 40).c_str(), q.ok ? "as well-formed for another name" : "as malformed: ", q.ok ? "" : q.why);
        }
        CHECK(q.ok, "C36/malformed-query", "query for \"%s\" is not a well-formed DNS query: %s (%s)", esc(cn, 80).c_str(), q.why, hexs(d.data.data(), d.data.size()).c_str());
        bool same = q.name.size() == t.labels.size();
        for (size_t i = 0; same && i < t.labels.size(); i++) same = randcase ? eq_nocase(q.name[i], t.labels[i]) : q.name[i] == t.labels[i];
        CHECK(same, k == 0 ? "C36/wrong-name" : "C36/search-order", "query #%zu asks for \"%s\" but the expected name is \"%s\" (randomize-case=%d)", k + 1, esc(join(q.name), 120).c_str(), esc(cn, 120).c_str(), randcase);
        if (join(q.name) != join(t.labels)) saw_case_flip = true;
        CHECK(q.type == qtype && q.klass == C_IN, "C36/wrong-type-class", "QTYPE=%u QCLASS=%u, expected %u/IN", q.type, q.klass, qtype);
        CHECK(q.flags & F_RD, "C36/rd-clear", "RD is not set (flags 0x%04x)", q.flags);
        CHECK(q.has_opt == want_opt, "C36/opt-presence", "OPT record %s but edns-udp-size is %ld (EDNS %s)", q.has_opt ? "present" : "absent", edns_eff, want_opt ? "configured" : "not configured");
        if (want_opt) CHECK(q.opt_size == edns_eff, "C36/opt-size", "OPT advertises %u, configured %ld", q.opt_size, edns_eff);
        for (auto &l : t.labels) if (l.size() == 63) saw_boundary = true;
        if (wire_len(t.labels) >= 250) saw_boundary = true;
        queries_seen++; last_query = d.data;
      }
      // scripted behaviour for this query
      int act = s.below(8);   // 0-3 NXDOMAIN, 4 NODATA, 5 answer, 6 drop once, 7 answer
      if (act == 6 && drops >= 2) act = 0;
      if (act == 6) { TR("  -> drop"); drops++; awaiting_retransmit = true; continue; }
      if (act == 5 || act == 7) {
        Builder b = reply_header_echo(d.data, F_QR | F_RD | F_RA, 1);
        if (qtype == T_A) add_a(b, 300, ans_addr); else if (qtype == T_AAAA) add_aaaa(b, 300, ans_addr); else add_ptr(b, 300, Labels{"host", "example"});
        TR("  -> answer"); udp_send(0, d.from, b.b.data(), b.b.size()); answered = true;
      } else {
        Builder b = reply_header_echo(d.data, (uint16_t)(F_QR | F_RD | F_RA | (act == 4 ? 0 : 3)), 0);
        TR("  -> %s", act == 4 ? "NODATA" : "NXDOMAIN"); udp_send(0, d.from, b.b.data(), b.b.size()); k++;
      }
    }
    if (c.cb_count) break;
    if (!any) { if (!w.advance()) break; }
  }
  w.turn();

  // ---- verdict
  if (!h) {
    // the request failed at once: legitimate only if the first candidate cannot be encoded (or is longer than evdns' documented-by-code limit)
    TextName t0 = split_text(cand[0]);
    CHECK(!t0.ok, "C36/valid-name-rejected", "resolve returned NULL for \"%s\" (len %zu) whose first candidate \"%s\" is a valid name", esc(name, 80).c_str(), name.size(), esc(cand[0], 80).c_str());
    CHECK(c.cb_count == 0, "C36/callback-after-null", "resolve returned NULL but the callback ran");
    Datagram d; CHECK(!udp_recv(0, &d), "C36/query-after-null", "resolve returned NULL but a datagram was sent");
    verif_class("rejected_at_start");
  } else {
    CHECK(c.cb_count == 1, "C36/callback-count", "callback ran %d times (queries seen %d, idle=%d)", c.cb_count, queries_seen, w.idle);
    if (answered) {
      CHECK(c.cb_result == DNS_ERR_NONE, "C36/answer-not-delivered", "answer sent but result=%d", c.cb_result);
      if (qtype == T_A) CHECK(c.cb_n == 1 && c.cb_addrs.size() == 4 && !memcmp(c.cb_addrs.data(), ans_addr, 4), "C36/answer-mismatch", "A answer not delivered intact");
      if (qtype == T_AAAA) CHECK(c.cb_n == 1 && c.cb_addrs.size() == 16 && !memcmp(c.cb_addrs.data(), ans_addr, 16), "C36/answer-mismatch", "AAAA answer not delivered intact");
      if (qtype == T_PTR) CHECK(c.cb_ptr == "host.example", "C36/answer-mismatch", "PTR answer \"%s\"", esc(c.cb_ptr).c_str());
    } else {
      CHECK(c.cb_result != DNS_ERR_NONE, "C36/success-without-answer", "no answer was sent but result=0");
      if (!awaiting_retransmit) {
        // every candidate up to the first unencodable one must have been asked, in order
        size_t want = 0; while (want < cand.size() && split_text(cand[want]).ok) want++;
        CHECK(k == want, "C36/search-incomplete", "search ended after %zu of %zu encodable candidate(s)", k, want);
        if (want < cand.size()) verif_class("rejected_mid_search");
      }
    }
  }
  w.finish("C36/leak");
  int nontrivial = queries_seen >= 1 && (queries_seen >= 2 || saw_boundary || want_opt || qtype == T_PTR || saw_case_flip || retransmits_seen);
  if (!h && !split_text(cand[0]).ok) nontrivial = 1;
  if (queries_seen >= 2) verif_class("search_walked"); if (saw_boundary) verif_class("boundary_len"); if (want_opt) verif_class("edns");
  if (qtype == T_PTR) verif_class("ptr"); if (saw_case_flip) verif_class("case_flipped"); if (retransmits_seen) verif_class("retransmit"); if (answered) verif_class("answered");
  if (!randcase) verif_class("randomize_off");
  verif_case_end(nontrivial, s.h);
  return 0;
}
