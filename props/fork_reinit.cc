// C11 — events keep working in a forked child after event_reinit.
// A case is decoded into a program: configuration (backend, signal mechanism, priorities, notifiable or not), a
// SETUP history (new/add/del/free events of three kinds — pipe I/O, timers under the virtual clock, signals — pipe
// writes, event_active, raise+turn, turns, clock advances) and a SCRIPT (pipe writes, raise, clock advances, turns
// incl. blocking ones that wait for the next timer, add/del/event_active).  The program is executed twice:
//   control run:  SETUP ; SCRIPT                      (no fork)                       -> trace A
//   forked run:   SETUP ; fork ; child: event_reinit ; SCRIPT ; teardown              -> trace C (sent through a pipe)
//                               parent: raises its own signals / wakes its own base before the child starts, waits for
//                               the child, then checks its own registrations and that only its own signals arrive.
// Oracle: see props/C11.json.  The trace is compared per loop pass as a multiset (the order in which one backend wait
// reports several ready descriptors is not specified and differs between an old and a freshly filled epoll set), so
// callbacks only act on their own event (read their own pipe, delete themselves after a drawn number of calls).
// Preconditions respected: event_reinit is the first libevent call in the child; no signal delivery is left
// undispatched at fork (pending signals and notification bytes are per process by design); no EV_ET events (re-adding an
// edge-triggered fd to a fresh epoll set re-reports its current readiness); pipe ends are never closed while the other
// process still holds them; every fd number handed to libevent is pinned with dup2.
#include "verif.h"
#include "sim.h"
#include <algorithm>
#include <dirent.h>
#include <errno.h>
#include <fcntl.h>
#include <signal.h>
#include <unistd.h>
#include <sys/epoll.h>
#include <sys/mman.h>
#include <sys/prctl.h>
#include <sys/wait.h>
#include <event2/event.h>
#include <event2/event_struct.h>
#include <event2/thread.h>
extern "C" {
#include "event-internal.h"
#include "util-internal.h"
ssize_t __real_read(int, void *, size_t);
ssize_t __real_write(int, const void *, size_t);
}

namespace {
const int NP = 3, NE = 8, NS = 3;
const int SIGS[NS] = {SIGUSR1, SIGUSR2, SIGURG};
const char *SIGN[NS] = {"USR1", "USR2", "URG"};
inline int RFD(int k) { return 80 + 2 * k; }
inline int WFD(int k) { return 81 + 2 * k; }
const int SYNC_R = 96, SYNC_W = 97, RES_R = 98, RES_W = 99;
const int64_t DURS[] = {0, 1000, 1500, 20000, 1000000, 1000001, 60000000};

enum { K_READ = 0, K_WRITE = 1, K_TIMER = 2, K_SIGNAL = 3 };
enum { O_END = 0, O_NEW, O_ADD, O_DEL, O_FREE, O_WRITE, O_ACTIVE, O_RAISE, O_TURN, O_ADVANCE };
enum { T_QUIESCENT = 0, T_ONEPASS = 1, T_BLOCKING = 2 };
struct EvDef { int kind = 0, k = 0; bool persist = false; int rd = 0, maxfire = 1, prio = 0; int64_t dur = -1; };
struct Op { int code = 0, a = 0, b = 0; int64_t d = 0; EvDef def; };
struct Program { int backend = 0, mech = 0, nprio = 1; bool notifiable = false; int seed = 1; std::vector<Op> setup, script; int parent_raise = 0; bool parent_wake = false; };

struct MEv { struct event *ev = nullptr; EvDef def; bool added = false; int fires = 0; bool manual_active = false; int act_remaining = 0; };
struct Pass { std::string wait; std::vector<std::string> cbs; };
struct Trace { std::vector<std::string> lines; void flush_pass(Pass &p) { if (p.wait.empty() && p.cbs.empty()) return; if (!p.wait.empty()) lines.push_back(p.wait); std::sort(p.cbs.begin(), p.cbs.end()); for (auto &c : p.cbs) lines.push_back(c); p = Pass(); } };

struct World {
  const Program *P = nullptr; struct event_base *base = nullptr; MEv e[NE];
  bool in_child = false, is_forked_run = false; bool eintr = false;
  Trace tr; Pass cur; bool recording = true;
  int epfd = -1; int turn_mode = 0; int blocking_waits = 0;
  long callbacks_script = 0; int sig_calls[NS] = {0, 0, 0};
  std::string ctrace;
};
World *W;
volatile sig_atomic_t g_plain[NS];
void plain0(int) { g_plain[0]++; } void plain1(int) { g_plain[1]++; } void plain2(int) { g_plain[2]++; }
void (*const PLAIN[NS])(int) = {plain0, plain1, plain2};

__attribute__((format(printf, 2, 3), noreturn)) void fail_(const char *key, const char *fmt, ...) {
  char buf[1500]; va_list ap; va_start(ap, fmt); vsnprintf(buf, sizeof buf, fmt, ap); va_end(ap);
  if (W && W->in_child) {
    std::string tail = W->ctrace.size() > 600 ? W->ctrace.substr(W->ctrace.size() - 600) : W->ctrace;
    for (auto &c : tail) if (c == '\n') c = ';';
    std::string rec = std::string("F") + key + "\n" + buf + " || child after fork: " + tail;
    ssize_t x = __real_write(RES_W, rec.data(), rec.size()); (void)x;
    _exit(3);
  }
  verif_fail(key, "%s", buf);
}
#define CK(cond, key, ...) do { if (!(cond)) fail_(key, __VA_ARGS__); } while (0)
#define TRC(...) do { if (verif_trace_on) verif_tracef(__VA_ARGS__); if (W->in_child) { char b_[256]; snprintf(b_, sizeof b_, __VA_ARGS__); if (W->ctrace.size() < 16384) { W->ctrace += b_; W->ctrace += '\n'; } } } while (0)
const char *who() { return W->in_child ? "forked child after event_reinit" : (W->is_forked_run ? "forking process" : "control run"); }

// ------------------------------------------------------------------ harness-owned descriptors
void pin(int from, int to) { if (from == to) return; if (dup2(from, to) < 0) verif_fail("harness/dup2", "errno=%d", errno); close(from); }
void open_pipes() {
  for (int k = 0; k < NP; k++) { int a[2]; if (pipe2(a, O_NONBLOCK) != 0) verif_fail("harness/pipe", "errno=%d", errno);
    if (a[0] >= 80 || a[1] >= 80) verif_fail("harness/fd-range", "kernel handed out fd %d/%d", a[0], a[1]);
    pin(a[0], RFD(k)); pin(a[1], WFD(k)); }
}
void close_pipes() { for (int k = 0; k < NP; k++) { close(RFD(k)); close(WFD(k)); } }

std::string read_file(const char *path) { std::string out; int f = open(path, O_RDONLY | O_CLOEXEC); if (f < 0) return out; char b[4096]; for (;;) { ssize_t r = __real_read(f, b, sizeof b); if (r <= 0) break; out.append(b, (size_t)r); } close(f); return out; }
int find_epfd() {
  for (int fd = 3; fd < 80; fd++) { char l[64], t[64]; snprintf(l, sizeof l, "/proc/self/fd/%d", fd); ssize_t k = readlink(l, t, sizeof t - 1); if (k <= 0) continue; t[k] = 0; if (strstr(t, "eventpoll")) return fd; }
  return -1;
}
// sorted "tfd/events" lines of an epoll descriptor
std::string epoll_set(int epfd) {
  char p[64]; snprintf(p, sizeof p, "/proc/self/fdinfo/%d", epfd); std::string s = read_file(p); std::vector<std::string> v;
  size_t pos = 0; while ((pos = s.find("tfd:", pos)) != std::string::npos) { int tfd = -1; unsigned ev = 0; if (sscanf(s.c_str() + pos, "tfd: %d events: %x", &tfd, &ev) == 2) { char l[64]; snprintf(l, sizeof l, "%04d:%x", tfd, ev); v.push_back(l); } pos += 4; }
  std::sort(v.begin(), v.end()); std::string out; for (auto &l : v) { out += l; out += ' '; } return out;
}

// ------------------------------------------------------------------ interest-set oracle (harness fds only)
void check_interest(const struct sim_wait_info *wi) {
  World &w = *W;
  bool want_r[NP] = {false, false, false}, want_w[NP] = {false, false, false}, got_r[NP] = {false, false, false}, got_w[NP] = {false, false, false};
  for (auto &m : w.e) if (m.ev && m.added) { if (m.def.kind == K_READ) want_r[m.def.k] = true; if (m.def.kind == K_WRITE) want_w[m.def.k] = true; }
  bool stray = false; int strayfd = -1;
  if (wi->kind == SIM_WAIT_EPOLL) {
    w.epfd = wi->epfd;
    char p[64]; snprintf(p, sizeof p, "/proc/self/fdinfo/%d", wi->epfd); std::string s = read_file(p);
    size_t pos = 0; while ((pos = s.find("tfd:", pos)) != std::string::npos) { int tfd = -1; unsigned ev = 0;
      if (sscanf(s.c_str() + pos, "tfd: %d events: %x", &tfd, &ev) == 2) for (int k = 0; k < NP; k++) {
        if (tfd == RFD(k)) { if (ev & EPOLLIN) got_r[k] = true; if (ev & EPOLLOUT) { stray = true; strayfd = tfd; } }
        if (tfd == WFD(k)) { if (ev & EPOLLOUT) got_w[k] = true; if (ev & EPOLLIN) { stray = true; strayfd = tfd; } } }
      pos += 4; }
  } else if (wi->kind == SIM_WAIT_POLL) {
    for (int i = 0; i < wi->npfds; i++) for (int k = 0; k < NP; k++) {
      if (wi->pfds[i].fd == RFD(k) && (wi->pfds[i].events & POLLIN)) got_r[k] = true;
      if (wi->pfds[i].fd == WFD(k) && (wi->pfds[i].events & POLLOUT)) got_w[k] = true; }
  } else {
    for (int k = 0; k < NP; k++) { if (RFD(k) < wi->nfds && FD_ISSET(RFD(k), wi->rset)) got_r[k] = true; if (WFD(k) < wi->nfds && FD_ISSET(WFD(k), wi->wset)) got_w[k] = true; }
  }
  // an I/O event with a timeout is taken out of the backend between its timeout firing and its callback (timeout_process deletes, the persist closure re-adds): no claim for such pipes
  bool exempt[NP] = {false, false, false}; for (auto &m : w.e) if (m.ev && (m.def.kind == K_READ || m.def.kind == K_WRITE) && m.def.dur >= 0) exempt[m.def.k] = true;
  CK(!stray, "C11/interest-set-differs", "%s: fd %d is registered for a condition no event asked for", who(), strayfd);
  for (int k = 0; k < NP; k++) {
    if (exempt[k]) continue;
    CK(want_r[k] == got_r[k], "C11/interest-set-differs", "%s (%s): pipe %d read end (fd %d): added read events=%d, registered with the backend=%d", who(), event_base_get_method(w.base), k, RFD(k), want_r[k], got_r[k]);
    CK(want_w[k] == got_w[k], "C11/interest-set-differs", "%s (%s): pipe %d write end (fd %d): added write events=%d, registered with the backend=%d", who(), event_base_get_method(w.base), k, WFD(k), want_w[k], got_w[k]);
  }
}

int64_t wait_hook(const struct sim_wait_info *wi, void *) {
  World &w = *W;
  if (wi->nready < 0) { w.eintr = true; return 0; }
  check_interest(wi);
  w.tr.flush_pass(w.cur);
  char l[96]; snprintf(l, sizeof l, "wait ready=%d timeout_us=%lld", wi->nready, (long long)wi->timeout_us); w.cur.wait = l;
  TRC("  %s", l);
  if (wi->nready > 0) return 20;
  if (wi->timeout_us < 0) { event_base_loopbreak(w.base); return 0; }
  if (w.turn_mode == T_BLOCKING && ++w.blocking_waits > 6) { event_base_loopbreak(w.base); return 0; }
  return wi->timeout_us;
}

void ev_cb(evutil_socket_t fd, short what, void *arg) {
  World &w = *W; int i = (int)(intptr_t)arg; MEv &m = w.e[i];
  int rd = -2;
  CK(m.ev != nullptr, "C11/callback-for-freed-event", "%s: callback for event slot %d which holds no event", who(), i);
  CK(m.added || m.manual_active || (m.def.kind == K_SIGNAL && m.act_remaining > 0), "C11/callback-for-deleted-event", "%s: callback (what=0x%x) for ev%d which is neither added nor manually activated", who(), what, i);
  m.manual_active = false;
  m.act_remaining = m.def.kind == K_SIGNAL ? m.ev->ev_ncalls : 0;   // calls still to come from this activation (coalesced deliveries)
  if (!m.def.persist) m.added = false;
  if (m.def.kind == K_READ && (what & EV_READ) && m.def.rd > 0) { char b[16]; ssize_t r = __real_read(RFD(m.def.k), b, (size_t)m.def.rd); rd = r < 0 ? -1 : (int)r; }
  if (m.def.kind == K_SIGNAL) { w.sig_calls[m.def.k]++; }
  m.fires++; w.callbacks_script++;
  char l[128]; snprintf(l, sizeof l, " cb ev%d fd=%d what=0x%x t=+%lldus read=%d", i, (int)fd, what, (long long)(sim_now_us() - SIM_START_US), rd);
  w.cur.cbs.push_back(l); TRC("  %s", l);
  if (m.fires >= m.def.maxfire && m.added) { int r = event_del(m.ev); CK(r == 0, "C11/del-failed", "%s: event_del(ev%d) in its callback returned %d", who(), i, r); m.added = false; m.act_remaining = 0; }
}

void mark(const char *fmt, ...) __attribute__((format(printf, 1, 2)));
void mark(const char *fmt, ...) { World &w = *W; char b[200]; va_list ap; va_start(ap, fmt); vsnprintf(b, sizeof b, fmt, ap); va_end(ap); w.tr.flush_pass(w.cur); w.tr.lines.push_back(b); TRC("%s", b); }

struct timeval tv_of(int64_t us) { struct timeval tv; tv.tv_sec = us / 1000000; tv.tv_usec = us % 1000000; return tv; }

void exec_op(const Op &o) {
  World &w = *W;
  switch (o.code) {
    case O_NEW: { MEv &m = w.e[o.a]; if (m.ev) break; m = MEv(); m.def = o.def; const EvDef &d = o.def;
      short what = d.persist ? EV_PERSIST : 0; evutil_socket_t fd = -1;
      if (d.kind == K_READ) { what |= EV_READ; fd = RFD(d.k); } else if (d.kind == K_WRITE) { what |= EV_WRITE; fd = WFD(d.k); } else if (d.kind == K_SIGNAL) { what |= EV_SIGNAL; fd = SIGS[d.k]; }
      m.ev = event_new(w.base, fd, what, ev_cb, (void *)(intptr_t)o.a); if (!m.ev) fail_("harness/event-new", "NULL");
      if (w.P->nprio > 1) event_priority_set(m.ev, d.prio);
      mark("new ev%d kind=%d k=%d persist=%d rd=%d maxfire=%d dur=%lld prio=%d", o.a, d.kind, d.k, d.persist, d.rd, d.maxfire, (long long)d.dur, d.prio);
      break; }
    case O_ADD: { MEv &m = w.e[o.a]; if (!m.ev) break;
      if (m.manual_active && !m.added) break;   // code-derived corner left to C02: event_add on an event that is only active (not inserted) returns 0 but registers nothing
      struct timeval tv = tv_of(m.def.dur < 0 ? 0 : m.def.dur);
      int r = event_add(m.ev, m.def.dur >= 0 ? &tv : nullptr); mark("add ev%d -> %d", o.a, r);
      CK(r == 0, "C11/add-failed", "%s: event_add(ev%d) returned %d", who(), o.a, r); m.added = true; m.fires = m.fires >= m.def.maxfire ? 0 : m.fires; break; }
    case O_DEL: { MEv &m = w.e[o.a]; if (!m.ev) break; int r = event_del(m.ev); mark("del ev%d -> %d", o.a, r);
      CK(r == 0, "C11/del-failed", "%s: event_del(ev%d) returned %d", who(), o.a, r); m.added = false; m.manual_active = false; m.act_remaining = 0; break; }
    case O_FREE: { MEv &m = w.e[o.a]; if (!m.ev) break; mark("free ev%d", o.a); event_free(m.ev); m.ev = nullptr; m.added = false; m.manual_active = false; break; }
    case O_WRITE: { char b[8]; memset(b, 'a' + o.a, sizeof b); ssize_t r = __real_write(WFD(o.a), b, (size_t)o.b); mark("write pipe%d %d bytes -> %zd", o.a, o.b, r); break; }
    case O_ACTIVE: { MEv &m = w.e[o.a]; if (!m.ev) break;
      if (m.def.persist && m.def.dur >= 0 && !m.added) break;   // code-derived corner left to C01: activating a deleted persistent event that still carries an interval re-adds it
      short what = m.def.kind == K_READ ? EV_READ : m.def.kind == K_WRITE ? EV_WRITE : m.def.kind == K_TIMER ? EV_TIMEOUT : EV_SIGNAL;
      event_active(m.ev, what, (short)o.b); m.manual_active = true; mark("event_active ev%d what=0x%x ncalls=%d", o.a, what, o.b); break; }
    case O_RAISE: { mark("raise SIG%s", SIGN[o.a]); raise(SIGS[o.a]); break; }
    case O_ADVANCE: { sim_advance_us(o.d); mark("clock +%lldus", (long long)o.d); break; }
    case O_TURN: {
      int flags = o.a == T_QUIESCENT ? EVLOOP_NONBLOCK : o.a == T_ONEPASS ? (EVLOOP_ONCE | EVLOOP_NONBLOCK) : EVLOOP_ONCE;
      w.turn_mode = o.a; w.blocking_waits = 0;
      mark("turn mode=%d", o.a);
      int r = 0;
      { // libFuzzer's SIGALRM must not interrupt a zero-timeout poll/select: the pass structure is part of the trace
        sigset_t al, old; sigemptyset(&al); sigaddset(&al, SIGALRM); sigprocmask(SIG_BLOCK, &al, &old);
        w.eintr = false; r = event_base_loop(w.base, flags);
        if (!sigismember(&old, SIGALRM)) sigprocmask(SIG_UNBLOCK, &al, nullptr);   /* not SIG_SETMASK: signalfd add/del inside the loop changes the mask */
        if (w.eintr) fail_("harness/wait-interrupted", "a backend wait returned an error although SIGALRM was blocked"); }
      mark("turn -> %d", r);
      CK(r >= 0, "C11/loop-error", "%s: event_base_loop returned %d", who(), r);
      break; }
  }
}

struct Result { std::vector<std::string> script_trace, setup_trace; bool forked_ok = false; int kinds_at_fork = 0; long child_callbacks = 0; bool epoll_checked = false; };

std::string join(const std::vector<std::string> &v) { std::string s; for (auto &l : v) { s += l; s += '\n'; } return s; }

void teardown(int64_t live0, const char *leak_key) {
  World &w = *W;
  for (auto &m : w.e) if (m.ev) { event_free(m.ev); m.ev = nullptr; }
  event_base_free(w.base); w.base = nullptr;
  CK(sim_mem_live_blocks == live0, leak_key, "%s: library allocations outstanding after freeing every event and the base: %lld blocks", who(), (long long)(sim_mem_live_blocks - live0));
}

// executes the program; forked=false: control run.  Returns the SCRIPT-phase trace (of the child in a forked run).
Result run(const Program &P, bool forked) {
  World w; W = &w; w.P = &P; w.is_forked_run = forked;
  Result res;
  int64_t live0 = sim_mem_live_blocks;
  sim_clock_enable(SIM_START_US);
  sim_set_wait_hook(wait_hook, nullptr);
  for (int i = 0; i < NS; i++) { struct sigaction sa; memset(&sa, 0, sizeof sa); sa.sa_handler = PLAIN[i]; sigemptyset(&sa.sa_mask); sigaction(SIGS[i], &sa, nullptr); }
  { sigset_t un; sigemptyset(&un); for (int i = 0; i < NS; i++) sigaddset(&un, SIGS[i]); sigprocmask(SIG_UNBLOCK, &un, nullptr); }
  open_pipes();
  struct event_config *cfg = event_config_new();
  static const char *AVOID[][3] = {{nullptr}, {nullptr}, {"epoll", nullptr}, {"epoll", "poll", nullptr}};
  for (int k = 0; AVOID[P.backend][k]; k++) event_config_avoid_method(cfg, AVOID[P.backend][k]);
  int flags = EVENT_BASE_FLAG_IGNORE_ENV;
  if (P.backend == 1) flags |= EVENT_BASE_FLAG_EPOLL_USE_CHANGELIST;
  if (P.mech == 1) flags |= EVENT_BASE_FLAG_USE_SIGNALFD;
  event_config_set_flag(cfg, flags);
  w.base = event_base_new_with_config(cfg); event_config_free(cfg);
  if (!w.base) verif_fail("harness/no-base", "backend %d", P.backend);
  evutil_weakrand_seed_(&w.base->weakrand_seed, (ev_uint32_t)P.seed);
  if (P.nprio > 1) event_base_priority_init(w.base, P.nprio);
  if (P.notifiable) { int r = evthread_make_base_notifiable(w.base); CK(r == 0, "C11/notifiable-failed", "evthread_make_base_notifiable returned %d", r); }
  if (P.backend <= 1) w.epfd = find_epfd();
  mark("== %s: base %s / %s, %d priorities%s", forked ? "forked run" : "control run", event_base_get_method(w.base), event_base_get_signal_method(w.base), P.nprio, P.notifiable ? ", notifiable" : "");

  for (auto &o : P.setup) { exec_op(o); event_base_assert_ok_(w.base); }
  w.tr.flush_pass(w.cur);
  size_t script_from = w.tr.lines.size();
  { bool kinds[4] = {false, false, false, false}; for (auto &m : w.e) if (m.ev && (m.added || m.manual_active)) kinds[m.def.kind == K_WRITE ? K_READ : m.def.kind] = true;
    res.kinds_at_fork = kinds[0] + kinds[2] + kinds[3]; }
  w.callbacks_script = 0;

  if (forked) {
    std::string parent_set_before = w.epfd >= 0 ? epoll_set(w.epfd) : "";
    int sp[2], rp[2]; if (pipe2(sp, 0) != 0 || pipe2(rp, 0) != 0) verif_fail("harness/pipe", "errno=%d", errno);
    // pin the harness pipes high so that the descriptors libevent creates in the child get the same numbers as in the control run
    int tmp[4] = {sp[0], sp[1], rp[0], rp[1]}; int dst[4] = {SYNC_R, SYNC_W, RES_R, RES_W}; for (int i = 0; i < 4; i++) pin(tmp[i], dst[i]);
    int efd = memfd_create("c11-child-stderr", MFD_CLOEXEC); if (efd < 0) verif_fail("harness/memfd", "errno=%d", errno);
    mark("fork");
    fflush(stderr); fflush(stdout);
    pid_t pid = fork();
    if (pid < 0) verif_fail("harness/fork", "errno=%d", errno);
    if (pid == 0) {
      prctl(PR_SET_PDEATHSIG, SIGKILL); signal(SIGALRM, SIG_DFL); alarm(40);
      w.in_child = true; close(SYNC_W); close(RES_R); dup2(efd, 2); close(efd);
      char go; ssize_t g = __real_read(SYNC_R, &go, 1); (void)g; close(SYNC_R);   // the parent has applied its own stimuli
      int r = event_reinit(w.base);
      TRC("child: event_reinit -> %d", r);
      CK(r == 0, "C11/reinit-failed", "event_reinit returned %d", r);
      event_base_assert_ok_(w.base);
      for (auto &o : P.script) { exec_op(o); event_base_assert_ok_(w.base); }
      w.tr.flush_pass(w.cur);
      std::vector<std::string> st(w.tr.lines.begin() + (long)script_from + 1, w.tr.lines.end());   // +1: skip the "fork" mark
      teardown(live0, "C11/child-leak");
      close_pipes();
      char hdr[64]; snprintf(hdr, sizeof hdr, "T%ld\n", w.callbacks_script);
      std::string rec = hdr + join(st);
      size_t off = 0; while (off < rec.size()) { ssize_t x = __real_write(RES_W, rec.data() + off, rec.size() - off); if (x <= 0) break; off += (size_t)x; }
      _exit(0);
    }
    close(SYNC_R); close(RES_W);
    // stimuli that belong to the parent only, applied while the child still shares every inherited descriptor
    int praised[NS] = {0, 0, 0};
    for (int i = 0; i < NS; i++) if (P.parent_raise & (1 << i)) { mark("parent: raise SIG%s", SIGN[i]); raise(SIGS[i]); praised[i] = 1; }
    if (P.parent_wake && w.base->th_notify_fn && (event_base_get_features(w.base) & EV_FEATURE_ET)) {   // poll/select: see props/C11.json (the eventfd is never drained there)
      mark("parent: wake its own base"); w.base->th_notify_fn(w.base); }
    { ssize_t x = __real_write(SYNC_W, "g", 1); (void)x; close(SYNC_W); }
    std::string rec; { char b[4096]; for (;;) { ssize_t r = __real_read(RES_R, b, sizeof b); if (r < 0 && errno == EINTR) continue; if (r <= 0) break; rec.append(b, (size_t)r); } } close(RES_R);
    int st = 0; for (;;) { pid_t r = waitpid(pid, &st, 0); if (r < 0 && errno == EINTR) continue; break; }
    std::string cerr_; { lseek(efd, 0, SEEK_SET); char b[4096]; for (;;) { ssize_t r = __real_read(efd, b, sizeof b); if (r <= 0) break; cerr_.append(b, (size_t)r); } close(efd); }
    bool ok = !rec.empty() && rec[0] == 'T' && WIFEXITED(st) && WEXITSTATUS(st) == 0;
    if (!cerr_.empty() && (!ok || getenv("VERIF_TRACE"))) fprintf(stderr, "---- stderr of the forked child ----\n%s---- end of child stderr ----\n", cerr_.c_str());
    if (!ok) {
      if (!rec.empty() && rec[0] == 'F') { size_t nl = rec.find('\n'); std::string key = rec.substr(1, nl == std::string::npos ? std::string::npos : nl - 1); std::string msg = nl == std::string::npos ? "" : rec.substr(nl + 1);
        verif_fail(key.c_str(), "[forked child] %.1800s", msg.c_str()); }
      char key[200]; const char *p;
      if ((p = strstr(cerr_.c_str(), "Assertion ")) != nullptr) { char cond[100] = "", fn[64] = "?"; sscanf(p, "Assertion %99[^\n]", cond);
        char *f = strstr(cond, " failed in "); if (f) { snprintf(fn, sizeof fn, "%s", f + 11); *f = 0; } for (char *c = cond; *c; c++) if (*c == ' ') *c = '_';
        snprintf(key, sizeof key, "assert:%s:%.60s", fn, cond); }
      else if ((p = strstr(cerr_.c_str(), "ERROR: AddressSanitizer: ")) != nullptr) { char kind[64] = ""; sscanf(p + 25, "%63s", kind); snprintf(key, sizeof key, "asan:%s@forked-child", kind); }
      else if (strstr(cerr_.c_str(), "runtime error:")) snprintf(key, sizeof key, "ubsan:forked-child");
      else if (WIFSIGNALED(st)) snprintf(key, sizeof key, "C11/child-killed-by-signal-%d", WTERMSIG(st));
      else snprintf(key, sizeof key, "C11/child-exit-%d", WIFEXITED(st) ? WEXITSTATUS(st) : -1);
      verif_fail(key, "forked child (event_reinit + script) died: wait status 0x%x, %zu result bytes; end of its stderr: %.700s", st, rec.size(), cerr_.size() > 700 ? cerr_.c_str() + cerr_.size() - 700 : cerr_.c_str());
    }
    // child's script trace
    { size_t nl = rec.find('\n'); res.child_callbacks = atol(rec.c_str() + 1); std::string body = nl == std::string::npos ? "" : rec.substr(nl + 1);
      size_t pos = 0; while (pos < body.size()) { size_t e = body.find('\n', pos); if (e == std::string::npos) e = body.size(); res.script_trace.push_back(body.substr(pos, e - pos)); pos = e + 1; } }
    res.forked_ok = true;
    res.setup_trace.assign(w.tr.lines.begin(), w.tr.lines.begin() + (long)script_from);
    // (1) nothing the child did may show in the parent's epoll set
    if (w.epfd >= 0) { std::string after = epoll_set(w.epfd); res.epoll_checked = true;
      CK(after == parent_set_before, "C11/parent-registrations-changed", "the parent's epoll set changed while only the child was running: before fork {%s} after the child exited {%s}", parent_set_before.c_str(), after.c_str()); }
    // (2) the parent sees exactly its own signals: run its loop until idle
    for (int i = 0; i < NS; i++) w.sig_calls[i] = 0;
    bool expect_manual[NS] = {false, false, false}; bool added_sig[NS] = {false, false, false};
    for (auto &m : w.e) if (m.ev && m.def.kind == K_SIGNAL) { if (m.manual_active) expect_manual[m.def.k] = true; if (m.added) added_sig[m.def.k] = true; }
    Op t; t.code = O_TURN; t.a = T_QUIESCENT; exec_op(t);
    for (int i = 0; i < NS; i++) {
      if (praised[i] && added_sig[i]) CK(w.sig_calls[i] >= 1, "C11/parent-lost-own-signal", "SIG%s was raised in the parent after fork() while a signal event for it was added, the parent's loop ran until idle, but no callback ran (%s)", SIGN[i], event_base_get_signal_method(w.base));
      if (!praised[i] && !expect_manual[i]) CK(w.sig_calls[i] == 0, "C11/signal-crossed-processes", "SIG%s was never raised in the parent after the last idle loop, yet %d signal callbacks ran in the parent after the child had raised it (%s)", SIGN[i], w.sig_calls[i], event_base_get_signal_method(w.base));
    }
    teardown(live0, "C11/leak");
    close_pipes();
    W = nullptr;
    return res;
  }
  for (auto &o : P.script) { exec_op(o); event_base_assert_ok_(w.base); }
  w.tr.flush_pass(w.cur);
  res.script_trace.assign(w.tr.lines.begin() + (long)script_from, w.tr.lines.end());
  res.setup_trace.assign(w.tr.lines.begin(), w.tr.lines.begin() + (long)script_from);
  res.child_callbacks = w.callbacks_script;
  teardown(live0, "C11/leak");
  close_pipes();
  W = nullptr;
  return res;
}

EvDef draw_def(Src &s, int nprio, int force_kind = -1) {
  EvDef d; d.kind = s.below(4); if (force_kind >= 0) d.kind = force_kind; d.persist = s.flag(); d.maxfire = 1 + s.below(3); d.prio = nprio > 1 ? (int)s.below(nprio) : 0;
  switch (d.kind) {
    case K_READ: d.k = s.below(NP); d.rd = s.below(5); d.dur = s.below(4) == 0 ? DURS[s.below(7)] : -1; break;
    case K_WRITE: d.k = s.below(NP); d.dur = -1; break;
    case K_TIMER: d.dur = DURS[s.below(7)]; if (d.persist && d.dur == 0) d.dur = 1000; break;
    default: d.k = s.below(NS); d.persist = s.below(4) != 0; break;
  }
  return d;
}
void draw_ops(Src &s, std::vector<Op> &out, int maxops, bool setup, int nprio) {
  for (int n = 0; n < maxops; n++) {
    Op o; int c = s.below(12);
    if (c == 0) break;
    switch (c) {
      case 1: case 2: if (!setup && c == 2) { o.code = O_ADD; o.a = s.below(NE); break; }
        o.code = O_NEW; o.a = s.below(NE); o.def = draw_def(s, nprio); out.push_back(o); { Op a; a.code = O_ADD; a.a = o.a; if (s.below(4) != 0) out.push_back(a); } continue;
      case 3: o.code = O_ADD; o.a = s.below(NE); break;
      case 4: o.code = O_DEL; o.a = s.below(NE); break;
      case 5: o.code = s.below(3) == 0 ? O_FREE : O_DEL; o.a = s.below(NE); break;
      case 6: case 7: o.code = O_WRITE; o.a = s.below(NP); o.b = 1 + s.below(6); break;
      case 8: o.code = O_ACTIVE; o.a = s.below(NE); o.b = 1 + s.below(3); break;
      case 9: o.code = O_RAISE; o.a = s.below(NS); out.push_back(o);
        if (setup) { Op t; t.code = O_TURN; t.a = T_QUIESCENT; out.push_back(t); }   // no delivery may be left undispatched at fork
        continue;
      case 10: o.code = O_TURN; o.a = s.below(3); break;
      default: o.code = s.flag() ? O_ADVANCE : O_TURN; o.d = DURS[s.below(7)]; o.a = s.below(3); break;
    }
    out.push_back(o);
  }
}

const char *classify_line(const std::string &l, const Program &P, const std::vector<Op> &all) {
  int ev = -1;
  if (sscanf(l.c_str(), " cb ev%d", &ev) == 1) {
    // find the definition in force: last O_NEW for this slot
    int kind = -1; for (auto &o : all) if (o.code == O_NEW && o.a == ev) kind = o.def.kind;
    return kind == K_SIGNAL ? "C11/child-signal-event-differs" : kind == K_TIMER ? "C11/child-timer-event-differs" : "C11/child-io-event-differs";
  }
  return nullptr;
}
}  // namespace

extern "C" int LLVMFuzzerInitialize(int *, char ***) {
  sim_mem_install();
  for (int fd = 80; fd < 100; fd++) if (fcntl(fd, F_GETFD) != -1) { fprintf(stderr, "fork_reinit: fd %d already open at start-up\n", fd); abort(); }
  signal(SIGPIPE, SIG_IGN);
  return 0;
}

extern "C" int LLVMFuzzerTestOneInput(const uint8_t *data, size_t size) {
  sim_reset();
  verif_case_begin("C11");
  Src s(data, size);
  Program P; P.backend = s.below(4); P.mech = s.below(2); P.nprio = 1 + s.below(2); P.notifiable = s.flag(); P.seed = 1 + s.below(255);
  P.parent_raise = s.below(8); P.parent_wake = s.flag();
  { // a few events of rotating kinds are always there at fork time; the drawn SETUP ops then add to / delete from / activate them
    int n0 = 2 + s.below(4), rot = s.below(4);
    for (int i = 0; i < n0; i++) { Op o; o.code = O_NEW; o.a = i; o.def = draw_def(s, P.nprio, (rot + i) % 4); P.setup.push_back(o); Op a; a.code = O_ADD; a.a = i; P.setup.push_back(a); } }
  draw_ops(s, P.setup, 10, true, P.nprio);
  draw_ops(s, P.script, 12, false, P.nprio);
  { Op t; t.code = O_TURN; t.a = T_QUIESCENT; P.script.push_back(t); if (s.flag()) { t.a = T_BLOCKING; P.script.push_back(t); } }   // the stimuli get dispatched
  // a signal that the parent raises for itself must not be pending undispatched in the control comparison: it is parent-only by construction
  Result A = run(P, false);
  bool do_fork = !P.script.empty() || !P.setup.empty();
  Result C;
  if (do_fork) {
    C = run(P, true);
    std::vector<Op> all = P.setup; all.insert(all.end(), P.script.begin(), P.script.end());
    for (size_t i = 1; i < std::max(A.setup_trace.size(), C.setup_trace.size()); i++)
      if (i >= A.setup_trace.size() || i >= C.setup_trace.size() || A.setup_trace[i] != C.setup_trace[i])
        verif_fail("harness/setup-not-deterministic", "the SETUP phase (before any fork) behaved differently in the two runs at line %zu: '%s' vs '%s'", i,
                   i < A.setup_trace.size() ? A.setup_trace[i].c_str() : "<end>", i < C.setup_trace.size() ? C.setup_trace[i].c_str() : "<end>");
    size_t n = std::max(A.script_trace.size(), C.script_trace.size());
    for (size_t i = 0; i < n; i++) {
      const std::string a = i < A.script_trace.size() ? A.script_trace[i] : "<end of trace>", c = i < C.script_trace.size() ? C.script_trace[i] : "<end of trace>";
      if (a == c) continue;
      const char *key = classify_line(a, P, all); if (!key) key = classify_line(c, P, all); if (!key) key = "C11/child-wait-differs";
      std::string ctx; for (size_t j = i >= 4 ? i - 4 : 0; j < i; j++) ctx += A.script_trace[j] + " ; ";
      verif_fail(key, "after fork + event_reinit the child diverges from the non-forked control run at script trace line %zu: control '%s' vs child '%s' (common lines before: %s)", i, a.c_str(), c.c_str(), ctx.c_str());
    }
  }
  static const char *BK[] = {"bk_epoll", "bk_epoll_changelist", "bk_poll", "bk_select"};
  verif_class(BK[P.backend]); verif_class(P.mech ? "mech_signalfd" : "mech_selfpipe"); if (P.notifiable) verif_class("notifiable");
  if (do_fork) verif_class("forked"); if (C.epoll_checked) verif_class("parent_epoll_set_compared");
  if (C.kinds_at_fork >= 2) verif_class("two_kinds_pending_at_fork"); if (C.kinds_at_fork >= 3) verif_class("three_kinds_pending_at_fork");
  if (C.child_callbacks > 0) verif_class("child_callback_ran"); if (P.parent_raise) verif_class("parent_raised_own_signal");
  int nontrivial = do_fork && C.forked_ok && C.kinds_at_fork >= 2 && C.child_callbacks >= 1;
  verif_case_end(nontrivial, s.h);
  return 0;
}
