// C20 — bufferevent read/write timeouts fire exactly when the direction has been idle that long.
// Worlds: a socket bufferevent over a socketpair (harness owns the raw peer end), a bufferevent pair, a (null-)filter
// over a socket bufferevent.  Everything runs under the harness-owned virtual clock; the clock moves only inside
// backend waits (wait hook) so a case is a pure function of its bytes.
//
// Reference model (written from bufferevent.h's bufferevent_set_timeouts text and the property statement):
//   read  idle timer active  <=> EV_READ enabled  && read timeout configured  && !suspended (input >= read high-watermark,
//                                or - socket world - bandwidth-suspended according to the library's own BEV_SUSPEND_BW flag)
//   write idle timer active  <=> EV_WRITE enabled && write timeout configured && output non-empty
//   an active timer's deadline = (instant it last became active | last successful transfer in that direction |
//   last restart point) + configured timeout.  A BEV_EVENT_TIMEOUT|READING (WRITING) is legal iff the timer is active
//   and due; a due timer must fire in the loop iteration in which it is due; the direction is disabled afterwards.
// Code-derived restart points (docs silent; see props/C20.json): bufferevent_set_timeouts, bufferevent_enable of the
// direction, any bufferevent_setwatermark(EV_READ) call, any change of the input length while a read high-watermark is set
// and reading stays unsuspended, bufferevent_set_rate_limit with a new cfg (the library re-enables the direction internally).
// Preconditions respected: no op on a freed bufferevent; only the top bufferevent of a filter stack is operated on
// (plus an optional write high-watermark on the underlying one at creation); the peer never closes (no EOF/error).
#include "verif.h"
#include "sim.h"
#include <event2/event.h>
#include <event2/buffer.h>
#include <event2/bufferevent.h>
#include <sys/socket.h>
#include <unistd.h>
#include <fcntl.h>
#include <errno.h>
extern "C" {
#include "bufferevent-internal.h"
}

namespace {
enum { T_SOCK = 0, T_PAIR = 1, T_FILTER = 2 };
const char *TN[] = {"sock", "pair", "filter"};
const char *DN[] = {"read", "write"};
const int64_t SLACK_US = 200;        // >= largest generated wait overshoot (150) and the 20us "fd ready" step

struct Dir { bool armed = false; int64_t deadline = 0; int fired = 0; int restarted_by_transfer = 0; };
struct MB {
  struct bufferevent *bev = nullptr; int idx = 0; int type = 0;
  short enabled = 0; int64_t t[2] = {0, 0}; size_t wm_high = 0;
  Dir d[2];
  int rd_action = 0;      // read callback: 0 none installed, 1 drain all, 2 drain half
  int reenable = 0;       // event callback re-enables the timed-out direction
  bool deferred = false;
  bool ever_set[2] = {false, false};
  bool limited = false, ever_limited = false; int rl_k = 0; size_t written = 0;
};
struct World {
  Src *s; struct event_base *base = nullptr; int type = 0; MB b[2]; int nb = 0;
  struct bufferevent *under = nullptr; int fd[2] = {-1, -1}; struct ev_token_bucket_cfg *rl[2] = {nullptr, nullptr}; int bw_cycles = 0;
  int64_t run_end = 0; int run_waits = 0; bool aborted = false; bool in_loop = false; bool teardown = false;
  int fired_total = 0, restarts = 0, saw_suspend_cycle = 0;
  bool ex_pair_write = false, ex_filter_write = false, ex_pair_read_wm = false, ex_filter_read_wm = false, ex_clear = false, ex_sock_write_empty = false;
};
World *W;

size_t inlen(MB &m) { return evbuffer_get_length(bufferevent_get_input(m.bev)); }
size_t outlen(MB &m) { return evbuffer_get_length(bufferevent_get_output(m.bev)); }

const char *why_inactive(MB &m, int dir) {
  short ev = dir == 0 ? EV_READ : EV_WRITE;
  if (!(m.enabled & ev)) return "disabled";
  if (m.t[dir] <= 0) return "unconfigured";
  if (dir == 0 && m.wm_high && inlen(m) >= m.wm_high) return "suspended";
  // bandwidth suspension is taken from the library's own flags (C22 checks when they are set); sock world only
  if (m.limited && ((dir == 0 ? BEV_UPCAST(m.bev)->read_suspended : BEV_UPCAST(m.bev)->write_suspended) & (BEV_SUSPEND_BW | BEV_SUSPEND_BW_GROUP))) { W->bw_cycles++; return "suspended"; }
  if (dir == 1 && outlen(m) == 0) return "no-output";
  return nullptr;
}
void sync(MB &m) {
  if (!m.bev) return;
  int64_t now = sim_now_us();
  for (int dir = 0; dir < 2; dir++) {
    bool a = why_inactive(m, dir) == nullptr;
    if (a && !m.d[dir].armed) { m.d[dir].armed = true; m.d[dir].deadline = now + m.t[dir]; TR("      model: %s%d.%s armed -> %lld", TN[m.type], m.idx, DN[dir], (long long)m.d[dir].deadline); }
    else if (!a && m.d[dir].armed) { m.d[dir].armed = false; TR("      model: %s%d.%s disarmed (%s)", TN[m.type], m.idx, DN[dir], why_inactive(m, dir)); }
  }
}
void restart(MB &m, int dir, bool by_transfer) {
  if (!m.bev || !m.d[dir].armed) return;
  int64_t nd = sim_now_us() + m.t[dir];
  if (by_transfer && nd != m.d[dir].deadline) { m.d[dir].restarted_by_transfer++; W->restarts++; }
  m.d[dir].deadline = nd;
}

[[noreturn]] void fail_dir(MB &m, int dir, const char *what, const char *detail) {
  char key[96]; snprintf(key, sizeof key, "C20/%s-%s-timeout-%s", TN[m.type], DN[dir], what);
  verif_fail(key, "%s%d %s: %s (now=%lld armed=%d deadline=%lld timeout=%lld enabled=0x%x in=%zu out=%zu wm_high=%zu)", TN[m.type], m.idx, DN[dir], detail,
             (long long)sim_now_us(), m.d[dir].armed, (long long)m.d[dir].deadline, (long long)m.t[dir], m.enabled, inlen(m), outlen(m), m.wm_high);
}

// every model timer that is due at the current clock reading must have fired (or been restarted) by now
void check_missed(const char *when) {
  if (W->aborted) return;
  int64_t now = sim_now_us();
  for (int i = 0; i < W->nb; i++) for (int dir = 0; dir < 2; dir++) { MB &m = W->b[i];
    if (m.bev && m.d[dir].armed && m.d[dir].deadline <= now) fail_dir(m, dir, "missed", when); }
}
int64_t earliest() {
  int64_t e = -1;
  for (int i = 0; i < W->nb; i++) for (int dir = 0; dir < 2; dir++) { MB &m = W->b[i];
    if (m.bev && m.d[dir].armed && (e < 0 || m.d[dir].deadline < e)) e = m.d[dir].deadline; }
  return e;
}

int64_t wait_hook(const struct sim_wait_info *wi, void *) {
  Src &s = *W->s;
  int64_t now = sim_now_us();
  if (W->teardown) return 0;
  for (int i = 0; i < W->nb; i++) sync(W->b[i]);   // picks up bandwidth (un)suspension done by the refill timer in this iteration
  check_missed("due at the previous wake-up, loop is waiting again");
  if (++W->run_waits > 600) { W->aborted = true; event_base_loopbreak(W->base); return 0; }
  if (wi->nready > 0) { TR("    wait#%llu ready=%d +20us", (unsigned long long)wi->ordinal, wi->nready); return 20; }
  int64_t req = wi->timeout_us;
  if (req == 0) return 0;
  int64_t remaining = W->run_end - now;
  if (remaining <= 0) { event_base_loopbreak(W->base); TR("    wait#%llu end of run", (unsigned long long)wi->ordinal); return 0; }
  int64_t target = (req < 0 || req > remaining) ? remaining : req;
  bool at_timer = req >= 0 && req <= remaining;
  int64_t e = earliest();
  if (e >= 0 && e - now < target) { target = e - now; at_timer = true; }   // library has no timer there: the missed check reports it
  if (at_timer) { static const int OV[] = {0, 0, 1, 7, 150}; target += OV[s.below(5)]; }
  TR("    wait#%llu req=%lld adv=%lld -> %lld", (unsigned long long)wi->ordinal, (long long)req, (long long)target, (long long)(now + target));
  sim_advance_us(target);
  return 0;
}

void obs_in(struct evbuffer *, const struct evbuffer_cb_info *info, void *arg) {
  MB &m = *(MB *)arg; if (!m.bev) return;
  sync(m);
  if (info->n_added) { TR("      transfer: %s%d read +%zu", TN[m.type], m.idx, info->n_added); restart(m, 0, true); }
  // code-derived corner: with a read high-watermark set, every input-length change that leaves reading unsuspended
  // re-enables the direction inside the library, which restarts the interval like bufferevent_enable does
  else if (m.wm_high) restart(m, 0, false);
}
void obs_out(struct evbuffer *, const struct evbuffer_cb_info *info, void *arg) {
  MB &m = *(MB *)arg; if (!m.bev) return;
  bool was = m.d[1].armed;
  sync(m);
  if (info->n_deleted) { TR("      transfer: %s%d write -%zu", TN[m.type], m.idx, info->n_deleted); if (was) restart(m, 1, true); }
}

void do_enable(MB &m, short ev, const char *ctx) {
  int r = bufferevent_enable(m.bev, ev);
  TR("%senable %s%d 0x%x -> %d", ctx, TN[m.type], m.idx, ev, r);
  CHECK(r == 0, "C20/enable-failed", "bufferevent_enable=%d", r);
  m.enabled |= ev; sync(m);
  if (ev & EV_READ) restart(m, 0, false);
  if (ev & EV_WRITE) restart(m, 1, false);
}

void read_cb(struct bufferevent *bev, void *arg) {
  MB &m = *(MB *)arg; if (!m.bev) return;
  size_t n = inlen(m);
  TR("    readcb %s%d in=%zu", TN[m.type], m.idx, n);
  struct evbuffer *in = bufferevent_get_input(bev);
  if (m.rd_action == 1) evbuffer_drain(in, n); else if (m.rd_action == 2) evbuffer_drain(in, (n + 1) / 2);
  sync(m);
}
void write_cb(struct bufferevent *, void *arg) { MB &m = *(MB *)arg; if (m.bev) sync(m); }
void event_cb(struct bufferevent *bev, short what, void *arg) {
  MB &m = *(MB *)arg; if (!m.bev) return;
  int64_t now = sim_now_us();
  TR("    eventcb %s%d what=0x%x now=%lld", TN[m.type], m.idx, what, (long long)now);
  if (!(what & BEV_EVENT_TIMEOUT)) { m.enabled = bufferevent_get_enabled(bev); sync(m); W->aborted = true; return; }
  CHECK((what & ~(BEV_EVENT_TIMEOUT | BEV_EVENT_READING | BEV_EVENT_WRITING)) == 0 && (what & (BEV_EVENT_READING | BEV_EVENT_WRITING)), "C20/timeout-flags",
        "timeout event with flags 0x%x", what);
  if (!m.deferred) CHECK(what == (BEV_EVENT_TIMEOUT | BEV_EVENT_READING) || what == (BEV_EVENT_TIMEOUT | BEV_EVENT_WRITING), "C20/timeout-flags", "non-deferred timeout event with flags 0x%x", what);
  for (int dir = 0; dir < 2; dir++) {
    if (!(what & (dir == 0 ? BEV_EVENT_READING : BEV_EVENT_WRITING))) continue;
    short ev = dir == 0 ? EV_READ : EV_WRITE;
    if (!m.d[dir].armed) { char w[40]; snprintf(w, sizeof w, "while-%s", why_inactive(m, dir) ? why_inactive(m, dir) : "inactive"); fail_dir(m, dir, w, "timeout event although the model's idle timer is not running"); }
    if (now + SLACK_US < m.d[dir].deadline) fail_dir(m, dir, "early", "timeout event before the direction has been idle for the configured time");
    CHECK(!(bufferevent_get_enabled(bev) & ev), "C20/not-disabled-after-timeout", "%s%d %s still enabled (0x%x) when the timeout event is delivered", TN[m.type], m.idx, DN[dir], bufferevent_get_enabled(bev));
    m.d[dir].fired++; W->fired_total++;
    m.enabled &= ~ev; sync(m);
  }
  if (m.reenable) for (int dir = 0; dir < 2; dir++) if (what & (dir == 0 ? BEV_EVENT_READING : BEV_EVENT_WRITING)) do_enable(m, dir == 0 ? EV_READ : EV_WRITE, "      in-cb ");
}

const int64_t TOS[] = {0, 1000, 5000, 10000, 10001, 50000, 1000000, 3000000};
const int64_t RUNS[] = {0, 1000, 4000, 9000, 10000, 11000, 60000, 2000000, 5000000};
const size_t WRS[] = {1, 10, 100, 600, 4000, 70000};
const size_t WMS[] = {0, 1, 10, 100, 1000};   // equal to peer-write sizes so that input can sit exactly at the mark with nothing left in the socket
static char BLOB[70000];

void setup_bev(MB &m, struct bufferevent *bev, int type, int idx, bool deferred, Src &s) {
  m = MB(); m.bev = bev; m.type = type; m.idx = idx; m.deferred = deferred;
  m.rd_action = s.below(3); m.reenable = s.below(2);
  m.enabled = bufferevent_get_enabled(bev);
  bufferevent_setcb(bev, m.rd_action ? read_cb : nullptr, write_cb, event_cb, &m);   // no read callback when nothing is consumed: a callback that leaves input at the high-watermark is re-triggered forever
  evbuffer_add_cb(bufferevent_get_input(bev), obs_in, &m);
  evbuffer_add_cb(bufferevent_get_output(bev), obs_out, &m);
  TR("  %s%d deferred=%d rd_action=%d reenable=%d enabled=0x%x", TN[type], idx, deferred, m.rd_action, m.reenable, m.enabled);
}
}  // namespace

extern "C" int LLVMFuzzerInitialize(int *, char ***) { sim_mem_install(); memset(BLOB, 'x', sizeof BLOB); return 0; }

extern "C" int LLVMFuzzerTestOneInput(const uint8_t *data, size_t size) {
  sim_reset();
  verif_case_begin("C20");
  Src s(data, size);
  World w; W = &w; w.s = &s;
  // sub-domains excluded while a finding is listed (see props/C20.json)
  static const char *K_PW[] = {"C20/pair-write-timeout-while-no-output", "C20/pair-write-timeout-while-disabled", "C20/pair-write-timeout-missed", "C20/pair-write-timeout-early"};
  static const char *K_FW[] = {"C20/filter-write-timeout-while-no-output", "C20/filter-write-timeout-missed", "C20/filter-write-timeout-early", "C20/filter-write-timeout-while-disabled"};
  for (auto k : K_PW) if (verif_known(k)) w.ex_pair_write = true;
  for (auto k : K_FW) if (verif_known(k)) w.ex_filter_write = true;
  w.ex_pair_read_wm = verif_known("C20/pair-read-timeout-while-suspended");
  w.ex_filter_read_wm = verif_known("C20/filter-read-timeout-while-suspended");
  w.ex_clear = verif_known("C20/sock-read-timeout-while-unconfigured") || verif_known("C20/sock-write-timeout-while-unconfigured");
  w.ex_sock_write_empty = verif_known("C20/sock-write-timeout-while-no-output");
  int64_t live0 = sim_mem_live_blocks;
  sim_clock_enable(SIM_START_US + s.below(1000) * 1000);
  sim_set_wait_hook(wait_hook, nullptr);
  w.base = event_base_new();
  if (!w.base) { verif_case_end(0, s.h); W = nullptr; return 0; }
  w.type = s.below(3);
  bool deferred = s.flag();
  int opts = deferred ? BEV_OPT_DEFER_CALLBACKS : 0;
  TR("world %s opts=0x%x start=%lld", TN[w.type], opts, (long long)sim_now_us());
  if (w.type != T_PAIR) {
    int r = socketpair(AF_UNIX, SOCK_STREAM | SOCK_NONBLOCK, 0, w.fd);
    if (r != 0) { event_base_free(w.base); verif_case_end(0, s.h); W = nullptr; return 0; }
    int sz = 2048; setsockopt(w.fd[0], SOL_SOCKET, SO_SNDBUF, &sz, sizeof sz); setsockopt(w.fd[1], SOL_SOCKET, SO_SNDBUF, &sz, sizeof sz);
  }
  if (w.type == T_SOCK) {
    struct bufferevent *b = bufferevent_socket_new(w.base, w.fd[0], opts);
    w.nb = 1; setup_bev(w.b[0], b, T_SOCK, 0, deferred, s);
  } else if (w.type == T_PAIR) {
    struct bufferevent *p[2]; int r = bufferevent_pair_new(w.base, opts, p);
    CHECK(r == 0, "C20/pair-new-failed", "r=%d", r);
    w.nb = 2; setup_bev(w.b[0], p[0], T_PAIR, 0, true, s); setup_bev(w.b[1], p[1], T_PAIR, 1, true, s);
  } else {
    w.under = bufferevent_socket_new(w.base, w.fd[0], opts);
    if (s.flag()) { bufferevent_setwatermark(w.under, EV_WRITE, 0, 512); TR("  underlying write high-watermark 512"); }
    struct bufferevent *f = bufferevent_filter_new(w.under, nullptr, nullptr, opts, nullptr, nullptr);
    CHECK(f != nullptr, "C20/filter-new-failed", "NULL");
    w.nb = 1; setup_bev(w.b[0], f, T_FILTER, 0, deferred, s);
  }

  for (int step = 0; step < 48 && !w.aborted; step++) {
    int op = s.below(11);
    if (op == 0) break;
    MB &m = w.b[s.below(w.nb)];
    switch (op) {
      case 1: {
        int64_t tr = TOS[s.below(8)], tw = TOS[s.below(8)];
        if (m.type == T_PAIR && w.ex_pair_write && tw) { tw = 0; verif_known_skipped("C20/pair-write-timeout-missed"); }
        if (m.type == T_FILTER && w.ex_filter_write && tw) { tw = 0; verif_known_skipped("C20/filter-write-timeout-while-no-output"); }
        if (m.type == T_SOCK && w.ex_clear) { if (!tr && m.ever_set[0]) { tr = m.t[0]; verif_known_skipped("C20/sock-read-timeout-while-unconfigured"); } if (!tw && m.ever_set[1]) { tw = m.t[1]; verif_known_skipped("C20/sock-write-timeout-while-unconfigured"); } }
        struct timeval a = {(time_t)(tr / 1000000), (suseconds_t)(tr % 1000000)}, b = {(time_t)(tw / 1000000), (suseconds_t)(tw % 1000000)};
        bool null_form = s.flag();   // "no timeout" as NULL or as a zero timeval: both documented
        int r = bufferevent_set_timeouts(m.bev, (tr || !null_form) ? &a : nullptr, (tw || !null_form) ? &b : nullptr);
        TR("set_timeouts %s%d read=%lld write=%lld -> %d", TN[m.type], m.idx, (long long)tr, (long long)tw, r);
        CHECK(r == 0, "C20/set-timeouts-failed", "r=%d", r);
        m.t[0] = tr; m.t[1] = tw; if (tr) m.ever_set[0] = true; if (tw) m.ever_set[1] = true;
        sync(m); restart(m, 0, false); restart(m, 1, false);
        break; }
      case 2: { short ev = (short[]){EV_READ, EV_WRITE, EV_READ | EV_WRITE}[s.below(3)];
        if (m.type == T_SOCK && w.ex_sock_write_empty && (ev & EV_WRITE) && outlen(m) == 0) { ev &= ~EV_WRITE; verif_known_skipped("C20/sock-write-timeout-while-no-output"); if (!ev) break; }
        do_enable(m, ev, ""); break; }
      case 3: { short ev = (short[]){EV_READ, EV_WRITE, EV_READ | EV_WRITE}[s.below(3)];
        int r = bufferevent_disable(m.bev, ev); TR("disable %s%d 0x%x -> %d", TN[m.type], m.idx, ev, r);
        CHECK(r == 0, "C20/disable-failed", "r=%d", r);
        m.enabled &= ~ev; sync(m); break; }
      case 4: { size_t high = WMS[s.below(5)];
        if (high && ((m.type == T_PAIR && w.ex_pair_read_wm) || (m.type == T_FILTER && w.ex_filter_read_wm))) { verif_known_skipped(m.type == T_PAIR ? "C20/pair-read-timeout-while-suspended" : "C20/filter-read-timeout-while-suspended"); break; }
        bufferevent_setwatermark(m.bev, EV_READ, 0, high); TR("setwatermark %s%d read high=%zu (in=%zu)", TN[m.type], m.idx, high, inlen(m));
        m.wm_high = high; sync(m);
        restart(m, 0, false);   // code-derived corner: (re-)evaluating the read watermark re-enables an unsuspended direction
        break; }
      case 5: { size_t n = WRS[s.below(m.type == T_PAIR ? 4 : 6)];
        if (outlen(m) + n > (m.type == T_PAIR ? 2500u : 80000u)) break;
        if (m.type == T_FILTER && (m.written += n) > 200000) break;   // a filter passes its output straight on: bound the total   // a 1-byte read watermark moves pair data one byte per callback
        int r = bufferevent_write(m.bev, BLOB, n); TR("write %s%d %zu -> %d (out=%zu)", TN[m.type], m.idx, n, r, outlen(m));
        CHECK(r == 0, "C20/write-failed", "r=%d", r); sync(m); break; }
      case 6: { size_t n = inlen(m); if (s.flag()) n = (n + 1) / 2;
        evbuffer_drain(bufferevent_get_input(m.bev), n); TR("drain-input %s%d %zu (in=%zu)", TN[m.type], m.idx, n, inlen(m)); sync(m); break; }
      case 7: if (w.type != T_PAIR) { size_t n = WRS[s.below(5)]; ssize_t r = write(w.fd[1], BLOB, n); TR("peer-write %zu -> %zd", n, r); } break;
      case 8: if (w.type != T_PAIR) { size_t n = WRS[1 + s.below(5)]; static char sink[70000]; ssize_t r = read(w.fd[1], sink, n); TR("peer-read %zu -> %zd", n, r); } break;
      case 10: if (w.type == T_SOCK) {       // per-bufferevent rate limit: 100 bytes per 10 ms tick (reads; writes too unless excluded), or none
        int k = s.below(3);
        if (!w.rl[0]) { struct timeval tl = {0, 10000}; w.rl[0] = ev_token_bucket_cfg_new(100, 100, 100, 100, &tl); w.rl[1] = ev_token_bucket_cfg_new(100, 300, 1000000, 1000000, &tl); }
        if (k == 1 && w.ex_sock_write_empty) { k = 2; verif_known_skipped("C20/sock-write-timeout-while-no-output"); }
        if (w.ex_sock_write_empty && (m.enabled & EV_WRITE) && outlen(m) == 0) { verif_known_skipped("C20/sock-write-timeout-while-no-output"); break; }   // (re)configuring re-enables EV_WRITE internally
        int r = bufferevent_set_rate_limit(m.bev, k == 0 ? nullptr : w.rl[k - 1]); TR("set_rate_limit %s%d %d -> %d", TN[m.type], m.idx, k, r);
        CHECK(r == 0, "C20/set-rate-limit-failed", "r=%d", r);
        bool noop = (k != 0 && k == m.rl_k) || (k == 0 && !m.ever_limited);   // same cfg again / never limited: the library does nothing
        m.limited = k != 0; m.rl_k = k; if (k) m.ever_limited = true; sync(m); if (!noop) { restart(m, 0, false); restart(m, 1, false); } }   // code-derived: (re)configuring the limit re-enables unsuspended directions
        break;
      case 9: {
        int64_t d = RUNS[s.below(9)];
        w.run_end = sim_now_us() + d; w.run_waits = 0;
        TR("run %lld us (now=%lld)", (long long)d, (long long)sim_now_us());
        w.in_loop = true; int r = event_base_loop(w.base, 0); w.in_loop = false;
        TR("run -> %d now=%lld", r, (long long)sim_now_us());
        CHECK(r >= 0, "C20/loop-error", "event_base_loop=%d", r);
        check_missed("after the loop returned");
        if (!w.aborted && sim_now_us() < w.run_end) {
          int64_t e = earliest();
          if (e >= 0 && e <= w.run_end) { sim_advance_us(e - sim_now_us()); check_missed("the loop returned although the model has a running idle timer"); }
          sim_advance_us(w.run_end - sim_now_us());
        }
        break; }
    }
    for (int i = 0; i < w.nb; i++) sync(w.b[i]);
  }
  int fired = w.fired_total, restarts = w.restarts;
  bool both = false;
  for (int i = 0; i < w.nb; i++) for (int dir = 0; dir < 2; dir++) if (w.b[i].d[dir].fired && w.b[i].d[dir].restarted_by_transfer) both = true;
  // teardown: pending deferred callbacks hold references; let them run (model detached) before freeing
  w.teardown = true;
  struct bufferevent *tofree[2] = {nullptr, nullptr};
  for (int i = 0; i < w.nb; i++) { tofree[i] = w.b[i].bev; w.b[i].bev = nullptr; bufferevent_setcb(tofree[i], nullptr, nullptr, nullptr, nullptr); bufferevent_disable(tofree[i], EV_READ | EV_WRITE); }
  event_base_loop(w.base, EVLOOP_NONBLOCK);
  for (int i = 0; i < w.nb; i++) bufferevent_free(tofree[i]);
  if (w.under) bufferevent_free(w.under);
  event_base_free(w.base);
  for (int k = 0; k < 2; k++) if (w.rl[k]) ev_token_bucket_cfg_free(w.rl[k]);
  if (w.fd[0] >= 0) { close(w.fd[0]); close(w.fd[1]); }
  CHECK(sim_mem_live_blocks == live0, "C20/leak", "library allocations outstanding after base free: %lld", (long long)(sim_mem_live_blocks - live0));
  if (fired) { verif_class("fired"); verif_class(w.type == T_SOCK ? "fired_sock" : w.type == T_PAIR ? "fired_pair" : "fired_filter"); }
  if (restarts) verif_class("restarted_by_transfer");
  if (both) verif_class("fired_and_restarted_same_direction");
  if (w.aborted) verif_class("aborted");
  if (w.bw_cycles) verif_class("bandwidth_suspended");
  verif_case_end(!w.aborted && fired >= 1 && restarts >= 1, s.h);
  W = nullptr;
  return 0;
}
