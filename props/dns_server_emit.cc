// C35 — DNS server responses encode exactly the records that were added.
// One server port per case (UDP socket handed to evdns_add_server_port_with_base, or an evconnlistener handed to
// evdns_add_server_port_with_listener), one or two exchanges.  The request callback executes a generated plan of
// evdns_server_request_add_{a,aaaa,ptr,cname}_reply / evdns_server_request_add_reply calls (three sections, raw data
// of any length, names that share / do not share suffixes, up to 400 records) and responds.  The message the client
// socket receives is decoded by the reference decoder (refs/dnscodec.hh) and compared with the plan
// (dns_server_common.hh: check_response).  The second exchange repeats the plan with either the client's EDNS size or
// a final padding record chosen from the size measured in the first exchange, so that totals exactly below / at /
// above 512, the EDNS size, 65535 and the 64 KiB build buffer are reached.
// Preconditions respected: names are NUL-terminated strings whose labels have 1..63 octets and whose wire form has
// <= 255 octets (one trailing dot allowed, "" and "." are the root); every request is answered exactly once from
// inside the callback; err is 0..15.
#include "dns_server_common.hh"
using namespace dnss;

namespace {
static inline bool rare(Src &s, uint32_t num, uint32_t den) { return s.below(den) >= den - num; }   // false when the input is exhausted
enum Api { API_A, API_AAAA, API_PTR_IN, API_PTR_NAME, API_CNAME, API_RAW, API_RAW_NAME };
struct Rec {
  int api = API_A, section = 0; std::string name, target; size_t salt = 0, datalen = 0; int n = 0;
  uint16_t type = 0, klass = 1; int ttl = 0; struct in_addr in; bool oversize = false;
};
static uint8_t g_pat[140000];

std::string ptr_in_name(struct in_addr in) { const uint8_t *b = (const uint8_t *)&in.s_addr; char buf[64]; snprintf(buf, sizeof buf, "%d.%d.%d.%d.in-addr.arpa", b[3], b[2], b[1], b[0]); return buf; }
const std::string &owner_string(const Rec &r, std::string &tmp) { if (r.api == API_PTR_IN) { tmp = ptr_in_name(r.in); return tmp; } return r.name; }
bool rec_is_name(const Rec &r) { return r.api == API_PTR_IN || r.api == API_PTR_NAME || r.api == API_CNAME || r.api == API_RAW_NAME; }

XRec xrec_of(const Rec &r) {
  XRec x; std::string tmp; x.owner = split_text(owner_string(r, tmp)).labels; x.ttl = (uint32_t)r.ttl; x.klass = C_IN;
  switch (r.api) {
    case API_A: x.type = T_A; x.data = g_pat + r.salt; x.datalen = r.datalen; break;
    case API_AAAA: x.type = T_AAAA; x.data = g_pat + r.salt; x.datalen = r.datalen; break;
    case API_PTR_IN: case API_PTR_NAME: x.type = T_PTR; x.is_name = true; x.target = split_text(r.target).labels; break;
    case API_CNAME: x.type = T_CNAME; x.is_name = true; x.target = split_text(r.target).labels; break;
    case API_RAW: x.type = r.type; x.klass = r.klass; x.data = g_pat + r.salt; x.datalen = r.datalen; break;
    case API_RAW_NAME: x.type = r.type; x.klass = r.klass; x.is_name = true; x.target = split_text(r.target).labels; break;
  }
  return x;
}

// ---- names
struct Names {
  Src &s; int vocab; std::vector<std::string> used;
  Names(Src &src, int v) : s(src), vocab(v) {}
  static std::string lab(int idx) {
    static const int LEN[] = {2, 3, 1, 5, 8, 13, 20, 30, 63};
    std::string b = "l" + std::to_string(idx); size_t want = (size_t)LEN[idx % 9];
    while (b.size() < want) b.push_back((char)('a' + (b.size() * 7 + (size_t)idx) % 26));
    if (idx % 11 == 5) b[0] = 'L';
    return b;
  }
  static bool fits(const std::string &n) { TextName t = split_text(n); return t.ok; }
  std::string fresh() {
    int k = 1 + s.below(4); std::string n;
    for (int i = 0; i < k; i++) { std::string l = lab((int)s.below((uint32_t)vocab)); std::string cand = n.empty() ? l : n + "." + l; if (!fits(cand)) break; n = cand; }
    return n;
  }
  std::string reuse() { if (used.empty()) return fresh(); return used[s.below((uint32_t)used.size())]; }
  std::string maxlen() {        // wire length 253..255
    int target = 251 + (int)s.below(3);     // presentation length 251..253 -> wire 253..255
    std::string n; int idx = (int)s.below((uint32_t)vocab);
    while ((int)n.size() < target) { int room = target - (int)n.size(); int l = room > 64 ? 63 : room; if (room - l == 1) l--; if (l <= 0) break;
      std::string x = lab(idx * 9 + 8); x.resize((size_t)l, 'z'); n += x; if ((int)n.size() < target) n.push_back('.'); idx++; }
    return n;
  }
  void note(const std::string &n) { if (used.size() < 64) used.push_back(n); }
};

struct Ctx {
  std::vector<Rec> *plan = nullptr; long pad_len = -1; int pad_section = EVDNS_ADDITIONAL_SECTION; int rcode = 0; bool aa = false; bool had_opt = false;
  std::vector<Question> sent_q; Expect *ex = nullptr; int calls = 0; int respond_ret = -99;
};

void server_cb(struct evdns_server_request *req, void *arg) {
  Ctx *c = (Ctx *)arg; c->calls++;
  Expect &e = *c->ex;
  CHECK(req->nquestions == (int)c->sent_q.size(), "C35/callback-questions", "callback sees %d question(s), %zu were sent", req->nquestions, c->sent_q.size());
  for (int i = 0; i < req->nquestions; i++) {
    const struct evdns_server_question *q = req->questions[i];
    CHECK(q->name == join(c->sent_q[i].name) && q->type == c->sent_q[i].type && q->dns_question_class == c->sent_q[i].klass, "C35/callback-questions",
          "callback question %d is \"%s\" %d/%d, sent \"%s\" %u/%u", i, esc(q->name, 80).c_str(), q->type, q->dns_question_class, esc(join(c->sent_q[i].name), 80).c_str(), c->sent_q[i].type, c->sent_q[i].klass);
  }
  if (c->had_opt) e.sec[2].push_back(opt_xrec());      // the server answers an OPT with its own OPT, ahead of what the callback adds
  for (auto &r : *c->plan) {
    int ret = -2;
    switch (r.api) {
      case API_A: ret = evdns_server_request_add_a_reply(req, r.name.c_str(), r.n, g_pat + r.salt, r.ttl); break;
      case API_AAAA: ret = evdns_server_request_add_aaaa_reply(req, r.name.c_str(), r.n, g_pat + r.salt, r.ttl); break;
      case API_PTR_IN: { struct in_addr in = r.in; ret = evdns_server_request_add_ptr_reply(req, &in, nullptr, r.target.c_str(), r.ttl); break; }
      case API_PTR_NAME: ret = evdns_server_request_add_ptr_reply(req, nullptr, r.name.c_str(), r.target.c_str(), r.ttl); break;
      case API_CNAME: ret = evdns_server_request_add_cname_reply(req, r.name.c_str(), r.target.c_str(), r.ttl); break;
      case API_RAW: ret = evdns_server_request_add_reply(req, r.section, r.name.c_str(), r.type, r.klass, r.ttl, (int)r.datalen, 0, (r.datalen == 0 && (r.salt & 1)) ? nullptr : (const char *)(g_pat + r.salt)); break;
      case API_RAW_NAME: ret = evdns_server_request_add_reply(req, r.section, r.name.c_str(), r.type, r.klass, r.ttl, -1, 1, r.target.c_str()); break;
    }
    if (r.oversize) {
      CHECK(ret != 0, "C35/oversize-rdata-accepted", "a record with %zu bytes of data (more than RDLENGTH can express) was accepted (api %d)", r.datalen, r.api);
      continue;
    }
    // code-derived corner: empty data passed as a non-NULL pointer is refused (mm_malloc(0)); the refusal is reported, nothing is added
    if (ret == -1 && r.api == API_RAW && r.datalen == 0 && !(r.salt & 1)) { verif_class("empty_data_refused"); continue; }
    CHECK(ret == 0, "C35/add-failed", "add call (api %d, name \"%s\", datalen %zu) returned %d", r.api, esc(r.name, 80).c_str(), r.datalen, ret);
    e.sec[r.section].push_back(xrec_of(r));
  }
  if (c->pad_len >= 0) {
    int ret = evdns_server_request_add_reply(req, c->pad_section, ".", 16, 1, 7, (int)c->pad_len, 0, c->pad_len ? (const char *)g_pat : nullptr);
    CHECK(ret == 0, "C35/add-failed", "padding record of %ld bytes refused: %d", c->pad_len, ret);
    XRec x; x.type = 16; x.klass = 1; x.ttl = 7; x.data = g_pat; x.datalen = (size_t)c->pad_len; e.sec[c->pad_section].push_back(x);
  }
  if (c->aa) evdns_server_request_set_flags(req, EVDNS_FLAGS_AA);
  c->respond_ret = evdns_server_request_respond(req, c->rcode);
  if (c->respond_ret < 0) evdns_server_request_drop(req);     // a response that could not be built leaves the request to the caller
}

struct Outcome { bool got = false; RespInfo ri; size_t len = 0; };

Outcome exchange(World &w, Src &s, Ctx &c, QuerySpec &qs, long full_size, const char *tag) {
  Outcome o; Expect e; c.ex = &e; c.calls = 0; c.respond_ret = -99; c.sent_q = qs.q; c.had_opt = qs.opt;
  e.id = qs.id; e.rcode = c.rcode; e.q = qs.q; e.tcp = w.tcp; e.full_size = full_size;
  e.limit = w.tcp ? 65535 : (qs.opt ? (qs.opt_size > 512 ? qs.opt_size : 512) : 512);
  std::vector<uint8_t> qb = build_query(qs);
  TR("%s: %s query id=%u flags=%04x qd=%zu opt=%d/%u pad=%ld rcode=%d [%zu] %s", tag, w.tcp ? "TCP" : "UDP", qs.id, qs.flags, qs.q.size(), qs.opt, qs.opt_size, c.pad_len, c.rcode, qb.size(), hexs(qb.data(), qb.size(), 60).c_str());
  std::vector<uint8_t> resp;
  if (!w.tcp) {
    CHECK(w.udp_send(qb.data(), qb.size()), "harness/setup", "sendto: %s", strerror(errno));
    w.turn();
    w.settle([&] { return c.calls >= 1; });
    o.got = w.udp_recv(&resp);
  } else {
    std::vector<uint8_t> st; st.push_back((uint8_t)(qb.size() >> 8)); st.push_back((uint8_t)qb.size()); st.insert(st.end(), qb.begin(), qb.end());
    CHECK(w.tcp_send(st.data(), st.size()), "harness/setup", "tcp send failed");
    w.tcp_pump();
    if (c.calls == 0) { w.settle([&] { return c.calls >= 1; }); w.tcp_pump(); }
    o.got = w.tcp_pop(&resp);
  }
  CHECK(c.calls == 1, "C35/callback-count", "the request callback ran %d time(s) for one well-formed query", c.calls);
  e.upper_bound = uncompressed_size(e);
  TR("  callback added %zu+%zu+%zu record(s), respond()=%d, uncompressed size %zu, limit %zu, full=%ld", e.sec[0].size(), e.sec[1].size(), e.sec[2].size(), c.respond_ret, e.upper_bound, e.limit, full_size);
  (void)s;
  if (!o.got) {
    // a datagram of more than 65507 bytes cannot be sent at all; anything else must arrive
    bool unsendable = !w.tcp && e.limit > 65507 && (full_size >= 0 ? full_size > 65507 : e.upper_bound > 65507);
    CHECK(unsendable, "C35/no-response", "no response arrived (respond() returned %d, uncompressed size %zu, limit %zu, %s, %zu byte(s) of an incomplete TCP message, eof=%d)", c.respond_ret, e.upper_bound, e.limit, w.tcp ? "TCP" : "UDP", w.tcp_in.size(), (int)w.tcp_eof);
    verif_class("udp_unsendable"); return o;
  }
  CHECK(c.respond_ret == 0, "C35/respond-result", "evdns_server_request_respond returned %d although a response was sent", c.respond_ret);
  TR("  response [%zu] %s", resp.size(), hexs(resp.data(), resp.size(), 80).c_str());
  check_response(resp, e, "C35", &o.ri);
  o.len = resp.size();
  std::vector<uint8_t> extra;
  CHECK(!(w.tcp ? w.tcp_pop(&extra) : w.udp_recv(&extra)), "C35/extra-response", "a second message arrived for one query");
  return o;
}
}  // namespace

extern "C" int LLVMFuzzerInitialize(int *, char ***) {
  common_init();
  for (size_t i = 0; i < sizeof g_pat; i++) g_pat[i] = (uint8_t)(0x21 + (i * 31 + i / 251) % 0x5d);
  return 0;
}

extern "C" int LLVMFuzzerTestOneInput(const uint8_t *data, size_t size) {
  sim_reset();
  verif_case_begin("C35");
  Src s(data, size);

  bool tcp = s.below(3) == 1;
  static const int VOC[] = {3, 2, 5, 12, 40, 200};
  Names names(s, VOC[s.below(6)]);
  // ---- questions
  QuerySpec qs; qs.id = (uint16_t)(1 + s.below(65535)); qs.flags = (s.flag() ? F_RD : 0) | (rare(s, 1, 4) ? 0x0010 : 0);
  int nq = 1 + (rare(s, 1, 3) ? (int)s.below(4) : 0);
  static const uint16_t QT[] = {T_A, T_AAAA, T_PTR, 255, T_CNAME, 16, 65535};
  for (int i = 0; i < nq; i++) {
    Question q; std::string n;
    int m = s.below(8);
    if (i > 0 && m < 3) n = names.lab((int)s.below((uint32_t)names.vocab)) + "." + join(qs.q[0].name);      // shares the first question's name as suffix
    else if (m == 6) n = names.maxlen();
    else if (m == 7 && rare(s, 1, 2)) n = "";                                                             // the root
    else n = names.fresh();
    if (!Names::fits(n)) n = names.fresh();
    q.name = split_text(n).labels; q.type = QT[s.below(7)]; q.klass = rare(s, 1, 8) ? (uint16_t)s.below(65536) : C_IN;
    qs.q.push_back(q); names.note(join(q.name));
  }
  qs.compress_q = s.flag();
  // ---- the plan
  std::vector<Rec> plan; size_t ub = 12; for (auto &q : qs.q) ub += name_ub(q.name) + 4;
  int ngroups = s.below(7); bool stop = false; bool used_oversize = false;
  for (int g = 0; g < ngroups && !stop; g++) {
    static const int CNT[] = {1, 1, 1, 1, 2, 2, 3, 3, 5, 5, 10, 10, 30, 64, 130, 400};
    int count = CNT[s.below(16)];
    int api = s.below(7); int section = (api == API_RAW || api == API_RAW_NAME) ? (int)s.below(3) : 0;
    int nmode = s.below(8), tmode = s.below(5); bool dot = rare(s, 1, 8);
    if (nmode == 5 && count > 40) count = 40;      // long shared-suffix chains are quadratic in the label table; keep them short
    static const int DL[] = {0, 1, 4, 16, 100, 255, 256, 1000, 4000, 16000, 40000, 65535};
    size_t dl = (size_t)DL[s.below(12)]; if (dl >= 16 && dl < 65535) dl += s.below(16);
    static const int NADDR[] = {1, 1, 2, 3, 16, 100, 1000, 16383};
    int naddr = NADDR[s.below(8)];
    uint16_t rtype = s.flag() ? (uint16_t)QT[s.below(7)] : (uint16_t)s.below(65536), rklass = rare(s, 1, 4) ? (uint16_t)s.below(65536) : C_IN;
    int ttl = (int)(uint32_t)s.boundary(32);
    bool oversize = false;
    if (rare(s, 1, 32) && (api == API_RAW || api == API_A || api == API_AAAA)) {
      oversize = true; count = 1;
    }
    std::string base = s.flag() ? names.fresh() : names.reuse();
    std::string tbase = s.flag() ? names.fresh() : names.reuse();
    std::string deep;
    for (int i = 0; i < count; i++) {
      if ((int)plan.size() >= 400 || ub > 140000) { stop = true; break; }
      Rec r; r.api = api; r.section = section; r.ttl = (int)((uint32_t)ttl + (uint32_t)(i & 3)); r.type = rtype; r.klass = rklass; r.salt = (size_t)((g * 131 + i * 17) % 4096);
      switch (nmode) {
        case 0: r.name = base; break;
        case 1: r.name = "h" + std::to_string(i) + "." + base; break;
        case 2: { std::string u = "u" + std::to_string(g) + "x" + std::to_string(i); r.name = u + "a." + u + "b." + u + "c"; break; }
        case 3: r.name = i < 6 ? names.fresh() : base; break;
        case 4: r.name = i < 6 ? names.reuse() : base; break;
        case 5: { std::string d = "d" + std::to_string(i) + (deep.empty() ? "" : "." + deep); if (Names::fits(d)) deep = d; r.name = deep; break; }
        case 6: r.name = i == 0 ? names.maxlen() : base; if (i == 0) base = r.name; break;
        default: r.name = (i == 0 && rare(s, 1, 4)) ? (s.flag() ? "" : ".") : join(qs.q[0].name); break;
      }
      if (!Names::fits(r.name)) r.name = base;
      if (dot && !r.name.empty() && r.name != "." && r.name.size() < 250) r.name += ".";
      if (!Names::fits(r.name)) r.name = join(qs.q[0].name);
      switch (tmode) {
        case 0: r.target = tbase; break;
        case 1: r.target = "t" + std::to_string(i) + "." + tbase; break;
        case 2: r.target = r.name; break;                                                   // the owner itself
        case 3: { size_t p = r.name.find('.'); r.target = (p == std::string::npos || p + 1 >= r.name.size()) ? tbase : r.name.substr(p + 1); break; }   // the owner's parent
        default: r.target = join(qs.q[s.below((uint32_t)qs.q.size())].name); break;
      }
      if (!Names::fits(r.target)) r.target = tbase;
      if (!Names::fits(r.target)) r.target = join(qs.q[0].name);
      switch (api) {
        case API_A: r.n = oversize ? 16384 + (int)s.below(3) : naddr; r.datalen = (size_t)r.n * 4; break;
        case API_AAAA: r.n = oversize ? 4096 + (int)s.below(3) : (naddr > 4095 ? 4095 : naddr); r.datalen = (size_t)r.n * 16; break;
        case API_PTR_IN: { uint32_t a = 0x0a000000u + (uint32_t)(g * 1000 + i); r.in.s_addr = htonl(a); break; }
        case API_RAW: r.datalen = oversize ? 65536 + s.below(5000) : dl; break;
        default: break;
      }
      r.oversize = oversize; if (oversize) used_oversize = true;
      if (r.salt + r.datalen > sizeof g_pat) r.salt = 0;
      if (!oversize) { XRec x = xrec_of(r); ub += xrec_size(x); }
      std::string tmp; names.note(owner_string(r, tmp));
      plan.push_back(r);
    }
  }
  static const int RC[] = {0, 0, 0, 3, 2, 5, 15};
  Ctx c; c.plan = &plan; c.rcode = RC[s.below(7)]; c.aa = rare(s, 1, 4);
  // ---- exchange 1
  static const int OPTS[] = {-1, -1, 0, 100, 512, 513, 600, 1232, 4096, 16384, 40000, 65535};
  int osel = OPTS[s.below(12)]; if (osel > 0 && rare(s, 1, 4)) osel = (int)s.below(65536);
  qs.opt = osel >= 0; qs.opt_size = (uint16_t)(osel < 0 ? 0 : osel);
  int mode2 = s.below(4);
  // when the second exchange is going to aim at a size, measure the complete message first: on UDP with a large EDNS size
  if (mode2 && !tcp && rare(s, 3, 4)) { qs.opt = true; qs.opt_size = 65535; }

  World w; w.open(tcp, server_cb, &c);
  if (tcp) w.tcp_connect();
  Outcome o1 = exchange(w, s, c, qs, -1, "exchange 1");
  bool truncated = o1.got && o1.ri.tc;
  long S = (o1.got && o1.ri.complete) ? (long)o1.len : -1;
  Outcome o2; bool aimed = false; long target = -1;
  if (mode2 && S >= 0 && !used_oversize) {
    QuerySpec q2 = qs; q2.id = (uint16_t)(qs.id ^ 0x5a5a); if (q2.id == 0) q2.id = 1;
    // OPT presence stays as in exchange 1 (the server's own OPT takes 11 or 12 bytes depending on the compression table), only its size changes
    if (mode2 == 1 && !tcp && qs.opt) {
      // same plan, the client's EDNS size set just around the size of the complete message
      long d = (long)s.below(4) - 2;     // -2..+1
      long sz = S + d; if (sz < 0) sz = 0; if (sz > 65535) sz = 65535; q2.opt_size = (uint16_t)sz;
      c.pad_len = -1; target = S;
      o2 = exchange(w, s, c, q2, S, "exchange 2 (EDNS size around the message size)"); aimed = true;
      if (o2.got && o2.ri.tc) truncated = true;
    } else {
      // same plan plus a final padding record sized so that the complete message has exactly `target` bytes
      if (q2.opt) { int osel2 = OPTS[2 + s.below(10)]; q2.opt_size = (uint16_t)osel2; }
      long S2 = S;
      long limit2 = tcp ? 65535 : (q2.opt ? (q2.opt_size > 512 ? q2.opt_size : 512) : 512);
      static const long DELTA[] = {0, -1, 1, -2, 2, 50};
      int which = s.below(4);
      long T = which == 3 ? 65536 + DELTA[s.below(6)] : limit2 + DELTA[s.below(6)];
      long L = T - S2 - 11;
      if (L >= 0 && L <= 65535) {
        c.pad_len = L; target = T;
        // The padding record closes the additional section (then the complete size is exactly T: it is owned by ".", never compressed, and
        // nothing follows it), or - so that names are written after it, up to the end of the 64 KiB build buffer - the authority section.
        // In the latter case what follows is shifted: names beyond offset 0x3fff cannot be pointer targets and the root may or may not be
        // written as a pointer, so the size of the complete message is then only known approximately and is not used by the oracle.
        c.pad_section = s.flag() ? EVDNS_AUTHORITY_SECTION : EVDNS_ADDITIONAL_SECTION;
        o2 = exchange(w, s, c, q2, c.pad_section == EVDNS_ADDITIONAL_SECTION ? T : -1, "exchange 2 (padding record)"); aimed = true;
        if (o2.got && o2.ri.tc) truncated = true;
      }
    }
  }
  w.finish("C35/leak");

  bool past16k = o1.ri.max_ptr_src >= 16384 || o2.ri.max_ptr_src >= 16384;
  int compressed = o1.ri.compressed_names + o2.ri.compressed_names;
  if (tcp) verif_class("tcp"); else verif_class("udp");
  if (qs.opt) verif_class("edns");
  if (truncated) verif_class("truncated");
  if (aimed) { verif_class("aimed_second_exchange"); if (target == 512 || target == 65535 || target == 65536) verif_class("aimed_exactly_at_512_or_64k"); }
  if (compressed) verif_class("compressed_names");
  if (past16k) verif_class("pointer_written_past_16384");
  if (plan.size() >= 100) verif_class("records_ge_100");
  if (o1.got && o1.len > 16384) verif_class("response_gt_16k");
  if (nq > 1) verif_class("multi_question");
  int nontrivial = o1.got && (o1.ri.records_present >= 1) && (compressed || truncated || aimed || tcp);
  verif_case_end(nontrivial, s.h);
  return 0;
}
